#!/bin/bash
# seedimport.sh <wt dir> <seed name> <PROP>: file a delivered seeded change under /verif/seeded/<name>/ and run the check on it
wt=$1; name=$2; prop=$3
d=/verif/seeded/$name; mkdir -p $d
cp $wt/SEED/patch.diff $d/patch.diff; cp $wt/SEED/demo_test.go $d/demo_test.go; cp $wt/SEED/notes.md $d/agent_notes.md
/verif/seedcheck.sh $d/patch.diff $prop
