#!/bin/bash
# mkwt.sh <name>: scratch worktree of /repo HEAD under /tmp without the verifier's contract files
set -e
d=/tmp/wt_$1
git -C /repo worktree add --detach $d HEAD >/dev/null 2>&1
find $d -name zz_contracts_verif.go -delete
echo $d
