#!/bin/bash
# mkwt.sh <name>: scratch worktree of /repo HEAD under /tmp whose history tip has no verifier contract files
set -e
d=/tmp/wt_$1
git -C /repo worktree add --detach $d HEAD >/dev/null 2>&1
cd $d
git rm -q $(git ls-files | grep -E "zz_contracts.*_verif.go") >/dev/null
git -c user.name=builder -c user.email=b@example.invalid commit -qm "scratch base" >/dev/null
# squash history so earlier commits (with contract files) are not reachable from HEAD
t=$(git commit-tree HEAD^{tree} -m "scratch base"); git reset -q --hard $t
echo $d
