#!/usr/bin/env python3
"""Must-fail / must-pass self-test corpus for kvc.
Each entry: property, file (relative to /repo), old text, new text, expect ('fail' or 'pass'), optional obligation substring.
The edit is applied to /repo's working tree, the property's quick check is run, and the edit is reverted with git checkout.
Never run concurrently with other checks (it edits /repo in place and restores it)."""
import json, subprocess, sys, os, glob
REPO='/repo'
def sh(cmd, **kw): return subprocess.run(cmd, shell=True, capture_output=True, text=True, **kw)
def main():
    global REPO
    only = sys.argv[1:]
    jsonout=None; budget=None
    if '--json' in only:
        i=only.index('--json'); jsonout=only[i+1]; del only[i:i+2]
    if '--budget' in only:
        i=only.index('--budget'); budget=float(only[i+1]); del only[i:i+2]
    import time; t0=time.time(); results=[]; skipped=0
    env=''
    todo=None
    if '--todo' in only:
        i=only.index('--todo'); todo={tuple(x) for x in json.load(open(only[i+1]))}; del only[i:i+2]
    fast='--fast' in only
    if fast: only.remove('--fast')
    if '--scratch' in only:
        # work on a throw-away copy so that /repo and /verif/evidence stay untouched (safe to run beside other checks)
        only.remove('--scratch')
        REPO='/tmp/kvc_selftest_repo_%d'%os.getpid()
        out='/tmp/kvc_selftest_out_%d'%os.getpid()
        sh('rsync -a --exclude .git /repo/ %s/ && mkdir -p %s && cp /verif/known_findings.json %s/'%(REPO,out,out))
        env='KVC_REPO=%s KVC_VERIF=%s '%(REPO,out)
        import atexit; atexit.register(lambda: sh('rm -rf %s %s'%(REPO,out)))
    entries=[]
    for f in sorted(glob.glob('/verif/selftest/*.json')):
        entries += json.load(open(f))
    bad=0; n=0
    if not env and sh('git -C /repo status --porcelain --untracked-files=no').stdout.strip():
        print('refusing: /repo has uncommitted changes to tracked files'); return 2
    for e in entries:
        if only and not any(o in e['name'] or o==e['prop'] for o in only): continue
        if todo is not None and (e['prop'],e['name']) not in todo: continue
        if budget is not None and time.time()-t0 > budget:
            skipped+=1; continue
        n+=1
        path=os.path.join(REPO,e['file'])
        src=open(path).read()
        if e['old'] not in src:
            print('STALE  %-8s %s: text to replace not found'%(e['prop'],e['name'])); bad+=1; continue
        try:
            open(path,'w').write(src.replace(e['old'],e['new'],1))
            b=sh('cd %s && go build ./%s/'%(REPO,os.path.dirname(e['file'])))
            if b.returncode!=0:
                print('NOBUILD %-8s %s: %s'%(e['prop'],e['name'],b.stderr[:200])); bad+=1; continue
            scope=''
            if fast and e['expect']=='fail' and '#' in e.get('obligation',''):
                # the named obligation belongs to one function: generating only that function's VCs and solving only
                # the named obligation decides the entry (the full check generates a superset of the same obligations)
                import re
                fn=e['obligation'].split('#')[0]
                fn=re.split(r'[.)]',fn)[-1]
                fn=re.sub(r'(_\d+)+$','',fn)
                if len(fn)>=3: scope=" --only '%s' --oblig '%s'"%(fn,e['obligation'])
            r=sh('cd /verif && %s./check %s --tier quick%s'%(env,e['prop'],scope))
            viol=[l for l in r.stdout.splitlines() if l.startswith('VIOLATION')]
            failed = r.returncode!=0
            ok = (failed if e['expect']=='fail' else not failed)
            if ok and e['expect']=='fail' and e.get('obligation'):
                import re as _re
                san=_re.sub(r'[^A-Za-z0-9._#-]','_',e['obligation'])   # VIOLATION lines carry the file-name form of the obligation
                ok = any(e['obligation'] in v or san in v for v in viol)
            print('%s %-5s %-40s expect=%s got=%s %s'%('ok  ' if ok else 'BAD ', e['prop'], e['name'], e['expect'], 'fail' if failed else 'pass', (viol[0].split('replay=')[1][:110] if viol else '')))
            if not ok: bad+=1
            results.append({'name':e['name'],'expect':e['expect'],'got':'fail' if failed else 'pass','as_expected':bool(ok),'caught_by':(viol[0].split('replay=')[1].split('/')[-1][:120] if viol else '')})
        finally:
            open(path,'w').write(src)
    print('%d entries, %d bad'%(n,bad))
    if jsonout:
        json.dump({'entries_run':n,'skipped_for_time':skipped,'not_as_expected':bad,'results':results,'wall_s':round(time.time()-t0,1)},open(jsonout,'w'),indent=1)
    return 1 if bad else 0
sys.exit(main())
