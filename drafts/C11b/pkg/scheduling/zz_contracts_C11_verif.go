//go:build verif

// Contracts for the deductive verifier in /verif (kvc). Comment-only: this file adds no code.
// C11: per-pod bookkeeping of volume usage (used by StateNode.updateForPod / cleanupForPod).
package scheduling

// ---- well-formedness of a Volumes value (driver -> set of PVC ids) ----
// every stored set exists, and no set object is stored under two drivers (otherwise an insert for one driver
// would silently change the other driver's set)
//@ pure volsOK(u Volumes) bool = forall d string {d in u} {u[d]} :: (d in u) ==> u[d] != nil
//@ pure volsInj(u Volumes) bool = forall d string, e string {u[d], u[e]} :: ((d in u) && (e in u) && d != e) ==> u[d] != u[e]
// no set object of u is a set object of w
//@ pure volsApart(u Volumes, w Volumes) bool = forall d string, e string {u[d], w[e]} :: ((d in u) && (e in w)) ==> u[d] != w[e]

// Insert adds, per driver, the ids of `volumes` to the receiver's set of that driver (creating the set when the
// driver is new). The receiver map and the sets stored in it are written; `volumes` and its sets are only read.
//@ func (Volumes).Insert
//@   prop C11
//@   requires [recv] u != nil
//@   requires [distinct] u != volumes
//@   requires [setsU] volsOK(u)
//@   requires [injU] volsInj(u)
//@   requires [apart] volsApart(u, volumes)
//@   modifies u[:], setsof(u)
//@   ensures [keys] forall d string {d in u} :: (d in u) <==> (old(d in u) || (d in volumes))
//@   ensures [kept] forall d string {u[d]} :: old(d in u) ==> u[d] == old(u[d])
//@   ensures [new] forall d string {u[d]} :: ((d in u) && !old(d in u)) ==> fresh(u[d])
//@   ensures [contents] forall d string, x string {x in u[d]} :: ((d in u) && (x in u[d])) <==> ((old(d in u) && old(x in u[d])) || ((d in volumes) && (x in volumes[d])))
//@   ensures [setsU] volsOK(u)
//@   ensures [injU] volsInj(u)
//@   ensures [argKeys] forall d string {d in volumes} {volumes[d]} :: (d in volumes) == old(d in volumes) && volumes[d] == old(volumes[d])
//@   ensures [argSets] forall d string, x string {x in volumes[d]} :: (d in volumes) ==> ((x in volumes[d]) == old(x in volumes[d]))
//@   loop 1 invariant [keys] forall d string {d in u} :: (d in u) <==> (old(d in u) || seen(d))
//@   loop 1 invariant [kept] forall d string {u[d]} :: old(d in u) ==> u[d] == old(u[d])
//@   loop 1 invariant [new] forall d string {u[d]} :: ((d in u) && !old(d in u)) ==> fresh(u[d])
//@   loop 1 invariant [setsU] volsOK(u)
//@   loop 1 invariant [injU] volsInj(u)
//@   loop 1 invariant [contents] forall d string, x string {x in u[d]} :: ((d in u) && (x in u[d])) <==> ((old(d in u) && old(x in u[d])) || (seen(d) && (x in volumes[d])))

// Union builds a new map with new sets: neither argument (nor any set in them) is written, and the result holds, per
// driver, exactly the ids of the receiver's and of the argument's set of that driver.
//@ func (Volumes).Union
//@   prop C11
//@   modifies nothing
//@   ensures [fresh] fresh(result) && result != nil
//@   ensures [freshSets] forall d string {result[d]} :: (d in result) ==> fresh(result[d])
//@   ensures [setsOK] volsOK(result)
//@   ensures [setsInj] volsInj(result)
//@   ensures [keys] forall d string {d in result} :: (d in result) <==> ((d in u) || (d in vol))
//@   ensures [contents] forall d string, x string {x in result[d]} :: ((d in result) && (x in result[d])) <==> (((d in u) && (x in u[d])) || ((d in vol) && (x in vol[d])))
//@   loop 1 invariant [fresh] fresh(cp) && cp != nil
//@   loop 1 invariant [freshSets] forall d string {cp[d]} :: (d in cp) ==> fresh(cp[d])
//@   loop 1 invariant [setsOK] volsOK(cp)
//@   loop 1 invariant [setsInj] volsInj(cp)
//@   loop 1 invariant [keys] forall d string {d in cp} :: (d in cp) <==> seen(d)
//@   loop 1 invariant [contents] forall d string, x string {x in cp[d]} :: ((d in cp) && (x in cp[d])) <==> (seen(d) && (x in u[d]))
//@   loop 2 invariant [fresh] fresh(cp) && cp != nil
//@   loop 2 invariant [freshSets] forall d string {cp[d]} :: (d in cp) ==> fresh(cp[d])
//@   loop 2 invariant [setsOK] volsOK(cp)
//@   loop 2 invariant [setsInj] volsInj(cp)
//@   loop 2 invariant [keys] forall d string {d in cp} :: (d in cp) <==> ((d in u) || seen(d))
//@   loop 2 invariant [contents] forall d string, x string {x in cp[d]} :: ((d in cp) && (x in cp[d])) <==> (((d in u) && (x in u[d])) || (seen(d) && (x in vol[d])))

// DeletePod forgets the pod and rebuilds the per-driver union from the REMAINING pods: an id is counted for a driver
// afterwards exactly if some remaining pod uses it with that driver (so a PVC shared by two pods stays while one of
// them remains). The rebuilt map and its sets are new objects: they share nothing with the pods' own sets.
//@ func (*VolumeUsage).DeletePod
//@   prop C11
//@   modifies v.podVolumes[:], v.volumes
//@   ensures [gone] !(key in v.podVolumes)
//@   ensures [others] forall k types.NamespacedName {k in v.podVolumes} :: k != key ==> ((k in v.podVolumes) == old(k in v.podVolumes) && v.podVolumes[k] == old(v.podVolumes[k]))
//@   ensures [freshMap] fresh(v.volumes) && v.volumes != nil
//@   ensures [freshSets] forall d string {v.volumes[d]} :: (d in v.volumes) ==> fresh(v.volumes[d])
//@   ensures [setsOK] volsOK(v.volumes)
//@   ensures [setsInj] volsInj(v.volumes)
//@   ensures [rebuilt] forall d string, x string {x in v.volumes[d]} :: ((d in v.volumes) && (x in v.volumes[d])) <==> (exists k types.NamespacedName {k in v.podVolumes} :: (k in v.podVolumes) && (d in v.podVolumes[k]) && (x in v.podVolumes[k][d]))
//@   ensures [sync] vuSync(v)
//@   loop 1 invariant [freshMap] fresh(v.volumes) && v.volumes != nil
//@   loop 1 invariant [freshSets] forall d string {v.volumes[d]} :: (d in v.volumes) ==> fresh(v.volumes[d])
//@   loop 1 invariant [setsOK] volsOK(v.volumes)
//@   loop 1 invariant [setsInj] volsInj(v.volumes)
//@   loop 1 invariant [rebuilt] forall d string, x string {x in v.volumes[d]} :: ((d in v.volumes) && (x in v.volumes[d])) <==> (exists k types.NamespacedName {seen(k)} :: seen(k) && (d in v.podVolumes[k]) && (x in v.podVolumes[k][d]))

// ---- the bookkeeping invariant C11 rests on: the per-driver union is exactly what the tracked pods use ----
//@ pure vuSync(v *VolumeUsage) bool = forall d string, x string {x in v.volumes[d]} :: ((d in v.volumes) && (x in v.volumes[d])) <==> (exists k types.NamespacedName {k in v.podVolumes} :: (k in v.podVolumes) && (d in v.podVolumes[k]) && (x in v.podVolumes[k][d]))
//@ pure isKeyOf(k types.NamespacedName, p *corev1.Pod) bool = k.Name == p.Name && k.Namespace == p.Namespace

// Add records `volumes` (the same object) under the pod's key and replaces the per-driver union by a new map with new
// sets holding the old contents plus `volumes`. Add only ever unions: for a key that is not tracked yet ([sync]) the
// union stays exactly what the tracked pods use; for a key that IS tracked the ids of its previous entry are not taken
// out (see the report: re-add with fewer volumes).
//@ func (*VolumeUsage).Add
//@   prop C11
//@   modifies v.podVolumes[:], v.volumes
//@   ensures [pod] forall k types.NamespacedName {k in v.podVolumes} :: isKeyOf(k, pod) ==> ((k in v.podVolumes) && v.podVolumes[k] == volumes)
//@   ensures [others] forall k types.NamespacedName {k in v.podVolumes} :: !isKeyOf(k, pod) ==> ((k in v.podVolumes) == old(k in v.podVolumes) && v.podVolumes[k] == old(v.podVolumes[k]))
//@   ensures [freshMap] fresh(v.volumes) && v.volumes != nil
//@   ensures [freshSets] forall d string {v.volumes[d]} :: (d in v.volumes) ==> fresh(v.volumes[d])
//@   ensures [setsOK] volsOK(v.volumes)
//@   ensures [setsInj] volsInj(v.volumes)
//@   ensures [keys] forall d string {d in v.volumes} :: (d in v.volumes) <==> (old(d in v.volumes) || (d in volumes))
//@   ensures [contents] forall d string, x string {x in v.volumes[d]} :: ((d in v.volumes) && (x in v.volumes[d])) <==> (old((d in v.volumes) && (x in v.volumes[d])) || ((d in volumes) && (x in volumes[d])))
//@   ensures [sync] (old(vuSync(v)) && (forall k types.NamespacedName {k in v.podVolumes} :: isKeyOf(k, pod) ==> !old(k in v.podVolumes))) ==> vuSync(v)

// ExceedsLimits: an error exactly if, for some driver that has a limit and is in use (by the node or by `vols`), the
// number of distinct ids in the node's set united with `vols`' set exceeds the limit. The union is named through ANY
// Volumes object un holding exactly that union (isUnionOf): all of them have the same per-driver sizes.
//@ pure isUnionOf(un Volumes, u Volumes, w Volumes) bool = (forall d string {d in un} :: (d in un) <==> ((d in u) || (d in w))) && (forall d string, x string {x in un[d]} :: ((d in un) && (x in un[d])) <==> (((d in u) && (x in u[d])) || ((d in w) && (x in w[d]))))
//@ pure overLimit(v *VolumeUsage, un Volumes) bool = exists d string {d in v.limits} :: (d in v.limits) && (d in un) && len(un[d]) > v.limits[d]
//@ func (*VolumeUsage).ExceedsLimits
//@   prop C11
//@   modifies nothing
//@   let un = @(Volumes).Union
//@   ensures [verdictHere] (result != nil) <==> overLimit(v, un)
//@   ensures [verdict] forall w Volumes :: (w != nil && volsOK(w) && isUnionOf(w, v.volumes, vols)) ==> ((result != nil) <==> overLimit(v, w))
//@   loop 1 invariant [sofar] forall d string {seen(d)} :: seen(d) ==> !((d in v.limits) && len(un[d]) > v.limits[d])

// GetVolumes only reads the pod and API objects (PVC, PV, StorageClass) through the client. TRUSTED: the Get
// calls fill objects allocated inside, but a havocked client call makes every heap component reachable by type
// from its arguments arbitrary, so "writes nothing that existed before" cannot be derived by the engine.
//@ func GetVolumes
//@   prop C11
//@   trusted
//@   modifies nothing

//@ func GetHostPorts
//@   prop C11
//@   modifies nothing
//@   loop 1 invariant cap(usage) == 0 || fresh(usage)
//@   loop 2 invariant cap(usage) == 0 || fresh(usage)
