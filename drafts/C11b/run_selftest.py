#!/usr/bin/env python3
"""Runs /verif/drafts/C11/selftest.json through the contract overlay (never touches /repo): each mutant is a
copy of the source file placed in a temporary overlay next to the contract files. Entries may carry an extra
field "only" (substring handed to ./check --only) to keep a run short. Usage: run_selftest.py [name-substr...]"""
import json, os, shutil, subprocess, sys
from concurrent.futures import ThreadPoolExecutor
D='/verif/drafts/C11b'
entries=json.load(open(D+'/selftest.json'))
only=sys.argv[1:]
def run(ie):
    i,e=ie
    ov='/tmp/ov_C11b_mut%d'%i; vd='/tmp/ag_C11b_mut%d'%i
    shutil.rmtree(ov, ignore_errors=True)
    shutil.copytree(D, ov, ignore=shutil.ignore_patterns('*.json','*.py'))
    src=open('/repo/'+e['file']).read()
    if e['old'] not in src:
        return (e['name'], False, 'STALE')
    dst=os.path.join(ov, e['file']); os.makedirs(os.path.dirname(dst), exist_ok=True)
    open(dst,'w').write(src.replace(e['old'], e['new'], 1))
    os.makedirs(vd, exist_ok=True)
    env=dict(os.environ, KVC_CONTRACT_OVERLAY=ov, KVC_VERIF=vd)
    cmd='cd /verif && ./check %s'%e['prop'] + (' --only "%s"'%e['only'] if e.get('only') else '')
    r=subprocess.run(cmd, shell=True, capture_output=True, text=True, env=env)
    viol=[l for l in r.stdout.splitlines() if l.startswith('VIOLATION')]
    failed=r.returncode!=0
    ok = failed if e['expect']=='fail' else not failed
    san=lambda s: s.replace('(','_').replace(')','_').replace('*','_').replace('$','_')
    if ok and e['expect']=='fail' and e.get('obligation'):
        ok = any(san(e['obligation']) in san(v) for v in viol)
    msg='expect=%s got=%s %s'%(e['expect'], 'fail' if failed else 'pass', ' | '.join(v.split('replay=')[1].split(' ')[0].split('/')[-1][:80] for v in viol[:4]))
    if not ok: msg+='\n'+r.stdout[-500:]+r.stderr[-300:]
    shutil.rmtree(ov, ignore_errors=True); shutil.rmtree(vd, ignore_errors=True)
    return (e['name'], ok, msg)
todo=[(i,e) for i,e in enumerate(entries) if not only or any(o in e['name'] for o in only)]
bad=0
with ThreadPoolExecutor(2) as ex:
    for name,ok,msg in ex.map(run, todo):
        print('%s %-45s %s'%('ok  ' if ok else 'BAD ', name, msg)); bad+= (not ok)
print('%d bad'%bad); sys.exit(1 if bad else 0)
