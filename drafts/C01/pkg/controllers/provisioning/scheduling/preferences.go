/*
Copyright The Kubernetes Authors.

Licensed under the Apache License, Version 2.0 (the "License");
you may not use this file except in compliance with the License.
You may obtain a copy of the License at

    http://www.apache.org/licenses/LICENSE-2.0

Unless required by applicable law or agreed to in writing, software
distributed under the License is distributed on an "AS IS" BASIS,
WITHOUT WARRANTIES OR CONDITIONS OF ANY KIND, either express or implied.
See the License for the specific language governing permissions and
limitations under the License.
*/

package scheduling

import (
	"context"
	"fmt"
	"sort"

	"github.com/samber/lo"
	v1 "k8s.io/api/core/v1"
	"k8s.io/klog/v2"
	"sigs.k8s.io/controller-runtime/pkg/log"

	"sigs.k8s.io/karpenter/pkg/utils/pretty"
)

type Preferences struct {
	// ToleratePreferNoSchedule controls if preference relaxation adds a toleration for PreferNoSchedule taints.  This only
	// helps if there is a corresponding taint, so we don't always add it.
	ToleratePreferNoSchedule bool
}

func (p *Preferences) Relax(ctx context.Context, pod *v1.Pod) bool {
	relaxations := []func(*v1.Pod) *string{
		p.removeRequiredNodeAffinityTerm,
		p.removePreferredPodAffinityTerm,
		p.removePreferredPodAntiAffinityTerm,
		p.removePreferredNodeAffinityTerm,
		p.removeTopologySpreadScheduleAnyway}

	if p.ToleratePreferNoSchedule {
		relaxations = append(relaxations, p.toleratePreferNoScheduleTaints)
	}

	for _, relaxFunc := range relaxations {
		if reason := relaxFunc(pod); reason != nil {
			log.FromContext(ctx).WithValues("Pod", klog.KObj(pod)).V(1).Info("relaxing soft constraints for pod since it previously failed to schedule", "reason", lo.FromPtr(reason))
			return true
		}
	}
	return false
}

func (p *Preferences) removePreferredNodeAffinityTerm(pod *v1.Pod) *string {
	if pod.Spec.Affinity == nil || pod.Spec.Affinity.NodeAffinity == nil || len(pod.Spec.Affinity.NodeAffinity.PreferredDuringSchedulingIgnoredDuringExecution) == 0 {
		return nil
	}
	terms := pod.Spec.Affinity.NodeAffinity.PreferredDuringSchedulingIgnoredDuringExecution
	// Remove the terms if there are any (terms are an OR semantic)
	if len(terms) > 0 {
		// Sort descending by weight to remove heaviest preferences to try lighter ones
		sort.SliceStable(terms, func(i, j int) bool { return terms[i].Weight > terms[j].Weight })
		pod.Spec.Affinity.NodeAffinity.PreferredDuringSchedulingIgnoredDuringExecution = terms[1:]
		return new(fmt.Sprintf("removing: spec.affinity.nodeAffinity.preferredDuringSchedulingIgnoredDuringExecution[0]=%s", pretty.Concise(terms[0])))
	}
	return nil
}

func (p *Preferences) removeRequiredNodeAffinityTerm(pod *v1.Pod) *string {
	if pod.Spec.Affinity == nil ||
		pod.Spec.Affinity.NodeAffinity == nil ||
		pod.Spec.Affinity.NodeAffinity.RequiredDuringSchedulingIgnoredDuringExecution == nil ||
		len(pod.Spec.Affinity.NodeAffinity.RequiredDuringSchedulingIgnoredDuringExecution.NodeSelectorTerms) == 0 {
		return nil
	}
	terms := pod.Spec.Affinity.NodeAffinity.RequiredDuringSchedulingIgnoredDuringExecution.NodeSelectorTerms
	// Remove the first term if there's more than one (terms are an OR semantic), Unlike preferred affinity, we cannot remove all terms
	if len(terms) > 0 {
		pod.Spec.Affinity.NodeAffinity.RequiredDuringSchedulingIgnoredDuringExecution.NodeSelectorTerms = terms[1:]
		return new(fmt.Sprintf("removing: spec.affinity.nodeAffinity.requiredDuringSchedulingIgnoredDuringExecution[0]=%s", pretty.Concise(terms[0])))
	}
	return nil
}

func (p *Preferences) removeTopologySpreadScheduleAnyway(pod *v1.Pod) *string {
	for i, tsc := range pod.Spec.TopologySpreadConstraints {
		if tsc.WhenUnsatisfiable == v1.ScheduleAnyway {
			msg := fmt.Sprintf("removing: spec.topologySpreadConstraints = %s", pretty.Concise(tsc))
			pod.Spec.TopologySpreadConstraints[i] = pod.Spec.TopologySpreadConstraints[len(pod.Spec.TopologySpreadConstraints)-1]
			pod.Spec.TopologySpreadConstraints = pod.Spec.TopologySpreadConstraints[:len(pod.Spec.TopologySpreadConstraints)-1]
			return new(msg)
		}
	}
	return nil
}

func (p *Preferences) removePreferredPodAffinityTerm(pod *v1.Pod) *string {
	if pod.Spec.Affinity == nil || pod.Spec.Affinity.PodAffinity == nil || len(pod.Spec.Affinity.PodAffinity.PreferredDuringSchedulingIgnoredDuringExecution) == 0 {
		return nil
	}
	terms := pod.Spec.Affinity.PodAffinity.PreferredDuringSchedulingIgnoredDuringExecution
	// Remove the all the terms
	if len(terms) > 0 {
		// Sort descending by weight to remove heaviest preferences to try lighter ones
		sort.SliceStable(terms, func(i, j int) bool { return terms[i].Weight > terms[j].Weight })
		pod.Spec.Affinity.PodAffinity.PreferredDuringSchedulingIgnoredDuringExecution = terms[1:]
		return new(fmt.Sprintf("removing: spec.affinity.podAffinity.preferredDuringSchedulingIgnoredDuringExecution[0]=%s", pretty.Concise(terms[0])))
	}
	return nil
}

func (p *Preferences) removePreferredPodAntiAffinityTerm(pod *v1.Pod) *string {
	if pod.Spec.Affinity == nil || pod.Spec.Affinity.PodAntiAffinity == nil || len(pod.Spec.Affinity.PodAntiAffinity.PreferredDuringSchedulingIgnoredDuringExecution) == 0 {
		return nil
	}
	terms := pod.Spec.Affinity.PodAntiAffinity.PreferredDuringSchedulingIgnoredDuringExecution
	// Remove the all the terms
	if len(terms) > 0 {
		// Sort descending by weight to remove heaviest preferences to try lighter ones
		sort.SliceStable(terms, func(i, j int) bool { return terms[i].Weight > terms[j].Weight })
		pod.Spec.Affinity.PodAntiAffinity.PreferredDuringSchedulingIgnoredDuringExecution = terms[1:]
		return new(fmt.Sprintf("removing: spec.affinity.podAntiAffinity.preferredDuringSchedulingIgnoredDuringExecution[0]=%s", pretty.Concise(terms[0])))
	}
	return nil
}

func (p *Preferences) toleratePreferNoScheduleTaints(pod *v1.Pod) *string {
	// Tolerate all Taints with PreferNoSchedule effect
	toleration := v1.Toleration{
		Operator: v1.TolerationOpExists,
		Effect:   v1.TaintEffectPreferNoSchedule,
	}
	for _, t := range pod.Spec.Tolerations {
		if t.MatchToleration(&toleration) {
			return nil
		}
	}
	tolerations := append(pod.Spec.Tolerations, toleration)
	pod.Spec.Tolerations = tolerations
	return new("adding: toleration for PreferNoSchedule taints")
}
