//go:build verif

// Contracts (C01) for the deductive verifier in /verif (kvc). Comment-only: this file adds no code.
package scheduling

// ---- C01: relaxation never drops the last required term ----
// (In preferences.go the import alias v1 is k8s.io/api/core/v1; in contract files of this package v1 is karpenter's
// apis/v1, so the core types are spelled corev1 here.)
//
// removeRequiredNodeAffinityTerm: the ONLY thing it may write is the slice header of the required node-selector terms
// (everything else of the pod - node selector, tolerations, required pod (anti-)affinity, spread constraints, containers,
// volumes - is proved unchanged by the frame). It removes a term exactly when more than one OR-ed term remains, the
// removed term is the first, the others stay in place, and a non-empty list never becomes empty.
//@ pure reqSel(pod *corev1.Pod) *corev1.NodeSelector = pod.Spec.Affinity.NodeAffinity.RequiredDuringSchedulingIgnoredDuringExecution
//@ pure hasReqSel(pod *corev1.Pod) bool = pod.Spec.Affinity != nil && pod.Spec.Affinity.NodeAffinity != nil && reqSel(pod) != nil
//@ func (*Preferences).removeRequiredNodeAffinityTerm
//@   prop C01
//@   modifies pod.Spec.Affinity.NodeAffinity.RequiredDuringSchedulingIgnoredDuringExecution.NodeSelectorTerms
//@   let before = old(reqSel(pod).NodeSelectorTerms)
//@   let after = reqSel(pod).NodeSelectorTerms
//@   ensures [neverLast] (old(hasReqSel(pod)) && len(before) >= 1) ==> len(after) >= 1
//@   ensures [exact] (result != nil) <==> (old(hasReqSel(pod)) && len(before) > 1)
//@   ensures [dropsFirst] result != nil ==> (len(after) == len(before) - 1 && (forall j int {after[j]} :: (0 <= j && j < len(after)) ==> &after[j] == &before[j + 1]))
//@   ensures [kept] (result == nil && old(hasReqSel(pod))) ==> after == before

// removeTopologySpreadScheduleAnyway: removes at most one spread constraint, and only one whose WhenUnsatisfiable is
// ScheduleAnyway (a preference); the last element takes its place, every other constraint keeps its slot; every
// DoNotSchedule constraint of the pod is still there afterwards. Nothing else of the pod is written.
//@ pure tscs(pod *corev1.Pod) []corev1.TopologySpreadConstraint = pod.Spec.TopologySpreadConstraints
//@ func (*Preferences).removeTopologySpreadScheduleAnyway
//@   prop C01
//@   modifies pod.Spec.TopologySpreadConstraints, pod.Spec.TopologySpreadConstraints[:]
//@   let before = old(tscs(pod))
//@   let n = len(old(tscs(pod)))
//@   ensures [hardKept] forall j int {before[j]} :: (0 <= j && j < n && old(before[j].WhenUnsatisfiable) != corev1.ScheduleAnyway) ==> (exists k int {tscs(pod)[k]} :: 0 <= k && k < len(tscs(pod)) && tscs(pod)[k] == old(before[j]))
//@   ensures [none] result == nil ==> (tscs(pod) == before && (forall j int {before[j]} :: (0 <= j && j < n) ==> (before[j] == old(before[j]) && before[j].WhenUnsatisfiable != corev1.ScheduleAnyway)))
//@   ensures [one] result != nil ==> (len(tscs(pod)) == n - 1 && loc(tscs(pod)) == loc(before) && (exists i int {before[i]} :: 0 <= i && i < n && old(before[i].WhenUnsatisfiable) == corev1.ScheduleAnyway && (forall j int {before[j]} :: (0 <= j && j < n - 1) ==> tscs(pod)[j] == old(before[j == i ? n - 1 : j]))))
//@   loop 1 invariant [same] tscs(pod) == before && (forall j int {before[j]} :: (0 <= j && j < n) ==> before[j] == old(before[j]))
//@   loop 1 invariant [hard] forall j int {before[j]} :: (0 <= j && j <= $i) ==> before[j].WhenUnsatisfiable != corev1.ScheduleAnyway

// toleratePreferNoScheduleTaints: the only change to the pod is one more toleration at the end of the list, and that
// toleration (operator Exists, effect PreferNoSchedule, no key) can only ever tolerate PreferNoSchedule taints - it
// never makes a NoSchedule / NoExecute taint acceptable. Existing tolerations keep their slots.
//@ func (*Preferences).toleratePreferNoScheduleTaints
//@   prop C01
//@   modifies pod.Spec.Tolerations, pod.Spec.Tolerations[:]
//@   after (*Toleration).MatchToleration assume [pureToleration] forall q *corev1.Toleration {q.Key} {q.Operator} {q.Value} {q.Effect} {q.TolerationSeconds} :: q.Key == old(q.Key) && q.Operator == old(q.Operator) && q.Value == old(q.Value) && q.Effect == old(q.Effect) && q.TolerationSeconds == old(q.TolerationSeconds)
//@   after (*Toleration).MatchToleration assume [pureCells] forall c *int64 {*c} :: *c == old(*c)
//@   let before = old(pod.Spec.Tolerations)
//@   let now = pod.Spec.Tolerations
//@   ensures [kept] result == nil ==> now == before
//@   ensures [added] result != nil ==> (len(now) == len(before) + 1 && now[len(before)].Operator == corev1.TolerationOpExists && now[len(before)].Effect == corev1.TaintEffectPreferNoSchedule && now[len(before)].Key == "" && now[len(before)].Value == "")
//@   ensures [others] forall j int {now[j]} :: (0 <= j && j < len(before)) ==> (now[j].Key == old(before[j].Key) && now[j].Operator == old(before[j].Operator) && now[j].Value == old(before[j].Value) && now[j].Effect == old(before[j].Effect) && now[j].TolerationSeconds == old(before[j].TolerationSeconds))
//@   ensures [onlyPrefer] result != nil ==> (forall x *corev1.Taint {x.Effect} :: scheduling.k8sTolerates(&now[len(before)], x) ==> x.Effect == corev1.TaintEffectPreferNoSchedule)
//@   loop 1 invariant [same] pod.Spec.Tolerations == before && (forall j int {before[j]} :: (0 <= j && j < len(before)) ==> (before[j].Key == old(before[j].Key) && before[j].Operator == old(before[j].Operator) && before[j].Value == old(before[j].Value) && before[j].Effect == old(before[j].Effect) && before[j].TolerationSeconds == old(before[j].TolerationSeconds)))
//@   loop 1 invariant [cells] forall q *corev1.Toleration {q.Key} {q.Operator} {q.Value} {q.Effect} :: loopentry(allocated(q)) ==> (q.Key == loopentry(q.Key) && q.Operator == loopentry(q.Operator) && q.Value == loopentry(q.Value) && q.Effect == loopentry(q.Effect))
