//go:build verif

// Contracts (C01) for the deductive verifier in /verif (kvc). Comment-only: this file adds no code.
package scheduling

// ---- C01: relaxation never drops the last required term ----
// (In preferences.go the import alias v1 is k8s.io/api/core/v1; in contract files of this package v1 is karpenter's
// apis/v1, so the core types are spelled corev1 here.)
//
// removeRequiredNodeAffinityTerm: the ONLY thing it may write is the slice header of the required node-selector terms
// (everything else of the pod - node selector, tolerations, required pod (anti-)affinity, spread constraints, containers,
// volumes - is proved unchanged by the frame). It removes a term exactly when more than one OR-ed term remains, the
// removed term is the first, the others stay in place, and a non-empty list never becomes empty.
//@ pure reqSel(pod *corev1.Pod) *corev1.NodeSelector = pod.Spec.Affinity.NodeAffinity.RequiredDuringSchedulingIgnoredDuringExecution
//@ pure hasReqSel(pod *corev1.Pod) bool = pod.Spec.Affinity != nil && pod.Spec.Affinity.NodeAffinity != nil && reqSel(pod) != nil
//@ func (*Preferences).removeRequiredNodeAffinityTerm
//@   prop C01
//@   modifies pod.Spec.Affinity.NodeAffinity.RequiredDuringSchedulingIgnoredDuringExecution.NodeSelectorTerms
//@   let before = old(reqSel(pod).NodeSelectorTerms)
//@   let after = reqSel(pod).NodeSelectorTerms
//@   ensures [exact] (result != nil) <==> (old(hasReqSel(pod)) && len(before) > 1)
//@   ensures [dropsFirst] result != nil ==> (len(after) == len(before) - 1 && (forall j int {after[j]} :: (0 <= j && j < len(after)) ==> &after[j] == &before[j + 1]))
//@   ensures [kept] (result == nil && old(hasReqSel(pod))) ==> after == before
//@   ensures [neverLast] (old(hasReqSel(pod)) && len(before) >= 1) ==> len(after) >= 1

// removeTopologySpreadScheduleAnyway: removes at most one spread constraint, and only one whose WhenUnsatisfiable is
// ScheduleAnyway (a preference); the last element takes its place, every other constraint keeps its slot; every
// DoNotSchedule constraint of the pod is still there afterwards. Nothing else of the pod is written.
//@ pure tscs(pod *corev1.Pod) []corev1.TopologySpreadConstraint = pod.Spec.TopologySpreadConstraints
//@ func (*Preferences).removeTopologySpreadScheduleAnyway
//@   prop C01
//@   modifies pod.Spec.TopologySpreadConstraints, pod.Spec.TopologySpreadConstraints[:]
//@   let before = old(tscs(pod))
//@   let n = len(old(tscs(pod)))
//@   ensures [none] result == nil ==> (tscs(pod) == before && (forall j int {before[j]} :: (0 <= j && j < n) ==> (before[j] == old(before[j]) && before[j].WhenUnsatisfiable != corev1.ScheduleAnyway)))
//@   ensures [one] result != nil ==> (len(tscs(pod)) == n - 1 && loc(tscs(pod)) == loc(before) && (exists i int {before[i]} :: 0 <= i && i < n && old(before[i].WhenUnsatisfiable) == corev1.ScheduleAnyway && (forall j int {before[j]} :: (0 <= j && j < n - 1) ==> tscs(pod)[j] == old(before[j == i ? n - 1 : j]))))
//@   ensures [hardKept] forall j int {before[j]} :: (0 <= j && j < n && old(before[j].WhenUnsatisfiable) != corev1.ScheduleAnyway) ==> (exists k int {tscs(pod)[k]} :: 0 <= k && k < len(tscs(pod)) && tscs(pod)[k] == old(before[j]))
//@   loop 1 invariant [same] tscs(pod) == before && (forall j int {before[j]} :: (0 <= j && j < n) ==> before[j] == old(before[j]))
//@   loop 1 invariant [hard] forall j int {before[j]} :: (0 <= j && j <= $i) ==> before[j].WhenUnsatisfiable != corev1.ScheduleAnyway
