/*
Copyright The Kubernetes Authors.

Licensed under the Apache License, Version 2.0 (the "License");
you may not use this file except in compliance with the License.
You may obtain a copy of the License at

    http://www.apache.org/licenses/LICENSE-2.0

Unless required by applicable law or agreed to in writing, software
distributed under the License is distributed on an "AS IS" BASIS,
WITHOUT WARRANTIES OR CONDITIONS OF ANY KIND, either express or implied.
See the License for the specific language governing permissions and
limitations under the License.
*/

package resources

import (
	v1 "k8s.io/api/core/v1"
	"k8s.io/apimachinery/pkg/api/resource"
	resourcehelper "k8s.io/component-helpers/resource"

	"sigs.k8s.io/karpenter/pkg/utils/pretty"
)

var Node = v1.ResourceName("nodes")

// RequestsForPods returns the total resources of a variadic list of podspecs.
func RequestsForPods(pods ...*v1.Pod) v1.ResourceList {
	var resources []v1.ResourceList
	for _, pod := range pods {
		resources = append(resources, Ceiling(pod).Requests)
	}
	merged := Merge(resources...)
	merged[v1.ResourcePods] = *resource.NewQuantity(int64(len(pods)), resource.DecimalExponent)
	return merged
}

// LimitsForPods returns the total resources of a variadic list of podspecs
func LimitsForPods(pods ...*v1.Pod) v1.ResourceList {
	var resources []v1.ResourceList
	for _, pod := range pods {
		resources = append(resources, Ceiling(pod).Limits)
	}
	merged := Merge(resources...)
	merged[v1.ResourcePods] = *resource.NewQuantity(int64(len(pods)), resource.DecimalExponent)
	return merged
}

// Merge the resources from the variadic into a single v1.ResourceList
func Merge(resources ...v1.ResourceList) v1.ResourceList {
	if len(resources) == 0 {
		return v1.ResourceList{}
	}
	result := make(v1.ResourceList, len(resources[0]))
	for _, resourceList := range resources {
		for resourceName, quantity := range resourceList {
			result[resourceName] = quantity
		}
	}
	return result
}

// MergeInto sums the resources from src into dest, modifying dest. If you need to repeatedly sum
// multiple resource lists, it allocates less to continually sum into an existing list as opposed to
// constructing a new one for each sum like Merge
func MergeInto(dest v1.ResourceList, src v1.ResourceList) v1.ResourceList {
	if dest == nil {
		sz := len(src)
		dest = make(v1.ResourceList, sz)
	}
	for resourceName, quantity := range src {
		current := dest[resourceName]
		current.Add(quantity)
		dest[resourceName] = current
	}
	return dest
}

func Subtract(lhs, rhs v1.ResourceList) v1.ResourceList {
	result := make(v1.ResourceList, len(lhs))
	for k, v := range lhs {
		result[k] = v.DeepCopy()
	}
	for resourceName := range lhs {
		current := lhs[resourceName]
		if rhsValue, ok := rhs[resourceName]; ok {
			current.Sub(rhsValue)
		}
		result[resourceName] = current
	}
	return result
}

// SubtractFrom subtracts the src v1.ResourceList from the dest v1.ResourceList in-place
func SubtractFrom(dest v1.ResourceList, src v1.ResourceList) {
	if dest == nil {
		sz := len(src)
		dest = make(v1.ResourceList, sz)
	}
	for resourceName, quantity := range src {
		current := dest[resourceName]
		current.Sub(quantity)
		dest[resourceName] = current
	}
}

// Ceiling computes the effective resource requirements for a given Pod,
// using the same logic as the scheduler. When InPlacePodVerticalScaling is enabled,
// this returns max(spec.requests, status.allocatedResources) to reflect what the
// kubelet actually holds during active resize transitions.
func Ceiling(pod *v1.Pod) v1.ResourceRequirements {
	return v1.ResourceRequirements{
		Requests: resourcehelper.PodRequests(pod, resourcehelper.PodResourcesOptions{UseStatusResources: true}),
		Limits:   resourcehelper.PodLimits(pod, resourcehelper.PodResourcesOptions{}),
	}
}

// RequestsForSpec computes the effective resource requests for a PodSpec using
// standard Kubernetes scheduling semantics (KEP-753 sidecar-aware).
func RequestsForSpec(spec *v1.PodSpec) v1.ResourceList {
	return resourcehelper.PodRequests(&v1.Pod{Spec: *spec}, resourcehelper.PodResourcesOptions{})
}

// MaxResources returns the maximum quantities for a given list of resources.
// Quantity structs in the list returned are only safe to mutate if Quantity.d.Dec == nil
func MaxResources(resources ...v1.ResourceList) v1.ResourceList {
	resourceList := v1.ResourceList{}
	for _, resource := range resources {
		for resourceName, quantity := range resource {
			if value, ok := resourceList[resourceName]; !ok || quantity.Cmp(value) > 0 {
				resourceList[resourceName] = quantity
			}
		}
	}
	return resourceList
}

// MinResources returns the minimum quantities for resources present in all lists (intersection of resources)
// Ex: MinResources({cpu: 1}, {cpu: 2, gpu: 1}) = {cpu: 1}.
// Quantity structs in the list returned are only safe to mutate if Quantity.d.Dec == nil
func MinResources(resources ...v1.ResourceList) v1.ResourceList {
	if len(resources) == 0 {
		return v1.ResourceList{}
	}

	// Start with a copy of the first list's keys, but just copy the Quantity values
	// Safe since we never mutate them
	resourceList := make(v1.ResourceList, len(resources[0]))
	for k, v := range resources[0] {
		resourceList[k] = v
	}

	for _, rl := range resources[1:] {
		for resourceName, quantity := range resourceList {
			if rlQuantity, exists := rl[resourceName]; exists {
				if rlQuantity.Cmp(quantity) < 0 {
					resourceList[resourceName] = rlQuantity
				}
			} else {
				delete(resourceList, resourceName)
			}
		}
	}
	return resourceList
}

// Quantity parses the string value into a *Quantity
func Quantity(value string) *resource.Quantity {
	r := resource.MustParse(value)
	return &r
}

// IsZero implements r.IsZero(). This method is provided to make some code a bit cleaner as the Quantity.IsZero() takes
// a pointer receiver and map index expressions aren't addressable, so it can't be called directly.
func IsZero(r resource.Quantity) bool {
	return r.IsZero()
}

func Cmp(lhs resource.Quantity, rhs resource.Quantity) int {
	return lhs.Cmp(rhs)
}

// Fits returns true if the candidate set of resources is less than or equal to the total set of resources.
func Fits(candidate, total v1.ResourceList) bool {
	// If any of the total resource values are negative then the resource will never fit
	for _, quantity := range total {
		if Cmp(*resource.NewScaledQuantity(0, resource.Kilo), quantity) > 0 {
			return false
		}
	}
	for resourceName, quantity := range candidate {
		if Cmp(quantity, total[resourceName]) > 0 {
			return false
		}
	}
	return true
}

// String returns a string version of the resource list suitable for presenting in a log
func String(list v1.ResourceList) string {
	if len(list) == 0 {
		return "{}"
	}
	return pretty.Concise(list)
}
