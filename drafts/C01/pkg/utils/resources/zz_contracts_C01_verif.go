//go:build verif

// Contracts (C01) for the deductive verifier in /verif (kvc). Comment-only: this file adds no code.
package resources

// ---- C01: resource arithmetic the placement decisions rest on ----
// A v1.ResourceList is a map ResourceName -> Quantity; a missing name reads as zero (Go zero value), which is
// also the Kubernetes meaning (a resource that is not listed is not requested / not offered).
//
// within(c, t): every resource named in c is requested at most as much as t offers.
// nonneg(t):    no listed quantity of t is negative.
//@ pure within(c v1.ResourceList, t v1.ResourceList) bool = forall k v1.ResourceName {k in c} :: (k in c) ==> c[k] <= t[k]
//@ pure nonneg(t v1.ResourceList) bool = forall k v1.ResourceName {k in t} :: (k in t) ==> t[k] >= 0

// Cmp and IsZero are loop-free wrappers: inlined at their call sites (Quantity.Cmp / IsZero stubs apply).

// Fits: [sound] is what C01 needs (an accepted request is within the total for every named resource);
// [exact] pins the code's extra strictness: a total with any negative quantity fits nothing.
//@ func Fits
//@   prop C01
//@   modifies nothing
//@   after resource.NewScaledQuantity assume [zero] *$r0 == $0
//@   ensures [sound] result ==> within(candidate, total)
//@   ensures [exact] result <==> (nonneg(total) && within(candidate, total))
//@   loop 1 invariant [nonneg] forall k v1.ResourceName {seen(k)} :: seen(k) ==> total[k] >= 0
//@   loop 2 invariant [nonneg] nonneg(total)
//@   loop 2 invariant [within] forall k v1.ResourceName {seen(k)} :: seen(k) ==> candidate[k] <= total[k]

// ---- sums ----
// sumAt(rs, n, k): the quantity of resource k summed over the first n lists (missing = zero).
// namedIn(rs, n, k): some of the first n lists names resource k.
//@ rec sumAt(rs []v1.ResourceList, n int, k v1.ResourceName) int = n <= 0 ? 0 : sumAt(rs, n - 1, k) + rs[n - 1][k]
//@ pure namedIn(rs []v1.ResourceList, n int, k v1.ResourceName) bool = exists j int {rs[j]} :: 0 <= j && j < n && (k in rs[j])

// Merge: a new list holding, per resource name, the exact sum over all arguments; it names exactly the resources
// some argument names; the arguments are untouched.
//@ func Merge
//@   prop C01
//@   modifies nothing
//@   ensures [fresh] fresh(result) && result != nil
//@   ensures [sum] forall k v1.ResourceName {result[k]} :: result[k] == old(sumAt(resources, len(resources), k))
//@   ensures [keys] forall k v1.ResourceName {k in result} :: (k in result) <==> namedIn(resources, len(resources), k)
//@   ensures [two] len(resources) == 2 ==> (forall k v1.ResourceName {result[k]} :: result[k] == old(resources[0][k] + resources[1][k]))
//@   loop 1 invariant [fresh] fresh(result) && result != nil
//@   loop 1 invariant [sum] forall k v1.ResourceName {result[k]} :: result[k] == old(sumAt(resources, $i + 1, k))
//@   loop 1 invariant [keys] forall k v1.ResourceName {k in result} :: (k in result) <==> namedIn(resources, $i + 1, k)
//@   loop 2 invariant [fresh] fresh(result) && result != nil
//@   loop 2 invariant [sum] forall k v1.ResourceName {result[k]} :: result[k] == (seen(k) ? old(sumAt(resources, $i1 + 2, k)) : old(sumAt(resources, $i1 + 1, k)))
//@   loop 2 invariant [keys] forall k v1.ResourceName {k in result} :: (k in result) <==> (namedIn(resources, $i1 + 1, k) || seen(k))

// MergeInto: dest (or a new list when dest is nil) afterwards holds, per name, what it held plus what src holds, and
// names the union; src is not changed (unless it is dest itself: then every quantity doubles, which is the same sum).
// (The parameter dest is reassigned before the loop and a parameter name always denotes the entry value, so the
// invariants speak about "the target" t: dest itself, or else the one list allocated before the loop was entered.)
//@ func MergeInto
//@   prop C01
//@   modifies dest[:]
//@   ensures [same] dest != nil ==> result == dest
//@   ensures [new] dest == nil ==> (fresh(result) && result != nil)
//@   ensures [sum] forall k v1.ResourceName {result[k]} :: result[k] == old(dest[k]) + old(src[k])
//@   ensures [keys] forall k v1.ResourceName {k in result} :: (k in result) <==> (old(k in dest) || old(k in src))
//@   loop 1 invariant [sum] forall t v1.ResourceList, k v1.ResourceName {t[k]} :: (dest != nil ? t == dest : loopentry(fresh(t))) ==> t[k] == old(dest[k]) + (seen(k) ? old(src[k]) : 0)
//@   loop 1 invariant [keys] forall t v1.ResourceList, k v1.ResourceName {k in t} :: (dest != nil ? t == dest : loopentry(fresh(t))) ==> ((k in t) <==> (old(k in dest) || seen(k)))
//@   loop 1 invariant [src] forall k v1.ResourceName {src[k]} :: !seen(k) ==> src[k] == old(src[k])

// Subtract: a new list with exactly the names of lhs, each reduced by what rhs holds for it (missing = zero).
//@ func Subtract
//@   prop C01
//@   modifies nothing
//@   ensures [fresh] fresh(result) && result != nil
//@   ensures [keys] forall k v1.ResourceName {k in result} :: (k in result) <==> (k in lhs)
//@   ensures [diff] forall k v1.ResourceName {result[k]} :: result[k] == lhs[k] - ((k in lhs) ? rhs[k] : 0)
//@   loop 1 invariant [fresh] fresh(result) && result != nil
//@   loop 1 invariant [keys] forall k v1.ResourceName {k in result} :: (k in result) <==> seen(k)
//@   loop 1 invariant [copy] forall k v1.ResourceName {result[k]} :: (k in result) ==> result[k] == lhs[k]
//@   loop 2 invariant [fresh] fresh(result) && result != nil
//@   loop 2 invariant [keys] forall k v1.ResourceName {k in result} :: (k in result) <==> (k in lhs)
//@   loop 2 invariant [diff] forall k v1.ResourceName {result[k]} :: result[k] == lhs[k] - (seen(k) ? rhs[k] : 0)

// SubtractFrom: dest afterwards holds, per name, what it held minus what src holds, and names the union.
// (With a nil dest the function works on a private list and has no effect.)
//@ func SubtractFrom
//@   prop C01
//@   modifies dest[:]
//@   ensures [diff] dest != nil ==> (forall k v1.ResourceName {dest[k]} :: dest[k] == old(dest[k]) - old(src[k]))
//@   ensures [keys] dest != nil ==> (forall k v1.ResourceName {k in dest} :: (k in dest) <==> (old(k in dest) || old(k in src)))
//@   loop 1 invariant [diff] dest != nil ==> (forall k v1.ResourceName {dest[k]} :: dest[k] == old(dest[k]) - (seen(k) ? old(src[k]) : 0))
//@   loop 1 invariant [keys] dest != nil ==> (forall k v1.ResourceName {k in dest} :: (k in dest) <==> (old(k in dest) || seen(k)))
//@   loop 1 invariant [src] forall k v1.ResourceName {src[k]} :: !seen(k) ==> src[k] == old(src[k])
