//go:build verif

// Contracts (C01) for the deductive verifier in /verif (kvc). Comment-only: this file adds no code.
package scheduling

// ---- C01: taints and tolerations ----
// k8sTolerates: the Kubernetes rule for "toleration t tolerates taint x" (k8s.io/api/core/v1 Toleration.ToleratesTaint
// with comparison operators enabled): an empty toleration effect / key matches every effect / key; operator "" or Equal
// compares the values, Exists matches every value, Lt / Gt compare numerically (numTol, left uninterpreted), any other
// operator matches nothing.
//@ pure numTol(tv string, xv string, op corev1.TolerationOperator) bool
//@ pure k8sTolerates(t *corev1.Toleration, x *corev1.Taint) bool = (t.Effect == "" || t.Effect == x.Effect) && (t.Key == "" || t.Key == x.Key) && ((t.Operator == "" || t.Operator == corev1.TolerationOpEqual) ? t.Value == x.Value : (t.Operator == corev1.TolerationOpExists ? true : ((t.Operator == corev1.TolerationOpLt || t.Operator == corev1.TolerationOpGt) ? numTol(t.Value, x.Value, t.Operator) : false)))
// toleratedBy: some of the first n tolerations tolerates taint x.
//@ pure toleratedBy(tols []corev1.Toleration, n int, x *corev1.Taint) bool = exists j int {tols[j]} :: 0 <= j && j < n && k8sTolerates(&tols[j], x)

// ASSUMPTIONS (listed in the evidence; they stand in for the missing engine stub of the external, side-effect-free
// k8s.io/api/core/v1 (*Toleration).ToleratesTaint): [rule] its answer is k8sTolerates(receiver, taint); [pureTaint]
// [pureToleration] [pureCells] [pureLogger] it writes nothing (without them every Taint / Toleration / Logger field and
// every integer / interface cell counts as arbitrary after the call, including the receiver's own taints).
// Tolerates: no error exactly when EVERY taint (of every effect, PreferNoSchedule included: stricter than the
// scheduler, which ignores PreferNoSchedule) is tolerated by some toleration under the Kubernetes rule.
//@ func (Taints).Tolerates
//@   prop C01
//@   modifies nothing
//@   after (*Toleration).ToleratesTaint assume [rule] $r0 == k8sTolerates($0, $2)
//@   after (*Toleration).ToleratesTaint assume [pureTaint] forall p *corev1.Taint {p.Key} {p.Value} {p.Effect} {p.TimeAdded} :: p.Key == old(p.Key) && p.Value == old(p.Value) && p.Effect == old(p.Effect) && p.TimeAdded == old(p.TimeAdded)
//@   after (*Toleration).ToleratesTaint assume [pureToleration] forall p *corev1.Toleration {p.Key} {p.Operator} {p.Value} {p.Effect} {p.TolerationSeconds} :: p.Key == old(p.Key) && p.Operator == old(p.Operator) && p.Value == old(p.Value) && p.Effect == old(p.Effect) && p.TolerationSeconds == old(p.TolerationSeconds)
//@   after (*Toleration).ToleratesTaint assume [pureCells] (forall p *int64 {*p} :: *p == old(*p)) && (forall p *error {*p} :: *p == old(*p))
//@   after (*Toleration).ToleratesTaint assume [pureLogger] forall p *logr.Logger {p.sink} {p.level} :: p.sink == old(p.sink) && p.level == old(p.level)
//@   ensures [exact] (errs == nil) <==> (forall a int {ts[a]} :: (0 <= a && a < len(ts)) ==> toleratedBy(tolerations, len(tolerations), &ts[a]))
//@   loop 1 invariant [exact] (errs == nil) <==> (forall a int {ts[a]} :: (0 <= a && a <= $i) ==> toleratedBy(tolerations, len(tolerations), &ts[a]))
//@   loop 2 invariant [cells] forall p *corev1.Taint {p.Key} {p.Value} {p.Effect} :: p.Key == loopentry(p.Key) && p.Value == loopentry(p.Value) && p.Effect == loopentry(p.Effect)
//@   loop 2 invariant [found] tolerates ==> toleratedBy(tolerations, $i + 1, &ts[$i1 + 1])
//@   loop 2 invariant [none] !tolerates ==> (forall j int {tolerations[j]} :: (0 <= j && j <= $i) ==> !k8sTolerates(&tolerations[j], &ts[$i1 + 1]))

//@ func (Taints).ToleratesPod
//@   prop C01
//@   modifies nothing
//@   ensures [exact] (result == nil) <==> (forall a int {ts[a]} :: (0 <= a && a < len(ts)) ==> toleratedBy(pod.Spec.Tolerations, len(pod.Spec.Tolerations), &ts[a]))

// ---- C01: host ports ----
// Two host ports collide (Kubernetes NodePorts rule) iff they have the same protocol and port and their IPs overlap:
// equal addresses, or one of them is the unspecified (wildcard) address 0.0.0.0 / ::.
// net.IP.Equal / IsUnspecified are external: ipEq / ipUnspec stand for their answers (net.IP values are immutable
// here: nothing in this package writes the bytes of an address). [pureEq]/[pureUnspec]: the two library calls write
// nothing (all integer cells, which is where the bytes live, are as before; the contract language has no byte type).
//@ pure ipEq(a net.IP, b net.IP) bool
//@ pure ipUnspec(a net.IP) bool
//@ pure hpMatches(p HostPort, q HostPort) bool = p.Protocol == q.Protocol && p.Port == q.Port && (ipEq(p.IP, q.IP) || ipUnspec(p.IP) || ipUnspec(q.IP))

//@ func (HostPort).Matches
//@   prop C01
//@   modifies nothing
//@   after (IP).Equal assume [eq] $r0 == ipEq($0, $1)
//@   after (IP).IsUnspecified assume [unspec] $r0 == ipUnspec($0)
//@   after (IP).Equal assume [pureEq] forall b *int64 {*b} :: *b == old(*b)
//@   after (IP).IsUnspecified assume [pureUnspec] forall b *int64 {*b} :: *b == old(*b)
//@   ensures [exact] result == hpMatches(p, rhs)

// noClash(u, pod, p): host port p collides with no port recorded for a pod other than `pod`.
//@ pure otherPod(k types.NamespacedName, pod *corev1.Pod) bool = !(k.Namespace == pod.Namespace && k.Name == pod.Name)
//@ pure noClash(u *HostPortUsage, pod *corev1.Pod, p HostPort) bool = forall k types.NamespacedName {k in u.reserved} :: ((k in u.reserved) && otherPod(k, pod)) ==> (forall b int {u.reserved[k][b]} :: (0 <= b && b < len(u.reserved[k])) ==> !hpMatches(p, u.reserved[k][b]))

// Conflicts: no error exactly when none of the given ports collides with a port recorded for another pod.
//@ func (*HostPortUsage).Conflicts
//@   prop C01
//@   modifies nothing
//@   ensures [exact] (result == nil) <==> (forall a int {ports[a]} :: (0 <= a && a < len(ports)) ==> noClash(u, usedBy, ports[a]))
//@   loop 1 invariant [done] forall a int {ports[a]} :: (0 <= a && a <= $i) ==> noClash(u, usedBy, ports[a])
//@   loop 2 invariant [done] forall a int {ports[a]} :: (0 <= a && a <= $i1) ==> noClash(u, usedBy, ports[a])
//@   loop 2 invariant [keys] forall k types.NamespacedName {seen(k)} :: (seen(k) && otherPod(k, usedBy)) ==> (forall b int {u.reserved[k][b]} :: (0 <= b && b < len(u.reserved[k])) ==> !hpMatches(ports[$i1 + 1], u.reserved[k][b]))
//@   loop 3 invariant [entries] otherPod(podKey, usedBy) ==> (forall b int {entries[b]} :: (0 <= b && b <= $i) ==> !hpMatches(ports[$i1 + 1], entries[b]))

// Add records exactly the given ports for the pod (replacing what was recorded for it); DeletePod forgets one pod.
//@ func (*HostPortUsage).Add
//@   prop C01
//@   modifies u.reserved[:]
//@   ensures [recorded] forall k types.NamespacedName {k in u.reserved} {u.reserved[k]} :: (k.Namespace == usedBy.Namespace && k.Name == usedBy.Name) ? ((k in u.reserved) && u.reserved[k] == ports) : ((k in u.reserved) == old(k in u.reserved) && u.reserved[k] == old(u.reserved[k]))

//@ func (*HostPortUsage).DeletePod
//@   prop C01
//@   modifies u.reserved[:]
//@   ensures [forgotten] forall k types.NamespacedName {k in u.reserved} {u.reserved[k]} :: (k == key) ? !(k in u.reserved) : ((k in u.reserved) == old(k in u.reserved) && u.reserved[k] == old(u.reserved[k]))
