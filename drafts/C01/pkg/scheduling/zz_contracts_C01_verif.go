//go:build verif

// Contracts (C01) for the deductive verifier in /verif (kvc). Comment-only: this file adds no code.
package scheduling

// ---- C01: taints and tolerations ----
// k8sTolerates: the Kubernetes rule for "toleration t tolerates taint x" (k8s.io/api/core/v1 Toleration.ToleratesTaint
// with comparison operators enabled): an empty toleration effect / key matches every effect / key; operator "" or Equal
// compares the values, Exists matches every value, Lt / Gt compare numerically (numTol, left uninterpreted), any other
// operator matches nothing.
//@ pure numTol(tv string, xv string, op corev1.TolerationOperator) bool
//@ pure k8sTolerates(t *corev1.Toleration, x *corev1.Taint) bool = (t.Effect == "" || t.Effect == x.Effect) && (t.Key == "" || t.Key == x.Key) && ((t.Operator == "" || t.Operator == corev1.TolerationOpEqual) ? t.Value == x.Value : (t.Operator == corev1.TolerationOpExists ? true : ((t.Operator == corev1.TolerationOpLt || t.Operator == corev1.TolerationOpGt) ? numTol(t.Value, x.Value, t.Operator) : false)))
// toleratedBy: some of the first n tolerations tolerates taint x.
//@ pure toleratedBy(tols []corev1.Toleration, n int, x *corev1.Taint) bool = exists j int {tols[j]} :: 0 <= j && j < n && k8sTolerates(&tols[j], x)

// Tolerates: no error exactly when EVERY taint (of every effect, PreferNoSchedule included: stricter than the
// scheduler, which ignores PreferNoSchedule) is tolerated by some toleration under the Kubernetes rule.
//@ func (Taints).Tolerates
//@   prop C01
//@   modifies nothing
//@   after (*Toleration).ToleratesTaint assume [rule] $r0 == k8sTolerates($0, $2)
//@   after (*Toleration).ToleratesTaint assume [pureTaint] forall p *corev1.Taint {p.Key} {p.Value} {p.Effect} {p.TimeAdded} :: p.Key == old(p.Key) && p.Value == old(p.Value) && p.Effect == old(p.Effect) && p.TimeAdded == old(p.TimeAdded)
//@   after (*Toleration).ToleratesTaint assume [pureToleration] forall p *corev1.Toleration {p.Key} {p.Operator} {p.Value} {p.Effect} {p.TolerationSeconds} :: p.Key == old(p.Key) && p.Operator == old(p.Operator) && p.Value == old(p.Value) && p.Effect == old(p.Effect) && p.TolerationSeconds == old(p.TolerationSeconds)
//@   after (*Toleration).ToleratesTaint assume [pureCells] (forall p *int64 {*p} :: *p == old(*p)) && (forall p *error {*p} :: *p == old(*p))
//@   after (*Toleration).ToleratesTaint assume [pureLogger] forall p *logr.Logger {p.sink} {p.level} :: p.sink == old(p.sink) && p.level == old(p.level)
//@   ensures [exact] (errs == nil) <==> (forall a int {ts[a]} :: (0 <= a && a < len(ts)) ==> toleratedBy(tolerations, len(tolerations), &ts[a]))
//@   loop 1 invariant [exact] (errs == nil) <==> (forall a int {ts[a]} :: (0 <= a && a <= $i) ==> toleratedBy(tolerations, len(tolerations), &ts[a]))
//@   loop 2 invariant [cells] forall p *corev1.Taint {p.Key} {p.Value} {p.Effect} :: p.Key == loopentry(p.Key) && p.Value == loopentry(p.Value) && p.Effect == loopentry(p.Effect)
//@   loop 2 invariant [found] tolerates ==> toleratedBy(tolerations, $i + 1, &ts[$i1 + 1])
//@   loop 2 invariant [none] !tolerates ==> (forall j int {tolerations[j]} :: (0 <= j && j <= $i) ==> !k8sTolerates(&tolerations[j], &ts[$i1 + 1]))

//@ func (Taints).ToleratesPod
//@   prop C01
//@   modifies nothing
//@   ensures [exact] (result == nil) <==> (forall a int {ts[a]} :: (0 <= a && a < len(ts)) ==> toleratedBy(pod.Spec.Tolerations, len(pod.Spec.Tolerations), &ts[a]))
