#!/usr/bin/env python3
"""Overlay-based self-test for the C01s2 draft contracts (never touches /repo).
For every entry of selftest.json: copy the source file into the overlay dir at the same relative
path, apply the edit to the copy, run ./check C01 (optionally --only <entry['only']>), delete the copy.
usage: run_selftest.py [name-substring ...]"""
import json, os, subprocess, sys
HERE = os.path.dirname(os.path.abspath(__file__))
REPO = '/repo'

def sh(cmd):
    return subprocess.run(cmd, shell=True, capture_output=True, text=True)

def main():
    only = sys.argv[1:]
    entries = json.load(open(os.path.join(HERE, 'selftest.json')))
    bad = n = 0
    for e in entries:
        if only and not any(o in e['name'] for o in only):
            continue
        n += 1
        src = open(os.path.join(REPO, e['file'])).read()
        if e['old'] not in src:
            print('STALE   %s: text to replace not found' % e['name']); bad += 1; continue
        dst = os.path.join(HERE, e['file'])
        if os.path.exists(dst):
            print('refusing: %s exists in the overlay' % dst); return 2
        try:
            open(dst, 'w').write(src.replace(e['old'], e['new'], 1))
            # C01_CHECK: alternative checker command (e.g. a privately patched engine build); default ./check
            chk = os.environ.get('C01_CHECK', './check')
            cmd = 'cd /verif && KVC_CONTRACT_OVERLAY=%s OVERLAY=%s KV=/tmp/ag_C01s2_st KVC_VERIF=/tmp/ag_C01s2_st %s %s' % (HERE, HERE, chk, e['prop'])
            if e.get('only'):
                cmd += " --only '%s'" % e['only']
            r = sh(cmd)
            viol = [l for l in r.stdout.splitlines() if l.startswith('VIOLATION')]
            failed = r.returncode != 0
            ok = failed if e['expect'] == 'fail' else not failed
            if ok and e['expect'] == 'fail' and e.get('obligation'):
                ok = any(e['obligation'] in v for v in viol)
            if 'load error' in r.stderr or 'load failed' in r.stdout:
                ok = False
                print('NOBUILD %s: %s' % (e['name'], r.stderr[:300]))
            names = sorted(set(v.split('replay=')[1].split('/')[-1].split('.json')[0].split('#')[-1] for v in viol))
            print('%s %-38s expect=%s got=%s %s' % ('ok  ' if ok else 'BAD ', e['name'], e['expect'], 'fail' if failed else 'pass', ' '.join(names)[:300]))
            if not ok:
                bad += 1
                if not viol:
                    print(r.stdout[-400:], r.stderr[-400:])
        finally:
            if os.path.exists(dst):
                os.remove(dst)
    print('%d entries, %d bad' % (n, bad))
    return 1 if bad else 0

sys.exit(main())
