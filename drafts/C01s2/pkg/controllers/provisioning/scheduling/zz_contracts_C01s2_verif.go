//go:build verif

// Contracts (C01, placements on EXISTING nodes) for the deductive verifier in /verif (kvc). Comment-only: this file adds no code.
package scheduling

// rsWF: a well-formed requirement set (every stored requirement is an allocated object with a value set and a
// normalized key) - what scheduling.Requirements.Compatible / NewRequirements / Requirements.Add demand of their inputs.
//@ pure rsWF(rs scheduling.Requirements) bool = forall k string {k in rs} :: (k in rs) ==> (scheduling.reqInv(rs[k]) && allocated(rs[k]) && !(rs[k].Key in v1.NormalizedLabels))

// ---- C01: "decides that a pod fits an existing node" = (*ExistingNode).CanAdd returns no error ----
// Every clause is about the ENTRY state (old): the five admission tests run before anything is written.
//   [taints]        every taint the node is checked against (all effects) is tolerated by a toleration of the pod (Kubernetes rule)
//   [ports]         no host port of the pod collides with a port recorded on the node for another pod
//   [volumeLimits]  for no CSI driver with a limit does (volumes on the node) united with (volumes of the pod) exceed the limit
//   [resources]     every resource the pod requests (podData.Requests) is within what the node has left after the pods bound to it
//                   AND the daemonset overhead still expected there (n.remainingResources, see NewExistingNode [remaining])
//   [requirements]  the compatibility test of the node's labels against the pod's node selector / required node affinity answered
//                   "compatible", and ([operands]) it was asked about exactly (n.requirements, podData.Requirements), and ([strict])
//                   it was asked WITHOUT any CompatibilityOptions: the labels of an existing node are final, so a label the
//                   node does not carry is not compatible with In / Exists / Gt / Lt on it, well-known label or not.
//                   (scheduling.(Requirements).Compatible [semantics] then gives, with an empty AllowUndefined set: every key of the
//                   pod's requirements that the node lacks is NotIn / DoesNotExist, and every shared key has a common value.
//                   The engine cannot state that directly in the caller today: see PROPOSED_CHANGES.md.)
// The rest of CanAdd (volume-zone alternatives, topology, DRA) is behind tryVolumeAlternative, which is treated as an
// arbitrary call here (trusted contract WITHOUT any postcondition and `modifies *`: nothing is assumed about it; it only stops
// the engine from inlining a body whose callee (*Topology).AddRequirements has no contract). What it must guarantee for the
// "volume zones" clause of C01 is listed as undecided in PROPOSED_CHANGES.md.
// [values]: ASSUMPTION (listed in the evidence) standing in for the missing engine stub of github.com/samber/lo.Values:
// every element of the returned slice is a value stored in the (first) map argument. Needed only for the preconditions
// of NewRequirements / Requirements.Add behind the checks (nopanic-style obligations of those contracts), not for the C01 clauses.
//@ func (*ExistingNode).CanAdd
//@   prop C01
//@   requires [nodeReqs] rsWF(n.requirements)
//@   requires [podReqs] rsWF(podData.Requirements)
//@   modifies *
//@   after lo.Values assume [values] forall j int {$r0[j]} :: (0 <= j && j < len($r0)) ==> (exists k string {k in $0[0]} :: (k in $0[0]) && $0[0][k] == $r0[j])
//@   ghost reqOK
//@   after (Requirements).Compatible set reqOK = $r0 == nil
//@   site (Requirements).Compatible requires [strict] len($2) == 0
//@   site (Requirements).Compatible requires [operands] $0 == n.requirements && $1 == podData.Requirements
//@   site scheduling.GetHostPorts requires [ofPod] $0 == pod
//@   let hp = @scheduling.GetHostPorts
//@   ensures [taints] err == nil ==> old(forall a int {n.cachedTaints[a]} :: (0 <= a && a < len(n.cachedTaints)) ==> scheduling.toleratedBy(pod.Spec.Tolerations, len(pod.Spec.Tolerations), &n.cachedTaints[a]))
//@   ensures [ports] err == nil ==> old(forall a int {hp[a]} :: (0 <= a && a < len(hp)) ==> scheduling.noClash(n.HostPortUsage(), pod, hp[a]))
//@   ensures [volumeLimits] err == nil ==> old(forall w scheduling.Volumes :: (w != nil && scheduling.volsOK(w) && scheduling.isUnionOf(w, n.VolumeUsage().volumes, volumes)) ==> !scheduling.overLimit(n.VolumeUsage(), w))
//@   ensures [resources] err == nil ==> old(resources.within(podData.Requests, n.remainingResources))
//@   ensures [requirements] err == nil ==> reqOK
//@   loop 1 invariant true

//@ func (*ExistingNode).tryVolumeAlternative
//@   prop C01
//@   trusted
//@   modifies *
