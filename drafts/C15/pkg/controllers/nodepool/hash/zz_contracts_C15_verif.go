//go:build verif

// Contracts for property C15 (drift: hash plumbing). Comment-only: this file adds no code.
package hash

// (*NodePool).Hash goes through hashstructure (reflection): it is an uninterpreted value here. What is decided is
// where that value goes. lo.Assign has no model in the engine; [assignModel] is its library specification
// (fresh map, union of the keys, later arguments win) for the two-argument calls made here.

// The NodePool ends up annotated with the hash just computed from it and with the current hash version.
//@ func (*Controller).Reconcile
//@   prop C15
//@   requires np != nil
//@   modifies *
//@   after lo.Assign assume [assignModel] len($0) == 2 ==> (forall k string {k in $r0} {$r0[k]} :: ((k in $r0) <==> ((k in $0[0]) || (k in $0[1]))) && $r0[k] == ((k in $0[1]) ? $0[1][k] : $0[0][k]))
//@   site store.ObjectMeta.Annotations requires [target] $0 == &np.ObjectMeta
//@   site store.ObjectMeta.Annotations requires [hash] (v1.NodePoolHashAnnotationKey in $1) && $1[v1.NodePoolHashAnnotationKey] == @(*NodePool).Hash
//@   site store.ObjectMeta.Annotations requires [version] (v1.NodePoolHashVersionAnnotationKey in $1) && $1[v1.NodePoolHashVersionAnnotationKey] == v1.NodePoolHashVersion
//@   site (client.Client).Patch requires [target] $2 == np
//@   site (client.Client).Patch requires [annotated] np.Annotations[v1.NodePoolHashAnnotationKey] == @(*NodePool).Hash && np.Annotations[v1.NodePoolHashVersionAnnotationKey] == v1.NodePoolHashVersion
//@   site (*Controller).updateNodeClaimHash requires [onlyOnVersionBump] !((v1.NodePoolHashVersionAnnotationKey in np.Annotations) && np.Annotations[v1.NodePoolHashVersionAnnotationKey] == v1.NodePoolHashVersion) && $2 == np

// ---- updateNodeClaimHash: NOT under contract (blocked by the engine; kept as a proposal, plain comments) ----
// Blockers, in the order met:
//  1. engine defect: `errs := make([]error, n)` + `errs[i] = ...` inside the loop makes every query of the function
//     ill-sorted ("unknown constant rootid (Iface)": the loop-havoc frame for the []error element cells applies rootid
//     to box$Loc$2(...), an Iface term); all obligations come back "unknown" in 0 s. With the body rewritten to
//     `errs = append(errs, ...)` (experiment only) [target] [behind] [version]#1 [hashKept] [notDrifted] [newHash]
//     [ofThisNodePool] and Patch [target] discharge.
//  2. `#k` ordinals on store pseudo-sites are rejected at the end ("site pattern store.ObjectMeta.Annotations matched
//     0 call(s)") although the obligations are generated; without ordinals the two stores cannot be told apart
//     (`@(*NodePool).Hash` is an error, not an arbitrary value, at a site no such call precedes).
//  3. np.Hash() reaches hashstructure.Hash (external): the havoc wipes the contents of every map[string]string, so
//     "the version written by the first store is still there at the second store / at Patch" is not provable
//     ([version]#2 and Patch [version] stay unknown). Needs a read-only model of (*NodePool).Hash.
// Hash-version bump: every NodeClaim that is behind gets the current hash version; it gets the NodePool's
// new hash only when it carries no Drifted condition (an already drifted NodeClaim keeps its old hash, so that
// it stays drifted); what is patched is that NodeClaim, with the version in place.
// PROPOSED func (*Controller).updateNodeClaimHash
// PROPOSED   prop C15
// PROPOSED   requires np != nil
// PROPOSED   modifies *
// PROPOSED   after lo.Assign assume [assignModel] len($0) == 2 ==> (forall k string {k in $r0} {$r0[k]} :: ((k in $r0) <==> ((k in $0[0]) || (k in $0[1]))) && $r0[k] == ((k in $0[1]) ? $0[1][k] : $0[0][k]))
// PROPOSED   site store.ObjectMeta.Annotations requires [target] $0 == &nc.ObjectMeta
// PROPOSED   site store.ObjectMeta.Annotations requires [behind] !((v1.NodePoolHashVersionAnnotationKey in atcall(@(*NodeClaim).DeepCopy, nc.Annotations)) && atcall(@(*NodeClaim).DeepCopy, nc.Annotations[v1.NodePoolHashVersionAnnotationKey]) == v1.NodePoolHashVersion)
// PROPOSED   site store.ObjectMeta.Annotations requires [version] (v1.NodePoolHashVersionAnnotationKey in $1) && $1[v1.NodePoolHashVersionAnnotationKey] == v1.NodePoolHashVersion
// PROPOSED   site store.ObjectMeta.Annotations #1 requires [hashKept] ((v1.NodePoolHashAnnotationKey in $1) <==> (v1.NodePoolHashAnnotationKey in nc.Annotations)) && $1[v1.NodePoolHashAnnotationKey] == nc.Annotations[v1.NodePoolHashAnnotationKey]
// PROPOSED   site store.ObjectMeta.Annotations #2 requires [notDrifted] v1.ncNoCond(nc, v1.ConditionTypeDrifted)
// PROPOSED   site store.ObjectMeta.Annotations #2 requires [newHash] (v1.NodePoolHashAnnotationKey in $1) && $1[v1.NodePoolHashAnnotationKey] == @(*NodePool).Hash
// PROPOSED   site (*NodePool).Hash requires [ofThisNodePool] $0 == np
// PROPOSED   site (client.Client).Patch requires [target] $2 == nc
// PROPOSED   site (client.Client).Patch requires [version] (v1.NodePoolHashVersionAnnotationKey in nc.Annotations) && nc.Annotations[v1.NodePoolHashVersionAnnotationKey] == v1.NodePoolHashVersion
