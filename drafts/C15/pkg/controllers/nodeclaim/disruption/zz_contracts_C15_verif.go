//go:build verif

// Contracts for the deductive verifier in /verif (kvc). Comment-only: this file adds no code.
package disruption

// ---- C15: drift is reported for drift-relevant changes and never self-inflicted ----

// hashComparable: both objects carry the static-drift fingerprint (hash and hash version) and the
// fingerprints were computed by the same version of the hash function.
//@ pure npHasHash(np *v1.NodePool) bool = (v1.NodePoolHashAnnotationKey in np.Annotations) && (v1.NodePoolHashVersionAnnotationKey in np.Annotations)
//@ pure ncHasHash(nc *v1.NodeClaim) bool = (v1.NodePoolHashAnnotationKey in nc.Annotations) && (v1.NodePoolHashVersionAnnotationKey in nc.Annotations)
//@ pure hashComparable(np *v1.NodePool, nc *v1.NodeClaim) bool = npHasHash(np) && ncHasHash(nc) && np.Annotations[v1.NodePoolHashVersionAnnotationKey] == nc.Annotations[v1.NodePoolHashVersionAnnotationKey]
//@ pure staticDrift(np *v1.NodePool, nc *v1.NodeClaim) bool = hashComparable(np, nc) && np.Annotations[v1.NodePoolHashAnnotationKey] != nc.Annotations[v1.NodePoolHashAnnotationKey]

// Static drift is reported exactly when the hashes differ under the same hash version
// (last sentence of C15); a missing annotation or a version mismatch never reports drift.
//@ func areStaticFieldsDrifted
//@   prop C15
//@   requires nodePool != nil && nodeClaim != nil
//@   modifies nothing
//@   nopanic
//@   ensures [exact] result == (staticDrift(nodePool, nodeClaim) ? NodePoolDrifted : "")

// Requirements drift is reported exactly when the requirement set built from the NodeClaim's labels is not
// compatible (scheduling.Requirements.Compatible, no undefined keys allowed) with the requirement set built
// from the NodePool template's requirements: some NodePool key that the labels do not carry is not
// satisfiable by an absent label, or some shared key has no labelling that satisfies both sides.
// poolReqsOK: the NodePool's requirements passed validation (see scheduling.selOK) and label-key
// normalization is idempotent.
//@ pure poolReqsOK(np *v1.NodePool) bool = scheduling.normIdem(0) && scheduling.selsOK(np.Spec.Template.Spec.Requirements) && scheduling.selsDisjoint(np.Spec.Template.Spec.Requirements)
//@ func areRequirementsDrifted
//@   prop C15
//@   requires nodePool != nil && nodeClaim != nil
//@   requires [validated] poolReqsOK(nodePool)
//@   modifies *
//@   let pool = @scheduling.NewNodeSelectorRequirementsWithMinValues
//@   let labels = @scheduling.NewLabelRequirements
//@   ensures [reason] result == "" || result == RequirementsDrifted
//@   let compatible = (forall k string {k in pool} :: ((k in pool) && !(k in labels)) ==> scheduling.absentOK(pool[k])) && (forall k string {k in labels} {k in pool} :: ((k in labels) && (k in pool)) ==> scheduling.compatKey(labels[k], pool[k]))
//@   ensures [noFalseDrift] compatible ==> result == ""
// NOT DECIDED (kept as the property demands; activate when scheduling.(Requirements).Compatible says what `allow`
// is for an empty option list -- today its [semantics] clause speaks about (@option.Resolve).AllowUndefined, which
// is an arbitrary set for a caller, so "incompatible ==> error" is not available at this call site):
// PROPOSED   ensures [driftDetected] !compatible ==> result == RequirementsDrifted

// isDrifted: static drift is looked at first, requirements drift second, and neither needs the cloud
// provider; the provider is asked only when both are clean. A clean answer ("" and no error) means that
// every check that ran was clean; an error never comes with a reason.
//@ func (*Drift).isDrifted
//@   prop C15
//@   requires nodePool != nil && nodeClaim != nil
//@   requires [validated] poolReqsOK(nodePool)
//@   modifies *
//@   let static = @areStaticFieldsDrifted
//@   let reqs = @areRequirementsDrifted
//@   ghost askedTypes, askedProvider, typesErr, typeMissing
//@   after (cloudprovider.CloudProvider).GetInstanceTypes set typesErr = $r1 != nil
//@   after instanceTypeNotFound set typeMissing = $r0 != ""
//@   after (cloudprovider.CloudProvider).GetInstanceTypes set askedTypes = true
//@   after (cloudprovider.CloudProvider).IsDrifted set askedProvider = true
//@   after lo.FindOrElse assume [sliceLiteralKept] $0[0] == beforecall(@areRequirementsDrifted, $0[0])
//@   after lo.FindOrElse assume [firstNonEmpty] len($0) == 2 ==> $r0 == ($0[0] != "" ? $0[0] : ($0[1] != "" ? $0[1] : $1))
//@   site areStaticFieldsDrifted requires [target] $0 == nodePool && $1 == nodeClaim
//@   site areRequirementsDrifted requires [target] $0 == nodePool && $1 == nodeClaim
//@   site (cloudprovider.CloudProvider).GetInstanceTypes requires [localChecksFirst] static == "" && reqs == ""
//@   site (cloudprovider.CloudProvider).IsDrifted requires [localChecksFirst] static == "" && reqs == ""
//@   site (cloudprovider.CloudProvider).IsDrifted requires [target] $2 == nodeClaim
//@   ensures [staticFirst] old(staticDrift(nodePool, nodeClaim)) ==> result.0 == NodePoolDrifted && result.1 == nil && !askedTypes && !askedProvider
//@   ensures [requirementsSecond] !old(staticDrift(nodePool, nodeClaim)) && reqs != "" ==> result.0 == reqs && result.1 == nil && !askedTypes && !askedProvider
//@   ensures [errorNoReason] result.1 != nil ==> result.0 == ""
//@   ensures [cleanMeansAllClean] result.0 == "" && result.1 == nil ==> !old(staticDrift(nodePool, nodeClaim)) && reqs == "" && askedProvider && (@(cloudprovider.CloudProvider).IsDrifted).0 == "" && (@(cloudprovider.CloudProvider).IsDrifted).1 == nil
//@   ensures [typesClean] result.0 == "" && result.1 == nil ==> !typesErr && !typeMissing
//@   ensures [typeMissingReported] typeMissing ==> result.0 != "" && result.1 == nil && !askedProvider

// Reconcile: the Drifted condition goes true only for a launched NodeClaim for which isDrifted returned a
// reason and no error (so a cloud-provider error never marks drift), with that reason; it is removed when
// the NodeClaim is not launched, and when isDrifted reported no drift.
//@ func (*Drift).Reconcile
//@   prop C15
//@   requires nodePool != nil && nodeClaim != nil
//@   requires [validated] poolReqsOK(nodePool)
//@   modifies *
//@   let launched = old(v1.ncCondIs(nodeClaim, v1.ConditionTypeLaunched, metav1.ConditionTrue))
//@   let hadCondition = old(!v1.ncNoCond(nodeClaim, v1.ConditionTypeDrifted))
//@   ghost checked, drifted, clean
//@   after (*Drift).isDrifted set checked = true
//@   after (*Drift).isDrifted set drifted = $r1 == nil && $r0 != ""
//@   after (*Drift).isDrifted set clean = $r1 == nil && $r0 == ""
//@   site (*Drift).isDrifted requires [onlyLaunched] launched
//@   site (*Drift).isDrifted requires [target] $2 == nodePool && $3 == nodeClaim
//@   site (ConditionSet).SetTrueWithReason requires [which] $1 == v1.ConditionTypeDrifted
//@   site (ConditionSet).SetTrueWithReason requires [onlyWhenDrifted] launched && drifted
//@   site (ConditionSet).SetTrueWithReason requires [reason] $2 == string((@(*Drift).isDrifted).0)
//@   site (ConditionSet).Clear requires [which] $1 == v1.ConditionTypeDrifted
//@   site (ConditionSet).Clear requires [onlyWhenNotDrifted] !launched || clean
//@   ensures [notLaunchedRemoved] !launched ==> v1.ncNoCond(nodeClaim, v1.ConditionTypeDrifted) && !checked && result.1 == nil
//@   ensures [launchedChecked] launched ==> checked
//@   ensures [driftedMarked] drifted ==> v1.ncCondIs(nodeClaim, v1.ConditionTypeDrifted, metav1.ConditionTrue) && result.1 == nil
//@   ensures [notDriftedRemoved] clean && hadCondition ==> v1.ncNoCond(nodeClaim, v1.ConditionTypeDrifted) && result.1 == nil
