//go:build verif

// Contracts for property C15 (drift). Comment-only: this file adds no code. Reuses reqInv / rsInv / normKey of
// zz_contracts_verif.go and rsKeyed of zz_contracts_C13_verif.go (same package).
package scheduling

// normIdem: normalizing a label key yields a key that is not itself an alias (a fact about the package-level
// map v1.NormalizedLabels, which the engine treats as arbitrary).
//@ pure normIdem(x int) bool = forall k string {k in v1.NormalizedLabels} {v1.NormalizedLabels[k]} :: (k in v1.NormalizedLabels) ==> !(v1.NormalizedLabels[k] in v1.NormalizedLabels)

// The requirement set of a label map: one requirement per (normalized) label key.
//@ func NewLabelRequirements
//@   prop C15
//@   requires [normalized] normIdem(0)
//@   modifies nothing
//@   ensures [inv] fresh(result) && result != nil && rsInv(result) && rsKeyed(result)
//@   ensures [keys] forall k string {k in result} :: (k in result) <==> (exists key string {key in labels} :: (key in labels) && normKey(key) == k)
//@   loop 1 invariant [inv] fresh(requirements) && requirements != nil && rsInv(requirements) && rsKeyed(requirements)
//@   loop 1 invariant [keys] forall k string {k in requirements} :: (k in requirements) <==> (exists key string {seen(key)} :: seen(key) && normKey(key) == k)

// A validated selector entry (NodePool validation: known operator, bound operators carry one integer,
// Exists/DoesNotExist carry no value). `Gt MaxInt` is excluded only because the existing contract of
// NewRequirementWithFlexibility says nothing about the key of the requirement it returns in that case.
//@ pure selOK(e *v1.NodeSelectorRequirementWithMinValues) bool = (isBoundOp(e.Operator) || isSetOp(e.Operator)) && (isBoundOp(e.Operator) ==> (len(e.Values) == 1 && atoi_ok(e.Values[0]) && !(normKey(e.Key) in v1.NormalizedLabelValues))) && ((e.Operator == corev1.NodeSelectorOpExists || e.Operator == corev1.NodeSelectorOpDoesNotExist) ==> len(e.Values) == 0) && e.Operator != corev1.NodeSelectorOpGt
//@ pure selsOK(xs []v1.NodeSelectorRequirementWithMinValues) bool = forall j int {xs[j]} :: (0 <= j && j < len(xs)) ==> selOK(&xs[j])
//@ pure selsDisjoint(xs []v1.NodeSelectorRequirementWithMinValues) bool = forall a int, b int {xs[a], xs[b]} :: (0 <= a && a < b && b < len(xs)) ==> loc(xs[a].Values) != loc(xs[b].Values)
//@ pure selKeyIn(xs []v1.NodeSelectorRequirementWithMinValues, n int, k string) bool = exists j int {xs[j]} :: 0 <= j && j < n && normKey(xs[j].Key) == k

// The requirement set of a NodePool's selector entries: one requirement per (normalized) key.
// modifies *: NewRequirementWithFlexibility may rewrite the entries' Values in place (value normalization);
// "the elements of every Values slice" is not expressible as a modifies target.
//@ func NewNodeSelectorRequirementsWithMinValues
//@   prop C15
//@   requires [normalized] normIdem(0)
//@   requires [valid] selsOK(requirements)
//@   requires [disjoint] selsDisjoint(requirements)
//@   modifies *
//@   ensures [inv] fresh(result) && result != nil && rsInv(result) && rsKeyed(result)
//@   ensures [keys] forall k string {k in result} :: (k in result) <==> selKeyIn(requirements, len(requirements), k)
//@   ensures [normalizedKept] normIdem(0)
//@   loop 1 invariant [inv] fresh(r) && r != nil && rsInv(r) && rsKeyed(r)
//@   loop 1 invariant [todo] forall j int {requirements[j]} :: ($i < j && j < len(requirements)) ==> selOK(&requirements[j])
//@   loop 1 invariant [keys] forall k string {k in r} :: (k in r) <==> selKeyIn(requirements, $i + 1, k)
