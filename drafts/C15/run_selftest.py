#!/usr/bin/env python3
"""Runs /verif/drafts/C15/selftest.json through the contract overlay (never touches /repo):
each mutant is a copy of the source file placed in a temporary overlay next to the contract files."""
import json, os, shutil, subprocess, sys
D='/verif/drafts/C15'
entries=json.load(open(D+'/selftest.json'))
only=sys.argv[1:]
bad=0
for e in entries:
    if only and not any(o in e['name'] for o in only): continue
    ov='/tmp/ov_C15_mut'
    shutil.rmtree(ov, ignore_errors=True)
    shutil.copytree(D, ov, ignore=shutil.ignore_patterns('*.json','*.py'))
    base = '/repo/' if not os.path.exists(os.path.join(ov, e['file'])) else ov+'/'
    src=open(base+e['file']).read()
    if e['old'] not in src:
        print('STALE', e['name']); bad+=1; continue
    dst=os.path.join(ov, e['file']); os.makedirs(os.path.dirname(dst), exist_ok=True)
    open(dst,'w').write(src.replace(e['old'], e['new'], 1))
    env=dict(os.environ, KVC_CONTRACT_OVERLAY=ov, KVC_VERIF='/tmp/ag_C15_mut')
    os.makedirs('/tmp/ag_C15_mut', exist_ok=True)
    if os.path.exists(D+'/known_findings_proposed.json'):
        shutil.copy(D+'/known_findings_proposed.json', '/tmp/ag_C15_mut/known_findings.json')
    r=subprocess.run('cd /verif && ./check %s'%e['prop'], shell=True, capture_output=True, text=True, env=env)
    viol=[l for l in r.stdout.splitlines() if l.startswith('VIOLATION')]
    failed=r.returncode!=0
    ok = failed if e['expect']=='fail' else not failed
    if ok and e['expect']=='fail' and e.get('obligation'):
        ok = any(e['obligation'] in v for v in viol)
    print('%s %-45s expect=%s got=%s %s'%('ok  ' if ok else 'BAD ', e['name'], e['expect'], 'fail' if failed else 'pass', ' | '.join(v.split('replay=')[1].split('/')[-1][:90] for v in viol[:3])))
    if not ok:
        bad+=1
        print(r.stdout[-600:], r.stderr[-600:])
shutil.rmtree('/tmp/ov_C15_mut', ignore_errors=True)
print('%d bad'%bad)
sys.exit(1 if bad else 0)
