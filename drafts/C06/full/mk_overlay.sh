#!/bin/bash
# Build the FULL overlay in /tmp/c06_full_overlay: the active draft contracts, with the files under full/ replacing
# their active counterparts. Use with the privately patched engine (engine_patch/apply.sh):
#   cd /verif && KVC_CONTRACT_OVERLAY=/tmp/c06_full_overlay KVC_VERIF=/tmp/ag_C06_full /tmp/kvc_C06/check C06
set -e
HERE=$(cd "$(dirname "$0")" && pwd); O=${1:-/tmp/c06_full_overlay}
rm -rf $O && mkdir -p $O && (cd $HERE/.. && find pkg -name 'zz_contracts_*_verif.go' | while read f; do mkdir -p $O/$(dirname $f); cp $f $O/$f; done)
(cd $HERE && find pkg -name '*_verif.go.txt' | while read f; do mkdir -p $O/$(dirname $f); cp $f $O/${f%.txt}; done)
echo $O
