#!/bin/bash
# Build a PRIVATE copy of the engine with the C06 prototype stubs (never touches /verif/kvc).
# usage: apply.sh [dir]   (default /tmp/kvc_C06)  -> <dir>/check is a drop-in for /verif/check
set -e
HERE=$(cd "$(dirname "$0")" && pwd)
E=${1:-/tmp/kvc_C06}
export GOFLAGS=-mod=mod GOPROXY=off GOSUMDB=off GOTOOLCHAIN=local PATH=/opt/veriftools/go1.26.8/bin:$PATH
rm -rf $E && cp -r /verif/kvc $E && cp $HERE/zc06stubs.go.txt $E/zc06stubs.go && (cd $E && go build -o kvc.bin .)
cat > $E/check <<EOS
#!/bin/bash
export GOFLAGS=-mod=mod GOPROXY=off GOSUMDB=off GOTOOLCHAIN=local PATH=/opt/veriftools/go1.26.8/bin:\$PATH
cd /verif; exec $E/kvc.bin check "\$@"
EOS
chmod +x $E/check
echo built $E
