//go:build verif

// Draft contracts (C06) for the deductive verifier in /verif (kvc). Comment-only: this file adds no code.
package cloudprovider

//@ pure c6in(o *Offering, ofs Offerings) bool = exists j int {ofs[j]} :: 0 <= j && j < len(ofs) && ofs[j] == o

//@ func (Offerings).Available
//@   prop C06
//@   modifies nothing
//@   ensures [onlyAvailable] forall k int {result[k]} :: (0 <= k && k < len(result)) ==> (result[k].Available && c6in(result[k], ofs))
//@   ensures [allAvailable] forall j int {ofs[j]} :: (0 <= j && j < len(ofs) && ofs[j].Available) ==> c6in(ofs[j], result)

//@ func (Offerings).Cheapest
//@   prop C06
//@   modifies nothing
//@   ensures [empty] len(ofs) == 0 ==> result == nil
//@   ensures [member] len(ofs) > 0 ==> c6in(result, ofs)
//@   ensures [min] forall j int {ofs[j]} :: (0 <= j && j < len(ofs)) ==> result.Price <= ofs[j].Price

