//go:build verif

// Draft contracts (C06) for the deductive verifier in /verif (kvc). Comment-only: this file adds no code.
package cloudprovider

//@ pure c6in(o *Offering, ofs Offerings) bool = exists j int {ofs[j]} :: 0 <= j && j < len(ofs) && ofs[j] == o

//@ func (Offerings).Available
//@   prop C06
//@   modifies nothing
//@   ensures [onlyAvailable] forall k int {result[k]} :: (0 <= k && k < len(result)) ==> (result[k].Available && c6in(result[k], ofs))
//@   ensures [allAvailable] forall j int {ofs[j]} :: (0 <= j && j < len(ofs) && ofs[j].Available) ==> c6in(ofs[j], result)

// c6ofsOK: every offering is non-nil with a well-formed requirement set (precondition of IsCompatible, C12).
//@ pure c6ofsOK(ofs Offerings) bool = forall j int {ofs[j]} :: (0 <= j && j < len(ofs)) ==> (ofs[j] != nil && scheduling.rsInv(ofs[j].Requirements))
// c6hasCompat: some offering of ofs is compatible with reqs (compat: C19's name for IsCompatible under AllowUndefinedWellKnownLabels).
//@ pure c6hasCompat(ofs Offerings, reqs scheduling.Requirements) bool = exists j int {ofs[j]} :: 0 <= j && j < len(ofs) && compat(reqs, ofs[j])
// c6launchable: instance type it has an AVAILABLE offering compatible with reqs.
//@ pure c6launchable(it *InstanceType, reqs scheduling.Requirements) bool = exists j int {it.Offerings[j]} :: 0 <= j && j < len(it.Offerings) && elig(reqs, it.Offerings[j])

// HasCompatible: exact. (As in the C19 comparator contract, that IsCompatible is a function of its operands is the
// listed assumption [deterministic]; what "compatible" means is the C12 contract of Compatible.)
//@ func (Offerings).HasCompatible
//@   prop C06
//@   requires [wf] c6ofsOK(ofs) && scheduling.rsInv(reqs)
//@   modifies nothing
//@   after (Requirements).IsCompatible assume [deterministic] $r0 == scheduling.compatWK($0, $1)
//@   site (Requirements).IsCompatible requires [args] $0 == reqs && $1 == of.Requirements
//@   ensures [exact] result <==> c6hasCompat(ofs, reqs)
//@   loop 1 invariant forall j int {ofs[j]} :: (0 <= j && j <= $i) ==> !compat(reqs, ofs[j])

// Offerings.Compatible: only offerings of the receiver are returned (the exact filter predicate cannot be stated
// with the stock lo.Filter stub: its closure calls a function under contract; see pending/).
//@ func (Offerings).Compatible
//@   prop C06
//@   modifies nothing
//@   ensures [nothingAdded] forall k int {result[k]} :: (0 <= k && k < len(result)) ==> c6in(result[k], ofs)

// InstanceTypes.Compatible keeps exactly... at least: only instance types of the receiver, each with an available
// offering compatible with the requirements.
//@ func (InstanceTypes).Compatible
//@   prop C06
//@   requires [wf] itsOK(its) && scheduling.rsInv(requirements)
//@   modifies nothing
//@   ensures [nothingAdded] forall k int {result[k]} :: (0 <= k && k < len(result)) ==> (exists j int {its[j]} :: 0 <= j && j < len(its) && its[j] == result[k])
//@   ensures [launchable] forall k int {result[k]} :: (0 <= k && k < len(result)) ==> c6launchable(result[k], requirements)
//@   ensures [allLaunchable] forall j int {its[j]} :: (0 <= j && j < len(its) && c6launchable(its[j], requirements)) ==> (exists k int {result[k]} :: 0 <= k && k < len(result) && result[k] == its[j])
//@   ensures [own] cap(result) == 0 || fresh(result)
//@   ensures [wfKept] itsOK(result) && (c6itsReqOK(its) ==> c6itsReqOK(result))
//@   loop 1 invariant [own] cap(filteredInstanceTypes) == 0 || fresh(filteredInstanceTypes)
//@   loop 1 invariant [nothingAdded] forall k int {filteredInstanceTypes[k]} :: (0 <= k && k < len(filteredInstanceTypes)) ==> (exists j int {its[j]} :: 0 <= j && j <= $i && its[j] == filteredInstanceTypes[k])
//@   loop 1 invariant [launchable] forall k int {filteredInstanceTypes[k]} :: (0 <= k && k < len(filteredInstanceTypes)) ==> c6launchable(filteredInstanceTypes[k], requirements)
//@   loop 1 invariant [allLaunchable] forall j int {its[j]} :: (0 <= j && j <= $i && c6launchable(its[j], requirements)) ==> (exists k int {filteredInstanceTypes[k]} :: 0 <= k && k < len(filteredInstanceTypes) && filteredInstanceTypes[k] == its[j])

// c6itsReqOK: the instance types' own requirement sets are well-formed (precondition of the C12 contract of Requirements.Get).
//@ pure c6itsReqOK(its InstanceTypes) bool = forall j int {its[j]} :: (0 <= j && j < len(its)) ==> (its[j] != nil && scheduling.rsInv(its[j].Requirements))

// Frame only (C06 needs to know that validating the minValues floors does not touch the catalog or the
// NodeClaim). The functional contract of this function belongs to C13 (draft in /verif/drafts/C13/blocked).
//@ func (InstanceTypes).SatisfiesMinValues
//@   prop C06
//@   requires [inv] scheduling.rsInv(requirements)
//@   requires [its] c6itsReqOK(its)
//@   modifies nothing
//@   loop 1 invariant [own] fresh(valuesForKey) && fresh(incompatibleKeys) && valuesForKey != nil && incompatibleKeys != nil
//@   loop 1 invariant [vk] forall x string {x in valuesForKey} :: (x in valuesForKey) ==> (valuesForKey[x] != nil && fresh(valuesForKey[x]))
//@   loop 2 invariant [own] fresh(valuesForKey) && fresh(incompatibleKeys) && valuesForKey != nil && incompatibleKeys != nil
//@   loop 2 invariant [vk] forall x string {x in valuesForKey} :: (x in valuesForKey) ==> (valuesForKey[x] != nil && fresh(valuesForKey[x]))
//@   loop 3 invariant [own] fresh(valuesForKey) && fresh(incompatibleKeys) && valuesForKey != nil && incompatibleKeys != nil
//@   loop 3 invariant [vk] forall x string {x in valuesForKey} :: (x in valuesForKey) ==> (valuesForKey[x] != nil && fresh(valuesForKey[x]))
