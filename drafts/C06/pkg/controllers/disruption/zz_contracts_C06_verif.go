//go:build verif

// Draft contracts (C06) for the deductive verifier in /verif (kvc). Comment-only: this file adds no code.
package disruption

//@ pure c6claimOK(nc *pscheduling.NodeClaim) bool = nc != nil && nc.Requirements != nil && scheduling.rsInv(nc.Requirements) && cloudprovider.itsOK(nc.InstanceTypeOptions)

//@ func (*consolidation).computeConsolidation
//@   prop C06
//@   modifies *
//@   after SimulateScheduling assume [wellFormedSimulationResult] forall k int {$r0.NewNodeClaims[k]} :: (0 <= k && k < len($r0.NewNodeClaims)) ==> c6claimOK($r0.NewNodeClaims[k])
//@   ghost simulated, filtered, pinned, spotToSpot
//@   after SimulateScheduling set simulated = $r1 == nil
//@   after (*NodeClaim).RemoveInstanceTypeOptionsByPriceAndMinValues set filtered = $r1 == nil
//@   after (Requirements).Add set pinned = true
//@   after (*consolidation).computeSpotToSpotConsolidation set spotToSpot = true
//@   site SimulateScheduling requires [simulatesRemovalOfAllCandidates] $7 == candidates
//@   site sumCandidatePrices requires [priceOfAllCandidates] $0 == candidates
//@   site (*NodeClaim).RemoveInstanceTypeOptionsByPriceAndMinValues requires [combinedPriceUnchanged] $2 == (@sumCandidatePrices)
//@   site (*NodeClaim).RemoveInstanceTypeOptionsByPriceAndMinValues requires [filtersTheReplacement] $0 == results.NewNodeClaims[0] && $1 == results.NewNodeClaims[0].Requirements
//@   site (*consolidation).computeSpotToSpotConsolidation requires [combinedPriceUnchanged] $4 == (@sumCandidatePrices) && $2 == candidates
//@   site (*consolidation).computeSpotToSpotConsolidation requires [oneReplacement] len($3.NewNodeClaims) == 1
//@   site replacementsFromNodeClaims requires [allPodsHaveAHome] simulated && (@(Results).AllNonPendingPodsScheduled)
//@   site replacementsFromNodeClaims requires [oneReplacement] len($0) == 1
//@   site replacementsFromNodeClaims requires [strictlyCheaperOptionsOnly] filtered && $0[0] == (@(*NodeClaim).RemoveInstanceTypeOptionsByPriceAndMinValues).0
//@   ensures [allPodsHaveAHome] len(result.0.Candidates) > 0 ==> (simulated && (@(Results).AllNonPendingPodsScheduled))
//@   ensures [atMostOneReplacement] len(result.0.Replacements) <= 1
//@   ensures [deleteOnlyWithoutNewNodeClaim] (len(result.0.Candidates) > 0 && len(result.0.Replacements) == 0 && !spotToSpot) ==> len(results.NewNodeClaims) == 0
//@   ensures [replacementIsPriceFiltered] (len(result.0.Replacements) > 0 && !spotToSpot) ==> filtered
//@   ensures [theseCandidates] len(result.0.Candidates) > 0 ==> result.0.Candidates == candidates
//@   loop 1 invariant [ghosts] simulated && !filtered && !pinned && !spotToSpot

//@ func (*consolidation).computeSpotToSpotConsolidation
//@   prop C06
//@   requires len(results.NewNodeClaims) == 1
//@   modifies *
//@   ensures [atMostOneReplacement] len(result.0.Replacements) <= 1
