/*
Copyright The Kubernetes Authors.

Licensed under the Apache License, Version 2.0 (the "License");
you may not use this file except in compliance with the License.
You may obtain a copy of the License at

    http://www.apache.org/licenses/LICENSE-2.0

Unless required by applicable law or agreed to in writing, software
distributed under the License is distributed on an "AS IS" BASIS,
WITHOUT WARRANTIES OR CONDITIONS OF ANY KIND, either express or implied.
See the License for the specific language governing permissions and
limitations under the License.
*/

package disruption

import (
	"context"
	"errors"
	"fmt"
	"sort"
	"time"

	"github.com/samber/lo"
	corev1 "k8s.io/api/core/v1"
	"k8s.io/utils/clock"
	"sigs.k8s.io/controller-runtime/pkg/client"

	"sigs.k8s.io/karpenter/pkg/utils/pretty"

	v1 "sigs.k8s.io/karpenter/pkg/apis/v1"
	"sigs.k8s.io/karpenter/pkg/cloudprovider"
	disruptionevents "sigs.k8s.io/karpenter/pkg/controllers/disruption/events"
	"sigs.k8s.io/karpenter/pkg/controllers/provisioning"
	pscheduling "sigs.k8s.io/karpenter/pkg/controllers/provisioning/scheduling"
	"sigs.k8s.io/karpenter/pkg/controllers/state"
	"sigs.k8s.io/karpenter/pkg/events"
	"sigs.k8s.io/karpenter/pkg/operator/options"
	"sigs.k8s.io/karpenter/pkg/scheduling"
)

// commandValidationDelay is the time we wait between creating a consolidation command and validating that it still works.
const commandValidationDelay = 15 * time.Second

// MinInstanceTypesForSpotToSpotConsolidation is the minimum number of instanceTypes in a NodeClaim needed to trigger spot-to-spot single-node consolidation
const MinInstanceTypesForSpotToSpotConsolidation = 15

// consolidation provides common functionality for single-node and multi-node consolidation.
type consolidation struct {
	// Consolidation needs to be aware of the queue for validation
	queue                  *Queue
	clock                  clock.Clock
	cluster                *state.Cluster
	kubeClient             client.Client
	provisioner            *provisioning.Provisioner
	cloudProvider          cloudprovider.CloudProvider
	recorder               events.Recorder
	lastConsolidationState time.Time
	// evaluator is initialized non-nil at construction. SetNodePoolTotals
	// replaces it with a balancedEvaluator carrying the new totals.
	evaluator Evaluator
}

// NodePoolTotalsSetter is implemented by disruption methods that use balanced scoring.
type NodePoolTotalsSetter interface {
	SetNodePoolTotals(map[string]NodePoolTotals)
}

func (c *consolidation) SetNodePoolTotals(totals map[string]NodePoolTotals) {
	c.evaluator = NewBalancedEvaluator(totals, c.recorder)
}

func MakeConsolidation(clock clock.Clock, cluster *state.Cluster, kubeClient client.Client, provisioner *provisioning.Provisioner,
	cloudProvider cloudprovider.CloudProvider, recorder events.Recorder, queue *Queue) consolidation {
	return consolidation{
		queue:         queue,
		clock:         clock,
		cluster:       cluster,
		kubeClient:    kubeClient,
		provisioner:   provisioner,
		cloudProvider: cloudProvider,
		recorder:      recorder,
		evaluator:     noopEvaluator{},
	}
}

// IsConsolidated returns true if nothing has changed since markConsolidated was called.
func (c *consolidation) IsConsolidated() bool {
	return c.lastConsolidationState.Equal(c.cluster.ConsolidationState())
}

// markConsolidated records the current state of the cluster.
func (c *consolidation) markConsolidated() {
	c.lastConsolidationState = c.cluster.ConsolidationState()
}

// ShouldDisrupt is a predicate used to filter candidates
func (c *consolidation) ShouldDisrupt(ctx context.Context, cn *Candidate) bool {
	// Disable consolidation for static NodePool
	if cn.OwnedByStaticNodePool() {
		return false
	}
	// We need the following to know what the price of the instance for price comparison. If one of these doesn't exist, we can't
	// compute consolidation decisions for this candidate.
	// 1. Instance Type
	// 2. Capacity Type
	// 3. Zone
	if cn.instanceType == nil {
		c.recorder.Publish(disruptionevents.Unconsolidatable(cn.Node, cn.NodeClaim, fmt.Sprintf("Instance Type %q not found", cn.Labels()[corev1.LabelInstanceTypeStable]))...)
		return false
	}
	if _, ok := cn.Labels()[v1.CapacityTypeLabelKey]; !ok {
		c.recorder.Publish(disruptionevents.Unconsolidatable(cn.Node, cn.NodeClaim, fmt.Sprintf("Node does not have label %q", v1.CapacityTypeLabelKey))...)
		return false
	}
	if _, ok := cn.Labels()[corev1.LabelTopologyZone]; !ok {
		c.recorder.Publish(disruptionevents.Unconsolidatable(cn.Node, cn.NodeClaim, fmt.Sprintf("Node does not have label %q", corev1.LabelTopologyZone))...)
		return false
	}
	if cn.NodePool.Spec.Disruption.ConsolidateAfter.Duration == nil {
		c.recorder.Publish(disruptionevents.Unconsolidatable(cn.Node, cn.NodeClaim, fmt.Sprintf("NodePool %q has consolidation disabled", cn.NodePool.Name))...)
		return false
	}
	// Empty nodes are handled by Emptiness (reason "Empty") for correct budget accounting.
	if cn.IsEmpty() {
		return false
	}
	// WhenEmpty pools only allow empty-node deletions, which Emptiness handles.
	if cn.NodePool.Spec.Disruption.ConsolidationPolicy == v1.ConsolidationPolicyWhenEmpty {
		c.recorder.Publish(disruptionevents.Unconsolidatable(cn.Node, cn.NodeClaim, fmt.Sprintf("NodePool %q has consolidation policy WhenEmpty, but node is not empty", cn.NodePool.Name))...)
		return false
	}
	return cn.NodeClaim.StatusConditions().Get(v1.ConditionTypeConsolidatable).IsTrue()
}

// sortCandidates sorts candidates by price/disruption ratio descending.
// The binary search in multi-node consolidation tries the first N candidates
// as a batch. Ratio sort means the batch contains the highest-value nodes,
// so budget-limited cycles execute the most impactful moves first.
//
// This changes multi-node behavior for WhenEmptyOrUnderutilized, which
// previously sorted by disruption cost ascending. The old sort found batches
// that were easy to pack (low-disruption nodes fit together). The new sort
// finds batches worth packing (high savings per unit disruption). The binary
// search still converges because it shrinks the window until scheduling
// succeeds.
func (c *consolidation) sortCandidates(_ context.Context, candidates []*Candidate) []*Candidate {
	sort.Slice(candidates, func(i, j int) bool {
		return candidates[i].SavingsRatio() > candidates[j].SavingsRatio()
	})
	return candidates
}

// computeConsolidation computes a consolidation action to take
//
// nolint:gocyclo
func (c *consolidation) computeConsolidation(ctx context.Context, candidates ...*Candidate) (Command, error) {
	var err error
	// Run scheduling simulation to compute consolidation option
	results, err := SimulateScheduling(ctx, c.kubeClient, c.cluster, c.provisioner, c.clock, c.recorder, []pscheduling.Options{pscheduling.IsConsolidationSimulation}, candidates...)
	if err != nil {
		// if a candidate node is now deleting, just retry
		if errors.Is(err, errCandidateDeleting) {
			return Command{}, nil
		}
		return Command{}, err
	}

	// if not all of the pods were scheduled, we can't do anything
	if !results.AllNonPendingPodsScheduled() {
		// This method is used by multi-node consolidation as well, so we'll only report in the single node case
		if len(candidates) == 1 {
			c.recorder.Publish(disruptionevents.Unconsolidatable(candidates[0].Node, candidates[0].NodeClaim, pretty.Sentence(results.NonPendingPodSchedulingErrors()))...)
		}
		return Command{}, nil
	}

	// were we able to schedule all the pods on the inflight candidates?
	if len(results.NewNodeClaims) == 0 {
		return Command{
			Candidates:          candidates,
			Results:             results,
			PoolDisruptionCosts: computePoolDisruptionCosts(candidates),
		}, nil
	}

	// we're not going to turn a single node into multiple candidates
	if len(results.NewNodeClaims) != 1 {
		if len(candidates) == 1 {
			c.recorder.Publish(disruptionevents.Unconsolidatable(candidates[0].Node, candidates[0].NodeClaim, fmt.Sprintf("Can't remove without creating %d candidates", len(results.NewNodeClaims)))...)
		}
		return Command{}, nil
	}

	// get the current node price based on the offering
	// fallback if we can't find the specific zonal pricing data
	candidatePrice := sumCandidatePrices(candidates)

	allExistingAreSpot := true
	for _, cn := range candidates {
		if cn.capacityType != v1.CapacityTypeSpot {
			allExistingAreSpot = false
		}
	}

	// sort the instanceTypes by price before we take any actions like truncation for spot-to-spot consolidation or finding the nodeclaim
	// that meets the minimum requirement after filteringByPrice
	results.NewNodeClaims[0].InstanceTypeOptions = results.NewNodeClaims[0].InstanceTypeOptions.OrderByPrice(results.NewNodeClaims[0].Requirements)

	if allExistingAreSpot &&
		results.NewNodeClaims[0].Requirements.Get(v1.CapacityTypeLabelKey).Has(v1.CapacityTypeSpot) {
		return c.computeSpotToSpotConsolidation(ctx, candidates, results, candidatePrice)
	}

	// filterByPrice returns the instanceTypes that are lower priced than the current candidate and any error that indicates the input couldn't be filtered.
	// If we use this directly for spot-to-spot consolidation, we are bound to get repeated consolidations because the strategy that chooses to launch the spot instance from the list does
	// it based on availability and price which could result in selection/launch of non-lowest priced instance in the list. So, we would keep repeating this loop till we get to lowest priced instance
	// causing churns and landing onto lower available spot instance ultimately resulting in higher interruptions.
	results.NewNodeClaims[0], err = results.NewNodeClaims[0].RemoveInstanceTypeOptionsByPriceAndMinValues(results.NewNodeClaims[0].Requirements, candidatePrice)
	if err != nil {
		if len(candidates) == 1 {
			c.recorder.Publish(disruptionevents.Unconsolidatable(candidates[0].Node, candidates[0].NodeClaim, fmt.Sprintf("Filtering by price: %v", err))...)
		}
		return Command{}, nil
	}
	if len(results.NewNodeClaims[0].InstanceTypeOptions) == 0 {
		if len(candidates) == 1 {
			c.recorder.Publish(disruptionevents.Unconsolidatable(candidates[0].Node, candidates[0].NodeClaim, "Can't replace with a cheaper node")...)
		}
		return Command{}, nil
	}

	// We are consolidating a node from OD -> [OD,Spot] but have filtered the instance types by cost based on the
	// assumption, that the spot variant will launch. We also need to add a requirement to the node to ensure that if
	// spot capacity is insufficient we don't replace the node with a more expensive on-demand node.  Instead the launch
	// should fail and we'll just leave the node alone. We don't need to do the same for reserved since the requirements
	// are injected on by the scheduler.
	ctReq := results.NewNodeClaims[0].Requirements.Get(v1.CapacityTypeLabelKey)
	if ctReq.Has(v1.CapacityTypeSpot) && ctReq.Has(v1.CapacityTypeOnDemand) {
		results.NewNodeClaims[0].Requirements.Add(scheduling.NewRequirement(v1.CapacityTypeLabelKey, corev1.NodeSelectorOpIn, v1.CapacityTypeSpot))
	}

	cmd := Command{
		Candidates:          candidates,
		Replacements:        replacementsFromNodeClaims(results.NewNodeClaims...),
		Results:             results,
		PoolDisruptionCosts: computePoolDisruptionCosts(candidates),
	}
	cmd.EmitCandidateEvents(c.recorder)

	return cmd, nil
}

// Compute command to execute spot-to-spot consolidation if:
//  1. The SpotToSpotConsolidation feature flag is set to true.
//  2. For single-node consolidation:
//     a. There are at least 15 cheapest instance type replacement options to consolidate.
//     b. The current candidate is NOT part of the first 15 cheapest instance types inorder to avoid repeated consolidation.
func (c *consolidation) computeSpotToSpotConsolidation(ctx context.Context, candidates []*Candidate, results pscheduling.Results, candidatePrice float64) (Command, error) {

	// Spot consolidation is turned off.
	if !options.FromContext(ctx).FeatureGates.SpotToSpotConsolidation {
		if len(candidates) == 1 {
			c.recorder.Publish(disruptionevents.Unconsolidatable(candidates[0].Node, candidates[0].NodeClaim, "SpotToSpotConsolidation is disabled, can't replace a spot node with a spot node")...)
		}
		return Command{}, nil
	}

	// Since we are sure that the replacement nodeclaim considered for the spot candidates are spot, we will enforce it through the requirements.
	results.NewNodeClaims[0].Requirements.Add(scheduling.NewRequirement(v1.CapacityTypeLabelKey, corev1.NodeSelectorOpIn, v1.CapacityTypeSpot))
	// All possible replacements for the current candidate compatible with spot offerings
	results.NewNodeClaims[0].InstanceTypeOptions = results.NewNodeClaims[0].InstanceTypeOptions.Compatible(results.NewNodeClaims[0].Requirements)

	// filterByPrice returns the instanceTypes that are lower priced than the current candidate and any error that indicates the input couldn't be filtered.
	var err error
	results.NewNodeClaims[0], err = results.NewNodeClaims[0].RemoveInstanceTypeOptionsByPriceAndMinValues(results.NewNodeClaims[0].Requirements, candidatePrice)
	if err != nil {
		if len(candidates) == 1 {
			c.recorder.Publish(disruptionevents.Unconsolidatable(candidates[0].Node, candidates[0].NodeClaim, fmt.Sprintf("Filtering by price: %v", err))...)
		}
		return Command{}, nil
	}
	if len(results.NewNodeClaims[0].InstanceTypeOptions) == 0 {
		if len(candidates) == 1 {
			c.recorder.Publish(disruptionevents.Unconsolidatable(candidates[0].Node, candidates[0].NodeClaim, "Can't replace with a cheaper node")...)
		}
		return Command{}, nil
	}

	// For multi-node consolidation:
	// We don't have any requirement to check the remaining instance type flexibility, so exit early in this case.
	if len(candidates) > 1 {
		cmd := Command{
			Candidates:          candidates,
			Replacements:        replacementsFromNodeClaims(results.NewNodeClaims...),
			Results:             results,
			PoolDisruptionCosts: computePoolDisruptionCosts(candidates),
		}
		cmd.EmitCandidateEvents(c.recorder)

		return cmd, nil
	}

	// For single-node consolidation:

	// We check whether we have 15 cheaper instances than the current candidate instance. If this is the case, we know the following things:
	//   1) The current candidate is not in the set of the 15 cheapest instance types and
	//   2) There were at least 15 options cheaper than the current candidate.
	if len(results.NewNodeClaims[0].InstanceTypeOptions) < MinInstanceTypesForSpotToSpotConsolidation {
		c.recorder.Publish(disruptionevents.Unconsolidatable(candidates[0].Node, candidates[0].NodeClaim, fmt.Sprintf("SpotToSpotConsolidation requires %d cheaper instance type options than the current candidate to consolidate, got %d",
			MinInstanceTypesForSpotToSpotConsolidation, len(results.NewNodeClaims[0].InstanceTypeOptions)))...)
		return Command{}, nil
	}

	// If a user has minValues set in their NodePool requirements, then we cap the number of instancetypes at 100 which would be the actual number of instancetypes sent for launch to enable spot-to-spot consolidation.
	// If no minValues in the NodePool requirement, then we follow the default 15 to cap the instance types for launch to enable a spot-to-spot consolidation.
	// Restrict the InstanceTypeOptions for launch to 15(if default) so we don't get into a continual consolidation situation.
	// For example:
	// 1) Suppose we have 5 instance types, (A, B, C, D, E) in order of price with the minimum flexibility 3 and they’ll all work for our pod.  We send CreateInstanceFromTypes(A,B,C,D,E) and it gives us a E type based on price and availability of spot.
	// 2) We check if E is part of (A,B,C,D) and it isn't, so we will immediately have consolidation send a CreateInstanceFromTypes(A,B,C,D), since they’re cheaper than E.
	// 3) Assuming CreateInstanceFromTypes(A,B,C,D) returned D, we check if D is part of (A,B,C) and it isn't, so will have another consolidation send a CreateInstanceFromTypes(A,B,C), since they’re cheaper than D resulting in continual consolidation.
	// If we had restricted instance types to min flexibility at launch at step (1) i.e CreateInstanceFromTypes(A,B,C), we would have received the instance type part of the list preventing immediate consolidation.
	// Taking this to 15 types, we need to only send the 15 cheapest types in the CreateInstanceFromTypes call so that the resulting instance is always in that set of 15 and we won’t immediately consolidate.
	if results.NewNodeClaims[0].Requirements.HasMinValues() {
		// Here we are trying to get the max of the minimum instances required to satisfy the minimum requirement and the default 15 to cap the instances for spot-to-spot consolidation.
		minInstanceTypes, _, _ := results.NewNodeClaims[0].InstanceTypeOptions.SatisfiesMinValues(results.NewNodeClaims[0].Requirements)
		results.NewNodeClaims[0].InstanceTypeOptions = lo.Slice(results.NewNodeClaims[0].InstanceTypeOptions, 0, lo.Max([]int{MinInstanceTypesForSpotToSpotConsolidation, minInstanceTypes}))
	} else {
		results.NewNodeClaims[0].InstanceTypeOptions = lo.Slice(results.NewNodeClaims[0].InstanceTypeOptions, 0, MinInstanceTypesForSpotToSpotConsolidation+5)
	}

	cmd := Command{
		Candidates:          candidates,
		Replacements:        replacementsFromNodeClaims(results.NewNodeClaims...),
		Results:             results,
		PoolDisruptionCosts: computePoolDisruptionCosts(candidates),
	}
	cmd.EmitCandidateEvents(c.recorder)

	return cmd, nil
}
