//go:build verif

// Draft contracts (C06) for the deductive verifier in /verif (kvc). Comment-only: this file adds no code.
package scheduling

//@ func (*NodeClaim).RemoveInstanceTypeOptionsByPriceAndMinValues
//@   prop C06
//@   requires n != nil
//@   modifies *
//@   site (Offerings).Available requires [pricedFromOwnOfferings] $0 == it.Offerings
//@   site (Offerings).WorstLaunchPrice requires [worstCaseOverAvailableUnderReqs] $0 == (@(Offerings).Available) && $1 == reqs
//@   site (InstanceTypes).SatisfiesMinValues requires [nothingAdded] forall k int {$0[k]} :: (0 <= k && k < len($0)) ==> (exists j int {old(n.InstanceTypeOptions)[j]} :: 0 <= j && j < len(old(n.InstanceTypeOptions)) && old(n.InstanceTypeOptions)[j] == $0[k])
//@   site (InstanceTypes).SatisfiesMinValues requires [floorsCheckedOnKeptTypes] $0 == n.InstanceTypeOptions && $1 == reqs
//@   ensures [minValuesViolationIsAnError] result.1 == (@(InstanceTypes).SatisfiesMinValues).2
//@   ensures [sameClaimOrNone] (result.1 == nil ==> result.0 == n) && (result.1 != nil ==> result.0 == nil)
