//go:build verif

// Draft contracts (C06) for the deductive verifier in /verif (kvc). Comment-only: this file adds no code.
package scheduling

// c6claimOK: a NodeClaim as the scheduler hands it out: requirement set and catalog entries well-formed
// (what the C12 / C19 contracts of Requirements.Get, Requirements.Add, OrderByPrice and IsCompatible need).
//@ pure c6claimOK(nc *NodeClaim) bool = nc != nil && nc.Requirements != nil && scheduling.rsInv(nc.Requirements) && cloudprovider.itsOK(nc.InstanceTypeOptions) && cloudprovider.c6itsReqOK(nc.InstanceTypeOptions)

//@ func (*NodeClaim).RemoveInstanceTypeOptionsByPriceAndMinValues
//@   prop C06
//@   requires [wf] c6claimOK(n) && scheduling.rsInv(reqs)
//@   modifies n.InstanceTypeOptions
//@   site (Offerings).Available requires [pricedFromOwnOfferings] $0 == it.Offerings
//@   site (InstanceTypes).SatisfiesMinValues requires [floorsCheckedOnKeptTypes] $0 == n.InstanceTypeOptions && $1 == reqs
//@   ensures [nothingAdded] forall k int {n.InstanceTypeOptions[k]} :: (0 <= k && k < len(n.InstanceTypeOptions)) ==> (exists j int {old(n.InstanceTypeOptions)[j]} :: 0 <= j && j < len(old(n.InstanceTypeOptions)) && old(n.InstanceTypeOptions)[j] == n.InstanceTypeOptions[k])
//@   ensures [minValuesViolationIsAnError] result.1 == (@(InstanceTypes).SatisfiesMinValues).2
//@   ensures [sameClaimOrNone] (result.1 == nil ==> result.0 == n) && (result.1 != nil ==> result.0 == nil)
//@   ensures [wfKept] c6claimOK(n)
