//go:build verif

// Draft contracts (C06) for the deductive verifier in /verif (kvc). Comment-only: this file adds no code.
package scheduling

// c6claimOK: a NodeClaim as the scheduler hands it out: requirement set and catalog entries well-formed
// (what the C12 / C19 contracts of Requirements.Get, Requirements.Add, OrderByPrice and IsCompatible need).
//@ pure c6claimOK(nc *NodeClaim) bool = nc != nil && nc.Requirements != nil && scheduling.rsInv(nc.Requirements) && cloudprovider.itsOK(nc.InstanceTypeOptions) && cloudprovider.c6itsReqOK(nc.InstanceTypeOptions)

// ---- C06: the price filter "launch only from instance types strictly cheaper than what is replaced" ----
// ACTIVE part (stock engine): nothing is added to the option list ([nothingAdded]); each type is priced from its OWN
// offerings ([pricedFromOwnOfferings]); the minValues floors are validated on the KEPT list under the SAME requirements
// ([floorsCheckedOnKeptTypes]) and a violation is returned as the error, with no NodeClaim ([minValuesViolationIsAnError],
// [sameClaimOrNone]); only n.InstanceTypeOptions changes; well-formedness is kept.
// NOT decidable with the stock engine: the central clause [strictlyCheaper] "every kept instance type has worst-case
// launch price < maxPrice" - the lo.Filter stub cannot express a predicate that calls functions under contract
// (warning "closure not expressible, predicate facts omitted"), so a mutant `<=` passes here. The exact contract
// ([strictlyCheaper], [everyCheaperOneKept], closure [exact]) is in ../../../../full/ and discharges with ../../../../engine_patch/.
//@ func (*NodeClaim).RemoveInstanceTypeOptionsByPriceAndMinValues
//@   prop C06
//@   requires [wf] c6claimOK(n) && scheduling.rsInv(reqs)
//@   modifies n.InstanceTypeOptions
//@   site (Offerings).Available requires [pricedFromOwnOfferings] $0 == it.Offerings
//@   site (InstanceTypes).SatisfiesMinValues requires [floorsCheckedOnKeptTypes] $0 == n.InstanceTypeOptions && $1 == reqs
//@   ensures [nothingAdded] forall k int {n.InstanceTypeOptions[k]} :: (0 <= k && k < len(n.InstanceTypeOptions)) ==> (exists j int {old(n.InstanceTypeOptions)[j]} :: 0 <= j && j < len(old(n.InstanceTypeOptions)) && old(n.InstanceTypeOptions)[j] == n.InstanceTypeOptions[k])
//@   ensures [minValuesViolationIsAnError] result.1 == (@(InstanceTypes).SatisfiesMinValues).2
//@   ensures [sameClaimOrNone] (result.1 == nil ==> result.0 == n) && (result.1 != nil ==> result.0 == nil)
//@   ensures [wfKept] c6claimOK(n)
