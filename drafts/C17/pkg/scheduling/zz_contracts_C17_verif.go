//go:build verif

// Draft contracts (C17) for the deductive verifier in /verif (kvc). Comment-only: this file adds no code.
package scheduling

// ---- Requirements.Add (needed by C17: NodeClaim.FinalizeScheduling) ----
// Add tightens: afterwards a key is defined iff it was defined or one of the added requirements carries it, and
// the requirement stored under a key admits exactly the values that the previous requirement of that key (if any)
// and ALL added requirements with that key admit. Requirements of other keys are the same objects as before.
// (Keys of the added requirements must already be normalized: Intersection re-normalizes the key.)
//@ pure keyIn(rs []*Requirement, n int, k string) bool = exists j int {rs[j]} :: 0 <= j && j < n && rs[j].Key == k
//@ pure allAdmit(rs []*Requirement, n int, k string, v string) bool = forall j int {rs[j]} :: (0 <= j && j < n && rs[j].Key == k) ==> admits(rs[j], v)
//@ pure addArgsOK(rs []*Requirement) bool = forall j int {rs[j]} :: (0 <= j && j < len(rs)) ==> (reqInv(rs[j]) && allocated(rs[j]) && !(rs[j].Key in v1.NormalizedLabels))
//@ func (Requirements).Add
//@   prop C17
//@   nopanic
//@   requires [inv] r != nil && rsInv(r)
//@   requires [args] addArgsOK(requirements)
//@   modifies r[:]
//@   ensures [inv] rsInv(r)
//@   ensures [keys] forall k string {k in r} :: (k in r) <==> (old(k in r) || keyIn(requirements, len(requirements), k))
//@   ensures [untouched] forall k string {r[k]} :: !keyIn(requirements, len(requirements), k) ==> r[k] == old(r[k])
//@   ensures [admits] forall k string, v string {v in r[k].values} :: (k in r) ==> (admits(r[k], v) <==> ((old(k in r) ==> admits(old(r[k]), v)) && allAdmit(requirements, len(requirements), k, v)))
//@   loop 1 invariant [inv] rsInv(r)
//@   loop 1 invariant [keys] forall k string {k in r} :: (k in r) <==> (old(k in r) || keyIn(requirements, $i + 1, k))
//@   loop 1 invariant [untouched] forall k string {r[k]} :: !keyIn(requirements, $i + 1, k) ==> r[k] == old(r[k])
//@   loop 1 invariant [admits] forall k string, v string {v in r[k].values} :: (k in r) ==> (admits(r[k], v) <==> ((old(k in r) ==> admits(old(r[k]), v)) && allAdmit(requirements, $i + 1, k, v)))
