//go:build verif

// Draft contracts (C17) for the deductive verifier in /verif (kvc). Comment-only: this file adds no code.
package cloudprovider

// ---- C17: identity of a reserved offering ----
// rid(o) / ctype(o): the reservation id / capacity type a WELL-FORMED offering denotes. They are
// uninterpreted; ridOK / ctOK tie them to the heap: the offering's requirement for the key is a
// plain In with exactly that one value. (ReservationID()/CapacityType() take `Any()` of the
// requirement, which for a multi-valued In follows map iteration order, i.e. is not a function.)
//@ pure rid(o *Offering) string
//@ pure ctype(o *Offering) string
//@ pure oneValue(r *scheduling.Requirement, v string) bool = scheduling.reqInv(r) && !r.complement && (forall x string {x in r.values} :: (x in r.values) <==> x == v)
//@ pure ridOK(o *Offering) bool = o != nil && scheduling.rsInv(o.Requirements) && (cloudprovider.ReservationIDLabel in o.Requirements) && oneValue(o.Requirements[cloudprovider.ReservationIDLabel], rid(o))
//@ pure ctOK(o *Offering) bool = o != nil && scheduling.rsInv(o.Requirements) && (v1.CapacityTypeLabelKey in o.Requirements) && oneValue(o.Requirements[v1.CapacityTypeLabelKey], ctype(o))

//@ func (*Offering).ReservationID
//@   prop C17
//@   requires [wf] ridOK(o)
//@   modifies nothing
//@   ensures [id] result == rid(o)

//@ func (*Offering).CapacityType
//@   prop C17
//@   requires [wf] ctOK(o)
//@   modifies nothing
//@   ensures [ct] result == ctype(o)
