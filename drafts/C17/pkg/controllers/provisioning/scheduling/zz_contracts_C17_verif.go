//go:build verif

// Draft contracts (C17) for the deductive verifier in /verif (kvc). Comment-only: this file adds no code.
package scheduling

// ---- C17: ReservationManager ----
// Abstract view: rmCap(rm, id) = remaining slots of reservation id; rmHeld(rm, h, id) = hostname h
// holds reservation id.
//@ pure rmHeld(rm *ReservationManager, h string, id string) bool = (h in rm.reservations) && (id in rm.reservations[h])
//@ pure rmCap(rm *ReservationManager, id string) int = rm.capacity[id]
//@ pure ridIn(ofs []*cloudprovider.Offering, n int, id string) bool = exists j int {ofs[j]} :: 0 <= j && j < n && cloudprovider.rid(ofs[j]) == id
// ofOK: the offering is well formed and shares no map with the manager (the manager owns its maps; Go's types alone
// would allow an offering's value set to be one of the manager's per-host sets).
//@ pure ofOK(rm *ReservationManager, o *cloudprovider.Offering) bool = cloudprovider.ridOK(o) && loc(rm.reservations) != loc(o.Requirements) && (forall h string {h in rm.reservations} :: (h in rm.reservations) ==> loc(rm.reservations[h]) != loc(o.Requirements[cloudprovider.ReservationIDLabel].values))
//@ pure ofsOK(rm *ReservationManager, ofs []*cloudprovider.Offering) bool = forall j int {ofs[j]} :: (0 <= j && j < len(ofs)) ==> ofOK(rm, ofs[j])
// Representation invariant.
//@ pure rmMaps(rm *ReservationManager) bool = rm != nil && rm.reservations != nil && rm.capacity != nil
//@ pure rmSets(rm *ReservationManager) bool = forall h string {h in rm.reservations} :: (h in rm.reservations) ==> (rm.reservations[h] != nil && allocated(rm.reservations[h]))
//@ pure rmApart(rm *ReservationManager) bool = forall h1 string, h2 string {h1 in rm.reservations, h2 in rm.reservations} :: ((h1 in rm.reservations) && (h2 in rm.reservations) && h1 != h2) ==> rm.reservations[h1] != rm.reservations[h2]
//@ pure rmNonNeg(rm *ReservationManager) bool = forall id string {rm.capacity[id]} :: rm.capacity[id] >= 0
//@ pure rmKnown(rm *ReservationManager) bool = forall h string, id string {id in rm.reservations[h]} :: rmHeld(rm, h, id) ==> (id in rm.capacity)

//@ func (*ReservationManager).HasReservation
//@   prop C17
//@   nopanic
//@   requires [wf] cloudprovider.ridOK(offering)
//@   repinv [maps] rmMaps(rm)
//@   repinv [sets] rmSets(rm)
//@   repinv [apart] rmApart(rm)
//@   repinv [nonneg] rmNonNeg(rm)
//@   repinv [known] rmKnown(rm)
//@   modifies nothing
//@   ensures [exact] result <==> rmHeld(rm, hostname, cloudprovider.rid(offering))

//@ func (*ReservationManager).RemainingCapacity
//@   prop C17
//@   nopanic
//@   requires [wf] cloudprovider.ridOK(offering)
//@   repinv [maps] rmMaps(rm)
//@   repinv [sets] rmSets(rm)
//@   repinv [apart] rmApart(rm)
//@   repinv [nonneg] rmNonNeg(rm)
//@   repinv [known] rmKnown(rm)
//@   modifies nothing
//@   ensures [exact] result == rmCap(rm, cloudprovider.rid(offering))
//@   ensures [nonneg] result >= 0

//@ func (*ReservationManager).CanReserve
//@   prop C17
//@   nopanic
//@   requires [wf] cloudprovider.ridOK(offering)
//@   repinv [maps] rmMaps(rm)
//@   repinv [sets] rmSets(rm)
//@   repinv [apart] rmApart(rm)
//@   repinv [nonneg] rmNonNeg(rm)
//@   repinv [known] rmKnown(rm)
//@   modifies nothing
//@   maypanic !rmHeld(rm, hostname, cloudprovider.rid(offering)) && !(cloudprovider.rid(offering) in rm.capacity)
//@   ensures [exact] result <==> (rmHeld(rm, hostname, cloudprovider.rid(offering)) || rmCap(rm, cloudprovider.rid(offering)) > 0)

//@ func (*ReservationManager).Reserve
//@   prop C17
//@   nopanic
//@   requires [wf] ofsOK(rm, offerings)
//@   repinv [maps] rmMaps(rm)
//@   repinv [sets] rmSets(rm)
//@   repinv [apart] rmApart(rm)
//@   repinv [nonneg] rmNonNeg(rm)
//@   repinv [known] rmKnown(rm)
//@   modifies rm.reservations[:], rm.capacity[:], rm.reservations[hostname][:]
//@   maypanic exists j int {offerings[j]} :: 0 <= j && j < len(offerings) && !rmHeld(rm, hostname, cloudprovider.rid(offerings[j])) && rmCap(rm, cloudprovider.rid(offerings[j])) <= 0
//@   ensures [held] forall id string {id in rm.reservations[hostname]} :: rmHeld(rm, hostname, id) <==> (old(rmHeld(rm, hostname, id)) || ridIn(offerings, len(offerings), id))
//@   ensures [capacity] forall id string {rm.capacity[id]} :: rmCap(rm, id) == old(rmCap(rm, id)) - ((rmHeld(rm, hostname, id) && !old(rmHeld(rm, hostname, id))) ? 1 : 0)
//@   ensures [keys] forall id string {id in rm.capacity} :: (id in rm.capacity) <==> old(id in rm.capacity)
//@   ensures [others] forall h string, id string {id in rm.reservations[h]} :: h != hostname ==> (rmHeld(rm, h, id) <==> old(rmHeld(rm, h, id)))
//@   loop 1 invariant [maps] rmMaps(rm)
//@   loop 1 invariant [sets] rmSets(rm)
//@   loop 1 invariant [apart] rmApart(rm)
//@   loop 1 invariant [nonneg] rmNonNeg(rm)
//@   loop 1 invariant [known] rmKnown(rm)
//@   loop 1 invariant [sameset] old(hostname in rm.reservations) ==> ((hostname in rm.reservations) && rm.reservations[hostname] == old(rm.reservations[hostname]))
//@   loop 1 invariant [newset] (!old(hostname in rm.reservations) && (hostname in rm.reservations)) ==> fresh(rm.reservations[hostname])
//@   loop 1 invariant [otherhosts] forall h string {h in rm.reservations} :: h != hostname ==> ((h in rm.reservations) == old(h in rm.reservations) && rm.reservations[h] == old(rm.reservations[h]))
//@   loop 1 invariant [held] forall id string {id in rm.reservations[hostname]} :: rmHeld(rm, hostname, id) <==> (old(rmHeld(rm, hostname, id)) || ridIn(offerings, $i + 1, id))
//@   loop 1 invariant [capacity] forall id string {rm.capacity[id]} :: rmCap(rm, id) == old(rmCap(rm, id)) - ((rmHeld(rm, hostname, id) && !old(rmHeld(rm, hostname, id))) ? 1 : 0)
//@   loop 1 invariant [keys] forall id string {id in rm.capacity} :: (id in rm.capacity) <==> old(id in rm.capacity)
//@   loop 1 invariant [others] forall h string, id string {id in rm.reservations[h]} :: h != hostname ==> (rmHeld(rm, h, id) <==> old(rmHeld(rm, h, id)))

//@ func (*ReservationManager).Release
//@   prop C17
//@   nopanic
//@   requires [wf] ofsOK(rm, offerings)
//@   repinv [maps] rmMaps(rm)
//@   repinv [sets] rmSets(rm)
//@   repinv [apart] rmApart(rm)
//@   repinv [nonneg] rmNonNeg(rm)
//@   repinv [known] rmKnown(rm)
//@   modifies rm.capacity[:], rm.reservations[hostname][:]
//@   ensures [held] forall id string {id in rm.reservations[hostname]} :: rmHeld(rm, hostname, id) <==> (old(rmHeld(rm, hostname, id)) && !ridIn(offerings, len(offerings), id))
//@   ensures [capacity] forall id string {rm.capacity[id]} :: rmCap(rm, id) == old(rmCap(rm, id)) + ((old(rmHeld(rm, hostname, id)) && !rmHeld(rm, hostname, id)) ? 1 : 0)
//@   ensures [keys] forall id string {id in rm.capacity} :: (id in rm.capacity) <==> old(id in rm.capacity)
//@   ensures [others] forall h string, id string {id in rm.reservations[h]} :: h != hostname ==> (rmHeld(rm, h, id) <==> old(rmHeld(rm, h, id)))
//@   loop 1 invariant [nonneg] rmNonNeg(rm)
//@   loop 1 invariant [known] rmKnown(rm)
//@   loop 1 invariant [held] forall id string {id in rm.reservations[hostname]} :: rmHeld(rm, hostname, id) <==> (old(rmHeld(rm, hostname, id)) && !ridIn(offerings, $i + 1, id))
//@   loop 1 invariant [capacity] forall id string {rm.capacity[id]} :: rmCap(rm, id) == old(rmCap(rm, id)) + ((old(rmHeld(rm, hostname, id)) && !rmHeld(rm, hostname, id)) ? 1 : 0)
//@   loop 1 invariant [keys] forall id string {id in rm.capacity} :: (id in rm.capacity) <==> old(id in rm.capacity)
//@   loop 1 invariant [others] forall h string, id string {id in rm.reservations[h]} :: h != hostname ==> (rmHeld(rm, h, id) <==> old(rmHeld(rm, h, id)))
