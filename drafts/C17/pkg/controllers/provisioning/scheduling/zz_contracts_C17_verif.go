//go:build verif

// Draft contracts (C17) for the deductive verifier in /verif (kvc). Comment-only: this file adds no code.
package scheduling

// ---- C17: ReservationManager ----
// Abstract view: rmCap(rm, id) = remaining slots of reservation id; rmHeld(rm, h, id) = hostname h
// holds reservation id.
//@ pure rmHeld(rm *ReservationManager, h string, id string) bool = (h in rm.reservations) && (id in rm.reservations[h])
//@ pure rmCap(rm *ReservationManager, id string) int = rm.capacity[id]
//@ pure ridIn(ofs []*cloudprovider.Offering, n int, id string) bool = exists j int {ofs[j]} :: 0 <= j && j < n && cloudprovider.rid(ofs[j]) == id
// ofOK: the offering is well formed and shares no map with the manager (the manager owns its maps; Go's types alone
// would allow an offering's value set to be one of the manager's per-host sets).
//@ pure ofOK(rm *ReservationManager, o *cloudprovider.Offering) bool = cloudprovider.ridOK(o) && loc(rm.reservations) != loc(o.Requirements) && (forall h string {h in rm.reservations} :: (h in rm.reservations) ==> loc(rm.reservations[h]) != loc(o.Requirements[cloudprovider.ReservationIDLabel].values))
//@ pure ofsOK(rm *ReservationManager, ofs []*cloudprovider.Offering) bool = forall j int {ofs[j]} :: (0 <= j && j < len(ofs)) ==> ofOK(rm, ofs[j])
// Representation invariant.
//@ pure rmMaps(rm *ReservationManager) bool = rm != nil && rm.reservations != nil && rm.capacity != nil
//@ pure rmSets(rm *ReservationManager) bool = forall h string {h in rm.reservations} :: (h in rm.reservations) ==> (rm.reservations[h] != nil && allocated(rm.reservations[h]))
//@ pure rmApart(rm *ReservationManager) bool = forall h1 string, h2 string {h1 in rm.reservations, h2 in rm.reservations} :: ((h1 in rm.reservations) && (h2 in rm.reservations) && h1 != h2) ==> rm.reservations[h1] != rm.reservations[h2]
//@ pure rmNonNeg(rm *ReservationManager) bool = forall id string {rm.capacity[id]} :: rm.capacity[id] >= 0
//@ pure rmKnown(rm *ReservationManager) bool = forall h string, id string {id in rm.reservations[h]} :: rmHeld(rm, h, id) ==> (id in rm.capacity)
//@ pure rmInv(rm *ReservationManager) bool = rmMaps(rm) && rmSets(rm) && rmApart(rm) && rmNonNeg(rm) && rmKnown(rm)

//@ func (*ReservationManager).HasReservation
//@   prop C17
//@   nopanic
//@   requires [wf] cloudprovider.ridOK(offering)
//@   repinv [maps] rmMaps(rm)
//@   repinv [sets] rmSets(rm)
//@   repinv [apart] rmApart(rm)
//@   repinv [nonneg] rmNonNeg(rm)
//@   repinv [known] rmKnown(rm)
//@   modifies nothing
//@   ensures [exact] result <==> rmHeld(rm, hostname, cloudprovider.rid(offering))

//@ func (*ReservationManager).RemainingCapacity
//@   prop C17
//@   nopanic
//@   requires [wf] cloudprovider.ridOK(offering)
//@   repinv [maps] rmMaps(rm)
//@   repinv [sets] rmSets(rm)
//@   repinv [apart] rmApart(rm)
//@   repinv [nonneg] rmNonNeg(rm)
//@   repinv [known] rmKnown(rm)
//@   modifies nothing
//@   ensures [exact] result == rmCap(rm, cloudprovider.rid(offering))
//@   ensures [nonneg] result >= 0

//@ func (*ReservationManager).CanReserve
//@   prop C17
//@   nopanic
//@   requires [wf] cloudprovider.ridOK(offering)
//@   repinv [maps] rmMaps(rm)
//@   repinv [sets] rmSets(rm)
//@   repinv [apart] rmApart(rm)
//@   repinv [nonneg] rmNonNeg(rm)
//@   repinv [known] rmKnown(rm)
//@   modifies nothing
//@   maypanic !rmHeld(rm, hostname, cloudprovider.rid(offering)) && !(cloudprovider.rid(offering) in rm.capacity)
//@   ensures [exact] result <==> (rmHeld(rm, hostname, cloudprovider.rid(offering)) || rmCap(rm, cloudprovider.rid(offering)) > 0)

//@ func (*ReservationManager).Reserve
//@   prop C17
//@   nopanic
//@   requires [wf] ofsOK(rm, offerings)
//@   repinv [maps] rmMaps(rm)
//@   repinv [sets] rmSets(rm)
//@   repinv [apart] rmApart(rm)
//@   repinv [nonneg] rmNonNeg(rm)
//@   repinv [known] rmKnown(rm)
//@   modifies rm.reservations[:], rm.capacity[:], rm.reservations[hostname][:]
//@   maypanic exists j int {offerings[j]} :: 0 <= j && j < len(offerings) && !rmHeld(rm, hostname, cloudprovider.rid(offerings[j])) && rmCap(rm, cloudprovider.rid(offerings[j])) <= 0
//@   ensures [held] forall id string {id in rm.reservations[hostname]} :: rmHeld(rm, hostname, id) <==> (old(rmHeld(rm, hostname, id)) || ridIn(offerings, len(offerings), id))
//@   ensures [capacity] forall id string {rm.capacity[id]} :: rmCap(rm, id) == old(rmCap(rm, id)) - ((rmHeld(rm, hostname, id) && !old(rmHeld(rm, hostname, id))) ? 1 : 0)
//@   ensures [keys] forall id string {id in rm.capacity} :: (id in rm.capacity) <==> old(id in rm.capacity)
//@   ensures [others] forall h string, id string {id in rm.reservations[h]} :: h != hostname ==> (rmHeld(rm, h, id) <==> old(rmHeld(rm, h, id)))
//@   ensures [sameset] old(hostname in rm.reservations) ==> ((hostname in rm.reservations) && rm.reservations[hostname] == old(rm.reservations[hostname]))
//@   ensures [newset] (!old(hostname in rm.reservations) && (hostname in rm.reservations)) ==> fresh(rm.reservations[hostname])
//@   ensures [otherhosts] forall h string {h in rm.reservations} :: h != hostname ==> ((h in rm.reservations) == old(h in rm.reservations) && rm.reservations[h] == old(rm.reservations[h]))
//@   loop 1 invariant [maps] rmMaps(rm)
//@   loop 1 invariant [sets] rmSets(rm)
//@   loop 1 invariant [apart] rmApart(rm)
//@   loop 1 invariant [nonneg] rmNonNeg(rm)
//@   loop 1 invariant [known] rmKnown(rm)
//@   loop 1 invariant [sameset] old(hostname in rm.reservations) ==> ((hostname in rm.reservations) && rm.reservations[hostname] == old(rm.reservations[hostname]))
//@   loop 1 invariant [newset] (!old(hostname in rm.reservations) && (hostname in rm.reservations)) ==> fresh(rm.reservations[hostname])
//@   loop 1 invariant [otherhosts] forall h string {h in rm.reservations} :: h != hostname ==> ((h in rm.reservations) == old(h in rm.reservations) && rm.reservations[h] == old(rm.reservations[h]))
//@   loop 1 invariant [held] forall id string {id in rm.reservations[hostname]} :: rmHeld(rm, hostname, id) <==> (old(rmHeld(rm, hostname, id)) || ridIn(offerings, $i + 1, id))
//@   loop 1 invariant [capacity] forall id string {rm.capacity[id]} :: rmCap(rm, id) == old(rmCap(rm, id)) - ((rmHeld(rm, hostname, id) && !old(rmHeld(rm, hostname, id))) ? 1 : 0)
//@   loop 1 invariant [keys] forall id string {id in rm.capacity} :: (id in rm.capacity) <==> old(id in rm.capacity)
//@   loop 1 invariant [others] forall h string, id string {id in rm.reservations[h]} :: h != hostname ==> (rmHeld(rm, h, id) <==> old(rmHeld(rm, h, id)))

//@ func (*ReservationManager).Release
//@   prop C17
//@   nopanic
//@   requires [wf] ofsOK(rm, offerings)
//@   repinv [maps] rmMaps(rm)
//@   repinv [sets] rmSets(rm)
//@   repinv [apart] rmApart(rm)
//@   repinv [nonneg] rmNonNeg(rm)
//@   repinv [known] rmKnown(rm)
//@   modifies rm.capacity[:], rm.reservations[hostname][:]
//@   ensures [held] forall id string {id in rm.reservations[hostname]} :: rmHeld(rm, hostname, id) <==> (old(rmHeld(rm, hostname, id)) && !ridIn(offerings, len(offerings), id))
//@   ensures [capacity] forall id string {rm.capacity[id]} :: rmCap(rm, id) == old(rmCap(rm, id)) + ((old(rmHeld(rm, hostname, id)) && !rmHeld(rm, hostname, id)) ? 1 : 0)
//@   ensures [keys] forall id string {id in rm.capacity} :: (id in rm.capacity) <==> old(id in rm.capacity)
//@   ensures [others] forall h string, id string {id in rm.reservations[h]} :: h != hostname ==> (rmHeld(rm, h, id) <==> old(rmHeld(rm, h, id)))
//@   loop 1 invariant [nonneg] rmNonNeg(rm)
//@   loop 1 invariant [known] rmKnown(rm)
//@   loop 1 invariant [held] forall id string {id in rm.reservations[hostname]} :: rmHeld(rm, hostname, id) <==> (old(rmHeld(rm, hostname, id)) && !ridIn(offerings, $i + 1, id))
//@   loop 1 invariant [capacity] forall id string {rm.capacity[id]} :: rmCap(rm, id) == old(rmCap(rm, id)) + ((old(rmHeld(rm, hostname, id)) && !rmHeld(rm, hostname, id)) ? 1 : 0)
//@   loop 1 invariant [keys] forall id string {id in rm.capacity} :: (id in rm.capacity) <==> old(id in rm.capacity)
//@   loop 1 invariant [others] forall h string, id string {id in rm.reservations[h]} :: h != hostname ==> (rmHeld(rm, h, id) <==> old(rmHeld(rm, h, id)))

// The counting argument, kept at lemma level (the number of hostnames holding an id is not a term of the contract
// language). Let h be the number of hostnames holding id and c = rmCap(id). Reserve / Release / releaseReservedOfferings
// change c by -g+l, where g (l) says whether the acting hostname gained (lost) id, i.e. h changes by +g-l, and nothing
// else changes ([capacity], [held], [others] above). So c + h is constant and, with c >= 0 (rmNonNeg), h never exceeds
// the initial capacity, which NewReservationManager bounds by the ReservationCapacity of every offering with that id.
//@ lemma holdersBounded [C17]: forall c int, h int, c2 int, h2 int, init int, g int, l int :: (c + h == init && 0 <= g && g <= 1 && 0 <= l && l <= 1 && c2 == c - g + l && h2 == h + g - l && c2 >= 0) ==> (c2 + h2 == init && h2 <= init)

// ---- initialisation from the catalog ----
// A catalog is well formed when every offering has a single capacity type, and every reserved offering a single
// reservation id and a non-negative reservation capacity.
//@ pure resOf(o *cloudprovider.Offering) bool = cloudprovider.ctype(o) == v1.CapacityTypeReserved
//@ pure oCatOK(o *cloudprovider.Offering) bool = cloudprovider.ctOK(o) && (resOf(o) ==> (cloudprovider.ridOK(o) && o.ReservationCapacity >= 0))
//@ pure ofsCatOK(ofs []*cloudprovider.Offering) bool = forall b int {ofs[b]} :: (0 <= b && b < len(ofs)) ==> oCatOK(ofs[b])
//@ pure itsCatOK(its []*cloudprovider.InstanceType) bool = forall a int {its[a]} :: (0 <= a && a < len(its)) ==> (its[a] != nil && ofsCatOK(its[a].Offerings))
// (Parameters typed `loc` are maps: the contract parser has no map[K]V type syntax; the macro uses the argument's own type.)
//@ pure catOK(cat loc) bool = forall k string {k in cat} :: (k in cat) ==> itsCatOK(cat[k])
// Every reserved offering among the first n has its id tracked with at most the offering's capacity.
//@ pure ofsBound(c loc, ofs []*cloudprovider.Offering, n int) bool = forall b int {ofs[b]} :: (0 <= b && b < n && resOf(ofs[b])) ==> ((cloudprovider.rid(ofs[b]) in c) && c[cloudprovider.rid(ofs[b])] <= ofs[b].ReservationCapacity)
//@ pure itsBound(c loc, its []*cloudprovider.InstanceType, n int) bool = forall a int {its[a]} :: (0 <= a && a < n) ==> ofsBound(c, its[a].Offerings, len(its[a].Offerings))
// The tracked capacity of id is the capacity of one of the first n reserved offerings with that id (so together with
// ofsBound: the minimum).
//@ pure ofsAtt(c loc, ofs []*cloudprovider.Offering, n int, id string) bool = exists b int {ofs[b]} :: 0 <= b && b < n && resOf(ofs[b]) && cloudprovider.rid(ofs[b]) == id && c[id] == ofs[b].ReservationCapacity
//@ pure itsAtt(c loc, its []*cloudprovider.InstanceType, n int, id string) bool = exists a int {its[a]} :: 0 <= a && a < n && ofsAtt(c, its[a].Offerings, len(its[a].Offerings), id)

//@ func NewReservationManager
//@   prop C17
//@   nopanic
//@   requires [wf] catOK(instanceTypes)
//@   modifies nothing
//@   ensures [fresh] fresh(result) && fresh(result.reservations) && fresh(result.capacity)
//@   ensures [maps] rmMaps(result)
//@   ensures [sets] rmSets(result)
//@   ensures [apart] rmApart(result)
//@   ensures [nonneg] rmNonNeg(result)
//@   ensures [known] rmKnown(result)
//@   ensures [noholders] forall h string {h in result.reservations} :: !(h in result.reservations)
//@   ensures [bounded] forall k string {k in instanceTypes} :: (k in instanceTypes) ==> itsBound(result.capacity, instanceTypes[k], len(instanceTypes[k]))
//@   ensures [attained] forall id string {id in result.capacity} :: (id in result.capacity) ==> (exists k string {k in instanceTypes} :: (k in instanceTypes) && itsAtt(result.capacity, instanceTypes[k], len(instanceTypes[k]), id))
//@   loop 1 invariant [attained] forall id string {id in capacity} :: (id in capacity) ==> (exists k string {seen(k)} :: seen(k) && itsAtt(capacity, instanceTypes[k], len(instanceTypes[k]), id))
//@   loop 2 invariant [attained] forall id string {id in capacity} :: (id in capacity) ==> ((loopentry(id in capacity) && capacity[id] == loopentry(capacity[id])) || itsAtt(capacity, its, $i + 1, id))
//@   loop 3 invariant [attained] forall id string {id in capacity} :: (id in capacity) ==> ((loopentry(id in capacity) && capacity[id] == loopentry(capacity[id])) || ofsAtt(capacity, it.Offerings, $i + 1, id))
//@   loop 1 invariant [nonneg] forall id string {capacity[id]} :: capacity[id] >= 0
//@   loop 1 invariant [bounded] forall k string {seen(k)} :: seen(k) ==> itsBound(capacity, instanceTypes[k], len(instanceTypes[k]))
//@   loop 2 invariant [nonneg] forall id string {capacity[id]} :: capacity[id] >= 0
//@   loop 2 invariant [mono] forall id string {capacity[id]} {id in capacity} :: loopentry(id in capacity) ==> ((id in capacity) && capacity[id] <= loopentry(capacity[id]))
//@   loop 2 invariant [bounded] itsBound(capacity, its, $i + 1)
//@   loop 3 invariant [nonneg] forall id string {capacity[id]} :: capacity[id] >= 0
//@   loop 3 invariant [mono] forall id string {capacity[id]} {id in capacity} :: loopentry(id in capacity) ==> ((id in capacity) && capacity[id] <= loopentry(capacity[id]))
//@   loop 3 invariant [bounded] ofsBound(capacity, it.Offerings, $i + 1)

// ---- C17: NodeClaim side ----
// releaseReservedOfferings gives back exactly the reservations of this NodeClaim's hostname whose id occurs in
// `current` but not in `updated`; one slot per id actually given back; nothing else changes.
//@ pure ridInAll(ofs []*cloudprovider.Offering, id string) bool = ridIn(ofs, len(ofs), id)
//@ func (*NodeClaim).releaseReservedOfferings
//@   prop C17
//@   nopanic
//@   requires [rm] rmInv(n.reservationManager)
//@   requires [wfcurrent] ofsOK(n.reservationManager, current)
//@   requires [wfupdated] ofsOK(n.reservationManager, updated)
//@   modifies n.reservationManager.capacity[:], n.reservationManager.reservations[n.hostname][:]
//@   let rm = n.reservationManager
//@   ensures [rm] rmInv(rm)
//@   ensures [held] forall id string {id in rm.reservations[n.hostname]} :: rmHeld(rm, n.hostname, id) <==> (old(rmHeld(rm, n.hostname, id)) && !(ridInAll(current, id) && !ridInAll(updated, id)))
//@   ensures [capacity] forall id string {rm.capacity[id]} :: rmCap(rm, id) == old(rmCap(rm, id)) + ((old(rmHeld(rm, n.hostname, id)) && !rmHeld(rm, n.hostname, id)) ? 1 : 0)
//@   ensures [keys] forall id string {id in rm.capacity} :: (id in rm.capacity) <==> old(id in rm.capacity)
//@   ensures [others] forall h string, id string {id in rm.reservations[h]} :: h != n.hostname ==> (rmHeld(rm, h, id) <==> old(rmHeld(rm, h, id)))
//@   loop 1 invariant [ids] fresh(updatedIDs) && updatedIDs != nil && (forall id string {id in updatedIDs} :: (id in updatedIDs) <==> ridIn(updated, $i + 1, id))
//@   loop 1 invariant [untouched] forall id string {id in rm.reservations[n.hostname]} :: rmHeld(rm, n.hostname, id) <==> old(rmHeld(rm, n.hostname, id))
//@   loop 2 invariant [ids] forall id string {id in updatedIDs} :: (id in updatedIDs) <==> ridInAll(updated, id)
//@   loop 2 invariant [held] forall id string {id in rm.reservations[n.hostname]} :: rmHeld(rm, n.hostname, id) <==> (old(rmHeld(rm, n.hostname, id)) && !(ridIn(current, $i + 1, id) && !ridInAll(updated, id)))
//@   loop 2 invariant [capacity] forall id string {rm.capacity[id]} :: rmCap(rm, id) == old(rmCap(rm, id)) + ((old(rmHeld(rm, n.hostname, id)) && !rmHeld(rm, n.hostname, id)) ? 1 : 0)
//@   loop 2 invariant [keys] forall id string {id in rm.capacity} :: (id in rm.capacity) <==> old(id in rm.capacity)
//@   loop 2 invariant [others] forall h string, id string {id in rm.reservations[h]} :: h != n.hostname ==> (rmHeld(rm, h, id) <==> old(rmHeld(rm, h, id)))

// offeringsToReserve (the decision taken in CanAdd; nothing is reserved yet).
// canRes: what CanReserve answers. itsTracked: the candidate instance types are well formed, share nothing with the
// manager, and every reserved offering's id is known to the manager (it was built from a catalog containing them).
// Ghosts: sawCompatible = some compatibility test (run for the reserved, available offerings of the candidates
// against the given requirements) answered true; sawReservable = some CanReserve call answered true.
//@ pure canRes(rm *ReservationManager, h string, o *cloudprovider.Offering) bool = rmHeld(rm, h, cloudprovider.rid(o)) || rmCap(rm, cloudprovider.rid(o)) > 0
//@ pure ofsTracked(rm *ReservationManager, ofs []*cloudprovider.Offering) bool = forall b int {ofs[b]} :: (0 <= b && b < len(ofs)) ==> (cloudprovider.ctOK(ofs[b]) && (resOf(ofs[b]) ==> (ofOK(rm, ofs[b]) && (cloudprovider.rid(ofs[b]) in rm.capacity))))
//@ pure itsTracked(rm *ReservationManager, its []*cloudprovider.InstanceType) bool = forall a int {its[a]} :: (0 <= a && a < len(its)) ==> (its[a] != nil && ofsTracked(rm, its[a].Offerings))
//@ pure fromIts(its []*cloudprovider.InstanceType, n int, o *cloudprovider.Offering) bool = exists a int {its[a]} :: 0 <= a && a < n && (exists b int {its[a].Offerings[b]} :: 0 <= b && b < len(its[a].Offerings) && its[a].Offerings[b] == o)
//@ pure ownOfs(s []*cloudprovider.Offering) bool = loc(s) == nil || fresh(s)
//@ func (*NodeClaim).offeringsToReserve
//@   prop C17
//@   requires [rm] rmInv(n.reservationManager)
//@   requires [reqs] scheduling.rsInv(nodeClaimRequirements)
//@   requires [catalog] itsTracked(n.reservationManager, instanceTypes)
//@   modifies nothing
//@   ghost sawCompatible, sawReservable
//@   after (Requirements).IsCompatible set sawCompatible = sawCompatible || $r0
//@   after (*ReservationManager).CanReserve set sawReservable = sawReservable || $r0
//@   let rm = n.reservationManager
//@   let gate = (@options.FromContext).FeatureGates.ReservedCapacity
//@   let strict = n.reservedOfferingMode == ReservedOfferingModeStrict
//@   site (Requirements).IsCompatible requires [tested] $0 == nodeClaimRequirements && $1 == o.Requirements && resOf(o) && o.Available
//@   site (*ReservationManager).CanReserve requires [known] $0 == rm && $1 == n.hostname && (cloudprovider.rid($2) in rm.capacity)
//@   ensures [gateoff] !gate ==> (len(result.0) == 0 && result.1 == nil)
//@   ensures [strict] (gate && strict && sawCompatible && !sawReservable) ==> (len(result.0) == 0 && IsReservedOfferingError(result.1))
//@   ensures [strictnarrowed] (gate && strict && len(n.reservedOfferings) != 0 && !sawReservable) ==> (len(result.0) == 0 && IsReservedOfferingError(result.1))
//@   ensures [errexact] gate ==> ((result.1 != nil) <==> (strict && !sawReservable && (sawCompatible || len(n.reservedOfferings) != 0)))
//@   ensures [nonempty] gate ==> (sawReservable <==> len(result.0) > 0)
//@   ensures [elems] forall j int {result.0[j]} :: (0 <= j && j < len(result.0)) ==> (ofOK(rm, result.0[j]) && canRes(rm, n.hostname, result.0[j]) && resOf(result.0[j]) && result.0[j].Available && fromIts(instanceTypes, len(instanceTypes), result.0[j]))
//@   loop 1 invariant [compat] hasCompatibleOffering == sawCompatible
//@   loop 1 invariant [reservable] sawReservable <==> len(reservedOfferings) > 0
//@   loop 1 invariant [own] ownOfs(reservedOfferings)
//@   loop 1 invariant [elems] forall j int {reservedOfferings[j]} :: (0 <= j && j < len(reservedOfferings)) ==> (ofOK(rm, reservedOfferings[j]) && canRes(rm, n.hostname, reservedOfferings[j]) && resOf(reservedOfferings[j]) && reservedOfferings[j].Available && fromIts(instanceTypes, $i + 1, reservedOfferings[j]))
//@   loop 2 invariant [compat] hasCompatibleOffering == sawCompatible
//@   loop 2 invariant [reservable] sawReservable <==> len(reservedOfferings) > 0
//@   loop 2 invariant [own] ownOfs(reservedOfferings)
//@   loop 2 invariant [elems] forall j int {reservedOfferings[j]} :: (0 <= j && j < len(reservedOfferings)) ==> (ofOK(rm, reservedOfferings[j]) && canRes(rm, n.hostname, reservedOfferings[j]) && resOf(reservedOfferings[j]) && reservedOfferings[j].Available && fromIts(instanceTypes, $i1 + 2, reservedOfferings[j]))

