/*
Copyright The Kubernetes Authors.

Licensed under the Apache License, Version 2.0 (the "License");
you may not use this file except in compliance with the License.
You may obtain a copy of the License at

    http://www.apache.org/licenses/LICENSE-2.0

Unless required by applicable law or agreed to in writing, software
distributed under the License is distributed on an "AS IS" BASIS,
WITHOUT WARRANTIES OR CONDITIONS OF ANY KIND, either express or implied.
See the License for the specific language governing permissions and
limitations under the License.
*/

package scheduling

import (
	"fmt"

	"k8s.io/apimachinery/pkg/util/sets"

	v1 "sigs.k8s.io/karpenter/pkg/apis/v1"
	"sigs.k8s.io/karpenter/pkg/cloudprovider"
)

type ReservationManager struct {
	reservations map[string]sets.Set[string] // hostname -> set[reservation id]
	capacity     map[string]int              // reservation id -> count
}

func NewReservationManager(instanceTypes map[string][]*cloudprovider.InstanceType) *ReservationManager {
	capacity := map[string]int{}
	for _, its := range instanceTypes {
		for _, it := range its {
			for _, o := range it.Offerings {
				if o.CapacityType() != v1.CapacityTypeReserved {
					continue
				}
				// If we have multiple offerings with the same reservation ID, track the one with the least capacity. This could be
				// the result of multiple nodepools referencing the same capacity reservation, and there being an update to the
				// capacity between calls to GetInstanceTypes.
				if current, ok := capacity[o.ReservationID()]; !ok || current > o.ReservationCapacity {
					capacity[o.ReservationID()] = o.ReservationCapacity
				}
			}
		}
	}
	return &ReservationManager{
		reservations: map[string]sets.Set[string]{},
		capacity:     capacity,
	}
}

// Should always be idempotent
func (rm *ReservationManager) CanReserve(hostname string, offering *cloudprovider.Offering) bool {
	reservations, ok := rm.reservations[hostname]
	if ok && reservations.Has(offering.ReservationID()) {
		return true
	}
	capacity, ok := rm.capacity[offering.ReservationID()]
	if !ok {
		// Note: this panic should never occur, and would indicate a serious bug in the scheduling code.
		panic(fmt.Sprintf("attempted to reserve non-existent offering with reservation id %q", offering.ReservationID()))
	}
	if capacity < 0 {
		return false
	}
	return true
}

// Should always be idempotent
func (rm *ReservationManager) Reserve(hostname string, offerings ...*cloudprovider.Offering) {
	for _, of := range offerings {
		reservations, ok := rm.reservations[hostname]
		if ok && reservations.Has(of.ReservationID()) {
			continue
		}
		rm.capacity[of.ReservationID()] -= 1
		if rm.capacity[of.ReservationID()] < 0 {
			panic(fmt.Sprintf("attempted to over-reserve an offering with reservation id %q", of.ReservationID()))
		}
		if !ok {
			rm.reservations[hostname] = sets.New[string]()
		}
		rm.reservations[hostname].Insert(of.ReservationID())
	}
}

func (rm *ReservationManager) Release(hostname string, offerings ...*cloudprovider.Offering) {
	for _, o := range offerings {
		if reservations, ok := rm.reservations[hostname]; ok && reservations.Has(o.ReservationID()) {
			reservations.Delete(o.ReservationID())
			rm.capacity[o.ReservationID()] += 1
		}
	}
}

func (rm *ReservationManager) HasReservation(hostname string, offering *cloudprovider.Offering) bool {
	reservation, ok := rm.reservations[hostname]
	if ok && reservation.Has(offering.ReservationID()) {
		return true
	}
	return false
}

func (rm *ReservationManager) RemainingCapacity(offering *cloudprovider.Offering) int {
	return rm.capacity[offering.ReservationID()]
}
