//go:build verif

// Draft contracts (C05b) for the deductive verifier in /verif (kvc). Comment-only: this file adds no code.
package disruption

// ---- C05: per-method consumption of the remaining-budget mapping ----
//
// poolName: the key under which a candidate consumes the mapping.
// cntP(xs, i, p, onlyEmpty): number of candidates among xs[0..i) that belong to pool p (and, with onlyEmpty, are
// empty in the sense of Candidate.IsEmpty) — the candidates that ask for a unit of pool p's budget, in order.
//@ pure poolName(c *Candidate) string = c.NodePool.Name
//@ rec cntP(xs []*Candidate, i int, p string, onlyEmpty bool) int = i <= 0 ? 0 : cntP(xs, i - 1, p, onlyEmpty) + ((poolName(xs[i - 1]) == p && (!onlyEmpty || isEmptySpec(xs[i - 1]))) ? 1 : 0)
// rankOK(xs, j, b, onlyEmpty): xs[j] asks and is among the first b askers of its own pool. A method that walks xs in order
// with remaining budget b for that pool may select exactly these. cntTaken counts them for pool p: never more than b.
//@ pure rankOK(xs []*Candidate, j int, b int, onlyEmpty bool) bool = (!onlyEmpty || isEmptySpec(xs[j])) && cntP(xs, j + 1, poolName(xs[j]), onlyEmpty) <= b
//@ rec cntTaken(xs []*Candidate, i int, p string, b int, onlyEmpty bool) int = i <= 0 ? 0 : cntTaken(xs, i - 1, p, b, onlyEmpty) + ((poolName(xs[i - 1]) == p && rankOK(xs, i - 1, b, onlyEmpty)) ? 1 : 0)

// Emptiness (C05 + the C06 clauses [onlyEmptyNodes], [deleteOnly], [own], moved here verbatim from
// zz_contracts_C06_verif.go; the overlay copy of that file only lacks this one contract).
// Reference state S = right after sortCandidates (the walk order is fixed from there on; the []*Candidate cells written
// later are only those of the output slice, so every counting function is evaluated in S).
//   [decrementPerTaken]      mapping[p] == max(0, handed-in[p] - #empty candidates of p seen so far): one unit per selection.
//   [selected]/[withinBudget] every selected candidate (every candidate of the command handed to validation) is the
//                            content of some position j of the sorted candidates that is empty and among the first
//                            handed-in[pool] empty candidates of its pool.
//   [selectableWithinBudget] the number of such positions of pool p is min(handed-in[p], #empty of p) <= handed-in[p].
// Not expressed: that distinct elements of the command come from distinct positions (needs the output index as a
// counting function of the budgets map; map-typed spec parameters are not accepted) — see the report.
//@ func (*Emptiness).ComputeCommands
//@   prop C06 C05
//@   requires [remainingNonNegative] forall p string {disruptionBudgetMapping[p]} :: disruptionBudgetMapping[p] >= 0
//@   modifies *
//@   site (Validator).Validate requires [onlyEmptyNodes] forall k int {$2.Candidates[k]} :: (0 <= k && k < len($2.Candidates)) ==> isEmptySpec($2.Candidates[k])
//@   site (Validator).Validate requires [deleteOnly] len($2.Replacements) == 0
//@   site (Validator).Validate requires [budgetsAsHandedIn] forall p string {old(disruptionBudgetMapping[p])} :: atcall(@(*consolidation).sortCandidates, disruptionBudgetMapping[p]) == old(disruptionBudgetMapping[p])
//@   site (Validator).Validate requires [withinBudget] forall k int {$2.Candidates[k]} :: (0 <= k && k < len($2.Candidates)) ==> (exists j int {candidates[j]} :: 0 <= j && j < len(candidates) && atcall(@(*consolidation).sortCandidates, candidates[j]) == $2.Candidates[k] && atcall(@(*consolidation).sortCandidates, rankOK(candidates, j, disruptionBudgetMapping[poolName(candidates[j])], true)))
//@   site (Validator).Validate requires [selectableWithinBudget] forall p string {old(disruptionBudgetMapping[p])} :: atcall(@(*consolidation).sortCandidates, cntTaken(candidates, len(candidates), p, disruptionBudgetMapping[p], true)) <= old(disruptionBudgetMapping[p])
//@   loop 1 invariant [own] fresh(empty)
//@   loop 1 invariant [room] len(empty) <= $i + 1 && cap(empty) >= len(candidates) && loc(empty) != loc(candidates)
//@   loop 1 invariant [onlyEmptyNodes] forall k int {empty[k]} :: (0 <= k && k < len(empty)) ==> isEmptySpec(empty[k])
//@   loop 1 invariant [entryNonNegative] forall p string {old(disruptionBudgetMapping[p])} :: old(disruptionBudgetMapping[p]) >= 0 && atcall(@(*consolidation).sortCandidates, disruptionBudgetMapping[p]) == old(disruptionBudgetMapping[p])
//@   loop 1 invariant [cands] forall j int {candidates[j]} :: (0 <= j && j < len(candidates)) ==> candidates[j] == atcall(@(*consolidation).sortCandidates, candidates[j])
//@   loop 1 invariant [decrementPerTaken] forall p string {disruptionBudgetMapping[p]} :: disruptionBudgetMapping[p] == max(0, old(disruptionBudgetMapping[p]) - atcall(@(*consolidation).sortCandidates, cntP(candidates, $i + 1, p, true)))
//@   loop 1 invariant [selected] forall k int {empty[k]} :: (0 <= k && k < len(empty)) ==> (exists j int {candidates[j]} :: 0 <= j && j <= $i && atcall(@(*consolidation).sortCandidates, candidates[j]) == empty[k] && atcall(@(*consolidation).sortCandidates, rankOK(candidates, j, disruptionBudgetMapping[poolName(candidates[j])], true)))
//@   loop 1 invariant [selectableWithinBudget] forall p string {old(disruptionBudgetMapping[p])} :: atcall(@(*consolidation).sortCandidates, cntTaken(candidates, $i + 1, p, disruptionBudgetMapping[p], true)) == min(old(disruptionBudgetMapping[p]), atcall(@(*consolidation).sortCandidates, cntP(candidates, $i + 1, p, true)))

// Drift: at most one command, with exactly one candidate; a candidate is only simulated — and a command only built for the
// candidate that was just simulated — right after its pool's mapping entry was found non-zero. (Stated on the state at the
// check: slices.Concat / SimulateScheduling have no model and, by the engine's type-based havoc, may rewrite any
// map[string]int, so "equal to the value handed in" and "> 0" cannot be carried across them; see the report.)
//@ func (*Drift).ComputeCommands
//@   prop C05
//@   modifies *
//@   site SimulateScheduling requires [oneCandidate] len($7) == 1 && $7[0] == candidate
//@   site SimulateScheduling requires [budgetLeft] disruptionBudgetMapping[poolName(candidate)] != 0
//@   ensures [atMostOneCommand] len(result.0) <= 1
//@   site replacementsFromNodeClaims requires [ofTheCheckedCandidate] beforecall(@SimulateScheduling, disruptionBudgetMapping[poolName(candidate)] != 0)
//@   ensures [commandOfTheCheckedCandidate] len(result.0) == 1 ==> (len(result.0[0].Candidates) == 1 && result.0[0].Candidates[0] == candidate && len(result.0[0].Replacements) == len(@replacementsFromNodeClaims))

// prefixOf(a, b): a is b[0:len(a)], stated heap-independently: no longer than b and, unless empty, a view of the same backing
// array with the same capacity (two views of one array with equal capacity start at the same cell; the spec language has
// neither b[0:n] nor &a[0], see the report).
//@ pure prefixOf(a []*Candidate, b []*Candidate) bool = len(a) <= len(b) && (len(a) > 0 ==> (loc(a) == loc(b) && cap(a) == cap(b)))

// Multi-node consolidation: the candidates handed to the search are selected exactly like Emptiness selects (every
// candidate asks): entry decremented per selected candidate, each selected candidate is among the first
// mapping[pool] candidates of its pool. The search gets this selection and nothing else, and the command handed to
// validation is a prefix of it.
//@ func (*MultiNodeConsolidation).ComputeCommands
//@   prop C05
//@   requires [remainingNonNegative] forall p string {disruptionBudgetMapping[p]} :: disruptionBudgetMapping[p] >= 0
//@   modifies *
//@   site (*MultiNodeConsolidation).firstNConsolidationOption requires [searchesTheSelection] $2 == disruptableCandidates
//@   site (*MultiNodeConsolidation).firstNConsolidationOption requires [budgetsAsHandedIn] forall p string {old(disruptionBudgetMapping[p])} :: atcall(@(*consolidation).sortCandidates, disruptionBudgetMapping[p]) == old(disruptionBudgetMapping[p])
//@   site (*MultiNodeConsolidation).firstNConsolidationOption requires [withinBudget] forall k int {$2[k]} :: (0 <= k && k < len($2)) ==> (exists j int {candidates[j]} :: 0 <= j && j < len(candidates) && atcall(@(*consolidation).sortCandidates, candidates[j]) == $2[k] && atcall(@(*consolidation).sortCandidates, rankOK(candidates, j, disruptionBudgetMapping[poolName(candidates[j])], false)))
//@   site (*MultiNodeConsolidation).firstNConsolidationOption requires [selectableWithinBudget] forall p string {old(disruptionBudgetMapping[p])} :: atcall(@(*consolidation).sortCandidates, cntTaken(candidates, len(candidates), p, disruptionBudgetMapping[p], false)) <= old(disruptionBudgetMapping[p])
//@   site (Validator).Validate requires [prefixOfTheSelection] prefixOf($2.Candidates, disruptableCandidates)
//@   loop 1 invariant [own] fresh(disruptableCandidates)
//@   loop 1 invariant [room] len(disruptableCandidates) <= $i + 1 && cap(disruptableCandidates) >= len(candidates) && loc(disruptableCandidates) != loc(candidates)
//@   loop 1 invariant [entryNonNegative] forall p string {old(disruptionBudgetMapping[p])} :: old(disruptionBudgetMapping[p]) >= 0 && atcall(@(*consolidation).sortCandidates, disruptionBudgetMapping[p]) == old(disruptionBudgetMapping[p])
//@   loop 1 invariant [cands] forall j int {candidates[j]} :: (0 <= j && j < len(candidates)) ==> candidates[j] == atcall(@(*consolidation).sortCandidates, candidates[j])
//@   loop 1 invariant [decrementPerTaken] forall p string {disruptionBudgetMapping[p]} :: disruptionBudgetMapping[p] == max(0, old(disruptionBudgetMapping[p]) - atcall(@(*consolidation).sortCandidates, cntP(candidates, $i + 1, p, false)))
//@   loop 1 invariant [selected] forall k int {disruptableCandidates[k]} :: (0 <= k && k < len(disruptableCandidates)) ==> (exists j int {candidates[j]} :: 0 <= j && j <= $i && atcall(@(*consolidation).sortCandidates, candidates[j]) == disruptableCandidates[k] && atcall(@(*consolidation).sortCandidates, rankOK(candidates, j, disruptionBudgetMapping[poolName(candidates[j])], false)))
//@   loop 1 invariant [selectableWithinBudget] forall p string {old(disruptionBudgetMapping[p])} :: atcall(@(*consolidation).sortCandidates, cntTaken(candidates, $i + 1, p, disruptionBudgetMapping[p], false)) == min(old(disruptionBudgetMapping[p]), atcall(@(*consolidation).sortCandidates, cntP(candidates, $i + 1, p, false)))

// The binary search only ever keeps the command computed for candidates[0 : mid+1] (computeConsolidation hands back exactly
// the candidates it was given, C06 [theseCandidates]): the result is empty or a prefix of the candidates it was given.
//@ func (*MultiNodeConsolidation).firstNConsolidationOption
//@   prop C05
//@   modifies *
//@   site (*consolidation).computeConsolidation requires [prefixOnly] len($2) == mid + 1 && prefixOf($2, candidates)
//@   ensures [prefix] prefixOf(result.0.Candidates, candidates)
//@   loop 1 invariant [range] 1 <= min && max < len(candidates)
//@   loop 1 invariant [savedIsPrefix] prefixOf(lastSavedCommand.Candidates, candidates)

// Single-node consolidation: a consolidation is only computed for one candidate at a time and only right after that
// candidate's pool entry was found non-zero (the entry is read in the state before the evaluator's threshold pre-check, the
// first unmodelled call after the budget check: by the engine's type-based havoc it may rewrite any map[string]int); the command validated and returned is the one computed for that candidate
// (computeConsolidation hands back exactly the candidates it was given, C06 [theseCandidates]).
//@ func (*SingleNodeConsolidation).ComputeCommands
//@   prop C05
//@   modifies *
//@   site (*consolidation).computeConsolidation requires [oneCandidate] len($2) == 1 && $2[0] == candidate
//@   site (Evaluator).CanPassThreshold requires [budgetLeft] $1 == candidate && disruptionBudgetMapping[poolName(candidate)] != 0
//@   site (*consolidation).computeConsolidation requires [budgetLeft] beforecall(@(Evaluator).CanPassThreshold, disruptionBudgetMapping[poolName(candidate)] != 0)
//@   site (Validator).Validate requires [theComputedCommand] $2.Candidates == (@(*consolidation).computeConsolidation).0.Candidates
//@   ensures [atMostOneCommand] len(result.0) <= 1
//@   ensures [theComputedCommand] len(result.0) == 1 ==> (len(result.0[0].Candidates) > 0 && len(result.0[0].Candidates) <= 1 && result.0[0].Candidates == (@(*consolidation).computeConsolidation).0.Candidates)

// Validation re-check (single- and multi-node consolidation): the budgets are recomputed (BuildDisruptionBudgetMapping,
// under contract: per pool, allowed minus already-disrupting nodes) and the candidates are accepted only all together, each
// one consuming a unit of its pool's recomputed entry: for every pool the number of accepted candidates of that pool is at
// most the recomputed entry. The recomputation is for the validator's own reason.
//@ func (*ConsolidationValidator).validateCandidates
//@   prop C05
//@   modifies *
//@   site BuildDisruptionBudgetMapping requires [forTheMethodsReason] $6 == c.reason
//@   ensures [withinRecomputedBudget] result.1 == nil ==> (forall p string {atcall(@BuildDisruptionBudgetMapping, disruptionBudgetMapping[p])} :: atcall(@BuildDisruptionBudgetMapping, disruptionBudgetMapping[p]) >= 0 ==> atcall(@BuildDisruptionBudgetMapping, cntP(result.0, len(result.0), p, false)) <= atcall(@BuildDisruptionBudgetMapping, disruptionBudgetMapping[p]))
//@   ensures [allOrNothing] result.1 == nil ==> len(result.0) == len(candidates)
//@   loop 1 invariant [cands] forall j int {validatedCandidates[j]} :: (0 <= j && j < len(validatedCandidates)) ==> validatedCandidates[j] == atcall(@BuildDisruptionBudgetMapping, validatedCandidates[j])
//@   loop 1 invariant [pools] forall j int {validatedCandidates[j]} :: (0 <= j && j < len(validatedCandidates)) ==> validatedCandidates[j].NodePool == atcall(@BuildDisruptionBudgetMapping, validatedCandidates[j].NodePool)
//@   loop 1 invariant [consumed] forall p string {disruptionBudgetMapping[p]} :: disruptionBudgetMapping[p] + atcall(@BuildDisruptionBudgetMapping, cntP(validatedCandidates, $i + 1, p, false)) == atcall(@BuildDisruptionBudgetMapping, disruptionBudgetMapping[p])
//@   loop 1 invariant [neverBelowZero] forall p string {disruptionBudgetMapping[p]} :: atcall(@BuildDisruptionBudgetMapping, disruptionBudgetMapping[p]) >= 0 ==> disruptionBudgetMapping[p] >= 0
