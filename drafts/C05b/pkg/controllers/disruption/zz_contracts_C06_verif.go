//go:build verif

// Draft contracts (C06) for the deductive verifier in /verif (kvc). Comment-only: this file adds no code.
package disruption

// ---- C06: consolidation keeps pods schedulable and strictly lowers cost (decision logic) ----
//
// The scheduling simulation (SimulateScheduling -> Scheduler.Solve) is out of reach of the verifier; its result is
// taken as an arbitrary value that is well-formed ([wellFormedSimulationResult], an ASSUMPTION listed in the
// evidence: every new NodeClaim is non-nil and carries well-formed requirement sets / catalog entries, which is
// what the C12/C19 contracts of Requirements.Get/Add, OrderByPrice and IsCompatible ask of their operands).
// What is decided here is the guard logic between the simulation and the Command:
//   * a command that removes nodes is only built after a successful simulation of removing ALL the given candidates
//     in which every non-pending pod found a home ([allPodsHaveAHome]);
//   * never more than one replacement ([atMostOneReplacement]); a delete-only command only when the simulation
//     needed no new NodeClaim ([deleteOnlyWithoutNewNodeClaim]);
//   * the replacement is the simulated NodeClaim after RemoveInstanceTypeOptionsByPriceAndMinValues succeeded on it
//     with maxPrice = sumCandidatePrices(candidates), unchanged ([combinedPriceUnchanged], [strictlyCheaperOptionsOnly]),
//     under the replacement's own requirements ([filtersTheReplacement]), and it kept at least one option ([hasAnOption]);
//   * no on-demand fallback ([noOnDemandFallback]): after the price filter the replacement's capacity-type requirement
//     is inspected, and unless one of spot / on-demand is NOT admitted, the requirement set is tightened with
//     capacity-type In [spot] before the command is built (ghost fallbackPossible: set by the filter, cleared by a
//     negative Has answer or by the pin).
//@ func (*consolidation).computeConsolidation
//@   prop C06
//@   modifies *
//@   after SimulateScheduling assume [labelConfig] !(v1.CapacityTypeLabelKey in v1.NormalizedLabels)
//@   after SimulateScheduling assume [capacityTypeClassesWellFormed] cloudprovider.c6ctReqsOK()
//@   after SimulateScheduling assume [wellFormedSimulationResult] forall k int {$r0.NewNodeClaims[k]} :: (0 <= k && k < len($r0.NewNodeClaims)) ==> c6claimOK($r0.NewNodeClaims[k])
//@   ghost simulated, filtered, fallbackPossible, spotToSpot
//@   after SimulateScheduling set simulated = $r1 == nil
//@   after (*NodeClaim).RemoveInstanceTypeOptionsByPriceAndMinValues set filtered = $r1 == nil
//@   after (*NodeClaim).RemoveInstanceTypeOptionsByPriceAndMinValues set fallbackPossible = true
//@   after (*Requirement).Has set fallbackPossible = fallbackPossible && $r0
//@   after (Requirements).Add set fallbackPossible = false
//@   after (*consolidation).computeSpotToSpotConsolidation set spotToSpot = true
//@   site SimulateScheduling requires [simulatesRemovalOfAllCandidates] $7 == candidates
//@   site (Results).AllNonPendingPodsScheduled requires [ofThisSimulation] simulated
//@   site sumCandidatePrices requires [priceOfAllCandidates] $0 == candidates
//@   site (*NodeClaim).RemoveInstanceTypeOptionsByPriceAndMinValues requires [combinedPriceUnchanged] $2 == (@sumCandidatePrices)
//@   site (*NodeClaim).RemoveInstanceTypeOptionsByPriceAndMinValues requires [filtersTheReplacement] $0 == results.NewNodeClaims[0] && $1 == results.NewNodeClaims[0].Requirements
//@   site (*consolidation).computeSpotToSpotConsolidation requires [combinedPriceUnchanged] $4 == (@sumCandidatePrices) && $2 == candidates
//@   site (*consolidation).computeSpotToSpotConsolidation requires [onlyAllSpotToSpot] allExistingAreSpot && (@(*Requirement).Has)
//@   site (Requirements).Get requires [capacityTypeOfTheReplacement] $0 == results.NewNodeClaims[0].Requirements && $1 == v1.CapacityTypeLabelKey
//@   site (*Requirement).Has requires [capacityTypeOfTheReplacement] $0 == (@(Requirements).Get) && ($1 == v1.CapacityTypeSpot || $1 == v1.CapacityTypeOnDemand)
//@   site scheduling.NewRequirement requires [spotOnly] $0 == v1.CapacityTypeLabelKey && $1 == corev1.NodeSelectorOpIn && len($2) == 1 && $2[0] == v1.CapacityTypeSpot
//@   site (Requirements).Add requires [pinsTheReplacement] $0 == results.NewNodeClaims[0].Requirements && len($1) == 1 && $1[0] == (@scheduling.NewRequirement)
//@   site replacementsFromNodeClaims requires [allPodsHaveAHome] simulated && (@(Results).AllNonPendingPodsScheduled)
//@   site replacementsFromNodeClaims requires [oneReplacement] len($0) == 1
//@   site replacementsFromNodeClaims requires [strictlyCheaperOptionsOnly] filtered && $0[0] == (@(*NodeClaim).RemoveInstanceTypeOptionsByPriceAndMinValues).0
//@   site replacementsFromNodeClaims requires [hasAnOption] len($0[0].InstanceTypeOptions) > 0
//@   site replacementsFromNodeClaims requires [noOnDemandFallback] !fallbackPossible
//@   ensures [allPodsHaveAHome] len(result.0.Candidates) > 0 ==> (simulated && (@(Results).AllNonPendingPodsScheduled))
//@   ensures [atMostOneReplacement] len(result.0.Replacements) <= 1
//@   ensures [deleteOnlyWithoutNewNodeClaim] (len(result.0.Candidates) > 0 && len(result.0.Replacements) == 0) ==> len(results.NewNodeClaims) == 0
//@   ensures [replacementIsPriceFiltered] (len(result.0.Replacements) > 0 && !spotToSpot) ==> (filtered && !fallbackPossible)
//@   ensures [theseCandidates] len(result.0.Candidates) > 0 ==> result.0.Candidates == candidates
//@   ensures [noCommandOnError] result.1 != nil ==> len(result.0.Candidates) == 0
//@   loop 1 invariant [ghosts] simulated && !filtered && !fallbackPossible && !spotToSpot

// Spot-to-spot: only with the feature gate on; the replacement is pinned to spot BEFORE its options are reduced to
// spot-compatible ones and price-filtered (same maxPrice as handed in); a single candidate additionally needs at
// least MinInstanceTypesForSpotToSpotConsolidation strictly cheaper options and the launch list is cut to that many
// (or to the number of types the minValues floors need, if larger).
//@ func (*consolidation).computeSpotToSpotConsolidation
//@   prop C06
//@   requires [oneReplacement] len(results.NewNodeClaims) == 1 && c6claimOK(results.NewNodeClaims[0]) && cloudprovider.c6ctReqsOK()
//@   requires [labelConfig] !(v1.CapacityTypeLabelKey in v1.NormalizedLabels)
//@   modifies *
//@   ghost gateOn, pinned, filtered, cut
//@   after lo.Slice set cut = true
//@   after options.FromContext set gateOn = $r0.FeatureGates.SpotToSpotConsolidation
//@   after (Requirements).Add set pinned = true
//@   after (*NodeClaim).RemoveInstanceTypeOptionsByPriceAndMinValues set filtered = $r1 == nil
//@   site scheduling.NewRequirement requires [spotOnly] $0 == v1.CapacityTypeLabelKey && $1 == corev1.NodeSelectorOpIn && len($2) == 1 && $2[0] == v1.CapacityTypeSpot
//@   site (Requirements).Add requires [pinsTheReplacement] $0 == results.NewNodeClaims[0].Requirements && len($1) == 1 && $1[0] == (@scheduling.NewRequirement)
//@   site (InstanceTypes).Compatible requires [spotCompatibleOnly] pinned && $0 == results.NewNodeClaims[0].InstanceTypeOptions && $1 == results.NewNodeClaims[0].Requirements
//@   site (*NodeClaim).RemoveInstanceTypeOptionsByPriceAndMinValues requires [pinnedBeforePricing] gateOn && pinned
//@   site (*NodeClaim).RemoveInstanceTypeOptionsByPriceAndMinValues requires [combinedPriceUnchanged] $0 == results.NewNodeClaims[0] && $1 == results.NewNodeClaims[0].Requirements && $2 == candidatePrice
//@   site replacementsFromNodeClaims requires [featureEnabled] gateOn
//@   site replacementsFromNodeClaims requires [strictlyCheaperSpotOnly] pinned && filtered && len($0) == 1 && $0[0] == (@(*NodeClaim).RemoveInstanceTypeOptionsByPriceAndMinValues).0
//@   site replacementsFromNodeClaims requires [hasAnOption] len($0[0].InstanceTypeOptions) > 0
//@   site replacementsFromNodeClaims requires [enoughCheaperAlternatives] len(candidates) == 1 ==> len($0[0].InstanceTypeOptions) >= MinInstanceTypesForSpotToSpotConsolidation
//@   site replacementsFromNodeClaims #2 requires [launchListCut] (len(candidates) == 1 && !(@(Requirements).HasMinValues)) ==> len($0[0].InstanceTypeOptions) == MinInstanceTypesForSpotToSpotConsolidation
//@   site lo.Slice #1 requires [cutToFloorsOrDefault] $0 == results.NewNodeClaims[0].InstanceTypeOptions && $1 == 0 && $2 == max(MinInstanceTypesForSpotToSpotConsolidation, (@(InstanceTypes).SatisfiesMinValues).0)
//@   site lo.Slice #2 requires [cutToDefault] $0 == results.NewNodeClaims[0].InstanceTypeOptions && $1 == 0 && $2 == MinInstanceTypesForSpotToSpotConsolidation
//@   site (InstanceTypes).SatisfiesMinValues requires [floorsOfTheReplacement] $0 == results.NewNodeClaims[0].InstanceTypeOptions && $1 == results.NewNodeClaims[0].Requirements
//@   site replacementsFromNodeClaims #2 requires [launchListWasCut] cut
//@   site store.NodeClaimTemplate.InstanceTypeOptions requires [onlyNarrowed] $0 == &results.NewNodeClaims[0].NodeClaimTemplate && (cut || $1 == (@(InstanceTypes).Compatible))
//@   ensures [atMostOneReplacement] len(result.0.Replacements) <= 1
//@   ensures [replaces] len(result.0.Candidates) > 0 ==> (len(result.0.Replacements) == 1 && gateOn && pinned && filtered)
//@   ensures [theseCandidates] len(result.0.Candidates) > 0 ==> result.0.Candidates == candidates
//@   ensures [noError] result.1 == nil

// (C05b overlay) The contract of (*Emptiness).ComputeCommands moved to zz_contracts_C05b_verif.go, where the C05 clauses
// are merged with the C06 clauses below verbatim (a function can carry only one contract).

// Frame: summing the per-pool costs reads the candidates only.
//@ func computePoolDisruptionCosts
//@   prop C06
//@   modifies nothing
//@   loop 1 invariant fresh(costs) && costs != nil

// FULL (needs engine_patch: math.Max stub). The cost that IsEmpty compares: it stays at the base cost only if no
// reschedulable pod had a positive eviction cost (ghost sawPositive: some EvictionCost call of this run returned > 0).
//@ func computeRescheduleDisruptionCost
//@   prop C06
//@   modifies *
//@   ghost sawPositive
//@   after disruptionutils.EvictionCost set sawPositive = sawPositive || $r0 > 0
//@   site disruptionutils.EvictionCost requires [everyReschedulablePod] $1 == p
//@   ensures [atLeastBase] result >= PerNodeBaseDisruptionCost
//@   ensures [emptyMeansNoPositiveEvictionCost] result <= PerNodeBaseDisruptionCost ==> !sawPositive
//@   loop 1 invariant cost >= PerNodeBaseDisruptionCost && (sawPositive ==> cost > PerNodeBaseDisruptionCost)
