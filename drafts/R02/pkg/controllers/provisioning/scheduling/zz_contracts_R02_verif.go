//go:build verif

// Contracts for the deductive verifier in /verif (kvc). Comment-only: this file adds no code.
package scheduling

// The node filter of a topology group only reads: the requirement comparison (Requirements.Compatible, C12) and the
// toleration test (Taints.Tolerates, C01) are read-only under their own contracts. The requirement sets handed to
// Compatible must be well-formed (every stored requirement allocated, with a value set); that is an input invariant
// every constructor of a requirement set is proved to establish (C12 / C13) and it is ASSUMED here (listed), since the
// scheduler's havocking callers cannot carry it.
//@ func (TopologyNodeFilter).matchesRequirements
//@   prop C02
//@   assumes [nodeReqs] scheduling.rsInv(requirements)
//@   assumes [filterReqs] forall j int {t.Requirements[j]} :: (0 <= j && j < len(t.Requirements)) ==> scheduling.rsInv(t.Requirements[j])
//@   modifies nothing

//@ func (TopologyNodeFilter).Matches
//@   prop C02
//@   modifies nothing
