//go:build verif

// Draft contracts (C02) for the deductive verifier in /verif (kvc). Comment-only: this file adds no code.
package scheduling

// ---- C02: TopologyGroup (pod counts per topology domain) ----
// Abstract view: tgHas(t, d) = domain d is known to the group; tgCnt(t, d) = number of matching pods counted in d
// (0 for an unknown domain); tgZero(t, d) = d is in the "known to be empty" index.
//@ pure tgHas(t *TopologyGroup, d string) bool = d in t.domains
//@ pure tgCnt(t *TopologyGroup, d string) int = t.domains[d]
//@ pure tgZero(t *TopologyGroup, d string) bool = d in t.emptyDomains
// Representation invariant: maps allocated, counts never negative, emptyDomains = known domains with count 0.
//@ pure tgMaps(t *TopologyGroup) bool = t != nil && t.domains != nil && t.emptyDomains != nil && t.owners != nil
//@ pure tgNonNeg(t *TopologyGroup) bool = forall d string {t.domains[d]} :: t.domains[d] >= 0
//@ pure tgIndex(t *TopologyGroup) bool = forall d string {d in t.emptyDomains} {d in t.domains} {t.domains[d]} :: (d in t.emptyDomains) <==> ((d in t.domains) && t.domains[d] == 0)
//@ pure tgInv(t *TopologyGroup) bool = tgMaps(t) && tgNonNeg(t) && tgIndex(t)

// occ(xs, i, d): number of occurrences of d among xs[0..i).
//@ rec occ(xs []string, i int, d string) int = i <= 0 ? 0 : occ(xs, i - 1, d) + (xs[i - 1] == d ? 1 : 0)
//@ pure among(xs []string, n int, d string) bool = exists j int {xs[j]} :: 0 <= j && j < n && xs[j] == d

// Record(d...) adds one to the count of every listed domain (once per occurrence), makes it known, and takes it
// out of the empty index; nothing else changes.
//@ func (*TopologyGroup).Record
//@   prop C02
//@   nopanic
//@   repinv [maps] tgMaps(t)
//@   repinv [nonneg] tgNonNeg(t)
//@   repinv [index] tgIndex(t)
//@   modifies t.domains[:], t.emptyDomains[:]
//@   ensures [count] forall d string {t.domains[d]} :: tgCnt(t, d) == old(tgCnt(t, d)) + old(occ(domains, len(domains), d))
//@   ensures [known] forall d string {d in t.domains} :: tgHas(t, d) <==> (old(tgHas(t, d)) || among(domains, len(domains), d))
//@   ensures [nonempty] forall j int {domains[j]} :: (0 <= j && j < len(domains)) ==> (tgCnt(t, domains[j]) > 0 && !tgZero(t, domains[j]))
//@   loop 1 invariant [maps] tgMaps(t)
//@   loop 1 invariant [nonneg] tgNonNeg(t)
//@   loop 1 invariant [index] tgIndex(t)
//@   loop 1 invariant [args] forall j int {domains[j]} :: (0 <= j && j < len(domains)) ==> domains[j] == old(domains[j])
//@   loop 1 invariant [count] forall d string {t.domains[d]} :: tgCnt(t, d) == old(tgCnt(t, d)) + old(occ(domains, $i + 1, d))
//@   loop 1 invariant [occnn] forall d string {old(occ(domains, $i + 1, d))} :: old(occ(domains, $i + 1, d)) >= 0
//@   loop 1 invariant [known] forall d string {d in t.domains} :: tgHas(t, d) <==> (old(tgHas(t, d)) || among(domains, $i + 1, d))
//@   loop 1 invariant [nonempty] forall j int {domains[j]} :: (0 <= j && j <= $i) ==> tgCnt(t, domains[j]) > 0

// Register(d...) makes every listed domain known; a domain not known before starts with count 0 (and is indexed
// as empty); counts of known domains are untouched.
//@ func (*TopologyGroup).Register
//@   prop C02
//@   nopanic
//@   repinv [maps] tgMaps(t)
//@   repinv [nonneg] tgNonNeg(t)
//@   repinv [index] tgIndex(t)
//@   modifies t.domains[:], t.emptyDomains[:]
//@   ensures [count] forall d string {t.domains[d]} :: tgCnt(t, d) == old(tgCnt(t, d))
//@   ensures [known] forall d string {d in t.domains} :: tgHas(t, d) <==> (old(tgHas(t, d)) || among(domains, len(domains), d))
//@   loop 1 invariant [maps] tgMaps(t)
//@   loop 1 invariant [nonneg] tgNonNeg(t)
//@   loop 1 invariant [index] tgIndex(t)
//@   loop 1 invariant [count] forall d string {t.domains[d]} :: tgCnt(t, d) == old(tgCnt(t, d))
//@   loop 1 invariant [known] forall d string {d in t.domains} :: tgHas(t, d) <==> (old(tgHas(t, d)) || among(domains, $i + 1, d))

// Unregister(d...) forgets every listed domain (its count is dropped with it); other domains are untouched.
//@ func (*TopologyGroup).Unregister
//@   prop C02
//@   nopanic
//@   repinv [maps] tgMaps(t)
//@   repinv [nonneg] tgNonNeg(t)
//@   repinv [index] tgIndex(t)
//@   modifies t.domains[:], t.emptyDomains[:]
//@   ensures [known] forall d string {d in t.domains} :: tgHas(t, d) <==> (old(tgHas(t, d)) && !among(domains, len(domains), d))
//@   ensures [count] forall d string {t.domains[d]} :: tgCnt(t, d) == (among(domains, len(domains), d) ? 0 : old(tgCnt(t, d)))
//@   loop 1 invariant [maps] tgMaps(t)
//@   loop 1 invariant [nonneg] tgNonNeg(t)
//@   loop 1 invariant [index] tgIndex(t)
//@   loop 1 invariant [known] forall d string {d in t.domains} :: tgHas(t, d) <==> (old(tgHas(t, d)) && !among(domains, $i + 1, d))
//@   loop 1 invariant [count] forall d string {t.domains[d]} :: tgCnt(t, d) == (among(domains, $i + 1, d) ? 0 : old(tgCnt(t, d)))

// ---- next-domain answers ----
// hostCase: the shortcut taken for the hostname key when the node's requirement lists exactly one value (a new
// NodeClaim's placeholder hostname is not registered as a domain before the NodeClaim is added).
//@ pure hostCase(t *TopologyGroup, nodeDomains *scheduling.Requirement) bool = t.Key == corev1.LabelHostname && len(nodeDomains.values) == 1

// Anti-affinity: every domain the answer admits holds no matching pod (count 0; an unknown hostname counts 0).
//@ func (*TopologyGroup).nextDomainAntiAffinity
//@   prop C02
//@   requires [reqs] scheduling.reqInv(podDomains) && scheduling.reqInv(nodeDomains)
//@   let vals = @(Set).UnsortedList
//@   repinv [maps] tgMaps(t)
//@   repinv [nonneg] tgNonNeg(t)
//@   repinv [index] tgIndex(t)
//@   modifies nothing
//@   ensures [inv] fresh(result) && scheduling.reqInv(result)
//@   ensures [empty] forall v string {v in result.values} :: scheduling.admits(result, v) ==> tgCnt(t, v) == 0
//@   ensures [within] forall v string {v in result.values} :: scheduling.admits(result, v) ==> (hostCase(t, nodeDomains) ? (v in nodeDomains.values) : (tgZero(t, v) && scheduling.admits(nodeDomains, v) && scheduling.admits(podDomains, v)))
//@   loop 1 invariant [sound] forall v string {v in options.values} :: scheduling.admits(options, v) ==> (tgZero(t, v) && scheduling.admits(nodeDomains, v) && scheduling.admits(podDomains, v))
//@   loop 2 invariant [sound] forall v string {v in options.values} :: scheduling.admits(options, v) ==> (tgZero(t, v) && scheduling.admits(nodeDomains, v) && scheduling.admits(podDomains, v))
//@   loop 1 invariant [vals] forall j int {vals[j]} :: (0 <= j && j < len(vals)) ==> (vals[j] in nodeDomains.values)

// anyCompatiblePodDomain: some known domain the pod can use holds a matching pod.
//@ pure tgUsableMatch(t *TopologyGroup, podDomains *scheduling.Requirement) bool = exists d string {d in t.domains} :: tgHas(t, d) && scheduling.admits(podDomains, d) && tgCnt(t, d) > 0
//@ func (*TopologyGroup).anyCompatiblePodDomain
//@   prop C02
//@   modifies nothing
//@   ensures [exact] result <==> tgUsableMatch(t, podDomains)
//@   loop 1 invariant forall k string {seen(k)} :: seen(k) ==> !(scheduling.admits(podDomains, k) && tgCnt(t, k) > 0)

// Affinity: every domain the answer admits holds a matching pod, except the self-affinity bootstrap: the pod is
// selected by its own term and no domain it can use holds a match (either no known domain holds one at all, which
// the code detects by len(domains) == len(emptyDomains), or none of those admitted by podDomains does).
//@ pure tgBoot(t *TopologyGroup, pod *corev1.Pod, podDomains *scheduling.Requirement) bool = t.selects(pod) && (len(t.domains) == len(t.emptyDomains) || !tgUsableMatch(t, podDomains))
//@ func (*TopologyGroup).nextDomainAffinity
//@   prop C02
//@   requires [reqs] scheduling.reqInv(podDomains) && scheduling.reqInv(nodeDomains)
//@   repinv [maps] tgMaps(t)
//@   repinv [nonneg] tgNonNeg(t)
//@   repinv [index] tgIndex(t)
//@   modifies nothing
//@   let vals = @(Set).UnsortedList
//@   ensures [inv] fresh(result) && scheduling.reqInv(result)
//@   ensures [matched] forall v string {v in result.values} :: scheduling.admits(result, v) ==> (tgCnt(t, v) > 0 || tgBoot(t, pod, podDomains))
//@   ensures [usable] forall v string {v in result.values} :: scheduling.admits(result, v) ==> scheduling.admits(podDomains, v)
//@   ensures [within] forall v string {v in result.values} :: (scheduling.admits(result, v) && tgCnt(t, v) > 0) ==> ((hostCase(t, nodeDomains) ? (v in nodeDomains.values) : scheduling.admits(nodeDomains, v)) || (t.selects(pod) && len(t.domains) == len(t.emptyDomains)))
//@   loop 1 invariant [sound] forall v string {v in options.values} :: scheduling.admits(options, v) ==> (tgCnt(t, v) > 0 && scheduling.admits(nodeDomains, v) && scheduling.admits(podDomains, v))
//@   loop 2 invariant [sound] forall v string {v in options.values} :: scheduling.admits(options, v) ==> (tgCnt(t, v) > 0 && scheduling.admits(nodeDomains, v) && scheduling.admits(podDomains, v))
//@   loop 1 invariant [vals] forall j int {vals[j]} :: (0 <= j && j < len(vals)) ==> (vals[j] in nodeDomains.values)
//@   loop 3 invariant [sound] forall v string {v in options.values} :: scheduling.admits(options, v) ==> (scheduling.admits(podDomains, v) && tgHas(t, v))
//@   loop 4 invariant [sound] forall v string {v in options.values} :: scheduling.admits(options, v) ==> (scheduling.admits(podDomains, v) && tgHas(t, v))

// ---- topology spread ----
// tgElig: d is a known domain the pod could use (admitted by the pod's own requirement for the topology key).
//@ pure tgElig(t *TopologyGroup, req *scheduling.Requirement, d string) bool = tgHas(t, d) && scheduling.admits(req, d)
//@ pure tgNoElig(t *TopologyGroup, req *scheduling.Requirement) bool = forall d string {d in t.domains} :: !tgElig(t, req, d)
//@ pure tgAttained(t *TopologyGroup, req *scheduling.Requirement, m int) bool = exists d string {d in t.domains} :: tgElig(t, req, d) && tgCnt(t, d) == m

// domainMinCount: the global minimum the skew is measured against. [lower] is the half the skew bound rests on: the
// answer never exceeds the count of any eligible domain. Without minDomains the answer is exactly the minimum over the
// eligible domains ([lower] + [attained]; MaxInt32 when there is none). With minDomains the answer may also be 0.
// NOT DECIDED: the exact minDomains rule "0 iff fewer eligible domains than minDomains" needs the cardinality of a
// filtered key set, which the contract language cannot express; only its two boundary cases are stated
// ([mindomains-total], [mindomains-none]).
//@ func (*TopologyGroup).domainMinCount
//@   prop C02
//@   repinv [maps] tgMaps(t)
//@   repinv [nonneg] tgNonNeg(t)
//@   repinv [index] tgIndex(t)
//@   modifies nothing
//@   ensures [hostname] t.Key == corev1.LabelHostname ==> result == 0
//@   ensures [range] 0 <= result && result <= math.MaxInt32
//@   ensures [lower] forall d string {d in t.domains} :: tgElig(t, domains, d) ==> result <= tgCnt(t, d)
//@   ensures [attained] t.Key != corev1.LabelHostname ==> (result == math.MaxInt32 || tgAttained(t, domains, result) || (t.minDomains != nil && result == 0))
//@   ensures [mindomains-total] (t.Key != corev1.LabelHostname && t.minDomains != nil && len(t.domains) < *t.minDomains) ==> result == 0
//@   ensures [mindomains-none] (t.Key != corev1.LabelHostname && t.minDomains != nil && 0 < *t.minDomains && tgNoElig(t, domains)) ==> result == 0
//@   ensures [mindomains-off] (t.Key != corev1.LabelHostname && t.minDomains != nil && *t.minDomains <= 0) ==> (result == math.MaxInt32 || tgAttained(t, domains, result))
//@   loop 1 invariant [range] 0 <= min && min <= math.MaxInt32
//@   loop 1 invariant [lower] forall k string {seen(k)} :: (seen(k) && scheduling.admits(domains, k)) ==> min <= tgCnt(t, k)
//@   loop 1 invariant [attained] min == math.MaxInt32 || (exists k string {seen(k)} :: seen(k) && scheduling.admits(domains, k) && tgCnt(t, k) == min)
//@   loop 1 invariant [n] 0 <= numPodSupportedDomains && numPodSupportedDomains <= $i
//@   loop 1 invariant [none] numPodSupportedDomains == 0 <==> (forall k string {seen(k)} :: seen(k) ==> !scheduling.admits(domains, k))

// nextDomainTopologySpread. skewOK(d): count(d) + (1 if the pod is selected by its own constraint) - globalMin <= maxSkew,
// globalMin being the domainMinCount answer for the pod's domains (0 for the hostname key).
// The answer is the requirement built by the last NewRequirement call ([built]); the site obligations say that an
// In-requirement is only ever built for ONE domain, that this domain is within the skew ([skew]), is one of the
// reported valid domains ([chosen]) and has the fewest pods among them ([least]). Every reported valid domain is
// within the skew ([valid]) and a known domain admitted by the node's requirement ([within]).
// The same facts about "every value result.0 admits" (pending/ file) need a stronger NewRequirement contract: the
// existing one (C12) lets NewRequirement overwrite its values argument (`modifies values[:]`) without saying with
// what, so which value the built requirement admits is unknown to callers.
//@ pure tgSkewOK(t *TopologyGroup, v string, self int, gmin int) bool = tgCnt(t, v) + self - gmin <= t.maxSkew
//@ func (*TopologyGroup).nextDomainTopologySpread
//@   prop C02
//@   requires [reqs] scheduling.reqInv(podDomains) && scheduling.reqInv(nodeDomains)
//@   repinv [maps] tgMaps(t)
//@   repinv [nonneg] tgNonNeg(t)
//@   repinv [index] tgIndex(t)
//@   modifies nothing
//@   let vals = @(Set).UnsortedList
//@   let gmin = @(*TopologyGroup).domainMinCount
//@   let self = (t.selects(pod) ? 1 : 0)
//@   site NewRequirement requires [ops] $0 == t.Key && ($1 == corev1.NodeSelectorOpIn || $1 == corev1.NodeSelectorOpDoesNotExist) && ($1 == corev1.NodeSelectorOpIn ? len($2) == 1 : len($2) == 0)
//@   site NewRequirement requires [skew] $1 == corev1.NodeSelectorOpIn ==> tgSkewOK(t, $2[0], self, gmin)
//@   site NewRequirement requires [pairwise] ($1 == corev1.NodeSelectorOpIn && t.Key != corev1.LabelHostname) ==> (forall e string {e in t.domains} :: tgElig(t, podDomains, e) ==> tgCnt(t, $2[0]) + self - tgCnt(t, e) <= t.maxSkew)
//@   site NewRequirement requires [hostname] ($1 == corev1.NodeSelectorOpIn && t.Key == corev1.LabelHostname) ==> tgCnt(t, $2[0]) + self <= t.maxSkew
//@   site NewRequirement requires [chosen] $1 == corev1.NodeSelectorOpIn ==> ($2[0] in validDomains)
//@   site NewRequirement requires [least] $1 == corev1.NodeSelectorOpIn ==> (forall w string {w in validDomains} :: (w in validDomains) ==> tgCnt(t, $2[0]) <= tgCnt(t, w))
//@   ensures [built] result.0 == @NewRequirement
//@   ensures [inv] fresh(result.0) && scheduling.reqInv(result.0) && fresh(result.1) && result.1 != nil
//@   ensures [valid] forall v string {v in result.1} :: (v in result.1) ==> tgSkewOK(t, v, self, gmin)
//@   ensures [within] forall v string {v in result.1} :: (v in result.1) ==> (hostCase(t, nodeDomains) ? (v in nodeDomains.values) : (tgHas(t, v) && scheduling.admits(nodeDomains, v)))
//@   ensures [none] (len(result.1) == 0) ==> (forall v string {v in result.0.values} :: !scheduling.admits(result.0, v))
//@   loop 1 invariant [vals] forall j int {vals[j]} :: (0 <= j && j < len(vals)) ==> (vals[j] in nodeDomains.values)
//@   loop 1 invariant [set] fresh(validDomains) && validDomains != nil
//@   loop 1 invariant [valid] forall v string {v in validDomains} :: (v in validDomains) ==> (tgHas(t, v) && scheduling.admits(nodeDomains, v) && tgSkewOK(t, v, self, gmin))
//@   loop 1 invariant [mind] minDomain == "" || ((minDomain in validDomains) && minCount == tgCnt(t, minDomain) + self)
//@   loop 1 invariant [least] forall w string {w in validDomains} :: (w in validDomains) ==> minCount <= tgCnt(t, w) + self
//@   loop 2 invariant [set] fresh(validDomains) && validDomains != nil
//@   loop 2 invariant [valid] forall v string {v in validDomains} :: (v in validDomains) ==> (tgHas(t, v) && scheduling.admits(nodeDomains, v) && tgSkewOK(t, v, self, gmin))
//@   loop 2 invariant [mind] minDomain == "" || ((minDomain in validDomains) && minCount == tgCnt(t, minDomain) + self)
//@   loop 2 invariant [least] forall w string {w in validDomains} :: (w in validDomains) ==> minCount <= tgCnt(t, w) + self

// ---- owners: the pods governed by the group ----
//@ func (*TopologyGroup).IsOwnedBy
//@   prop C02
//@   modifies nothing
//@   ensures [exact] result <==> (key in t.owners)

//@ func (*TopologyGroup).AddOwner
//@   prop C02
//@   nopanic
//@   repinv [maps] tgMaps(t)
//@   repinv [nonneg] tgNonNeg(t)
//@   repinv [index] tgIndex(t)
//@   modifies t.owners[:]
//@   ensures [exact] forall k types.UID {k in t.owners} :: (k in t.owners) <==> (k == key || old(k in t.owners))

//@ func (*TopologyGroup).RemoveOwner
//@   prop C02
//@   nopanic
//@   repinv [maps] tgMaps(t)
//@   repinv [nonneg] tgNonNeg(t)
//@   repinv [index] tgIndex(t)
//@   modifies t.owners[:]
//@   ensures [exact] forall k types.UID {k in t.owners} :: (k in t.owners) <==> (k != key && old(k in t.owners))

// Counts: the pod would be counted by the group on a node with these taints / requirements: it is selected by the
// group's selector in one of its namespaces and the node passes the group's node filter.
//@ func (*TopologyGroup).selects
//@   prop C02
//@   modifies nothing
//@   ensures [exact] result <==> ((pod.Namespace in t.namespaces) && selMatches(t.selector, pod.Labels))

// ---- Topology.Record: committing a placement to the topology groups (C02, last sentence) ----
// Counts only reads (selects is under contract above; the node filter compares requirement sets and taints,
// both read-only under their C12 / C01 contracts). Verified (the node filter's Matches / matchesRequirements are
// under read-only contracts of their own in zz_contracts_R02_verif.go).
//@ func (*TopologyGroup).Counts
//@   prop C02
//@   modifies nothing
//
// For a group that counts the pod: an ANTI-AFFINITY group is recorded in every domain the node could still
// end up in (all values of the node's In-requirement for the group's key), any other group only once the
// requirement has collapsed to a single value, and then with that value; inverse anti-affinity groups owned
// by the pod are recorded in every possible domain as well. (For a complement requirement — NotIn / Exists —
// Values() lists the excluded values; [covers] is therefore stated for In-requirements, which is what the
// scheduler produces for keys it has narrowed; see DESIGN.md, observations.)
//@ pure topoGroupsOK(t *Topology) bool = t.topologyGroups != nil && t.inverseTopologyGroups != nil && (forall h uint64 {h in t.topologyGroups} :: (h in t.topologyGroups) ==> (t.topologyGroups[h] != nil && allocated(t.topologyGroups[h]))) && (forall h uint64 {h in t.inverseTopologyGroups} :: (h in t.inverseTopologyGroups) ==> (t.inverseTopologyGroups[h] != nil && allocated(t.inverseTopologyGroups[h])))
//@ func (*Topology).Record
//@   prop C02
//@   repinv [groups] topoGroupsOK(t)
//@   repinv [reqs] scheduling.rsInv(requirements)
//@   modifies *
//@   site (*TopologyGroup).Record #1 requires [antiaffinity] $0 == tg && tg.Type == TopologyTypePodAntiAffinity && (@(*TopologyGroup).Counts)
//@   site (*TopologyGroup).Record #1 requires [covers] !domains.complement ==> (forall v string {v in domains.values} :: (v in domains.values) ==> among($1, len($1), v))
//@   site (*TopologyGroup).Record #2 requires [single] $0 == tg && tg.Type != TopologyTypePodAntiAffinity && (@(*TopologyGroup).Counts) && len($1) == 1 && (@(*Requirement).Len) == 1
//@   site (*TopologyGroup).Record #3 requires [owned] $0 == tg && (@(*TopologyGroup).IsOwnedBy)
//@   loop 1 invariant topoGroupsOK(t) && scheduling.rsInv(requirements)
//@   loop 2 invariant topoGroupsOK(t) && scheduling.rsInv(requirements)
