//go:build verif

// Contracts for the deductive verifier in /verif (kvc). Comment-only: this file adds no code.
// C11 (cluster state equals a fresh recomputation from the API), clause "pods recreated under the same name on
// another node": when the pod key that the cluster believes bound to node A is seen bound to node B, node A stops
// tracking the pod and the binding then names B.
package state

// K is the pod's key: the value of the function's first client.ObjectKeyFromObject(pod) (the spec language has no struct
// literal to build a NamespacedName from pod.Namespace/pod.Name); [key] pins it to the pod's namespace and name, which is all
// a caller learns about it. moved = the cluster believes the key bound to another node name than the pod's; tracked = that
// node is in c.nodes; oldN = that node. Exact transition: cleanupForPod runs exactly when moved && tracked, on oldN with K
// ([oldNodeThisKey], [cleanupCalled]); then K leaves every per-pod map of oldN and the binding is dropped; in every other case,
// and for every other key, bindings and oldN's maps are as before; no other node is written (modifies).
//@ func (*Cluster).cleanupOldBindings
//@   prop C11
//@   let K = @client.ObjectKeyFromObject
//@   let oldN = c.nodes[c.nodeNameToProviderID[c.bindings[K]]]
//@   let moved = old((K in c.bindings) && c.bindings[K] != pod.Spec.NodeName)
//@   let tracked = old(c.nodeNameToProviderID[c.bindings[K]] in c.nodes)
//@   ghost cleaned
//@   after (*StateNode).cleanupForPod set cleaned = true
//@   site (*StateNode).cleanupForPod requires [oldNodeThisKey] moved && tracked && $0 == old(oldN) && $1 == K
//@   modifies c.bindings[:], c.clusterState, oldN.podRequests[:], oldN.podLimits[:], oldN.daemonSetRequests[:], oldN.daemonSetLimits[:], oldN.podDisruptionCosts[:], oldN.hostPortUsage.reserved[:], oldN.volumeUsage.podVolumes[:], oldN.volumeUsage.volumes
//@   ensures [key] K.Name == old(pod.Name) && K.Namespace == old(pod.Namespace)
//@   ensures [cleanupCalled] cleaned <==> (moved && tracked)
//@   ensures [bindingDropped] (moved && tracked) ==> !(K in c.bindings)
//@   ensures [bindingKept] !(moved && tracked) ==> ((K in c.bindings) == old(K in c.bindings) && c.bindings[K] == old(c.bindings[K]))
//@   ensures [otherBindings] forall q types.NamespacedName {q in c.bindings} :: q != K ==> ((q in c.bindings) == old(q in c.bindings) && c.bindings[q] == old(c.bindings[q]))
//@   ensures [podRequests] forall q types.NamespacedName {q in old(oldN).podRequests} :: ((q in old(oldN).podRequests) <==> (old(q in oldN.podRequests) && !(moved && tracked && q == K))) && ((q in old(oldN).podRequests) ==> old(oldN).podRequests[q] == old(oldN.podRequests[q]))
//@   ensures [podLimits] forall q types.NamespacedName {q in old(oldN).podLimits} :: ((q in old(oldN).podLimits) <==> (old(q in oldN.podLimits) && !(moved && tracked && q == K))) && ((q in old(oldN).podLimits) ==> old(oldN).podLimits[q] == old(oldN.podLimits[q]))
//@   ensures [daemonSetRequests] forall q types.NamespacedName {q in old(oldN).daemonSetRequests} :: ((q in old(oldN).daemonSetRequests) <==> (old(q in oldN.daemonSetRequests) && !(moved && tracked && q == K))) && ((q in old(oldN).daemonSetRequests) ==> old(oldN).daemonSetRequests[q] == old(oldN.daemonSetRequests[q]))
//@   ensures [daemonSetLimits] forall q types.NamespacedName {q in old(oldN).daemonSetLimits} :: ((q in old(oldN).daemonSetLimits) <==> (old(q in oldN.daemonSetLimits) && !(moved && tracked && q == K))) && ((q in old(oldN).daemonSetLimits) ==> old(oldN).daemonSetLimits[q] == old(oldN.daemonSetLimits[q]))
//@   ensures [podDisruptionCosts] forall q types.NamespacedName {q in old(oldN).podDisruptionCosts} :: ((q in old(oldN).podDisruptionCosts) <==> (old(q in oldN.podDisruptionCosts) && !(moved && tracked && q == K))) && ((q in old(oldN).podDisruptionCosts) ==> old(oldN).podDisruptionCosts[q] == old(oldN.podDisruptionCosts[q]))
//@   ensures [reserved] forall q types.NamespacedName {q in old(oldN).hostPortUsage.reserved} :: ((q in old(oldN).hostPortUsage.reserved) <==> (old(q in oldN.hostPortUsage.reserved) && !(moved && tracked && q == K))) && ((q in old(oldN).hostPortUsage.reserved) ==> old(oldN).hostPortUsage.reserved[q] == old(oldN.hostPortUsage.reserved[q]))
//@   ensures [podVolumes] forall q types.NamespacedName {q in old(oldN).volumeUsage.podVolumes} :: ((q in old(oldN).volumeUsage.podVolumes) <==> (old(q in oldN.volumeUsage.podVolumes) && !(moved && tracked && q == K))) && ((q in old(oldN).volumeUsage.podVolumes) ==> old(oldN).volumeUsage.podVolumes[q] == old(oldN.volumeUsage.podVolumes[q]))
//@   ensures [volumesKept] !(moved && tracked) ==> old(oldN).volumeUsage.volumes == old(oldN.volumeUsage.volumes)
//@   ensures [volumesRebuilt] (moved && tracked) ==> scheduling.vuSync(old(oldN).volumeUsage)

// The state S right after (*StateNode).updateForPod returned is the reference (its contract lets everything but the new
// node's own fields change, so nothing about c.bindings survives that call): the binding the cluster holds in S is
// "what the cluster believes"; it must reach cleanupOldBindings unchanged, the node it names stops tracking the pod
// when it is another node than the one the pod is bound to now, and the binding names the new node afterwards.
//@ pure keyOf(q types.NamespacedName, p *corev1.Pod) bool = q.Name == p.Name && q.Namespace == p.Namespace
//@ pure boundElsewhere(c *Cluster, q types.NamespacedName, p *corev1.Pod) bool = (q in c.bindings) && c.bindings[q] != p.Spec.NodeName && (c.nodeNameToProviderID[c.bindings[q]] in c.nodes)
//@ pure nodeOfBinding(c *Cluster, q types.NamespacedName) *StateNode = c.nodes[c.nodeNameToProviderID[c.bindings[q]]]
//@ func (*Cluster).updateNodeUsageFromPod
//@   prop C11
//@   requires [apart] forall id string {c.nodes[id]} :: (id in c.nodes) ==> mapsApart(c.nodes[id])
//@   let bound = pod.Spec.NodeName != ""
//@   modifies *
//@   site (*Cluster).cleanupOldBindings requires [thisPod] $0 == c && $1 == pod
//@   site (*Cluster).cleanupOldBindings requires [bindingsAsObserved] c.bindings == atcall(@(*StateNode).updateForPod, c.bindings) && (forall q types.NamespacedName {q in c.bindings} :: (q in c.bindings) == atcall(@(*StateNode).updateForPod, q in c.bindings) && c.bindings[q] == atcall(@(*StateNode).updateForPod, c.bindings[q]))
//@   site (*Cluster).cleanupOldBindings requires [nodesAsObserved] c.nodes == atcall(@(*StateNode).updateForPod, c.nodes) && c.nodeNameToProviderID == atcall(@(*StateNode).updateForPod, c.nodeNameToProviderID) && (forall id string {c.nodes[id]} :: (id in c.nodes) == atcall(@(*StateNode).updateForPod, id in c.nodes) && c.nodes[id] == atcall(@(*StateNode).updateForPod, c.nodes[id])) && (forall nm string {c.nodeNameToProviderID[nm]} :: c.nodeNameToProviderID[nm] == atcall(@(*StateNode).updateForPod, c.nodeNameToProviderID[nm]))
//@   ensures [bindingNamesNode] (result == nil && bound) ==> (forall q types.NamespacedName {q in c.bindings} :: keyOf(q, pod) ==> ((q in c.bindings) && c.bindings[q] == pod.Spec.NodeName))
//@   ensures [otherBindings] (result == nil && bound) ==> (forall q types.NamespacedName {q in c.bindings} :: !keyOf(q, pod) ==> ((q in c.bindings) == atcall(@(*StateNode).updateForPod, q in c.bindings) && c.bindings[q] == atcall(@(*StateNode).updateForPod, c.bindings[q])))
//@   ensures [oldNodeForgetsPodRequests] (result == nil && bound) ==> (forall q types.NamespacedName {q in c.bindings} :: (keyOf(q, pod) && atcall(@(*StateNode).updateForPod, boundElsewhere(c, q, pod))) ==> !(q in atcall(@(*StateNode).updateForPod, nodeOfBinding(c, q)).podRequests))
//@   ensures [oldNodeForgetsPodLimits] (result == nil && bound) ==> (forall q types.NamespacedName {q in c.bindings} :: (keyOf(q, pod) && atcall(@(*StateNode).updateForPod, boundElsewhere(c, q, pod))) ==> !(q in atcall(@(*StateNode).updateForPod, nodeOfBinding(c, q)).podLimits))
//@   ensures [oldNodeForgetsDaemonSetRequests] (result == nil && bound) ==> (forall q types.NamespacedName {q in c.bindings} :: (keyOf(q, pod) && atcall(@(*StateNode).updateForPod, boundElsewhere(c, q, pod))) ==> !(q in atcall(@(*StateNode).updateForPod, nodeOfBinding(c, q)).daemonSetRequests))
//@   ensures [oldNodeForgetsDaemonSetLimits] (result == nil && bound) ==> (forall q types.NamespacedName {q in c.bindings} :: (keyOf(q, pod) && atcall(@(*StateNode).updateForPod, boundElsewhere(c, q, pod))) ==> !(q in atcall(@(*StateNode).updateForPod, nodeOfBinding(c, q)).daemonSetLimits))
//@   ensures [oldNodeForgetsDisruptionCost] (result == nil && bound) ==> (forall q types.NamespacedName {q in c.bindings} :: (keyOf(q, pod) && atcall(@(*StateNode).updateForPod, boundElsewhere(c, q, pod))) ==> !(q in atcall(@(*StateNode).updateForPod, nodeOfBinding(c, q)).podDisruptionCosts))
//@   ensures [oldNodeForgetsHostPorts] (result == nil && bound) ==> (forall q types.NamespacedName {q in c.bindings} :: (keyOf(q, pod) && atcall(@(*StateNode).updateForPod, boundElsewhere(c, q, pod))) ==> !(q in atcall(@(*StateNode).updateForPod, nodeOfBinding(c, q)).hostPortUsage.reserved))
//@   ensures [oldNodeForgetsVolumes] (result == nil && bound) ==> (forall q types.NamespacedName {q in c.bindings} :: (keyOf(q, pod) && atcall(@(*StateNode).updateForPod, boundElsewhere(c, q, pod))) ==> !(q in atcall(@(*StateNode).updateForPod, nodeOfBinding(c, q)).volumeUsage.podVolumes))
//@   ensures [newNodeTracks] (result == nil && bound) ==> (forall q types.NamespacedName {q in n.podRequests} :: (q.Name == old(pod.Name) && q.Namespace == old(pod.Namespace) && !atcall(@(*StateNode).updateForPod, boundElsewhere(c, q, pod))) ==> ((q in n.podRequests) && (q in n.podLimits) && (q in n.hostPortUsage.reserved) && (q in n.volumeUsage.podVolumes)))
