//go:build verif

// Contracts for the deductive verifier in /verif (kvc). Comment-only: this file adds no code.
// C18: a deep copy of the host port / volume bookkeeping shares no map with the original, so what a scheduling
// simulation books on the copy never lands in the cluster state.
package scheduling

// ---- host ports: the copy has its own `reserved` map with the same keys; the original and its map are untouched ----
// (frame: the builtin copy() on the IP bytes makes every byte/int cell arbitrary for the engine, so the frame is stated
// as "anything except the original" instead of "only *out")
//@ func (*HostPortUsage).DeepCopyInto
//@   prop C18
//@   requires [distinct] in != nil && out != nil && in != out
//@   modifies * except in.reserved, in.reserved[:]
//@   ensures [nilKept] old(in.reserved) == nil ==> out.reserved == nil
//@   ensures [ownMap] old(in.reserved) != nil ==> (fresh(out.reserved) && out.reserved != old(in.reserved))
//@   ensures [sameKeys] old(in.reserved) != nil ==> domeq(out.reserved, in.reserved)
//@   loop 1 invariant [ownMap] fresh(out.reserved) && out.reserved != in.reserved && in.reserved == old(in.reserved)
//@   loop 1 invariant [keysDone] forall k types.NamespacedName {k in out.reserved} :: (k in out.reserved) <==> seen(k)
//@   loop 2 invariant [ownMap] fresh(out.reserved) && out.reserved != in.reserved && in.reserved == old(in.reserved)
//@   loop 2 invariant [keysKept] forall k types.NamespacedName {k in out.reserved} :: (k in out.reserved) == loopentry(k in out.reserved)

// ---- volumes: the copy has its own volumes / podVolumes / limits maps; only *out is written ----
//@ func (*VolumeUsage).DeepCopyInto
//@   prop C18
//@   requires [distinct] in != nil && out != nil && in != out
//@   modifies out.volumes, out.podVolumes, out.limits
//@   ensures [volumesNil] old(in.volumes) == nil ==> out.volumes == nil
//@   ensures [volumesOwn] old(in.volumes) != nil ==> (fresh(out.volumes) && out.volumes != old(in.volumes))
//@   ensures [podVolumesNil] old(in.podVolumes) == nil ==> out.podVolumes == nil
//@   ensures [podVolumesOwn] old(in.podVolumes) != nil ==> (fresh(out.podVolumes) && out.podVolumes != old(in.podVolumes))
//@   ensures [limitsNil] old(in.limits) == nil ==> out.limits == nil
//@   ensures [limitsOwn] old(in.limits) != nil ==> (fresh(out.limits) && out.limits != old(in.limits))
//@   loop 1 invariant [own] fresh(out.volumes)
//@   loop 2 invariant [own] fresh(out.volumes)
//@   loop 3 invariant [own] fresh(out.podVolumes)
//@   loop 4 invariant [own] fresh(out.podVolumes)
//@   loop 5 invariant [own] fresh(out.podVolumes)
//@   loop 6 invariant [own] fresh(out.limits)
