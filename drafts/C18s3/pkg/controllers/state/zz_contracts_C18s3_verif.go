//go:build verif

// Contracts for the deductive verifier in /verif (kvc). Comment-only: this file adds no code.
// C18: the copy of a state node that a scheduling simulation works on shares no mutable bookkeeping (host ports,
// volumes, per-pod resource maps) with the node held by the cluster state.
package state

// The external generated deep copies called here (corev1.Node, metav1.Time) and NodeClaim.DeepCopyInto have no contract
// and make what they reach by type arbitrary, so the frame is stated from the original's side: whatever is written, the
// original's own fields, its HostPortUsage/VolumeUsage structs and its host port map are not.
//@ func (*StateNode).DeepCopyInto
//@   prop C18
//@   requires [distinct] in != nil && out != nil && in != out
//@   modifies * except in.daemonSetRequests, in.daemonSetLimits, in.podRequests, in.podLimits, in.podDisruptionCosts, in.hostPortUsage, in.volumeUsage, in.markedForDeletion, in.hostPortUsage.reserved, in.hostPortUsage.reserved[:]
//@   ensures [hostPortsNil] old(in.hostPortUsage) == nil ==> out.hostPortUsage == nil
//@   ensures [hostPortsOwn] old(in.hostPortUsage) != nil ==> (fresh(out.hostPortUsage) && out.hostPortUsage != in.hostPortUsage)
//@   ensures [hostPortsOwnMap] (old(in.hostPortUsage) != nil && old(in.hostPortUsage.reserved) != nil) ==> (fresh(out.hostPortUsage.reserved) && out.hostPortUsage.reserved != in.hostPortUsage.reserved)
//@   ensures [hostPortsSameKeys] (old(in.hostPortUsage) != nil && old(in.hostPortUsage.reserved) != nil) ==> domeq(out.hostPortUsage.reserved, in.hostPortUsage.reserved)
//@   ensures [volumesNil] old(in.volumeUsage) == nil ==> out.volumeUsage == nil
//@   ensures [volumesOwn] old(in.volumeUsage) != nil ==> (fresh(out.volumeUsage) && out.volumeUsage != in.volumeUsage)
//@   ensures [volumesOwnMaps] out.volumeUsage != nil ==> ((out.volumeUsage.volumes == nil || fresh(out.volumeUsage.volumes)) && (out.volumeUsage.podVolumes == nil || fresh(out.volumeUsage.podVolumes)) && (out.volumeUsage.limits == nil || fresh(out.volumeUsage.limits)))
//@   ensures [podRequestsOwn] old(in.podRequests) != nil ? fresh(out.podRequests) : out.podRequests == nil
//@   ensures [podLimitsOwn] old(in.podLimits) != nil ? fresh(out.podLimits) : out.podLimits == nil
//@   ensures [daemonSetRequestsOwn] old(in.daemonSetRequests) != nil ? fresh(out.daemonSetRequests) : out.daemonSetRequests == nil
//@   ensures [daemonSetLimitsOwn] old(in.daemonSetLimits) != nil ? fresh(out.daemonSetLimits) : out.daemonSetLimits == nil
//@   ensures [podDisruptionCostsOwn] old(in.podDisruptionCosts) != nil ? fresh(out.podDisruptionCosts) : out.podDisruptionCosts == nil
//@   ensures [markCopied] out.markedForDeletion == old(in.markedForDeletion)
