#!/usr/bin/env python3
"""Replays /verif/drafts/C18/selftest.json through the contract overlay (never touches /repo):
the mutated source file is copied into the overlay dir, `./check C18 --only <only>` is run, the copy is removed.
usage: run_selftest.py [name-substring ...]"""
import json, os, subprocess, sys
D='/verif/drafts/C18'
ents=json.load(open(D+'/selftest.json'))
sel=sys.argv[1:]
bad=0
for e in ents:
    if sel and not any(s in e['name'] for s in sel): continue
    src=open('/repo/'+e['file']).read()
    if e['old'] not in src:
        print('STALE',e['name']); bad+=1; continue
    dst=os.path.join(D,e['file'])
    assert not os.path.exists(dst), dst
    os.makedirs(os.path.dirname(dst),exist_ok=True)
    try:
        open(dst,'w').write(src.replace(e['old'],e['new'],1))
        cmd='cd /verif && KVC_CONTRACT_OVERLAY=%s KVC_VERIF=/tmp/ag_C18 ./check C18'%D
        if e.get('only'): cmd+=" --only '%s'"%e['only']
        r=subprocess.run(cmd,shell=True,capture_output=True,text=True)
        lines=(r.stdout+r.stderr).splitlines()
        viol=[l for l in lines if l.startswith('VIOLATION')]
        eng=[l for l in lines if 'ENGINE' in l or 'outside subset' in l or 'error' in l.lower()]
        failed=r.returncode!=0
        ok=(failed if e['expect']=='fail' else not failed)
        if ok and e['expect']=='fail' and e.get('obligation'):
            ok=any(e['obligation'] in v for v in viol)
        print('%s %-45s expect=%s got=%s'%('ok  ' if ok else 'BAD ',e['name'],e['expect'],'fail' if failed else 'pass'))
        for v in viol[:4]: print('      ',v.split('replay=')[1].split('/')[-1][:150])
        for v in eng[:3]: print('      !',v[:300])
        print('      ',lines[0][:200] if lines else '')
        if not ok: bad+=1
    finally:
        os.remove(dst)
print('bad:',bad)
