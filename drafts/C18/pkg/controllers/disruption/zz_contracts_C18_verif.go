//go:build verif

// Contracts for the deductive verifier in /verif (kvc). Comment-only: this file adds no code.
// C18 (mechanism level): a disruption simulation hands only copies of the cluster state to the scheduler.
package disruption

//@ func SimulateScheduling
//@   prop C18
//@   modifies *
//@   site (*Cluster).DeepCopyNodes requires [thisCluster] $0 == cluster
//@   site lo.Filter #1 requires [filtersCopies] forall j int {$0[j]} :: (0 <= j && j < len($0)) ==> state.elemOf($0[j], @(*Cluster).DeepCopyNodes)
//@   site (*Provisioner).NewScheduler requires [theFilteredList] loc($3) == loc(@lo.Filter) && len($3) == len(@lo.Filter)
//@   site (*Provisioner).NewScheduler requires [listUnchanged] forall j int {$3[j]} :: (0 <= j && j < len($3)) ==> $3[j] == atcall(@lo.Filter, $3[j])
//@   site (*Provisioner).NewScheduler requires [freshNodes] forall j int {$3[j]} :: (0 <= j && j < len($3) && $3[j] != nil) ==> fresh($3[j])
//@   loop 1 invariant [none] true
//@   loop 2 invariant [none] true
//@   loop 3 invariant [none] true

// ---- where API writes and cluster-state marks may occur in the disruption tree ----
// Everything that evaluates a decision (helpers.go: SimulateScheduling, GetCandidates..; the methods' ComputeCommands,
// consolidation.go, validation.go) contains no write call at all; the writers are the orchestration queue and the
// controller's clean-up of stale taints.
//@ inventory disruptionNoClientCreate [C18]: (client.Client).Create arg 0 Client in sigs.k8s.io/karpenter/pkg/controllers/disruption only (*Queue).none
//@ inventory disruptionNoClientUpdate [C18]: (client.Client).Update arg 0 Client in sigs.k8s.io/karpenter/pkg/controllers/disruption only (*Queue).none
//@ inventory disruptionNoClientPatch [C18]: (client.Client).Patch arg 0 Client in sigs.k8s.io/karpenter/pkg/controllers/disruption only (*Queue).none
//@ inventory disruptionNoClientDeleteAllOf [C18]: (client.Client).DeleteAllOf arg 0 Client in sigs.k8s.io/karpenter/pkg/controllers/disruption only (*Queue).none
//@ inventory disruptionClientDeleteOnlyInQueue [C18]: (client.Client).Delete arg 0 Client in sigs.k8s.io/karpenter/pkg/controllers/disruption only (*Queue).waitOrTerminate
//@ inventory disruptionStatusPatchOnlyInQueue [C18]: (client.SubResourceWriter).Patch arg 0 SubResourceWriter in sigs.k8s.io/karpenter/pkg/controllers/disruption only (*Queue).markDisrupted
//@ inventory disruptionNoStatusUpdate [C18]: (client.SubResourceWriter).Update arg 0 SubResourceWriter in sigs.k8s.io/karpenter/pkg/controllers/disruption only (*Queue).none
//@ inventory disruptionNoStatusCreate [C18]: (client.SubResourceWriter).Create arg 0 SubResourceWriter in sigs.k8s.io/karpenter/pkg/controllers/disruption only (*Queue).none
//@ inventory disruptionNoProviderCreate [C18]: (cloudprovider.CloudProvider).Create arg 0 CloudProvider in sigs.k8s.io/karpenter/pkg/controllers/disruption only (*Queue).none
//@ inventory disruptionNoProviderDelete [C18]: (cloudprovider.CloudProvider).Delete arg 0 CloudProvider in sigs.k8s.io/karpenter/pkg/controllers/disruption only (*Queue).none
//@ inventory disruptionTaintWriters [C18]: state.RequireNoScheduleTaint arg 1 Client in sigs.k8s.io/karpenter/pkg/controllers/disruption only (*Controller).Reconcile, (*Queue).Reconcile, (*Queue).markDisrupted
//@ inventory disruptionConditionWriters [C18]: state.ClearNodeClaimsCondition arg 1 Client in sigs.k8s.io/karpenter/pkg/controllers/disruption only (*Controller).Reconcile, (*Queue).Reconcile
//@ inventory disruptionNodeClaimCreation [C18]: (*Provisioner).CreateNodeClaims arg 0 Provisioner in sigs.k8s.io/karpenter/pkg/controllers/disruption only (*Queue).createReplacementNodeClaims
//@ inventory disruptionNoDirectProvisionerCreate [C18]: (*Provisioner).Create arg 0 Provisioner in sigs.k8s.io/karpenter/pkg/controllers/disruption only (*Queue).none
//@ inventory disruptionDeletionMarks [C18]: (*Cluster).MarkForDeletion arg 0 Cluster in sigs.k8s.io/karpenter/pkg/controllers/disruption only (*Queue).StartCommand
//@ inventory disruptionDeletionUnmarks [C18]: (*Cluster).UnmarkForDeletion arg 0 Cluster in sigs.k8s.io/karpenter/pkg/controllers/disruption only (*Queue).CompleteCommand
//@ inventory disruptionNoNomination [C18]: (*Cluster).NominateNodeForPod arg 0 Cluster in sigs.k8s.io/karpenter/pkg/controllers/disruption only (*Queue).none
//@ inventory disruptionResultsRecordOnlyAtStart [C18]: (Results).Record arg 0 Results in sigs.k8s.io/karpenter/pkg/controllers/disruption only (*Queue).StartCommand
