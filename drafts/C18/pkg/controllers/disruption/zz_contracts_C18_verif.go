//go:build verif

// Contracts for the deductive verifier in /verif (kvc). Comment-only: this file adds no code.
// C18 (mechanism level): a disruption simulation hands only copies of the cluster state to the scheduler.
package disruption

//@ func SimulateScheduling
//@   prop C18
//@   modifies *
//@   site (*Cluster).DeepCopyNodes requires [thisCluster] $0 == cluster
//@   site (*Provisioner).NewScheduler requires [copiesOnly] forall j int {$3[j]} :: (0 <= j && j < len($3)) ==> state.elemOf($3[j], @(*Cluster).DeepCopyNodes)
//@   site (*Provisioner).NewScheduler requires [freshNodes] forall j int {$3[j]} :: (0 <= j && j < len($3) && $3[j] != nil) ==> fresh($3[j])
//@   loop 1 invariant [none] true
//@   loop 2 invariant [none] true
//@   loop 3 invariant [none] true
