//go:build verif

// Contracts for the deductive verifier in /verif (kvc). Comment-only: this file adds no code.
// C18 (mechanism level): scheduling simulations work on copies of the cluster state.
package state

//@ pure elemOf(n *StateNode, ns StateNodes) bool = exists k int {ns[k]} :: 0 <= k && k < len(ns) && ns[k] == n

// ---- assumption: the generated deep copy returns a newly allocated StateNode ----
//@ func (*StateNode).DeepCopy
//@   prop C18
//@   trusted
//@   modifies nothing
//@   ensures [fresh] in != nil ==> (fresh(result) && result != nil)
//@   ensures [nil] in == nil ==> result == nil

// ---- (A) DeepCopyNodes: every element of the result was allocated by this call ----
//@ func (*Cluster).DeepCopyNodes$1
//@   prop C18
//@   modifies nothing
//@   ensures [fresh] n != nil ==> (fresh(result) && result != nil)
//@   ensures [nil] n == nil ==> result == nil

//@ func (*Cluster).DeepCopyNodes
//@   prop C18
//@   modifies nothing
//@   ensures [freshSlice] fresh(result)
//@   ensures [freshElems] forall j int {result[j]} :: (0 <= j && j < len(result) && result[j] != nil) ==> fresh(result[j])
//@   ensures [notLive] forall j int, id string {result[j], c.nodes[id]} :: (0 <= j && j < len(result) && result[j] != nil) ==> result[j] != c.nodes[id]

// ---- the two filters return elements of their receiver in a new slice ----
//@ func (StateNodes).Active
//@   prop C18
//@   modifies nothing
//@   ensures [freshSlice] fresh(result)
//@   ensures [subset] forall j int {result[j]} :: (0 <= j && j < len(result)) ==> elemOf(result[j], n)

//@ func (StateNodes).Deleting
//@   prop C18
//@   modifies nothing
//@   ensures [freshSlice] fresh(result)
//@   ensures [subset] forall j int {result[j]} :: (0 <= j && j < len(result)) ==> elemOf(result[j], n)

// ---- collecting the pods of deleting nodes does not write into any slice of state nodes ----
// (without it the call is havocked and every []*StateNode reachable by type, i.e. also the list about to be handed
// to the scheduler, becomes arbitrary)
//@ func (StateNodes).CurrentlyReschedulablePods
//@   prop C18
//@   modifies *
//@   ensures [nodeSlicesKept] forall s StateNodes, j int {old(s[j])} :: s[j] == old(s[j])
//@   loop 1 invariant [nodeSlicesKept] forall s StateNodes, j int {old(s[j])} :: s[j] == old(s[j])
