//go:build verif

// Contracts for the deductive verifier in /verif (kvc). Comment-only: this file adds no code.
// C18 (mechanism level): the scheduler package writes no API object and sets no deletion mark; it relaxes and
// schedules copies of the queued pods.
package scheduling

// ---- (C) pods are relaxed on a copy: Solve hands trySchedule the DeepCopy of the popped pod, trySchedule relaxes
// exactly the pod it was given, and nobody else relaxes ----
//@ func (*Scheduler).Solve
//@   prop C18
//@   modifies *
//@   site (*Pod).DeepCopy requires [copiesThePoppedPod] $0 == (@(*Queue).Pop).0
//@   site (*Scheduler).trySchedule requires [schedulesTheCopy] $2 == @(*Pod).DeepCopy
//@   site (*Scheduler).trySchedule requires [thisScheduler] $0 == s
//@   loop 1 invariant [none] true
//@   loop 2 invariant [none] true
//@   loop 3 invariant [none] true
//@   loop 4 invariant [none] true

//@ func (*Scheduler).trySchedule
//@   prop C18
//@   modifies *
//@   site (*Scheduler).add requires [addsOwnPod] $2 == p
//@   site (*Preferences).Relax requires [relaxesOwnPod] $2 == p
//@   site (*Topology).Update requires [updatesOwnPod] $2 == p
//@   site (*Scheduler).updateCachedPodData requires [cachesOwnPod] $2 == p
//@   loop 1 invariant [none] true

// Cut-off only (claims nothing: everything may change, no postcondition, so nothing is assumed): without it the body is
// inlined into Solve and trySchedule together with pkg/scheduling.newPodRequirements, whose callees' preconditions
// (Requirements.Add, NewLabelRequirements: other properties) then have to be re-proved there.
//@ func (*Scheduler).updateCachedPodData
//@   prop C18
//@   trusted
//@   modifies *

// Cut-off only, same reason (inlined into Solve after the scheduling loop; its callees Requirements.Add and
// Offering.ReservationID carry preconditions of other properties).
//@ func (*NodeClaim).FinalizeScheduling
//@   prop C18
//@   trusted
//@   modifies *

//@ inventory relaxOnlyInTrySchedule [C18]: (*Preferences).Relax arg 0 Preferences in sigs.k8s.io/karpenter/pkg/controllers only (*Scheduler).trySchedule
//@ inventory tryScheduleOnlyInSolve [C18]: (*Scheduler).trySchedule arg 0 Scheduler in sigs.k8s.io/karpenter/pkg/controllers only (*Scheduler).Solve

// ---- no API write call and no cloud provider create/delete anywhere in the scheduler package tree ----
//@ inventory schedulerNoClientCreate [C18]: (client.Client).Create arg 0 Client in sigs.k8s.io/karpenter/pkg/controllers/provisioning/scheduling only (*Scheduler).none
//@ inventory schedulerNoClientUpdate [C18]: (client.Client).Update arg 0 Client in sigs.k8s.io/karpenter/pkg/controllers/provisioning/scheduling only (*Scheduler).none
//@ inventory schedulerNoClientPatch [C18]: (client.Client).Patch arg 0 Client in sigs.k8s.io/karpenter/pkg/controllers/provisioning/scheduling only (*Scheduler).none
//@ inventory schedulerNoClientDelete [C18]: (client.Client).Delete arg 0 Client in sigs.k8s.io/karpenter/pkg/controllers/provisioning/scheduling only (*Scheduler).none
//@ inventory schedulerNoClientDeleteAllOf [C18]: (client.Client).DeleteAllOf arg 0 Client in sigs.k8s.io/karpenter/pkg/controllers/provisioning/scheduling only (*Scheduler).none
//@ inventory schedulerNoStatusPatch [C18]: (client.SubResourceWriter).Patch arg 0 SubResourceWriter in sigs.k8s.io/karpenter/pkg/controllers/provisioning/scheduling only (*Scheduler).none
//@ inventory schedulerNoStatusUpdate [C18]: (client.SubResourceWriter).Update arg 0 SubResourceWriter in sigs.k8s.io/karpenter/pkg/controllers/provisioning/scheduling only (*Scheduler).none
//@ inventory schedulerNoStatusCreate [C18]: (client.SubResourceWriter).Create arg 0 SubResourceWriter in sigs.k8s.io/karpenter/pkg/controllers/provisioning/scheduling only (*Scheduler).none
//@ inventory schedulerNoProviderCreate [C18]: (cloudprovider.CloudProvider).Create arg 0 CloudProvider in sigs.k8s.io/karpenter/pkg/controllers/provisioning/scheduling only (*Scheduler).none
//@ inventory schedulerNoProviderDelete [C18]: (cloudprovider.CloudProvider).Delete arg 0 CloudProvider in sigs.k8s.io/karpenter/pkg/controllers/provisioning/scheduling only (*Scheduler).none
//@ inventory schedulerNoTaintWrites [C18]: state.RequireNoScheduleTaint arg 1 Client in sigs.k8s.io/karpenter/pkg/controllers/provisioning/scheduling only (*Scheduler).none
//@ inventory schedulerNoConditionWrites [C18]: state.ClearNodeClaimsCondition arg 1 Client in sigs.k8s.io/karpenter/pkg/controllers/provisioning/scheduling only (*Scheduler).none
// ---- cluster state: no deletion marks; nominations only in Results.Record (called by the provisioner after a real pass) ----
//@ inventory schedulerNoDeletionMarks [C18]: (*Cluster).MarkForDeletion arg 0 Cluster in sigs.k8s.io/karpenter/pkg/controllers/provisioning/scheduling only (*Scheduler).none
//@ inventory schedulerNoDeletionUnmarks [C18]: (*Cluster).UnmarkForDeletion arg 0 Cluster in sigs.k8s.io/karpenter/pkg/controllers/provisioning/scheduling only (*Scheduler).none
//@ inventory nominationOnlyInRecord [C18]: (*Cluster).NominateNodeForPod arg 0 Cluster in sigs.k8s.io/karpenter/pkg/controllers/provisioning/scheduling only (Results).Record
//@ inventory schedulerNoPodDecisionMarks [C18]: (*Cluster).MarkPodSchedulingDecisions arg 0 Cluster in sigs.k8s.io/karpenter/pkg/controllers/provisioning/scheduling only (*Scheduler).none
// ---- the helper trees the scheduler calls into contain no API write either ----
//@ inventory utilsNoClientCreate [C18]: (client.Client).Create arg 0 Client in sigs.k8s.io/karpenter/pkg/utils only (*Scheduler).none
//@ inventory utilsNoClientUpdate [C18]: (client.Client).Update arg 0 Client in sigs.k8s.io/karpenter/pkg/utils only (*Scheduler).none
//@ inventory utilsNoClientPatch [C18]: (client.Client).Patch arg 0 Client in sigs.k8s.io/karpenter/pkg/utils only (*Scheduler).none
//@ inventory utilsNoClientDelete [C18]: (client.Client).Delete arg 0 Client in sigs.k8s.io/karpenter/pkg/utils only (*Scheduler).none
//@ inventory utilsNoStatusPatch [C18]: (client.SubResourceWriter).Patch arg 0 SubResourceWriter in sigs.k8s.io/karpenter/pkg/utils only (*Scheduler).none
//@ inventory utilsNoStatusUpdate [C18]: (client.SubResourceWriter).Update arg 0 SubResourceWriter in sigs.k8s.io/karpenter/pkg/utils only (*Scheduler).none
//@ inventory schedulingLibNoClientPatch [C18]: (client.Client).Patch arg 0 Client in sigs.k8s.io/karpenter/pkg/scheduling only (*Scheduler).none
//@ inventory schedulingLibNoClientUpdate [C18]: (client.Client).Update arg 0 Client in sigs.k8s.io/karpenter/pkg/scheduling only (*Scheduler).none
//@ inventory schedulingLibNoClientCreate [C18]: (client.Client).Create arg 0 Client in sigs.k8s.io/karpenter/pkg/scheduling only (*Scheduler).none
//@ inventory schedulingLibNoClientDelete [C18]: (client.Client).Delete arg 0 Client in sigs.k8s.io/karpenter/pkg/scheduling only (*Scheduler).none
