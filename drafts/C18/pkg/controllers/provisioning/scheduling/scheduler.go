/*
Copyright The Kubernetes Authors.

Licensed under the Apache License, Version 2.0 (the "License");
you may not use this file except in compliance with the License.
You may obtain a copy of the License at

    http://www.apache.org/licenses/LICENSE-2.0

Unless required by applicable law or agreed to in writing, software
distributed under the License is distributed on an "AS IS" BASIS,
WITHOUT WARRANTIES OR CONDITIONS OF ANY KIND, either express or implied.
See the License for the specific language governing permissions and
limitations under the License.
*/

package scheduling

import (
	"bytes"
	"context"
	"errors"
	"fmt"
	"math"
	"sort"
	"strings"
	"sync"
	"time"

	"github.com/awslabs/operatorpkg/option"
	"github.com/awslabs/operatorpkg/serrors"
	"github.com/samber/lo"
	"go.uber.org/multierr"
	corev1 "k8s.io/api/core/v1"
	resourcev1 "k8s.io/api/resource/v1"
	"k8s.io/apimachinery/pkg/api/resource"
	"k8s.io/apimachinery/pkg/types"
	"k8s.io/apimachinery/pkg/util/sets"
	"k8s.io/apimachinery/pkg/util/uuid"
	"k8s.io/klog/v2"
	"k8s.io/utils/clock"
	"sigs.k8s.io/controller-runtime/pkg/client"
	"sigs.k8s.io/controller-runtime/pkg/log"

	autoscalingv1beta1 "sigs.k8s.io/karpenter/pkg/apis/autoscaling/v1beta1"
	v1 "sigs.k8s.io/karpenter/pkg/apis/v1"
	"sigs.k8s.io/karpenter/pkg/cloudprovider"
	"sigs.k8s.io/karpenter/pkg/controllers/state"
	"sigs.k8s.io/karpenter/pkg/events"
	"sigs.k8s.io/karpenter/pkg/metrics"
	"sigs.k8s.io/karpenter/pkg/operator/injection"
	karpopts "sigs.k8s.io/karpenter/pkg/operator/options"
	"sigs.k8s.io/karpenter/pkg/scheduling"
	"sigs.k8s.io/karpenter/pkg/scheduling/dynamicresources"
	"sigs.k8s.io/karpenter/pkg/utils/disruption"
	"sigs.k8s.io/karpenter/pkg/utils/pod"
	"sigs.k8s.io/karpenter/pkg/utils/resources"
)

type ReservedOfferingMode int

// TODO: Evaluate if another mode should be created for drift. The problem with strict is that it assumes we can run
// multiple scheduling loops to make progress, but if scheduling all pods from the drifted node in a single iteration
// requires fallback, we're at a stalemate. This makes strict a non-starter for drift IMO.
// On the other hand, fallback will result in non-ideal launches when there's constrained capacity. This should be
// rectified by consolidation, but if we can be "right" the at initial launch that would be preferable.
// One potential improvement is a "preferences" type strategy, where we attempt to schedule the pod without fallback
// first. This is an improvement over the current fallback strategy since it ensures all new nodeclaims are attempted,
// before then attempting all nodepools, but it still doesn't address the case when offerings are reserved pessimistically.
// I don't believe there's a solution to this short of the max-flow based instance selection algorithm, which has its own
// drawbacks.
const (
	// ReservedOfferingModeFallbackAlways indicates to the scheduler that the addition of a pod to a nodeclaim which
	// results in all potential reserved offerings being filtered out is allowed (e.g. on-demand / spot fallback).
	ReservedOfferingModeFallback ReservedOfferingMode = iota
	// ReservedOfferingModeStrict indicates that the scheduler should fail to add a pod to a nodeclaim if doing so would
	// prevent it from scheduling to reserved capacity, when it would have otherwise.
	ReservedOfferingModeStrict
)

type PreferencePolicy int

const (
	// PreferencePolicyRespect indicates to the scheduler that it should attempt to respect all preference requirements
	// and topologies. The scheduler will treat all preferences as required at first and then will slowly relax
	// these requirements one at a time until it is able to schedule the pod
	PreferencePolicyRespect PreferencePolicy = iota
	// PreferencePolicyIgnore indicates to the scheduler that it should ignore all preference requirements and
	// topologies. Preferences include preferredDuringSchedulingIgnoredDuringExecution affinities and ScheduleAnyways
	// topologySpreadConstraints
	PreferencePolicyIgnore
)

type options struct {
	reservedOfferingMode    ReservedOfferingMode
	preferencePolicy        PreferencePolicy
	minValuesPolicy         karpopts.MinValuesPolicy
	numConcurrentReconciles int
	enforceConsolidateAfter bool
}

type Options = option.Function[options]

var DisableReservedCapacityFallback = func(opts *options) {
	opts.reservedOfferingMode = ReservedOfferingModeStrict
}

var IgnorePreferences = func(opts *options) {
	opts.preferencePolicy = PreferencePolicyIgnore
}

var NumConcurrentReconciles = func(numConcurrentReconciles int) func(*options) {
	return func(opts *options) {
		opts.numConcurrentReconciles = numConcurrentReconciles
	}
}

var MinValuesPolicy = func(policy karpopts.MinValuesPolicy) func(*options) {
	return func(opts *options) {
		opts.minValuesPolicy = policy
	}
}

var IsConsolidationSimulation = func(opts *options) {
	opts.enforceConsolidateAfter = true
}

func NewScheduler(
	ctx context.Context,
	kubeClient client.Client,
	nodePools []*v1.NodePool,
	cluster *state.Cluster,
	stateNodes []*state.StateNode,
	topology *Topology,
	instanceTypes map[string][]*cloudprovider.InstanceType,
	daemonSetPods []*corev1.Pod,
	recorder events.Recorder,
	clock clock.Clock,
	volumeReqsByPod map[types.UID][]scheduling.Requirements,
	allocator *dynamicresources.Allocator,
	opts ...Options,
) *Scheduler {
	minValuesPolicy := option.Resolve(opts...).minValuesPolicy

	// if any of the nodePools add a taint with a prefer no schedule effect, we add a toleration for the taint
	// during preference relaxation
	toleratePreferNoSchedule := false
	for _, np := range nodePools {
		for _, taint := range np.Spec.Template.Spec.Taints {
			if taint.Effect == corev1.TaintEffectPreferNoSchedule {
				toleratePreferNoSchedule = true
			}
		}
	}
	// Pre-filter instance types eligible for NodePools to reduce work done during scheduling loops for pods
	// if no templates remain, we still want to build the scheduler so that Karpenter can ack pods which can schedule to existing and in-flight capacity
	templates := lo.FilterMap(nodePools, func(np *v1.NodePool, _ int) (*NodeClaimTemplate, bool) {
		var err error
		nct := NewNodeClaimTemplate(np)
		nct.InstanceTypeOptions, _, err = filterInstanceTypesByRequirements(instanceTypes[np.Name], nct.Requirements, &corev1.Pod{}, corev1.ResourceList{}, []DaemonOverheadGroup{{InstanceTypes: instanceTypes[np.Name], HostPortUsage: scheduling.NewHostPortUsage()}}, corev1.ResourceList{}, minValuesPolicy == karpopts.MinValuesPolicyBestEffort)
		if len(nct.InstanceTypeOptions) == 0 {
			if instanceTypeFilterErr, ok := lo.ErrorsAs[InstanceTypeFilterError](err); ok && instanceTypeFilterErr.minValuesIncompatibleErr != nil {
				recorder.Publish(NoCompatibleInstanceTypes(np, true))
				log.FromContext(ctx).WithValues("NodePool", klog.KObj(np)).Info("skipping, nodepool requirements filtered out all instance types", "minValuesIncompatibleErr", instanceTypeFilterErr.minValuesIncompatibleErr)
			} else {
				recorder.Publish(NoCompatibleInstanceTypes(np, false))
				log.FromContext(ctx).WithValues("NodePool", klog.KObj(np)).Info("skipping, nodepool requirements filtered out all instance types")
			}
			return nil, false
		}
		return nct, true
	})
	s := &Scheduler{
		uuid:                 uuid.NewUUID(),
		kubeClient:           kubeClient,
		nodeClaimTemplates:   templates,
		topology:             topology,
		cluster:              cluster,
		daemonOverheadGroups: buildDaemonOverheadGroups(ctx, templates, daemonSetPods),
		cachedPodData:        map[types.UID]*PodData{}, // cache pod data to avoid having to continually recompute it
		volumeReqsByPod:      volumeReqsByPod,          // Volume requirements per pod
		recorder:             recorder,
		preferences:          &Preferences{ToleratePreferNoSchedule: toleratePreferNoSchedule},
		remainingResources: lo.SliceToMap(nodePools, func(np *v1.NodePool) (string, corev1.ResourceList) {
			return np.Name, corev1.ResourceList(np.Spec.Limits)
		}),
		clock:                   clock,
		reservationManager:      NewReservationManager(instanceTypes),
		reservedOfferingMode:    option.Resolve(opts...).reservedOfferingMode,
		preferencePolicy:        option.Resolve(opts...).preferencePolicy,
		minValuesPolicy:         minValuesPolicy,
		numConcurrentReconciles: lo.Ternary(option.Resolve(opts...).numConcurrentReconciles > 0, option.Resolve(opts...).numConcurrentReconciles, 1),
		allocator:               allocator,
		instanceTypes:           instanceTypes,
		cachedResourceClaims:    map[types.NamespacedName]*resourcev1.ResourceClaim{},
	}

	npByName := lo.SliceToMap(nodePools, func(np *v1.NodePool) (string, *v1.NodePool) {
		return np.Name, np
	})

	nodeToNodePool := lo.SliceToMap(stateNodes, func(n *state.StateNode) (string, *v1.NodePool) {
		return n.Name(), npByName[n.Labels()[v1.NodePoolLabelKey]]
	})
	// Build a set of node names that are marked for deletion so we can exempt their pods
	// from the consolidateAfter destination check
	deletingNodeNames := sets.New[string]()
	for n := range cluster.Nodes() {
		if n.MarkedForDeletion() {
			deletingNodeNames.Insert(n.Name())
		}
	}
	s.deletingNodeNames = deletingNodeNames
	s.calculateExistingNodeClaims(ctx, stateNodes, daemonSetPods, nodeToNodePool, option.Resolve(opts...).enforceConsolidateAfter)
	return s
}

type PodData struct {
	Requests                 corev1.ResourceList
	Requirements             scheduling.Requirements
	StrictRequirements       scheduling.Requirements
	HasResourceClaimRequests bool
	VolumeRequirements       []scheduling.Requirements // Volume topology requirement alternatives

	// ResourceClaims are the resolved ResourceClaim objects referenced by the pod, populated for DRA pods when the
	// allocator is enabled. ResourceClaimErr records a resolution failure (e.g. a claim that hasn't been created yet),
	// in which case the pod is deferred to a subsequent scheduling loop.
	ResourceClaims   []*resourcev1.ResourceClaim
	ResourceClaimErr error
}

type Scheduler struct {
	uuid                    types.UID // Unique UUID attached to this scheduling loop
	newNodeClaims           []*NodeClaim
	existingNodes           []*ExistingNode
	nodeClaimTemplates      []*NodeClaimTemplate
	remainingResources      map[string]corev1.ResourceList // (NodePool name) -> remaining resources for that NodePool
	daemonOverheadGroups    map[*NodeClaimTemplate][]DaemonOverheadGroup
	cachedPodData           map[types.UID]*PodData                  // (Pod Namespace/Name) -> pre-computed data for pods to avoid re-computation and memory usage
	volumeReqsByPod         map[types.UID][]scheduling.Requirements // Volume topology requirement alternatives per pod
	preferences             *Preferences
	topology                *Topology
	cluster                 *state.Cluster
	recorder                events.Recorder
	kubeClient              client.Client
	clock                   clock.Clock
	reservationManager      *ReservationManager
	reservedOfferingMode    ReservedOfferingMode
	preferencePolicy        PreferencePolicy
	minValuesPolicy         karpopts.MinValuesPolicy
	numConcurrentReconciles int
	deletingNodeNames       sets.Set[string]

	// allocator simulates DRA device allocation for pods with ResourceClaims. It is nil when DRA support is disabled.
	allocator *dynamicresources.Allocator
	// instanceTypes is the per-NodePool instance type set, used to resolve template devices for existing nodes.
	instanceTypes map[string][]*cloudprovider.InstanceType
	// cachedResourceClaims memoizes ResourceClaim lookups for the duration of a single scheduling loop.
	cachedResourceClaims map[types.NamespacedName]*resourcev1.ResourceClaim
}

// DRAError indicates a pod will not be attempted to be scheduled because it has Dynamic Resource Allocation requirements
// that are not yet supported by Karpenter
type DRAError struct {
	error
}

func NewDRAError(err error) DRAError {
	return DRAError{error: err}
}

func IsDRAError(err error) bool {
	draErr := &DRAError{}
	return errors.As(err, draErr)
}

func (e DRAError) Unwrap() error {
	return e.error
}

// Results contains the results of the scheduling operation
type Results struct {
	NewNodeClaims              []*NodeClaim
	ExistingNodes              []*ExistingNode
	PodErrors                  map[*corev1.Pod]error
	DRAClaimAllocationMetadata map[types.NamespacedName]*dynamicresources.ResourceClaimAllocationMetadata
}

// Record sends eventing and log messages back for the results that were produced from a scheduling run
// It also nominates nodes in the cluster state based on the scheduling run to signal to other components
// leveraging the cluster state that a previous scheduling run that was recorded is relying on these nodes
func (r Results) Record(ctx context.Context, recorder events.Recorder, cluster *state.Cluster) {
	// Report failures and nominations
	for p, err := range r.PodErrors {
		if IsReservedOfferingError(err) {
			continue
		}
		if IsDRAError(err) {
			recorder.Publish(PodFailedToScheduleEvent(p, err))
			log.FromContext(ctx).WithValues("Pod", klog.KObj(p)).Info("skipping pod with Dynamic Resource Allocation requirements, not yet supported by Karpenter")
			continue
		}
		log.FromContext(ctx).WithValues("Pod", klog.KObj(p)).Error(err, "could not schedule pod")
		recorder.Publish(PodFailedToScheduleEvent(p, err))
	}
	// Nominate nodes only for real pods. Virtual buffer pods (injected by
	// GetPendingPods for CapacityBuffer) must NOT trigger nomination because:
	//   1. Nomination blocks ALL disruption (drift, expiry) — we only want to
	//      block emptiness, which is handled by cluster.HasBufferPods instead.
	//   2. Buffer pods are re-injected every pass, so nomination would never
	//      expire, making buffer nodes permanently undisruptable.
	for _, existing := range r.ExistingNodes {
		realPods := lo.Filter(existing.Pods, func(p *corev1.Pod, _ int) bool {
			return !isVirtualBufferPod(p)
		})
		if len(realPods) > 0 {
			cluster.NominateNodeForPod(ctx, existing.ProviderID())
		}
		for _, p := range realPods {
			recorder.Publish(NominatePodEvent(p, existing.Node, existing.NodeClaim))
		}
	}
	// Report new nodes, or exit to avoid log spam
	newCount := 0
	for _, nodeClaim := range r.NewNodeClaims {
		newCount += len(nodeClaim.Pods)
	}
	if newCount == 0 {
		return
	}
	log.FromContext(ctx).WithValues("nodeclaims", len(r.NewNodeClaims), "pods", newCount).Info("computed new nodeclaim(s) to fit pod(s)")
	// Report in flight newNodes, or exit to avoid log spam
	inflightCount := 0
	existingCount := 0
	for _, node := range lo.Filter(r.ExistingNodes, func(node *ExistingNode, _ int) bool { return len(node.Pods) > 0 }) {
		inflightCount++
		existingCount += len(node.Pods)
	}
	if existingCount == 0 {
		return
	}
	log.FromContext(ctx).WithValues("nodes", inflightCount, "pods", existingCount).Info("computed unready node(s) will fit pod(s)")
}

func isVirtualBufferPod(p *corev1.Pod) bool {
	return p.Annotations[autoscalingv1beta1.FakePodAnnotationKey] == autoscalingv1beta1.FakePodAnnotationValue
}

func (r Results) ReservedOfferingErrors() map[*corev1.Pod]error {
	return lo.PickBy(r.PodErrors, func(_ *corev1.Pod, err error) bool {
		return IsReservedOfferingError(err)
	})
}

func (r Results) DRAErrors() map[*corev1.Pod]error {
	return lo.PickBy(r.PodErrors, func(_ *corev1.Pod, err error) bool {
		return IsDRAError(err)
	})
}

func (r Results) NodePoolToPodMapping() map[string][]*corev1.Pod {
	result := make(map[string][]*corev1.Pod)

	for _, nc := range r.NewNodeClaims {
		nodePoolName := nc.Labels[v1.NodePoolLabelKey]
		result[nodePoolName] = append(result[nodePoolName], nc.Pods...)
	}

	for _, nc := range r.ExistingNodes {
		nodePoolName := nc.Labels()[v1.NodePoolLabelKey]
		result[nodePoolName] = append(result[nodePoolName], nc.Pods...)
	}

	return result
}

func (r Results) ExistingNodeToPodMapping() map[string][]*corev1.Pod {
	return lo.SliceToMap(lo.Filter(r.ExistingNodes, func(n *ExistingNode, _ int) bool {
		// Filter out nodes that are not managed
		return n.Managed()
	}), func(n *ExistingNode) (string, []*corev1.Pod) {
		return n.NodeClaim.Name, n.Pods
	})
}

// AllNonPendingPodsScheduled returns true if all pods scheduled.
// We don't care if a pod was pending before consolidation and will still be pending after. It may be a pod that we can't
// schedule at all and don't want it to block consolidation.
func (r Results) AllNonPendingPodsScheduled() bool {
	return len(lo.OmitBy(r.PodErrors, func(p *corev1.Pod, err error) bool {
		return pod.IsProvisionable(p)
	})) == 0
}

// NonPendingPodSchedulingErrors creates a string that describes why pods wouldn't schedule that is suitable for presentation
func (r Results) NonPendingPodSchedulingErrors() string {
	errs := lo.OmitBy(r.PodErrors, func(p *corev1.Pod, err error) bool {
		return pod.IsProvisionable(p)
	})
	if len(errs) == 0 {
		return "No Pod Scheduling Errors"
	}
	var msg bytes.Buffer
	fmt.Fprintf(&msg, "not all pods would schedule, ")
	const MaxErrors = 5
	numErrors := 0
	for k, err := range errs {
		fmt.Fprintf(&msg, "%s/%s => %s ", k.Namespace, k.Name, err)
		numErrors++
		if numErrors >= MaxErrors {
			fmt.Fprintf(&msg, " and %d other(s)", len(errs)-MaxErrors)
			break
		}
	}
	return msg.String()
}

// TruncateInstanceTypes filters the result based on the maximum number of instanceTypes that needs
// to be considered. This filters all instance types generated in NewNodeClaims in the Results
func (r Results) TruncateInstanceTypes(ctx context.Context, maxInstanceTypes int) Results {
	var validNewNodeClaims []*NodeClaim
	for _, newNodeClaim := range r.NewNodeClaims {
		// The InstanceTypeOptions are truncated due to limitations in sending the number of instances to launch API.
		var err error
		newNodeClaim.InstanceTypeOptions, err = newNodeClaim.InstanceTypeOptions.Truncate(ctx, newNodeClaim.Requirements, maxInstanceTypes)
		if err != nil {
			// Check if the truncated InstanceTypeOptions in each NewNodeClaim from the results still satisfy the minimum requirements
			// If number of InstanceTypes in the NodeClaim cannot satisfy the minimum requirements, add its Pods to error map with reason.
			for _, pod := range newNodeClaim.Pods {
				r.PodErrors[pod] = serrors.Wrap(fmt.Errorf("pod didn’t schedule because NodePool couldn’t meet minValues requirements, %w", err), "NodePool", klog.KRef("", newNodeClaim.NodePoolName))
			}
		} else {
			validNewNodeClaims = append(validNewNodeClaims, newNodeClaim)
		}
	}
	r.NewNodeClaims = validNewNodeClaims
	return r
}

//nolint:gocyclo
func (s *Scheduler) Solve(ctx context.Context, pods []*corev1.Pod) (Results, error) {
	defer metrics.Measure(DurationSeconds, map[string]string{ControllerLabel: injection.GetControllerName(ctx)})()
	// We loop trying to schedule unschedulable pods as long as we are making progress.  This solves a few
	// issues including pods with affinity to another pod in the batch. We could topo-sort to solve this, but it wouldn't
	// solve the problem of scheduling pods where a particular order is needed to prevent a max-skew violation. E.g. if we
	// had 5xA pods and 5xB pods were they have a zonal topology spread, but A can only go in one zone and B in another.
	// We need to schedule them alternating, A, B, A, B, .... and this solution also solves that as well.
	podErrors := map[*corev1.Pod]error{}
	// Reset the metric for the controller, so we don't keep old ids around
	UnschedulablePodsCount.DeletePartialMatch(map[string]string{ControllerLabel: injection.GetControllerName(ctx)})
	PendingPodsByEffectiveZone.DeletePartialMatch(map[string]string{ControllerLabel: injection.GetControllerName(ctx)})
	QueueDepth.DeletePartialMatch(map[string]string{ControllerLabel: injection.GetControllerName(ctx)})
	podCountByZone := make(map[string]int)
	for _, p := range pods {
		s.updateCachedPodData(ctx, p)
		if p.Status.Phase == corev1.PodPending {
			zone := s.computeEffectiveZoneFromPod(p)
			podCountByZone[zone]++
		}
	}

	q := NewQueue(pods, s.cachedPodData)

	startTime := s.clock.Now()
	for {
		UnfinishedWorkSeconds.Set(s.clock.Since(startTime).Seconds(), map[string]string{ControllerLabel: injection.GetControllerName(ctx), schedulingIDLabel: string(s.uuid)})
		QueueDepth.Set(float64(len(q.pods)), map[string]string{ControllerLabel: injection.GetControllerName(ctx), schedulingIDLabel: string(s.uuid)})

		// Try the next pod
		pod, ok := q.Pop()
		if !ok {
			break
		}
		// We relax the pod all the way the first time we see it
		// If we don't schedule it, we store the original pod (with preferences)
		// in the queue and give ourselves another chance to schedule it later
		if err := s.trySchedule(ctx, pods[0].DeepCopy()); err != nil {
			if errors.Is(err, context.DeadlineExceeded) {
				log.FromContext(ctx).V(1).WithValues("duration", s.clock.Since(startTime).Truncate(time.Second), "scheduling-id", string(s.uuid)).Info("scheduling simulation timed out")
				break
			}
			podErrors[pod] = err
			if e := s.topology.Update(ctx, pod); e != nil && !errors.Is(e, context.DeadlineExceeded) {
				log.FromContext(ctx).Error(e, "failed updating topology")
			}
			// Update the cached podData since the pod was relaxed, and it could have changed its requirement set
			s.updateCachedPodData(ctx, pod)
			q.Push(pod)
		} else {
			delete(podErrors, pod)
		}
	}
	UnfinishedWorkSeconds.Delete(map[string]string{ControllerLabel: injection.GetControllerName(ctx), schedulingIDLabel: string(s.uuid)})
	for _, m := range s.newNodeClaims {
		m.FinalizeScheduling(s.draDriversForNodeClaim(m)...)
	}

	controllerName := injection.GetControllerName(ctx)
	for zone, count := range podCountByZone {
		PendingPodsByEffectiveZone.Set(float64(count), map[string]string{
			ControllerLabel: controllerName,
			"zone":          zone,
		})
	}

	results := Results{
		NewNodeClaims: s.newNodeClaims,
		ExistingNodes: s.existingNodes,
		PodErrors:     podErrors,
	}
	if s.allocator != nil {
		results.DRAClaimAllocationMetadata = lo.MapKeys(
			s.allocator.ResourceClaimAllocationMetadata(),
			func(_ *dynamicresources.ResourceClaimAllocationMetadata, k dynamicresources.ResourceClaimID) types.NamespacedName {
				return k.Value()
			},
		)
	}
	return results, ctx.Err()
}

func (s *Scheduler) trySchedule(ctx context.Context, p *corev1.Pod) error {
	for {
		if ctx.Err() != nil {
			return ctx.Err()
		}
		err := s.add(ctx, p)
		if err == nil {
			return nil
		}
		// We should only relax the pod's requirements when the error is not a reserved offering error because the pod may be
		// able to schedule later without relaxing constraints. This could occur in this scheduling run, if other NodeClaims
		// release the required reservations when constrained, or in subsequent runs. For an example, reference the following
		// test: "shouldn't relax preferences when a pod fails to schedule due to a reserved offering error".
		if IsReservedOfferingError(err) {
			return err
		}
		// DRA errors are permanent while the IgnoreDRARequests flag is enabled, so we shouldn't attempt to relax
		// pod requirements as we don't want to schedule the pod.
		if IsDRAError(err) {
			return err
		}
		// Eventually we won't be able to relax anymore and this while loop will exit
		if relaxed := s.preferences.Relax(ctx, p); !relaxed {
			return err
		}
		if e := s.topology.Update(ctx, p); e != nil && !errors.Is(e, context.DeadlineExceeded) {
			log.FromContext(ctx).Error(e, "failed updating topology")
		}
		// Update the cached podData since the pod was relaxed, and it could have changed its requirement set
		s.updateCachedPodData(ctx, p)
	}
}

func (s *Scheduler) updateCachedPodData(ctx context.Context, p *corev1.Pod) {
	var requirements scheduling.Requirements
	if s.preferencePolicy == PreferencePolicyIgnore {
		requirements = scheduling.NewStrictPodRequirements(p)
	} else {
		requirements = scheduling.NewPodRequirements(p)
	}
	strictRequirements := requirements
	if scheduling.HasPreferredNodeAffinity(p) {
		// strictPodRequirements is important as it ensures we don't inadvertently restrict the possible pod domains by a
		// preferred node affinity.  Only required node affinities can actually reduce pod domains.
		strictRequirements = scheduling.NewStrictPodRequirements(p)
	}
	data := &PodData{
		Requests:                 resources.RequestsForPods(p),
		Requirements:             requirements,
		StrictRequirements:       strictRequirements,
		HasResourceClaimRequests: pod.HasDRARequirements(p),
		VolumeRequirements:       s.volumeReqsByPod[p.UID], // Volume requirements
	}
	// Resolve the pod's ResourceClaims once, in the sequential path, so the parallel candidate evaluation can reuse them
	// without per-candidate API lookups. A resolution failure is recorded and surfaced as a scheduling error in add().
	if data.HasResourceClaimRequests && s.allocator != nil {
		data.ResourceClaims, data.ResourceClaimErr = s.resolvePodClaims(ctx, p)
	}
	s.cachedPodData[p.UID] = data
}

func (s *Scheduler) add(ctx context.Context, pod *corev1.Pod) error {
	// Check if pod has DRA requirements - if so, return DRA error when IgnoreDRARequests is enabled
	if s.cachedPodData[pod.UID].HasResourceClaimRequests && karpopts.FromContext(ctx).IgnoreDRARequests {
		return NewDRAError(fmt.Errorf("pod has Dynamic Resource Allocation requirements that are not yet supported by Karpenter"))
	}
	// If the pod's ResourceClaims couldn't be resolved (e.g. a referenced claim hasn't been created yet), no candidate
	// can satisfy it. Surface the error directly so the pod is deferred and retried once the claim exists.
	if err := s.cachedPodData[pod.UID].ResourceClaimErr; err != nil {
		return err
	}

	// first try to schedule against an in-flight real node
	if err := s.addToExistingNode(ctx, pod); err == nil {
		return nil
	}
	// Consider using https://pkg.go.dev/container/heap
	sort.Slice(s.newNodeClaims, func(a, b int) bool { return len(s.newNodeClaims[a].Pods) < len(s.newNodeClaims[b].Pods) })

	// Pick existing node that we are about to create
	if err := s.addToInflightNode(ctx, pod); err == nil {
		return nil
	}
	if len(s.nodeClaimTemplates) == 0 {
		return fmt.Errorf("nodepool requirements filtered out all available instance types")
	}
	err := s.addToNewNodeClaim(ctx, pod)
	if err == nil {
		return nil
	}
	return err
}

func (s *Scheduler) addToExistingNode(ctx context.Context, p *corev1.Pod) error {
	idx := math.MaxInt
	var mu sync.Mutex

	var existingNode *ExistingNode
	var requirements scheduling.Requirements
	var allocationResult *dynamicresources.AllocationResult

	// determine the volumes that will be mounted if the pod schedules
	volumes, err := scheduling.GetVolumes(ctx, s.kubeClient, p)
	if err != nil {
		return err
	}
	parallelizeUntil(s.numConcurrentReconciles, len(s.existingNodes), func(i int) bool {
		if s.existingNodes[i].isUnderConsolidateAfter && (!pod.IsPending(p) && !s.deletingNodeNames.Has(p.Spec.NodeName)) {
			// We shouldn't try to schedule candidate pods onto nodes that are under consolidate after.
			// Pending pods and pods from deleting nodes are exempt.
			return true
		}
		r, result, err := s.existingNodes[i].CanAdd(ctx, p, s.cachedPodData[p.UID], volumes, s.allocator)
		if err == nil {
			mu.Lock()
			defer mu.Unlock()

			// Ensure that we always take an earlier successful schedule to keep consistent ordering
			if i >= idx {
				return false
			}
			existingNode = s.existingNodes[i]
			requirements = r
			allocationResult = result
			idx = i
			return false
		}
		return true
	})
	// If we set the existingNode to something valid, this means that we successfully scheduled to one of these nodes
	if existingNode != nil {
		existingNode.Add(ctx, p, s.cachedPodData[p.UID], requirements, volumes, allocationResult)
		return nil
	}
	return fmt.Errorf("failed scheduling pod to existing nodes")
}

func (s *Scheduler) addToInflightNode(ctx context.Context, pod *corev1.Pod) error {
	idx := math.MaxInt
	var mu sync.Mutex

	var inflightNodeClaim *NodeClaim
	var updatedRequirements scheduling.Requirements
	var updatedInstanceTypes []*cloudprovider.InstanceType
	var offeringsToReserve []*cloudprovider.Offering
	var allocationResult *dynamicresources.AllocationResult
	parallelizeUntil(s.numConcurrentReconciles, len(s.newNodeClaims), func(i int) bool {
		r, its, ofr, result, err := s.newNodeClaims[i].CanAdd(ctx, pod, s.cachedPodData[pod.UID], false, s.allocator)
		if err == nil {
			mu.Lock()
			defer mu.Unlock()

			// Ensure that we always take an earlier successful schedule to keep consistent ordering
			if i >= idx {
				return false
			}
			inflightNodeClaim = s.newNodeClaims[i]
			updatedRequirements = r
			updatedInstanceTypes = its
			offeringsToReserve = ofr
			allocationResult = result
			idx = i
			return false
		}
		return true
	})
	if inflightNodeClaim != nil {
		inflightNodeClaim.Add(ctx, pod, s.cachedPodData[pod.UID], updatedRequirements, updatedInstanceTypes, offeringsToReserve, allocationResult, s.allocator)
		return nil
	}
	return fmt.Errorf("failed scheduling pod to inflight nodes")
}

//nolint:gocyclo
func (s *Scheduler) addToNewNodeClaim(ctx context.Context, pod *corev1.Pod) error {
	idx := math.MaxInt
	var mu sync.Mutex

	var newNodeClaim *NodeClaim
	var updatedRequirements scheduling.Requirements
	var updatedInstanceTypes []*cloudprovider.InstanceType
	var offeringsToReserve []*cloudprovider.Offering
	var allocationResult *dynamicresources.AllocationResult

	errs := make([]error, len(s.nodeClaimTemplates))
	parallelizeUntil(s.numConcurrentReconciles, len(s.nodeClaimTemplates), func(i int) bool {
		its := s.nodeClaimTemplates[i].InstanceTypeOptions
		// if limits have been applied to the nodepool, ensure we filter instance types to avoid violating those limits
		if remaining, ok := s.remainingResources[s.nodeClaimTemplates[i].NodePoolName]; ok {
			// Node limits can be enforced early, since we know exactly how much capacity in nodes will be consumed by any instance type (1 node).
			nodesRemaining, ok := remaining[resources.Node]
			if ok && nodesRemaining.IsZero() {
				errs[i] = serrors.Wrap(fmt.Errorf("node limits have been exhausted for nodepool"), "NodePool", klog.KRef("", s.nodeClaimTemplates[i].NodePoolName))
				return true
			}
			its = filterByRemainingResources(its, remaining)
			if len(its) == 0 {
				errs[i] = serrors.Wrap(fmt.Errorf("all available instance types exceed limits for nodepool"), "NodePool", klog.KRef("", s.nodeClaimTemplates[i].NodePoolName))
				return true
			} else if len(s.nodeClaimTemplates[i].InstanceTypeOptions) != len(its) {
				log.FromContext(ctx).V(1).WithValues(
					"NodePool", klog.KRef("", s.nodeClaimTemplates[i].NodePoolName),
				).Info("instance types were excluded because they would breach limits",
					"excluded", len(s.nodeClaimTemplates[i].InstanceTypeOptions)-len(its),
					"total", len(s.nodeClaimTemplates[i].InstanceTypeOptions))
			}
		}
		nodeClaim := NewNodeClaim(s.nodeClaimTemplates[i], s.topology, s.daemonOverheadGroups[s.nodeClaimTemplates[i]], its, s.reservationManager, s.reservedOfferingMode)
		r, its, ofs, result, err := nodeClaim.CanAdd(ctx, pod, s.cachedPodData[pod.UID], s.minValuesPolicy == karpopts.MinValuesPolicyBestEffort, s.allocator)
		if err != nil {
			errs[i] = err

			// If the pod is compatible with a NodePool with reserved offerings available, we shouldn't fall back to a NodePool
			// with a lower weight. We could consider allowing "fallback" to NodePools with equal weight if they also have
			// reserved capacity in the future if scheduling latency becomes an issue.
			if IsReservedOfferingError(err) {
				mu.Lock()
				defer mu.Unlock()

				// A reserved offering error means that any subsequent successful after this NodeClaimTemplate isn't valid
				if i >= idx {
					return false
				}
				newNodeClaim = nil
				updatedRequirements = nil
				updatedInstanceTypes = nil
				offeringsToReserve = nil
				allocationResult = nil
				idx = i
				return false
			}
			return true
		}
		mu.Lock()
		defer mu.Unlock()

		// Ensure that we always take an earlier successful schedule to keep consistent ordering
		// We care about this particularly with NewNodeClaims because NodeClaims should be evaluated by weight
		if i >= idx {
			return false
		}

		_, minValuesRelaxed := lo.Find(nodeClaim.Requirements.Keys().UnsortedList(), func(k string) bool {
			updated := r.Get(k).MinValues
			original := nodeClaim.Requirements.Get(k).MinValues
			return original != nil && updated != nil && lo.FromPtr(updated) < lo.FromPtr(original)
		})
		if minValuesRelaxed {
			nodeClaim.Annotations[v1.NodeClaimMinValuesRelaxedAnnotationKey] = "true"
		} else {
			nodeClaim.Annotations[v1.NodeClaimMinValuesRelaxedAnnotationKey] = "false"
		}

		newNodeClaim = nodeClaim
		updatedRequirements = r
		updatedInstanceTypes = its
		offeringsToReserve = ofs
		allocationResult = result
		idx = i
		return false
	})
	if newNodeClaim != nil {
		// we will launch this nodeClaim and need to track its maximum possible resource usage against our remaining resources
		newNodeClaim.Add(ctx, pod, s.cachedPodData[pod.UID], updatedRequirements, updatedInstanceTypes, offeringsToReserve, allocationResult, s.allocator)
		s.newNodeClaims = append(s.newNodeClaims, newNodeClaim)
		s.remainingResources[newNodeClaim.NodePoolName] = subtractMax(s.remainingResources[newNodeClaim.NodePoolName], newNodeClaim.InstanceTypeOptions)
		return nil
	}
	return multierr.Combine(errs...)
}

func (s *Scheduler) calculateExistingNodeClaims(ctx context.Context, stateNodes []*state.StateNode, daemonSetPods []*corev1.Pod, nodePoolMap map[string]*v1.NodePool, enforceConsolidateAfter bool) {
	// create our existing nodes
	for _, node := range stateNodes {
		taints := node.Taints()
		daemons := s.getCompatibleDaemonPods(ctx, node, taints, daemonSetPods)
		isUnderConsolidateAfter := enforceConsolidateAfter && disruption.IsUnderConsolidateAfter(nodePoolMap[node.Name()], node.NodeClaim, s.clock)
		s.existingNodes = append(s.existingNodes, NewExistingNode(node, s.topology, taints, resources.RequestsForPods(daemons...), s.instanceTypeForNode(node), isUnderConsolidateAfter))
		s.updateRemainingResources(node)
	}
	s.sortExistingNodes()
}

// getCompatibleDaemonPods filters daemon pods that can schedule to the given node
func (s *Scheduler) getCompatibleDaemonPods(ctx context.Context, node *state.StateNode, taints []corev1.Taint, daemonSetPods []*corev1.Pod) []*corev1.Pod {
	var daemons []*corev1.Pod
	for _, p := range daemonSetPods {
		if s.shouldSkipDaemonPod(ctx, p) {
			continue
		}
		if s.isDaemonPodCompatibleWithNode(p, taints, node.Labels()) {
			daemons = append(daemons, p)
		}
	}
	return daemons
}

// shouldSkipDaemonPod checks if a daemon pod should be skipped due to DRA requirements
func (s *Scheduler) shouldSkipDaemonPod(ctx context.Context, p *corev1.Pod) bool {
	return pod.HasDRARequirements(p) && karpopts.FromContext(ctx).IgnoreDRARequests
}

// isDaemonPodCompatibleWithNode checks if a daemon pod is compatible with the node
func (s *Scheduler) isDaemonPodCompatibleWithNode(p *corev1.Pod, taints []corev1.Taint, nodeLabels map[string]string) bool {
	if err := scheduling.Taints(taints).ToleratesPod(p); err != nil {
		return false
	}
	if err := scheduling.NewLabelRequirements(nodeLabels).Compatible(scheduling.NewStrictPodRequirements(p)); err != nil {
		return false
	}
	return true
}

// updateRemainingResources updates the remaining resources for the node's nodepool
func (s *Scheduler) updateRemainingResources(node *state.StateNode) {
	// We don't use the status field and instead recompute the remaining resources to ensure we have a consistent view
	// of the cluster during scheduling.  Depending on how node creation falls out, this will also work for cases where
	// we don't create NodeClaim resources.
	if _, ok := s.remainingResources[node.Labels()[v1.NodePoolLabelKey]]; ok {
		s.remainingResources[node.Labels()[v1.NodePoolLabelKey]] = resources.Subtract(s.remainingResources[node.Labels()[v1.NodePoolLabelKey]], node.Capacity())
	}
}

// sortExistingNodes sorts existing nodes with initialized nodes first
func (s *Scheduler) sortExistingNodes() {
	// Order the existing nodes for scheduling with initialized nodes first
	// This is done specifically for consolidation where we want to make sure we schedule to initialized nodes
	// before we attempt to schedule uninitialized ones
	sort.SliceStable(s.existingNodes, func(i, j int) bool {
		if s.existingNodes[i].Initialized() && !s.existingNodes[j].Initialized() {
			return true
		}
		if !s.existingNodes[i].Initialized() && s.existingNodes[j].Initialized() {
			return false
		}
		return s.existingNodes[i].Name() < s.existingNodes[j].Name()
	})
}

// computeEffectiveZoneFromPod calculates the effective zone constraint by intersecting
// pod-level zone signals, PVC volume zones, and TSC valid domains. This can be the
// specific zone name if exactly one zone, "flexible" if multiple zones, "none" if no intersection.
//
//nolint:gocyclo
func (s *Scheduler) computeEffectiveZoneFromPod(pod *corev1.Pod) string {
	podData := s.cachedPodData[pod.UID]
	tscZoneValidDomains, satisfiable := s.topology.GetTopologyZoneConstraints(pod, podData.Requirements)
	if !satisfiable {
		return "none"
	}

	zoneReq := podData.StrictRequirements.Get(corev1.LabelTopologyZone)
	volZoneReq := volumeZoneReq(podData.VolumeRequirements)

	var zonalValues []string
	if zoneReq.Operator() == corev1.NodeSelectorOpIn {
		zonalValues = zoneReq.Values()
	} else if volZoneReq != nil {
		zonalValues = volZoneReq.Values()
	} else if len(tscZoneValidDomains) > 0 {
		zonalValues = sets.List(tscZoneValidDomains)
	} else {
		return "flexible"
	}

	var matchCount int
	var matchedZone string
	for _, zone := range zonalValues {
		if !zoneReq.Has(zone) {
			continue
		}
		if volZoneReq != nil && !volZoneReq.Has(zone) {
			continue
		}
		if len(tscZoneValidDomains) > 0 && !tscZoneValidDomains.Has(zone) {
			continue
		}
		matchCount++
		if matchCount == 1 {
			matchedZone = zone
		} else {
			return "flexible"
		}
	}
	return lo.Ternary(matchCount == 1, matchedZone, "none")
}

// volumeZoneReq returns a single Requirement representing the union of zone constraints
// across all volume alternatives. Returns nil if volumes don't constrain zones.
func volumeZoneReq(volumeReqs []scheduling.Requirements) *scheduling.Requirement {
	if len(volumeReqs) == 0 {
		return nil
	}
	var merged *scheduling.Requirement
	for _, vol := range volumeReqs {
		if vol == nil {
			return nil
		}
		req := vol.Get(corev1.LabelTopologyZone)
		if req.Operator() != corev1.NodeSelectorOpIn {
			return nil
		}
		if len(volumeReqs) == 1 {
			return req
		}
		if merged == nil {
			merged = scheduling.NewRequirement(corev1.LabelTopologyZone, corev1.NodeSelectorOpIn, req.Values()...)
		} else {
			merged.Insert(req.Values()...)
		}
	}
	return merged
}

// parallelizeUntil is an implementation of workqueue.ParallelizeUntil that modifies the
// doWorkPiece so that a worker always finishes its work when it pulls a piece off of pieces
// The function returns a bool that represents whether the worker should continue doing work
// or whether the worker should finish
func parallelizeUntil(workers, pieces int, doWorkPiece func(int) bool) {
	toProcess := make(chan int, pieces)
	for i := range pieces {
		toProcess <- i
	}
	close(toProcess)
	if pieces < workers {
		workers = pieces
	}
	wg := sync.WaitGroup{}
	wg.Add(workers)
	for i := 0; i < workers; i++ {
		go func() {
			defer wg.Done()
			for work := range toProcess {
				if !doWorkPiece(work) {
					return
				}
			}
		}()
	}
	wg.Wait()
}

type DaemonOverheadGroup struct {
	InstanceTypes  []*cloudprovider.InstanceType
	DaemonOverhead corev1.ResourceList
	HostPortUsage  *scheduling.HostPortUsage
}

// buildDaemonOverheadGroups groups instance types by their compatible daemon pods and computes the following for NodeClaimTemplate and group
// - Overhead required for daemons to schedule for any node provisioned by the NodeClaimTemplate
// - Requested host ports for DaemonSet pods
func buildDaemonOverheadGroups(ctx context.Context, nodeClaimTemplates []*NodeClaimTemplate, daemonSetPods []*corev1.Pod) map[*NodeClaimTemplate][]DaemonOverheadGroup {
	return lo.SliceToMap(nodeClaimTemplates, func(nct *NodeClaimTemplate) (*NodeClaimTemplate, []DaemonOverheadGroup) {
		groups := map[string]*DaemonOverheadGroup{}
		for _, it := range nct.InstanceTypeOptions {
			compatible := lo.Filter(daemonSetPods, func(p *corev1.Pod, _ int) bool {
				if pod.HasDRARequirements(p) && karpopts.FromContext(ctx).IgnoreDRARequests {
					return false
				}
				return isDaemonPodCompatible(nct, it, p)
			})
			key := podSetKey(compatible)
			if g, ok := groups[key]; ok {
				g.InstanceTypes = append(g.InstanceTypes, it)
			} else {
				var overhead corev1.ResourceList
				if len(compatible) > 0 {
					overhead = resources.RequestsForPods(compatible...)
				}
				hostPortUsage := scheduling.NewHostPortUsage()
				for _, p := range compatible {
					hostPortUsage.Add(p, scheduling.GetHostPorts(p))
				}
				groups[key] = &DaemonOverheadGroup{
					InstanceTypes:  []*cloudprovider.InstanceType{it},
					DaemonOverhead: overhead,
					HostPortUsage:  hostPortUsage,
				}
			}
		}
		result := lo.Map(lo.Values(groups), func(g *DaemonOverheadGroup, _ int) DaemonOverheadGroup { return *g })
		return nct, result
	})
}

// podSetKey creates a deterministic key from a list of pods for grouping.
func podSetKey(pods []*corev1.Pod) string {
	if len(pods) == 0 {
		return ""
	}
	keys := make([]string, len(pods))
	for i, p := range pods {
		keys[i] = client.ObjectKeyFromObject(p).String()
	}
	sort.Strings(keys)
	return strings.Join(keys, ",")
}

// isDaemonPodCompatible determines if the daemon pod is compatible with the NodeClaimTemplate for daemon scheduling
func isDaemonPodCompatible(nodeClaimTemplate *NodeClaimTemplate, it *cloudprovider.InstanceType, pod *corev1.Pod) bool {
	preferences := &Preferences{}
	// Add a toleration for PreferNoSchedule since a daemon pod shouldn't respect the preference
	_ = preferences.toleratePreferNoScheduleTaints(pod)
	if err := scheduling.Taints(nodeClaimTemplate.Spec.Taints).ToleratesPod(pod); err != nil {
		return false
	}
	for {
		podRequirements := scheduling.NewStrictPodRequirements(pod)
		// We don't consider pod preferences for scheduling requirements since we know that pod preferences won't matter with Daemonset scheduling
		if nodeClaimTemplate.Requirements.IsCompatible(podRequirements, scheduling.AllowUndefinedWellKnownLabels) &&
			// We use Intersects instead of IsCompatible for instance type requirements since we want to ignore any custom keys on the daemonset pod since they
			// will not be available on the instance type requirements.
			it.Requirements.Intersects(podRequirements) == nil {
			return true
		}
		// If relaxing the Node Affinity term didn't succeed, then this DaemonSet can't schedule to this NodePool
		// We don't consider other forms of relaxation here since we don't consider pod affinities/anti-affinities
		// when considering DaemonSet schedulability
		if preferences.removeRequiredNodeAffinityTerm(pod) == nil {
			return false
		}
	}
}

// subtractMax returns the remaining resources after subtracting the max resource quantity per instance type. To avoid
// overshooting out, we need to pessimistically assume that if e.g. we request a 2, 4 or 8 CPU instance type
// that the 8 CPU instance type is all that will be available.  This could cause a batch of pods to take multiple rounds
// to schedule.
func subtractMax(remaining corev1.ResourceList, instanceTypes []*cloudprovider.InstanceType) corev1.ResourceList {
	// shouldn't occur, but to be safe
	if len(instanceTypes) == 0 {
		return remaining
	}
	var allInstanceResources []corev1.ResourceList
	for _, it := range instanceTypes {
		allInstanceResources = append(allInstanceResources, it.Capacity)
	}
	result := corev1.ResourceList{}
	itResources := resources.MaxResources(allInstanceResources...)
	// Whichever instance type is launched, the NodeClaim uses up one node of a "nodes" limit. Instance types do
	// not list that resource in their capacity, so without this the limit was never charged within a pass.
	itResources[resources.Node] = resource.MustParse("1")
	for k, v := range remaining {
		cp := v.DeepCopy()
		cp.Sub(itResources[k])
		result[k] = cp
	}
	return result
}

// filterByRemainingResources is used to filter out instance types that if launched would exceed the nodepool limits
func filterByRemainingResources(instanceTypes []*cloudprovider.InstanceType, remaining corev1.ResourceList) []*cloudprovider.InstanceType {
	var filtered []*cloudprovider.InstanceType
	for _, it := range instanceTypes {
		itResources := it.Capacity
		viableInstance := true
		for resourceName, remainingQuantity := range remaining {
			// if the instance capacity is greater than the remaining quantity for this resource
			if resources.Cmp(itResources[resourceName], remainingQuantity) > 0 {
				viableInstance = false
			}
		}
		if viableInstance {
			filtered = append(filtered, it)
		}
	}
	return filtered
}
