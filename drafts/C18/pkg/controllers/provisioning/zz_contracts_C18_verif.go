//go:build verif

// Contracts for the deductive verifier in /verif (kvc). Comment-only: this file adds no code.
// C18 (mechanism level): helper frame facts for the simulation entry points.
package provisioning

// Listing the pending pods does not write into any slice of state nodes (keeps the list of copies that the caller
// is about to hand to the scheduler intact; also keeps this body out of the callers' verification conditions).
//@ func (*Provisioner).GetPendingPods
//@   prop C18
//@   modifies *
//@   ensures [nodeSlicesKept] forall s state.StateNodes, j int {old(s[j])} :: s[j] == old(s[j])
