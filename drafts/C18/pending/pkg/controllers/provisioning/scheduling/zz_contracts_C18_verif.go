//go:build verif

// PENDING (not part of the delivered overlay): the five C18 obligations of this contract (post.ownList, post.notTheInput,
// post.nilOnError, loop1/loop2 ownList init+step) all discharge, but with the function under verification the engine also
// has to prove the preconditions of its callees that carry contracts of other properties, and those fail here:
//   call.cloudprovider.(InstanceTypes).SatisfiesMinValues.2.pre.inv / pre.its   (C06: rsInv(requirements), c6itsReqOK(its))
//   call.scheduling.fits.2.pre.catalog                                           (C01: cloudprovider.offsOK(instanceType))
//   compatible -> call.scheduling.(Requirements).Intersects.2.pre.1              (rsInv(r) && rsInv(requirements))
// Needed: well-formedness preconditions on requirements / daemonOverheadGroups[..].InstanceTypes[..] plus loop
// invariants that carry them across the havocking calls in both loops (HostPortUsage.Conflicts, resources.MergeInto,
// trackDaemonOverhead), or `modifies` contracts on those callees.
package scheduling

// ---- (D) instance type lists kept by the scheduler are its own: the filter that produces every
// NodeClaimTemplate.InstanceTypeOptions (NewScheduler) and every NodeClaim's remaining options (CanAdd) returns a
// slice allocated by the filter itself, never the slice it was given (the cloud provider's list) ----
//@ func filterInstanceTypesByRequirements
//@   prop C18
//@   modifies *
//@   ensures [ownList] len(result.0) > 0 ==> fresh(result.0)
//@   ensures [notTheInput] len(result.0) > 0 ==> loc(result.0) != loc(instanceTypes)
//@   ensures [nilOnError] result.2 != nil ==> len(result.0) == 0
//@   loop 1 invariant [ownList] fresh(remaining)
//@   loop 2 invariant [ownList] fresh(remaining)

