//go:build verif

// Contracts for the deductive verifier in /verif (kvc). Comment-only: this file adds no code.
package resources

// C11 only needs that computing a pod's requests / limits reads the pods and writes nothing that existed
// before. The bodies are verified (the list they build and the merged result are allocated by the call, and
// the pod count is stored in that new list); what remains TRUSTED is only Ceiling, a wrapper around the
// Kubernetes resource helper (k8s.io/component-helpers, outside the repository): it reads the pod.
//@ func Ceiling
//@   prop C11
//@   trusted
//@   modifies nothing

//@ func RequestsForPods
//@   prop C11
//@   modifies nothing
//@   ensures [fresh] fresh(result) && result != nil
//@   loop 1 invariant [fresh] cap(resources) == 0 || fresh(resources)

//@ func LimitsForPods
//@   prop C11
//@   modifies nothing
//@   ensures [fresh] fresh(result) && result != nil
//@   loop 1 invariant [fresh] cap(resources) == 0 || fresh(resources)
