#!/bin/bash
# usage: run.sh [main|pending|withC01|all] [check args...]   builds a throw-away overlay and runs ./check C04 on it
# main    = drafts/C04/pkg only (the deliverable, assumption-free)
# pending = main + drafts/C04/pending/pkg (contracts that need engine features; carry stand-in `after .. assume` models)
# withC01 = main + pending + the C01 helper's draft contracts for pkg/utils/resources (drafts/C01)
mode=${1:-main}; shift
OV=${OV:-/tmp/ov_C04_$mode}; rm -rf "$OV"; mkdir -p "$OV"
cp -r /verif/drafts/C04/pkg "$OV/"
if [ "$mode" != main ]; then cp -r /verif/drafts/C04/pending/pkg/. "$OV/pkg/"; fi
if [ "$mode" = withC01 ] || [ "$mode" = all ]; then
  mkdir -p "$OV/pkg/utils/resources"; cp /verif/drafts/C01/pkg/utils/resources/zz_contracts*_verif.go "$OV/pkg/utils/resources/" 2>/dev/null
fi
if [ -n "$MUT" ]; then cp -r "$MUT"/. "$OV/"; fi
mkdir -p /tmp/ag_C04_$mode
cd /verif && KVC_CONTRACT_OVERLAY=$OV KVC_VERIF=/tmp/ag_C04_$mode ./check C04 "$@" 2>&1 | tail -${TAIL:-25}
KVC_VERIF=/tmp/ag_C04_$mode python3 show.py C04 2>&1 | tail -${TAIL:-25}
