//go:build verif

// Contracts for the deductive verifier in /verif (kvc). Comment-only: this file adds no code.
// C04: new capacity is opened only when existing capacity cannot admit the pod (state-node view part).
package state

// ---- (1) Taints: which taint list an existing / in-flight node is scheduled against ----
// The NodeClaim's taints are used while a managed node has not registered (or no Node exists yet); afterwards the
// Node's. Only for a managed node that is not initialized a filter is applied (startup + known ephemeral taints hidden).
//@ pure snClaimTaints(n *StateNode) bool = (!snRegistered(n) && snManaged(n)) || n.Node == nil
//@ pure snRawTaints(n *StateNode) = snClaimTaints(n) ? n.NodeClaim.Spec.Taints : n.Node.Spec.Taints
//@ pure snHidesTaints(n *StateNode) bool = snManaged(n) && !snInitialized(n)

//@ func (*StateNode).Taints
//@   prop C04
//@   modifies nothing
//@   ensures [unfiltered] !snHidesTaints(in) ==> result == snRawTaints(in)

// ---- (2) Allocatable: what an in-flight node counts with ----
// Until a managed node is initialized the NodeClaim's status (the allocatable of the instance type it was
// launched as) stands in: alone while no Node exists, and per resource name wherever the Node reports
// zero / nothing once the Node has appeared.
//@ pure snUsesClaimStatus(n *StateNode) bool = n.NodeClaim != nil && !snInitialized(n)
//@ pure snNodeAlloc(n *StateNode) = n.Node.Status.Allocatable
//@ pure snClaimAlloc(n *StateNode) = n.NodeClaim.Status.Allocatable

//@ func (*StateNode).Allocatable
//@   prop C04
//@   modifies nothing
//@   ensures [initialized] !snUsesClaimStatus(in) ==> result == snNodeAlloc(in)
//@   ensures [claimOnly] (snUsesClaimStatus(in) && in.Node == nil) ==> result == snClaimAlloc(in)
//@   ensures [mergedFresh] (snUsesClaimStatus(in) && in.Node != nil) ==> (fresh(result) && result != nil)
//@   ensures [mergedKeys] (snUsesClaimStatus(in) && in.Node != nil) ==> (forall k corev1.ResourceName {k in result} :: (k in result) <==> ((k in snNodeAlloc(in)) || (k in snClaimAlloc(in))))
//@   ensures [mergedVals] (snUsesClaimStatus(in) && in.Node != nil) ==> (forall k corev1.ResourceName {result[k]} :: result[k] == (((k in snClaimAlloc(in)) && snNodeAlloc(in)[k] == 0) ? snClaimAlloc(in)[k] : snNodeAlloc(in)[k]))
//@   loop 1 invariant ret == loopentry(ret) && fresh(ret) && ret != nil
//@   loop 1 invariant [keys] forall k corev1.ResourceName {k in ret} :: (k in ret) <==> ((k in snNodeAlloc(in)) || seen(k))
//@   loop 1 invariant [vals] forall k corev1.ResourceName {ret[k]} :: ret[k] == ((seen(k) && snNodeAlloc(in)[k] == 0) ? snClaimAlloc(in)[k] : snNodeAlloc(in)[k])

// ---- (4) Synced: no scheduling pass while a NodeClaim Karpenter created has not been launched ----
// A NodeClaim is tracked by name from the moment it is created; its provider ID is empty until it is launched.
// Synced answers true only if every tracked NodeClaim has a provider ID (both on the fast path after the first
// successful sync and on the full comparison with the API server).
//@ pure allLaunched(c *Cluster) bool = forall n string {n in c.nodeClaimNameToProviderID} :: (n in c.nodeClaimNameToProviderID) ==> c.nodeClaimNameToProviderID[n] != ""
//@ func (*Cluster).Synced
//@   prop C04
//@   modifies * except c.nodeClaimNameToProviderID, c.nodeClaimNameToProviderID[:], c.nodeNameToProviderID, c.nodeNameToProviderID[:], c.nodes, c.nodes[:]
//@   ensures [allLaunched] synced ==> allLaunched(c)
//@   loop 1 invariant forall n string {n in c.nodeClaimNameToProviderID} :: seen(n) ==> c.nodeClaimNameToProviderID[n] != ""
//@   loop 2 invariant forall n string {n in c.nodeClaimNameToProviderID} :: seen(n) ==> c.nodeClaimNameToProviderID[n] != ""
