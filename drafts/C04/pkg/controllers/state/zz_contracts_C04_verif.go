//go:build verif

// Contracts for the deductive verifier in /verif (kvc). Comment-only: this file adds no code.
// C04: new capacity is opened only when existing capacity cannot admit the pod (state-node view part).
package state

// ---- (1) Taints: which taint list an existing / in-flight node is scheduled against ----
// The NodeClaim's taints are used while a managed node has not registered (or no Node exists yet); afterwards the
// Node's. Only for a managed node that is not initialized a filter is applied (startup + known ephemeral taints hidden).
//@ pure snClaimTaints(n *StateNode) bool = (!snRegistered(n) && snManaged(n)) || n.Node == nil
//@ pure snRawTaints(n *StateNode) = snClaimTaints(n) ? n.NodeClaim.Spec.Taints : n.Node.Spec.Taints
//@ pure snHidesTaints(n *StateNode) bool = snManaged(n) && !snInitialized(n)

//@ func (*StateNode).Taints
//@   prop C04
//@   modifies nothing
//@   ensures [unfiltered] !snHidesTaints(in) ==> result == snRawTaints(in)

// ---- (4) Synced: no scheduling pass while a NodeClaim Karpenter created has not been launched ----
// A NodeClaim is tracked by name from the moment it is created; its provider ID is empty until it is launched.
// Synced answers true only if every tracked NodeClaim has a provider ID (both on the fast path after the first
// successful sync and on the full comparison with the API server).
//@ pure allLaunched(c *Cluster) bool = forall n string {n in c.nodeClaimNameToProviderID} :: (n in c.nodeClaimNameToProviderID) ==> c.nodeClaimNameToProviderID[n] != ""
//@ func (*Cluster).Synced
//@   prop C04
//@   modifies * except c.nodeClaimNameToProviderID, c.nodeClaimNameToProviderID[:], c.nodeNameToProviderID, c.nodeNameToProviderID[:], c.nodes, c.nodes[:]
//@   ensures [allLaunched] synced ==> allLaunched(c)
//@   loop 1 invariant forall n string {n in c.nodeClaimNameToProviderID} :: seen(n) ==> c.nodeClaimNameToProviderID[n] != ""
//@   loop 2 invariant forall n string {n in c.nodeClaimNameToProviderID} :: seen(n) ==> c.nodeClaimNameToProviderID[n] != ""
