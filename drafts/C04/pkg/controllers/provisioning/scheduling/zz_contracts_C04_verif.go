//go:build verif

// Contracts for the deductive verifier in /verif (kvc). Comment-only: this file adds no code.
// C04: new capacity is opened only when existing capacity cannot admit the pod (scheduler part).
package scheduling

// ---- (6a) order of attempts for one pod: existing nodes, then NodeClaims opened earlier in this pass, then a new one ----
// The list of NodeClaims to create (s.newNodeClaims) is only extended after both earlier attempts reported failure.
//@ func (*Scheduler).add
//@   prop C04
//@   modifies *
//@   site (*Scheduler).addToInflightNode requires [existingFirst] @(*Scheduler).addToExistingNode != nil
//@   site (*Scheduler).addToNewNodeClaim requires [existingFailed] @(*Scheduler).addToExistingNode != nil
//@   site (*Scheduler).addToNewNodeClaim requires [inflightFailed] @(*Scheduler).addToInflightNode != nil
//@   site store.Scheduler.newNodeClaims requires [opensOnlyAfterBothFailed] @(*Scheduler).addToExistingNode != nil && @(*Scheduler).addToInflightNode != nil

// ---- (6b) the per-candidate workers: a worker reports "keep looking" only for a candidate that refused the pod ----
// (existing nodes: or for one that is under consolidateAfter; that skip never applies to pending pods or pods of
// deleting nodes, which is all a provisioning pass schedules). What is still missing for the whole of (6) is a model of
// the package-local parallelizeUntil: "if no worker returned false, every index below pieces was visited" (then
// addToExistingNode / addToInflightNode returning an error would imply that every candidate refused the pod).
//@ func (*Scheduler).addToExistingNode closure@parallelizeUntil
//@   prop C04
//@   modifies *
//@   ensures [continueOnlyIfRefused] result ==> ((@(*ExistingNode).CanAdd).2 != nil || old(s.existingNodes[i].isUnderConsolidateAfter && !(pod.IsPending(p)) && !(p.Spec.NodeName in s.deletingNodeNames)))

//@ func (*Scheduler).addToInflightNode closure@parallelizeUntil
//@   prop C04
//@   modifies *
//@   ensures [continueOnlyIfRefused] result ==> (@(*NodeClaim).CanAdd).4 != nil
