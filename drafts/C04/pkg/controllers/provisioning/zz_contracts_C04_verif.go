//go:build verif

// Contracts for the deductive verifier in /verif (kvc). Comment-only: this file adds no code.
// C04: new capacity is opened only when existing capacity cannot admit the pod (provisioner part).
package provisioning

// ---- (5a) no scheduling pass while cluster state is not synced (some NodeClaim not launched / not tracked) ----
//@ func (*Provisioner).Reconcile
//@   prop C04
//@   modifies *
//@   site (*Provisioner).Schedule requires [synced] @(*Cluster).Synced
//@   site (*Provisioner).Schedule requires [everyClaimLaunched] state.allLaunched(p.cluster)
//@   site (*Provisioner).CreateNodeClaims requires [synced] @(*Cluster).Synced

// Schedule is only cut off here (it claims nothing: everything may change, no postcondition). Its own contract
// (nodes marked for deletion are filtered out before NewScheduler) is in pending/: the engine rejects the body
// ("defer outside the entry block"), and without a contract Schedule would be inlined into Reconcile and abort it too.
//@ func (*Provisioner).Schedule
//@   prop C04
//@   trusted
//@   modifies *
