#!/usr/bin/env python3
"""Runs /verif/drafts/C04/selftest.json through the contract overlay (never touches /repo): each mutant is a copy of
the source file placed in a temporary overlay next to the contract files. Entry field "overlay" (optional):
main (default) = drafts/C04/pkg only; pending = + drafts/C04/pending/pkg; withC01 = + C01 helper's resources contracts."""
import json, os, shutil, subprocess, sys
D='/verif/drafts/C04'
entries=json.load(open(D+'/selftest.json'))
only=sys.argv[1:]
bad=0
for e in entries:
    if only and not any(o in e['name'] for o in only): continue
    mode=e.get('overlay','main')
    ov='/tmp/ov_C04_mut'
    shutil.rmtree(ov, ignore_errors=True)
    os.makedirs(ov)
    shutil.copytree(D+'/pkg', ov+'/pkg')
    if mode!='main':
        shutil.copytree(D+'/pending/pkg', ov+'/pkg', dirs_exist_ok=True)
    if mode=='withC01':
        os.makedirs(ov+'/pkg/utils/resources', exist_ok=True)
        for f in os.listdir('/verif/drafts/C01/pkg/utils/resources'):
            if f.startswith('zz_contracts'): shutil.copy('/verif/drafts/C01/pkg/utils/resources/'+f, ov+'/pkg/utils/resources/')
    if e.get('base'):
        shutil.copytree(D+'/'+e['base'], ov, dirs_exist_ok=True)
    src=open((ov+'/' if os.path.exists(ov+'/'+e['file']) else '/repo/')+e['file']).read()
    if e['old'] not in src:
        print('STALE', e['name']); bad+=1; continue
    dst=os.path.join(ov, e['file']); os.makedirs(os.path.dirname(dst), exist_ok=True)
    open(dst,'w').write(src.replace(e['old'], e['new'], 1))
    env=dict(os.environ, KVC_CONTRACT_OVERLAY=ov, KVC_VERIF='/tmp/ag_C04_mut')
    os.makedirs('/tmp/ag_C04_mut', exist_ok=True)
    cmd='cd /verif && ./check %s'%e['prop']
    if e.get('only'): cmd+=" --only '%s'"%e['only']
    r=subprocess.run(cmd, shell=True, capture_output=True, text=True, env=env)
    viol=[l for l in r.stdout.splitlines() if l.startswith('VIOLATION') or l.startswith('UNKNOWN') or l.startswith('ERROR')]
    failed=r.returncode!=0
    ok = failed if e['expect']=='fail' else not failed
    if ok and e['expect']=='fail' and e.get('obligation'):
        ok = any(e['obligation'] in v for v in viol)
    print('%s %-45s expect=%s got=%s %s'%('ok  ' if ok else 'BAD ', e['name'], e['expect'], 'fail' if failed else 'pass', ' | '.join((v.split('replay=')[1].split('/')[-1][:90] if 'replay=' in v else v[:120]) for v in viol[:3])))
    if not ok:
        bad+=1
        print(r.stdout[-900:], r.stderr[-600:])
shutil.rmtree('/tmp/ov_C04_mut', ignore_errors=True)
print('%d bad'%bad)
sys.exit(1 if bad else 0)
