//go:build verif

package state

//@ func verifAssign1
//@   prop C04
//@   modifies nothing
//@   ensures [fresh] fresh(result) && result != nil
//@   ensures [keys] forall k corev1.ResourceName {k in result} :: (k in result) <==> (k in a)
//@   ensures [vals] forall k corev1.ResourceName {result[k]} :: result[k] == a[k]
//@   loop 1 invariant out == loopentry(out) && fresh(out) && out != nil
//@   loop 1 invariant [keys] forall k corev1.ResourceName {k in out} :: (k in out) <==> seen(k)
//@   loop 1 invariant [vals] forall k corev1.ResourceName {out[k]} :: out[k] == (seen(k) ? a[k] : 0)

//@ func verifAssign2
//@   prop C04
//@   modifies nothing
//@   ensures [fresh] fresh(result) && result != nil
//@   ensures [keys] forall k corev1.ResourceName {k in result} :: (k in result) <==> ((k in a) || (k in b))
//@   ensures [vals] forall k corev1.ResourceName {result[k]} :: result[k] == ((k in b) ? b[k] : a[k])
//@   loop 1 invariant out == loopentry(out) && fresh(out) && out != nil
//@   loop 1 invariant [keys] forall k corev1.ResourceName {k in out} :: (k in out) <==> seen(k)
//@   loop 1 invariant [vals] forall k corev1.ResourceName {out[k]} :: out[k] == (seen(k) ? a[k] : 0)
//@   loop 2 invariant out == loopentry(out) && fresh(out) && out != nil
//@   loop 2 invariant [keys] forall k corev1.ResourceName {k in out} :: (k in out) <==> ((k in a) || seen(k))
//@   loop 2 invariant [vals] forall k corev1.ResourceName {out[k]} :: out[k] == (seen(k) ? b[k] : a[k])
