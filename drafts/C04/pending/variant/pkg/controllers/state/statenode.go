/*
Copyright The Kubernetes Authors.

Licensed under the Apache License, Version 2.0 (the "License");
you may not use this file except in compliance with the License.
You may obtain a copy of the License at

    http://www.apache.org/licenses/LICENSE-2.0

Unless required by applicable law or agreed to in writing, software
distributed under the License is distributed on an "AS IS" BASIS,
WITHOUT WARRANTIES OR CONDITIONS OF ANY KIND, either express or implied.
See the License for the specific language governing permissions and
limitations under the License.
*/

package state

import (
	"context"
	stderrors "errors"
	"fmt"
	"time"

	"github.com/awslabs/operatorpkg/serrors"
	"github.com/awslabs/operatorpkg/status"
	"github.com/samber/lo"
	"go.uber.org/multierr"
	corev1 "k8s.io/api/core/v1"
	"k8s.io/apimachinery/pkg/api/equality"
	"k8s.io/apimachinery/pkg/api/resource"
	metav1 "k8s.io/apimachinery/pkg/apis/meta/v1"
	"k8s.io/apimachinery/pkg/types"
	"k8s.io/client-go/util/retry"
	"k8s.io/client-go/util/workqueue"
	"k8s.io/klog/v2"
	"k8s.io/utils/clock"

	"sigs.k8s.io/controller-runtime/pkg/client"

	"sigs.k8s.io/karpenter/pkg/events"

	v1 "sigs.k8s.io/karpenter/pkg/apis/v1"
	"sigs.k8s.io/karpenter/pkg/operator/options"
	"sigs.k8s.io/karpenter/pkg/scheduling"
	disruptionutils "sigs.k8s.io/karpenter/pkg/utils/disruption"
	nodeutils "sigs.k8s.io/karpenter/pkg/utils/node"
	"sigs.k8s.io/karpenter/pkg/utils/pdb"
	podutils "sigs.k8s.io/karpenter/pkg/utils/pod"
	"sigs.k8s.io/karpenter/pkg/utils/resources"
)

type PodBlockEvictionError struct {
	error
}

func NewPodBlockEvictionError(err error) *PodBlockEvictionError {
	return &PodBlockEvictionError{error: err}
}

func IsPodBlockEvictionError(err error) bool {
	if err == nil {
		return false
	}
	var podBlockEvictionError *PodBlockEvictionError
	return stderrors.As(err, &podBlockEvictionError)
}

func IgnorePodBlockEvictionError(err error) error {
	if IsPodBlockEvictionError(err) {
		return nil
	}
	return err
}

//go:generate go tool -modfile=../../../go.tools.mod controller-gen object:headerFile="../../../hack/boilerplate.go.txt" paths="."

// StateNodes is a typed version of a list of *Node
// nolint: revive
type StateNodes []*StateNode

// Active filters StateNodes that are not in a MarkedForDeletion state
func (n StateNodes) Active() StateNodes {
	return lo.Filter(n, func(node *StateNode, _ int) bool {
		return !node.MarkedForDeletion()
	})
}

// Deleting filters StateNodes that are in a MarkedForDeletion state
func (n StateNodes) Deleting() StateNodes {
	return lo.Filter(n, func(node *StateNode, _ int) bool {
		return node.MarkedForDeletion()
	})
}

// Pods gets the pods assigned to all StateNodes based on the kubernetes api-server bindings
func (n StateNodes) Pods(ctx context.Context, kubeClient client.Client) ([]*corev1.Pod, error) {
	var pods []*corev1.Pod
	for _, node := range n {
		p, err := node.Pods(ctx, kubeClient)
		if err != nil {
			return nil, err
		}
		pods = append(pods, p...)
	}
	return pods, nil
}

func (n StateNodes) CurrentlyReschedulablePods(ctx context.Context, kubeClient client.Client, clk clock.Clock, recorder events.Recorder) ([]*corev1.Pod, error) {
	var pods []*corev1.Pod
	for _, node := range n {
		p, err := node.CurrentlyReschedulablePods(ctx, kubeClient, clk, recorder)
		if err != nil {
			return nil, err
		}
		pods = append(pods, p...)
	}
	return pods, nil
}

// StateNode is a cached version of a node in the cluster that maintains state which is expensive to compute every time it's
// needed.  This currently contains node utilization across all the allocatable resources, but will soon be used to
// compute topology information.
// +k8s:deepcopy-gen=true
// nolint: revive
type StateNode struct {
	Node      *corev1.Node
	NodeClaim *v1.NodeClaim

	// daemonSetRequests is the total amount of resources that have been requested by daemon sets. This allows users
	// of the Node to identify the remaining resources that we expect future daemonsets to consume.
	daemonSetRequests map[types.NamespacedName]corev1.ResourceList
	daemonSetLimits   map[types.NamespacedName]corev1.ResourceList

	podRequests        map[types.NamespacedName]corev1.ResourceList
	podLimits          map[types.NamespacedName]corev1.ResourceList
	podDisruptionCosts map[types.NamespacedName]float64

	hostPortUsage *scheduling.HostPortUsage
	volumeUsage   *scheduling.VolumeUsage

	// TODO remove this when v1alpha5 APIs are deprecated. With v1 APIs Karpenter relies on the existence
	// of the karpenter.sh/disruption taint to know when a node is marked for deletion.
	markedForDeletion bool
	nominatedUntil    metav1.Time
}

func NewNode() *StateNode {
	return &StateNode{
		daemonSetRequests:  map[types.NamespacedName]corev1.ResourceList{},
		daemonSetLimits:    map[types.NamespacedName]corev1.ResourceList{},
		podRequests:        map[types.NamespacedName]corev1.ResourceList{},
		podLimits:          map[types.NamespacedName]corev1.ResourceList{},
		podDisruptionCosts: map[types.NamespacedName]float64{},
		hostPortUsage:      scheduling.NewHostPortUsage(),
		volumeUsage:        scheduling.NewVolumeUsage(),
	}
}

func (in *StateNode) ShallowCopy() *StateNode {
	return &StateNode{
		Node:               in.Node,
		NodeClaim:          in.NodeClaim,
		daemonSetRequests:  in.daemonSetRequests,
		daemonSetLimits:    in.daemonSetLimits,
		podRequests:        in.podRequests,
		podLimits:          in.podLimits,
		podDisruptionCosts: in.podDisruptionCosts,
		hostPortUsage:      in.hostPortUsage,
		volumeUsage:        in.volumeUsage,
		markedForDeletion:  in.markedForDeletion,
		nominatedUntil:     in.nominatedUntil,
	}
}

func (in *StateNode) Name() string {
	if in.Node == nil {
		return in.NodeClaim.Name
	}
	if in.NodeClaim == nil {
		return in.Node.Name
	}
	if !in.Registered() {
		return in.NodeClaim.Name
	}
	return in.Node.Name
}

// ProviderID is the key that is used to map this StateNode
// If the Node and NodeClaim have a providerID, this should map to a real providerID
// If the Node does not have a providerID, this will map to the node name
func (in *StateNode) ProviderID() string {
	if in.Node == nil {
		return in.NodeClaim.Status.ProviderID
	}
	return in.Node.Spec.ProviderID
}

// Pods gets the pods assigned to the Node based on the kubernetes api-server bindings
func (in *StateNode) Pods(ctx context.Context, kubeClient client.Client) ([]*corev1.Pod, error) {
	if in.Node == nil {
		return nil, nil
	}
	return nodeutils.GetPods(ctx, kubeClient, in.Node.Name)
}

// ValidateNodeDisruptable returns an error if the StateNode cannot be disrupted
// This checks all associated StateNode internals, node labels, and do-not-disrupt annotations on the node.
// ValidateNodeDisruptable takes in a recorder to emit events on the nodeclaims when the state node is not a candidate
//
//nolint:gocyclo
func (in *StateNode) ValidateNodeDisruptable(clk clock.Clock) error {
	if in.NodeClaim == nil {
		return fmt.Errorf("node isn't managed by karpenter")
	}
	if in.Node == nil {
		return fmt.Errorf("nodeclaim does not have an associated node")
	}
	if !in.Initialized() {
		return fmt.Errorf("node isn't initialized")
	}
	if in.MarkedForDeletion() {
		return fmt.Errorf("node is deleting or marked for deletion")
	}
	// skip the node if it is nominated by a recent provisioning pass to be the target of a pending pod.
	if in.Nominated(clk) {
		return fmt.Errorf("node is nominated for a pending pod")
	}
	if in.Annotations()[v1.DoNotDisruptAnnotationKey] == "true" {
		return fmt.Errorf("disruption is blocked through the %q annotation", v1.DoNotDisruptAnnotationKey)
	}
	// check whether the node has the NodePool label
	if _, ok := in.Labels()[v1.NodePoolLabelKey]; !ok {
		return serrors.Wrap(fmt.Errorf("node doesn't have required label"), "label", v1.NodePoolLabelKey)
	}
	return nil
}

// ValidatePodDisruptable returns an error if the StateNode contains a pod that cannot be disrupted
// This checks associated PDBs and do-not-disrupt annotations for each pod on the node.
// ValidatePodDisruptable takes in a recorder to emit events on the nodeclaims when the state node is not a candidate
//
//nolint:gocyclo
func (in *StateNode) ValidatePodsDisruptable(ctx context.Context, kubeClient client.Client, pdbs pdb.Limits, clk clock.Clock, recorder events.Recorder) ([]*corev1.Pod, error) {
	pods, err := in.Pods(ctx, kubeClient)
	if err != nil {
		return nil, fmt.Errorf("getting pods from node, %w", err)
	}
	for _, po := range pods {
		// We only consider pods that are actively running for "karpenter.sh/do-not-disrupt"
		// This means that we will allow Mirror Pods and DaemonSets to block disruption using this annotation
		if !podutils.IsDisruptable(po, clk, recorder) {
			return pods, NewPodBlockEvictionError(serrors.Wrap(fmt.Errorf(`pod has "karpenter.sh/do-not-disrupt" annotation`), "Pod", klog.KObj(po)))
		}
	}
	if pdbKeys, ok := pdbs.CanEvictPods(pods, clk, recorder); !ok {
		if len(pdbKeys) > 1 {
			return pods, NewPodBlockEvictionError(serrors.Wrap(fmt.Errorf("eviction does not support multiple PDBs"), "PodDisruptionBudget(s)", pdbKeys))
		}
		return pods, NewPodBlockEvictionError(serrors.Wrap(fmt.Errorf("pdb prevents pod evictions"), "PodDisruptionBudget", pdbKeys))
	}

	return pods, nil
}

// CurrentlyReschedulablePods gets the pods assigned to the Node that are currently reschedulable based on the kubernetes api-server bindings
func (in *StateNode) CurrentlyReschedulablePods(ctx context.Context, kubeClient client.Client, clk clock.Clock, recorder events.Recorder) ([]*corev1.Pod, error) {
	if in.Node == nil {
		return nil, nil
	}
	return nodeutils.GetCurrentlyReschedulablePods(ctx, kubeClient, clk, recorder, in.Node)
}

func (in *StateNode) HostName() string {
	if in.Labels()[corev1.LabelHostname] == "" {
		return in.Name()
	}
	return in.Labels()[corev1.LabelHostname]
}

func (in *StateNode) Annotations() map[string]string {
	// If the nodeclaim exists and the state node isn't initialized
	// use the nodeclaim representation of the annotations
	if in.Node == nil {
		return in.NodeClaim.Annotations
	}
	if in.NodeClaim == nil {
		return in.Node.Annotations
	}
	if !in.Registered() {
		return in.NodeClaim.Annotations
	}
	return in.Node.Annotations
}

func (in *StateNode) Labels() map[string]string {
	// If the nodeclaim exists and the state node isn't registered
	// use the nodeclaim representation of the labels
	if in.Node == nil {
		return in.NodeClaim.Labels
	}
	if in.NodeClaim == nil {
		return in.Node.Labels
	}
	if !in.Registered() {
		return in.NodeClaim.Labels
	}
	return in.Node.Labels
}

func (in *StateNode) Taints() []corev1.Taint {
	// If we have a managed node that isn't registered, we should use its NodeClaim
	// representation of taints. Likewise, if we don't have a Node representation for this
	// providerID in our state, we should also just use the NodeClaim since this is all that we have
	var taints []corev1.Taint
	if (!in.Registered() && in.Managed()) || in.Node == nil {
		taints = in.NodeClaim.Spec.Taints
	} else {
		taints = in.Node.Spec.Taints
	}
	if !in.Initialized() && in.Managed() {
		// We reject any well-known ephemeral taints and startup taints attached to this node until
		// the node is initialized. Without this, if the taint is generic and re-appears on the node for a
		// different reason (e.g. the node is cordoned) we will assume that pods can schedule against the
		// node in the future incorrectly.
		return lo.Reject(taints, func(taint corev1.Taint, _ int) bool {
			if scheduling.IsKnownEphemeralTaint(&taint) {
				return true
			}
			if _, found := lo.Find(in.NodeClaim.Spec.StartupTaints, func(t corev1.Taint) bool {
				return t.MatchTaint(&taint)
			}); found {
				return true
			}
			return false
		})
	}
	return taints
}

func (in *StateNode) Registered() bool {
	// Node is managed by Karpenter, so we can check for the Registered label
	if in.Managed() {
		return in.Node != nil && in.Node.Labels[v1.NodeRegisteredLabelKey] == "true"
	}
	// Nodes not managed by Karpenter are always considered Registered
	return true
}

func (in *StateNode) Initialized() bool {
	// Node is managed by Karpenter, so we can check for the Initialized label
	if in.Managed() {
		return in.Node != nil && in.Node.Labels[v1.NodeInitializedLabelKey] == "true"
	}
	// Nodes not managed by Karpenter are always considered Initialized
	return true
}

func (in *StateNode) Capacity() corev1.ResourceList {
	if !in.Initialized() && in.NodeClaim != nil {
		// Override any zero quantity values in the node status
		if in.Node != nil {
			ret := verifAssign1(in.Node.Status.Capacity)
			for resourceName, quantity := range in.NodeClaim.Status.Capacity {
				if resources.IsZero(ret[resourceName]) {
					ret[resourceName] = quantity
				}
			}
			// A StateNode will always have a capacity of 1 node.
			return verifAssign2(ret, corev1.ResourceList{resources.Node: resource.MustParse("1")})
		}
		return verifAssign2(in.NodeClaim.Status.Capacity, corev1.ResourceList{resources.Node: resource.MustParse("1")})
	}
	return verifAssign2(in.Node.Status.Capacity, corev1.ResourceList{resources.Node: resource.MustParse("1")})
}

func (in *StateNode) Allocatable() corev1.ResourceList {
	if !in.Initialized() && in.NodeClaim != nil {
		// Override any zero quantity values in the node status
		if in.Node != nil {
			ret := verifAssign1(in.Node.Status.Allocatable)
			for resourceName, quantity := range in.NodeClaim.Status.Allocatable {
				if resources.IsZero(ret[resourceName]) {
					ret[resourceName] = quantity
				}
			}
			return ret
		}
		return in.NodeClaim.Status.Allocatable
	}
	return in.Node.Status.Allocatable
}

// Available is allocatable minus anything allocated to pods.
func (in *StateNode) Available() corev1.ResourceList {
	return resources.Subtract(in.Allocatable(), in.PodRequests())
}

func (in *StateNode) DaemonSetRequests() corev1.ResourceList {
	return resources.Merge(lo.Values(in.daemonSetRequests)...)
}

func (in *StateNode) DaemonSetLimits() corev1.ResourceList {
	return resources.Merge(lo.Values(in.daemonSetLimits)...)
}

func (in *StateNode) HostPortUsage() *scheduling.HostPortUsage {
	return in.hostPortUsage
}

func (in *StateNode) VolumeUsage() *scheduling.VolumeUsage {
	return in.volumeUsage
}

func (in *StateNode) PodRequests() corev1.ResourceList {
	var totalRequests corev1.ResourceList
	for _, requests := range in.podRequests {
		totalRequests = resources.MergeInto(totalRequests, requests)
	}
	return totalRequests
}

func (in *StateNode) PodLimits() corev1.ResourceList {
	return resources.Merge(lo.Values(in.podLimits)...)
}

// DisruptionCost returns the exact disruption cost for this node:
// PerNodeBaseDisruptionCost (1.0) + sum of positive per-pod eviction costs.
// This is maintained incrementally as pods are added/removed.
func (in *StateNode) DisruptionCost() float64 {
	cost := 1.0 // PerNodeBaseDisruptionCost
	for _, c := range in.podDisruptionCosts {
		cost += c
	}
	return cost
}

func (in *StateNode) MarkedForDeletion() bool {
	// The Node is marked for deletion if:
	//  1. The Node has MarkedForDeletion set
	//  2. The Node has a NodeClaim counterpart and is actively deleting (or the nodeclaim is marked as terminating)
	//  3. The Node has no NodeClaim counterpart and is actively deleting
	return in.markedForDeletion || in.Deleted()
}

func (in *StateNode) Deleted() bool {
	return (in.NodeClaim != nil && (!in.NodeClaim.DeletionTimestamp.IsZero() || in.NodeClaim.StatusConditions().Get(v1.ConditionTypeInstanceTerminating).IsTrue())) ||
		(in.Node != nil && in.NodeClaim == nil && !in.Node.DeletionTimestamp.IsZero())
}

func (in *StateNode) Nominate(ctx context.Context, clk clock.Clock) {
	in.nominatedUntil = metav1.Time{Time: clk.Now().Add(nominationWindow(ctx))}
}

func (in *StateNode) Nominated(clk clock.Clock) bool {
	return in.nominatedUntil.After(clk.Now())
}

func (in *StateNode) Managed() bool {
	return in.NodeClaim != nil
}

func (in *StateNode) updateForPod(ctx context.Context, kubeClient client.Client, pod *corev1.Pod) error {
	podKey := client.ObjectKeyFromObject(pod)
	hostPorts := scheduling.GetHostPorts(pod)
	volumes, err := scheduling.GetVolumes(ctx, kubeClient, pod)
	if err != nil {
		return fmt.Errorf("tracking volume usage, %w", err)
	}
	in.podRequests[podKey] = resources.RequestsForPods(pod)
	in.podLimits[podKey] = resources.LimitsForPods(pod)
	// if it's a daemonset, we track what it has requested separately
	if podutils.IsOwnedByDaemonSet(pod) {
		in.daemonSetRequests[podKey] = resources.RequestsForPods(pod)
		in.daemonSetLimits[podKey] = resources.LimitsForPods(pod)
	}
	// Maintain per-pod disruption cost for balanced scoring. Only non-daemon
	// pods with positive eviction cost contribute to the node's disruption cost.
	if !podutils.IsOwnedByDaemonSet(pod) {
		if in.podDisruptionCosts == nil {
			in.podDisruptionCosts = map[types.NamespacedName]float64{}
		}
		if evictionCost := disruptionutils.EvictionCost(ctx, pod); evictionCost > 0 {
			in.podDisruptionCosts[podKey] = evictionCost
		} else {
			delete(in.podDisruptionCosts, podKey)
		}
	}
	in.hostPortUsage.Add(pod, hostPorts)
	in.volumeUsage.Add(pod, volumes)
	return nil
}

func (in *StateNode) cleanupForPod(podKey types.NamespacedName) {
	in.hostPortUsage.DeletePod(podKey)
	in.volumeUsage.DeletePod(podKey)
	delete(in.podRequests, podKey)
	delete(in.podLimits, podKey)
	delete(in.daemonSetRequests, podKey)
	delete(in.daemonSetLimits, podKey)
	delete(in.podDisruptionCosts, podKey)
}

func nominationWindow(ctx context.Context) time.Duration {
	nominationPeriod := max(2*options.FromContext(ctx).BatchMaxDuration, 10*time.Second)
	return nominationPeriod
}

// RequireNoScheduleTaint will add/remove the karpenter.sh/disruption:NoSchedule taint from the candidates.
// This is used to enforce no taints at the beginning of disruption, and
// to add/remove taints while executing a disruption action.
// nolint:gocyclo
func RequireNoScheduleTaint(ctx context.Context, kubeClient client.Client, addTaint bool, nodes ...*StateNode) error {
	errs := make([]error, len(nodes))
	workqueue.ParallelizeUntil(ctx, len(nodes), len(nodes), func(i int) {
		// If the StateNode is Karpenter owned and only has a nodeclaim, or is not owned by
		// Karpenter, thus having no nodeclaim, don't touch the node.
		if nodes[i].Node == nil || nodes[i].NodeClaim == nil {
			return
		}
		node := &corev1.Node{}
		if err := retry.OnError(retry.DefaultBackoff, func(err error) bool { return client.IgnoreNotFound(err) != nil }, func() error {
			if e := kubeClient.Get(ctx, client.ObjectKey{Name: nodes[i].Node.Name}, node); e != nil {
				return e
			}
			// If the node already has the taint, continue to the next
			_, hasTaint := lo.Find(node.Spec.Taints, func(taint corev1.Taint) bool {
				return taint.MatchTaint(&v1.DisruptedNoScheduleTaint)
			})
			// Node is being deleted, so no need to remove taint as the node will be gone soon.
			// This ensures that the disruption controller doesn't modify taints that the Termination
			// controller is also modifying
			if hasTaint && !node.DeletionTimestamp.IsZero() {
				return nil
			}
			stored := node.DeepCopy()
			// If the taint is present and we want to remove the taint, remove it.
			if !addTaint {
				node.Spec.Taints = lo.Reject(node.Spec.Taints, func(taint corev1.Taint, _ int) bool {
					return taint.MatchTaint(&v1.DisruptedNoScheduleTaint)
				})
				// otherwise, add it.
			} else if addTaint && !hasTaint {
				// If the taint key is present (but with a different value or effect), remove it.
				node.Spec.Taints = lo.Reject(node.Spec.Taints, func(taint corev1.Taint, _ int) bool {
					return taint.MatchTaint(&v1.DisruptedNoScheduleTaint)
				})
				node.Spec.Taints = append(node.Spec.Taints, v1.DisruptedNoScheduleTaint)
			}
			if !equality.Semantic.DeepEqual(stored, node) {
				// We use client.MergeFromWithOptimisticLock because patching a list with a JSON merge patch
				// can cause races due to the fact that it fully replaces the list on a change
				// Here, we are updating the taint list
				return kubeClient.Patch(ctx, node, client.MergeFromWithOptions(stored, client.MergeFromWithOptimisticLock{}))
			}
			return nil
		}); err != nil {
			errs[i] = client.IgnoreNotFound(fmt.Errorf("getting node, %w", err))
			return
		}
	})
	return multierr.Combine(errs...)
}

// ClearNodeClaimsCondition will remove the conditionType from the NodeClaim status of the provided statenodes
func ClearNodeClaimsCondition(ctx context.Context, kubeClient client.Client, clk clock.Clock, conditionType string, nodes ...*StateNode) error {
	errs := make([]error, len(nodes))
	workqueue.ParallelizeUntil(ctx, len(nodes), len(nodes), func(i int) {
		if !nodes[i].Initialized() || nodes[i].NodeClaim == nil {
			return
		}
		nodeClaim := &v1.NodeClaim{}
		if err := retry.OnError(retry.DefaultBackoff, func(err error) bool { return client.IgnoreNotFound(err) != nil }, func() error {
			if e := kubeClient.Get(ctx, client.ObjectKeyFromObject(nodes[i].NodeClaim), nodeClaim); e != nil {
				return e
			}
			stored := nodeClaim.DeepCopy()
			_ = nodeClaim.StatusConditions(status.WithClock(clk)).Clear(conditionType)
			if !equality.Semantic.DeepEqual(stored, nodeClaim) {
				return kubeClient.Status().Patch(ctx, nodeClaim, client.MergeFromWithOptions(stored, client.MergeFromWithOptimisticLock{}))
			}
			return nil
		}); err != nil {
			errs[i] = client.IgnoreNotFound(err)
			return
		}

	})
	return multierr.Combine(errs...)
}

// verifAssign1 / verifAssign2: lo.Assign expanded to its definition (validation vehicle for the C04 pending contracts only)
func verifAssign1(a corev1.ResourceList) corev1.ResourceList {
	out := corev1.ResourceList{}
	for k, v := range a {
		out[k] = v
	}
	return out
}

func verifAssign2(a, b corev1.ResourceList) corev1.ResourceList {
	out := corev1.ResourceList{}
	for k, v := range a {
		out[k] = v
	}
	for k, v := range b {
		out[k] = v
	}
	return out
}
