//go:build verif

// C04 contracts that rely on the C01 helper's contracts for pkg/utils/resources (Subtract, MergeInto).
package state

// ---- (3) Available = Allocatable - everything requested by the pods bound to the node ----
// (daemonset pods are part of podRequests; resource names the node does not report are dropped, not negative)
//@ func (*StateNode).PodRequests
//@   prop C04
//@   modifies nothing
//@   ensures [empty] len(in.podRequests) == 0 ==> result == nil
//@   ensures [fresh] len(in.podRequests) > 0 ==> (fresh(result) && result != nil)
//@   loop 1 invariant [acc] ($i > 0 ==> (fresh(totalRequests) && totalRequests != nil)) && ($i == 0 ==> totalRequests == nil) && $n == len(in.podRequests)

//@ func (*StateNode).Available
//@   prop C04
//@   modifies nothing
//@   site resources.Subtract requires [args] $0 == @(*StateNode).Allocatable && $1 == @(*StateNode).PodRequests
//@   ensures [isDifference] result == @resources.Subtract
//@   ensures [fresh] fresh(result) && result != nil
//@   ensures [keys] forall k corev1.ResourceName {k in result} :: (k in result) <==> (k in (@(*StateNode).Allocatable))
//@   ensures [diff] forall k corev1.ResourceName {result[k]} :: result[k] == (@(*StateNode).Allocatable)[k] - ((k in (@(*StateNode).Allocatable)) ? (@(*StateNode).PodRequests)[k] : 0)
