//go:build verif

// C04 contracts that rely on the C01 helper's contracts for pkg/utils/resources (Subtract, MergeInto).
// Status with drafts/C01 overlaid: Available: all obligations discharge. PodRequests: everything discharges except
//   PodRequests#loop1.step.frame.MapDom/MapVal[ResourceList]: the first MergeInto call has dest == nil and C01's
//   `modifies dest[:]` then havocs "the contents of the nil map", which the frame check of `modifies nothing` counts as
//   a pre-existing location. Needed: `modifies m[:]` with m == nil is a no-op (or the frame check ignores nil).
// Not expressible yet: the VALUE of PodRequests (sum over all entries of the map in.podRequests) - needs a fold over
//   a map range (rec functions only recurse over indices), so Available is stated relative to the two calls it makes.
package state

// ---- (3) Available = Allocatable - everything requested by the pods bound to the node ----
// (daemonset pods are part of podRequests; resource names the node does not report are dropped, not negative)
//@ func (*StateNode).PodRequests
//@   prop C04
//@   modifies nothing
//@   ensures [empty] len(in.podRequests) == 0 ==> result == nil
//@   ensures [fresh] len(in.podRequests) > 0 ==> (fresh(result) && result != nil)
//@   loop 1 invariant [acc] ($i > 0 ==> (fresh(totalRequests) && totalRequests != nil)) && ($i == 0 ==> totalRequests == nil) && $n == len(in.podRequests)

//@ func (*StateNode).Available
//@   prop C04
//@   modifies nothing
//@   site resources.Subtract requires [args] $0 == @(*StateNode).Allocatable && $1 == @(*StateNode).PodRequests
//@   ensures [isDifference] result == @resources.Subtract
//@   ensures [fresh] fresh(result) && result != nil
//@   ensures [keys] forall k corev1.ResourceName {k in result} :: (k in result) <==> (k in (@(*StateNode).Allocatable))
//@   ensures [diff] forall k corev1.ResourceName {result[k]} :: result[k] == (@(*StateNode).Allocatable)[k] - ((k in (@(*StateNode).Allocatable)) ? (@(*StateNode).PodRequests)[k] : 0)
