//go:build verif

// C04 contracts that need an engine feature that does not exist yet (they do NOT discharge today: the result of
// lo.Assign is an arbitrary, possibly aliased map). They were validated (all obligations discharged, mutants caught)
// against pending/variant/, a copy of statenode.go in which lo.Assign is expanded to its definition.
// An `after lo.Assign assume fresh($r0)..` stand-in is NOT usable: results of "pure" library calls are assumed to be
// allocated before the call, so the assumption is contradictory and makes everything after the call vacuous.
//   needed: stub for github.com/samber/lo.Assign (fresh map, union of keys, later maps win)
//   needed: stub for k8s.io/apimachinery/pkg/api/resource.MustParse (at least MustParse("1") == 1e9 nano-units, pure)
package state

// ---- (2) Allocatable: what an in-flight node counts with ----
// Until a managed node is initialized the NodeClaim's status (the allocatable of the instance type it was
// launched as) stands in: alone while no Node exists, and per resource name wherever the Node reports
// zero / nothing once the Node has appeared.
//@ pure snUsesClaimStatus(n *StateNode) bool = n.NodeClaim != nil && !snInitialized(n)
//@ pure snNodeAlloc(n *StateNode) = n.Node.Status.Allocatable
//@ pure snClaimAlloc(n *StateNode) = n.NodeClaim.Status.Allocatable

//@ func (*StateNode).Allocatable
//@   prop C04
//@   modifies nothing
//@   ensures [initialized] !snUsesClaimStatus(in) ==> result == snNodeAlloc(in)
//@   ensures [claimOnly] (snUsesClaimStatus(in) && in.Node == nil) ==> result == snClaimAlloc(in)
//@   ensures [mergedFresh] (snUsesClaimStatus(in) && in.Node != nil) ==> (fresh(result) && result != nil)
//@   ensures [mergedKeys] (snUsesClaimStatus(in) && in.Node != nil) ==> (forall k corev1.ResourceName {k in result} :: (k in result) <==> ((k in snNodeAlloc(in)) || (k in snClaimAlloc(in))))
//@   ensures [mergedVals] (snUsesClaimStatus(in) && in.Node != nil) ==> (forall k corev1.ResourceName {result[k]} :: result[k] == (((k in snClaimAlloc(in)) && snNodeAlloc(in)[k] == 0) ? snClaimAlloc(in)[k] : snNodeAlloc(in)[k]))
//@   loop 1 invariant ret == loopentry(ret) && fresh(ret) && ret != nil
//@   loop 1 invariant [keys] forall k corev1.ResourceName {k in ret} :: (k in ret) <==> ((k in snNodeAlloc(in)) || seen(k))
//@   loop 1 invariant [vals] forall k corev1.ResourceName {ret[k]} :: ret[k] == ((seen(k) && snNodeAlloc(in)[k] == 0) ? snClaimAlloc(in)[k] : snNodeAlloc(in)[k])

// ---- (2b) Capacity: same override rule, and every state node has a capacity of exactly one `nodes` ----
//@ pure snNodeCap(n *StateNode) = n.Node.Status.Capacity
//@ pure snClaimCap(n *StateNode) = n.NodeClaim.Status.Capacity
//@ pure snCapBase(n *StateNode, k corev1.ResourceName) int = !snUsesClaimStatus(n) ? snNodeCap(n)[k] : (n.Node == nil ? snClaimCap(n)[k] : (((k in snClaimCap(n)) && snNodeCap(n)[k] == 0) ? snClaimCap(n)[k] : snNodeCap(n)[k]))
//@ pure snCapHas(n *StateNode, k corev1.ResourceName) bool = !snUsesClaimStatus(n) ? (k in snNodeCap(n)) : (n.Node == nil ? (k in snClaimCap(n)) : ((k in snClaimCap(n)) || (k in snNodeCap(n))))

//@ func (*StateNode).Capacity
//@   prop C04
//@   modifies nothing
//@   ensures [fresh] fresh(result) && result != nil
//@   ensures [keys] forall k corev1.ResourceName {k in result} :: (k in result) <==> (k == resources.Node || snCapHas(in, k))
//@   ensures [vals] forall k corev1.ResourceName {result[k]} :: k != resources.Node ==> result[k] == snCapBase(in, k)
//@   ensures [oneNode] result[resources.Node] == @resource.MustParse
//@   loop 1 invariant ret == loopentry(ret) && fresh(ret) && ret != nil
//@   loop 1 invariant [keys] forall k corev1.ResourceName {k in ret} :: (k in ret) <==> ((k in snNodeCap(in)) || seen(k))
//@   loop 1 invariant [vals] forall k corev1.ResourceName {ret[k]} :: ret[k] == ((seen(k) && snNodeCap(in)[k] == 0) ? snClaimCap(in)[k] : snNodeCap(in)[k])

// ---- (1) Taints, filtered case: clauses wanted in addition to [unfiltered] of the main file (NOT checkable today) ----
// lo.Reject over a slice of structs ([]corev1.Taint) returns an arbitrary slice in the engine (isStructLike -> "filtered"),
// lo.Find has no stub, and the predicate closure contains a nested closure; IsKnownEphemeralTaint (C14) is only specified
// in one direction ([listed] ==> result) and its prefix test uses strings.HasPrefix (arbitrary).
//   ensures [hidden]  snHidesTaints(in) ==> forall j :: 0 <= j < len(result) ==> (!scheduling.IsKnownEphemeralTaint(&result[j])
//                       && !(exists t :: 0 <= t < len(in.NodeClaim.Spec.StartupTaints) && sameKeyEffect(in.NodeClaim.Spec.StartupTaints[t], result[j])))
//   ensures [subset]  snHidesTaints(in) ==> forall j :: 0 <= j < len(result) ==> exists i :: 0 <= i < len(snRawTaints(in)) && result[j] == snRawTaints(in)[i]   (order kept)
//   ensures [kept]    snHidesTaints(in) ==> forall i :: (0 <= i < len(snRawTaints(in)) && !ephemeral(raw[i]) && !startup(raw[i])) ==> exists j :: result[j] == raw[i]
