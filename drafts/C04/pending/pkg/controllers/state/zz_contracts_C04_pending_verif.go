//go:build verif

// C04 clauses that cannot be delivered as contracts today (comment-only; nothing in this file is read by kvc).
package state

// (*StateNode).Capacity already has a contract in /repo (C11: `modifies nothing`, [fresh]). C04 would like it stronger;
// the following was validated (all obligations discharged, mutants caught) while no other contract existed:
// ---- (2b) Capacity: same override rule, and every state node has a capacity of exactly one `nodes` ----
// WANTED pure snNodeCap(n *StateNode) = n.Node.Status.Capacity
// WANTED pure snClaimCap(n *StateNode) = n.NodeClaim.Status.Capacity
// WANTED pure snCapBase(n *StateNode, k corev1.ResourceName) int = !snUsesClaimStatus(n) ? snNodeCap(n)[k] : (n.Node == nil ? snClaimCap(n)[k] : (((k in snClaimCap(n)) && snNodeCap(n)[k] == 0) ? snClaimCap(n)[k] : snNodeCap(n)[k]))
// WANTED pure snCapHas(n *StateNode, k corev1.ResourceName) bool = !snUsesClaimStatus(n) ? (k in snNodeCap(n)) : (n.Node == nil ? (k in snClaimCap(n)) : ((k in snClaimCap(n)) || (k in snNodeCap(n))))

// WANTED func (*StateNode).Capacity
// WANTED   prop C04
// WANTED   modifies nothing
// WANTED   ensures [fresh] fresh(result) && result != nil
// WANTED   ensures [keys] forall k corev1.ResourceName {k in result} :: (k in result) <==> (k == resources.Node || snCapHas(in, k))
// WANTED   ensures [vals] forall k corev1.ResourceName {result[k]} :: k != resources.Node ==> result[k] == snCapBase(in, k)
// WANTED   ensures [oneNode] result[resources.Node] == @resource.MustParse
// WANTED   loop 1 invariant ret == loopentry(ret) && fresh(ret) && ret != nil
// WANTED   loop 1 invariant [keys] forall k corev1.ResourceName {k in ret} :: (k in ret) <==> ((k in snNodeCap(in)) || seen(k))
// WANTED   loop 1 invariant [vals] forall k corev1.ResourceName {ret[k]} :: ret[k] == ((seen(k) && snNodeCap(in)[k] == 0) ? snClaimCap(in)[k] : snNodeCap(in)[k])


// ---- (1) Taints, filtered case: clauses wanted in addition to [unfiltered] of the main file (NOT checkable today) ----
// lo.Reject over a slice of structs ([]corev1.Taint) returns an arbitrary slice in the engine (isStructLike -> "filtered"),
// lo.Find has no stub, and the predicate closure contains a nested closure; IsKnownEphemeralTaint (C14) is only specified
// in one direction ([listed] ==> result) and its prefix test uses strings.HasPrefix (arbitrary).
//   ensures [hidden]  snHidesTaints(in) ==> forall j :: 0 <= j < len(result) ==> (!scheduling.IsKnownEphemeralTaint(&result[j])
//                       && !(exists t :: 0 <= t < len(in.NodeClaim.Spec.StartupTaints) && sameKeyEffect(in.NodeClaim.Spec.StartupTaints[t], result[j])))
//   ensures [subset]  snHidesTaints(in) ==> forall j :: 0 <= j < len(result) ==> exists i :: 0 <= i < len(snRawTaints(in)) && result[j] == snRawTaints(in)[i]   (order kept)
//   ensures [kept]    snHidesTaints(in) ==> forall i :: (0 <= i < len(snRawTaints(in)) && !ephemeral(raw[i]) && !startup(raw[i])) ==> exists j :: result[j] == raw[i]
