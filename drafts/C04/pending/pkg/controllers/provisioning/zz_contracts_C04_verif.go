//go:build verif

// REPLACES pkg/controllers/provisioning/zz_contracts_C04_verif.go (same content, but Schedule verified instead of cut off).
// C04 contract that needs engine features that do not exist yet:
//   (a) "defer outside the entry block" (`defer cancel()` after context.WithTimeout) aborts the whole function;
//   (b) lo.Filter predicate facts are dropped when the closure calls a method that has a contract
//       ((*StateNode).MarkedForDeletion, C07): applyContract needs fresh symbols inside the quantified closure term
//       ("lo.Filter/Reject: closure not expressible"). Today only [fromState], [snapshot] and [thatScheduler] discharge.
package provisioning

// ---- (5a) no scheduling pass while cluster state is not synced (some NodeClaim not launched / not tracked) ----
//@ func (*Provisioner).Reconcile
//@   prop C04
//@   modifies *
//@   site (*Provisioner).Schedule requires [synced] @(*Cluster).Synced
//@   site (*Provisioner).Schedule requires [everyClaimLaunched] state.allLaunched(p.cluster)
//@   site (*Provisioner).CreateNodeClaims requires [synced] @(*Cluster).Synced

// ---- (5b) nodes marked for deletion are not handed to the scheduler as capacity; all others are ----
//@ func (*Provisioner).Schedule
//@   prop C04
//@   modifies *
//@   site (*Provisioner).NewScheduler requires [noDeleting] forall j int {$3[j]} :: (0 <= j && j < len($3)) ==> !state.snMarked($3[j])
//@   site (*Provisioner).NewScheduler requires [fromState] forall j int {$3[j]} :: (0 <= j && j < len($3)) ==> (exists i int {nodes[i]} :: 0 <= i && i < len(nodes) && nodes[i] == $3[j])
//@   site (*Provisioner).NewScheduler requires [allActive] forall i int {nodes[i]} :: (0 <= i && i < len(nodes) && !state.snMarked(nodes[i])) ==> (exists j int {$3[j]} :: 0 <= j && j < len($3) && $3[j] == nodes[i])
//@   site (*Provisioner).NewScheduler requires [snapshot] nodes == @(*Cluster).DeepCopyNodes
//@   site (*Scheduler).Solve requires [thatScheduler] $0 == (@(*Provisioner).NewScheduler).0 && (@(*Provisioner).NewScheduler).1 == nil
