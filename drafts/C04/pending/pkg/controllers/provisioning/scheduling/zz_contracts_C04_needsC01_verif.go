//go:build verif

// C04 contract that relies on the C01 helper's contracts for pkg/utils/resources (Subtract, SubtractFrom, Merge)
// and on the C04 contracts for (*StateNode).Available / Allocatable (pending/pkg/controllers/state).
// Status (against /repo at 63861fe06 + drafts/C01): both sites, [remaining] and [wraps] discharge; the only unknown is
//   NewExistingNode#call.scheduling.NewLabelRequirements.2.pre.normalized - the precondition of the existing contract of
//   scheduling.NewLabelRequirements on `n.Labels()` (needs a fact that state-node labels are normalized; not C04's to give).
// Not stated: the clamp "remaining daemon overhead never negative" (loop 1) - Quantity.AsApproximateFloat64 / Set have no stub.
package scheduling

// ---- NewExistingNode: what an existing / in-flight node can still take ----
// remaining = Available() of the state node minus the daemon overhead that has not been scheduled there yet; the taints
// the node is checked against are exactly the ones handed in (StateNode.Taints() at the only call site).
//@ func NewExistingNode
//@   prop C04
//@   modifies *
//@   site resources.Subtract requires [fromAvailable] $0 == @(*StateNode).Available && $1 == daemonResources
//@   site resources.SubtractFrom requires [overheadLessScheduled] $0 == daemonResources && $1 == @(*StateNode).DaemonSetRequests
//@   ensures [remaining] result.remainingResources == @resources.Subtract
//@   ensures [wraps] result.StateNode == n && result.cachedAvailable == @(*StateNode).Available && result.cachedTaints == taints
//@   loop 1 invariant true
