//go:build verif

// C04 contract that relies on the C01 helper's contracts for pkg/utils/resources (Subtract, SubtractFrom, Merge)
// and on the C04 contracts for (*StateNode).Available / Allocatable (pending/pkg/controllers/state).
// Status: both sites, [remaining] and [wraps] discharge; unknown are only the preconditions of the existing C17 contract of
//   (Requirements).Add at `node.requirements.Add(...)` (#call.scheduling.(Requirements).Add.2.pre.inv / .pre.args): they
//   need a contract for scheduling.NewLabelRequirements (has a loop, no contract -> havocked, no rsInv for its result).
// Not stated: the clamp "remaining daemon overhead never negative" (loop 1) - Quantity.AsApproximateFloat64 / Set have no stub.
package scheduling

// ---- NewExistingNode: what an existing / in-flight node can still take ----
// remaining = Available() of the state node minus the daemon overhead that has not been scheduled there yet; the taints
// the node is checked against are exactly the ones handed in (StateNode.Taints() at the only call site).
//@ func NewExistingNode
//@   prop C04
//@   modifies *
//@   site resources.Subtract requires [fromAvailable] $0 == @(*StateNode).Available && $1 == daemonResources
//@   site resources.SubtractFrom requires [overheadLessScheduled] $0 == daemonResources && $1 == @(*StateNode).DaemonSetRequests
//@   ensures [remaining] result.remainingResources == @resources.Subtract
//@   ensures [wraps] result.StateNode == n && result.cachedAvailable == @(*StateNode).Available && result.cachedTaints == taints
//@   loop 1 invariant true
