//go:build verif

// Contracts for property C13 (the launch request carries the scheduler's decision faithfully).
// Comment-only: this file adds no code.
package scheduling

// ---- labels resolved from custom requirements (C13: building the NodeClaim never panics) ----
//
// customKey: the keys for which ToNodeClaim resolves a concrete label value with Requirement.Any.
// Any draws a random integer for complement requirements and panics outside scheduling.anyOK, so the
// template-level precondition for panic-freedom is: every custom-key requirement satisfies anyOK.
// NodePool validation does not establish it (see scheduling.anyUnsafeValidated: `Lt 0`, `Lte MaxInt64`,
// `Gte MaxInt64`, `Gt MaxInt64-1` on a custom label key pass validation and violate it).
//@ pure customKey(k string) bool = !(k in v1.WellKnownLabels) && !(k in v1.RestrictedLabels) && !(k in schedulingSimulationKeys)
//@ pure customAnyOK(rs scheduling.Requirements) bool = forall k string {k in rs} :: ((k in rs) && customKey(k)) ==> scheduling.anyOK(rs[k])

//@ func (*NodeClaimTemplate).resolveCustomLabelsFromRequirements
//@   prop C13
//@   requires [inv] scheduling.rsInv(i.Requirements)
//@   requires [anyok] customAnyOK(i.Requirements)
//@   modifies nothing
//@   nopanic
//@   ensures [fresh] fresh(result) && result != nil
//@   ensures [keys] forall k string {k in result} :: (k in result) ==> ((k in i.Requirements) && customKey(k) && result[k] != "")
//@   ensures [concrete] forall k string {k in result} :: ((k in result) && !i.Requirements[k].complement) ==> scheduling.admits(i.Requirements[k], result[k])
//@   ensures [all-in] forall k string {k in i.Requirements} :: ((k in i.Requirements) && customKey(k) && !i.Requirements[k].complement && len(i.Requirements[k].values) > 0 && !("" in i.Requirements[k].values)) ==> (k in result)
//@   loop 1 invariant [fresh] fresh(labels) && labels != nil
//@   loop 1 invariant [keys] forall k string {k in labels} :: (k in labels) ==> (seen(k) && (k in i.Requirements) && customKey(k) && labels[k] != "")
//@   loop 1 invariant [concrete] forall k string {k in labels} :: ((k in labels) && !i.Requirements[k].complement) ==> scheduling.admits(i.Requirements[k], labels[k])
//@   loop 1 invariant [all-in] forall k string {seen(k)} :: (seen(k) && customKey(k) && !i.Requirements[k].complement && len(i.Requirements[k].values) > 0 && !("" in i.Requirements[k].values)) ==> (k in labels)

// ---- ToNodeClaim: NOT under contract yet (blocked by missing models; kept as a proposal, plain comments) ----
//
// With the block below activated (replace "// PROPOSED " by "//@") the postconditions [fresh] [taints] [owner]
// [annotations] [labels] [requirements] discharge (and catch `nc.Spec.Taints = nil` / a wrong owner name), but they
// are shallow: "labels/annotations come from the template" and "Spec.Requirements serializes i.Requirements" need
//   * a stub for lo.Assign (fresh map, later arguments win)       -> i.Labels / i.Annotations are arbitrary maps today
//   * a stub for lo.Values (slice enumerating the map's values, pairwise distinct keys when the map is rsKeyed)
//     and lo.Slice (prefix)                                        -> NewRequirements(lo.Filter(lo.Values(..))) is arbitrary
//   * a frame for (InstanceTypes).OrderByPrice / sort.Slice (permutes its[:] only); today the call havocs every
//     Requirement object, so rsInv(i.Requirements) is lost before the first Get/Add
//   * facts about package-level maps: !(corev1.LabelInstanceTypeStable in v1.NormalizedLabels),
//     !(v1.CapacityTypeLabelKey in v1.NormalizedLabels), both keys in v1.WellKnownLabels (so that Add on them keeps
//     customAnyOK) -- either as axioms or as preconditions of ToNodeClaim.
// The call-site obligations that fail today are exactly: Get.1.pre, Add.1.pre.inv, Add.1.pre.args, Add.2.pre.args,
// resolveCustomLabelsFromRequirements.1.pre.anyok, NewRequirements.1.pre.args, NodeSelectorRequirements.1.pre.machineint.
// The panic-freedom part of C13 is carried by resolveCustomLabelsFromRequirements above: its precondition
// customAnyOK(i.Requirements) is what ToNodeClaim needs and what NodePool validation does not establish.
// PROPOSED  func (*NodeClaimTemplate).ToNodeClaim
// PROPOSED    prop C13
// PROPOSED    requires [inv] scheduling.rsInv(i.Requirements)
// PROPOSED    requires [anyok] customAnyOK(i.Requirements)
// PROPOSED    modifies *
// PROPOSED    ensures [fresh] fresh(result)
// PROPOSED    ensures [taints] result.Spec.Taints == old(i.Spec.Taints) && result.Spec.StartupTaints == old(i.Spec.StartupTaints)
// PROPOSED    ensures [owner] len(result.OwnerReferences) == 1 && result.OwnerReferences[0].Name == old(i.NodePoolName) && result.OwnerReferences[0].UID == old(i.NodePoolUUID)
// PROPOSED    ensures [annotations] result.Annotations == i.Annotations
// PROPOSED    ensures [labels] result.Labels == i.Labels
// PROPOSED    ensures [requirements] result.Spec.Requirements == @(Requirements).NodeSelectorRequirements
