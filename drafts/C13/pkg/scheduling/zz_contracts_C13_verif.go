//go:build verif

// Contracts for property C13 (the launch request carries the scheduler's decision faithfully).
// Comment-only: this file adds no code. Reuses admits / reqInv / k8sAdmits / inB / contains / rsInv of
// zz_contracts_verif.go (same package).
package scheduling

// ---- serialization of one requirement (C13, first sentence) ----
//
// One selector entry e (operator, values) admits a *present* label value v iff k8sAdmits(e.Operator, e.Values, v).
// Round trip, key by key: the conjunction of all entries emitted for r admits v  <==>  admits(r, v).
//
// The engine treats Go ints as mathematical integers and supplies no range fact for values read from the
// heap. int64Ptr states the Go type fact "the pointee is a machine int" (always true at run time); it is needed
// because itoa/atoi round-trip only on machine integers.
//@ pure int64Ptr(p *int) bool = p == nil || (math.MinInt64 <= *p && *p <= math.MaxInt64)
//@ pure boundsInt64(r *Requirement) bool = int64Ptr(r.gte) && int64Ptr(r.lte)
//
// lostExclusion: the region of the finding C13-bound-drops-exclusions: an exclusion list together with a
// bound, where some excluded value lies inside the bound.
//@ pure hasBound(r *Requirement) bool = r.gte != nil || r.lte != nil
//@ pure lostExclusion(r *Requirement) bool = r.complement && hasBound(r) && (exists x string {x in r.values} :: (x in r.values) && inB(x, r.gte, r.lte))

//@ func (*Requirement).NodeSelectorRequirement
//@   prop C13
//@   requires [inv] reqInv(r)
//@   requires [onebound] !(r.gte != nil && r.lte != nil)
//@   requires [machineint] boundsInt64(r)
//@   modifies nothing
//@   nopanic
//@   ensures [key] result.Key == r.Key
//@   ensures [minvalues] result.MinValues == r.MinValues
//@   ensures [overadmit] forall v string :: k8sAdmits(result.Operator, result.Values, v) <==> (admits(r, v) || (r.complement && hasBound(r) && (v in r.values) && inB(v, r.gte, r.lte)))
//@   ensures [roundtrip-weak] !lostExclusion(r) ==> forall v string :: k8sAdmits(result.Operator, result.Values, v) <==> admits(r, v)
//@   ensures [lost] lostExclusion(r) ==> exists v string :: k8sAdmits(result.Operator, result.Values, v) && !admits(r, v)
//@   ensures [roundtrip] forall v string :: k8sAdmits(result.Operator, result.Values, v) <==> admits(r, v)
//@   finding C13-bound-drops-exclusions [roundtrip] lostExclusion(r)

//@ func (*Requirement).BoundedNodeSelectorRequirements
//@   prop C13
//@   requires [inv] reqInv(r)
//@   requires [twobounds] r.gte != nil && r.lte != nil
//@   requires [machineint] boundsInt64(r)
//@   modifies nothing
//@   nopanic
//@   ensures [two] len(result) == 2 && fresh(result)
//@   ensures [key] result[0].Key == r.Key && result[1].Key == r.Key
//@   ensures [minvalues] result[0].MinValues == r.MinValues && result[1].MinValues == r.MinValues
//@   ensures [overadmit] forall v string :: (k8sAdmits(result[0].Operator, result[0].Values, v) && k8sAdmits(result[1].Operator, result[1].Values, v)) <==> (admits(r, v) || ((v in r.values) && inB(v, r.gte, r.lte)))
//@   ensures [roundtrip-weak] !lostExclusion(r) ==> forall v string :: (k8sAdmits(result[0].Operator, result[0].Values, v) && k8sAdmits(result[1].Operator, result[1].Values, v)) <==> admits(r, v)
//@   ensures [lost] lostExclusion(r) ==> exists v string :: k8sAdmits(result[0].Operator, result[0].Values, v) && k8sAdmits(result[1].Operator, result[1].Values, v) && !admits(r, v)
//@   ensures [roundtrip] forall v string :: (k8sAdmits(result[0].Operator, result[0].Values, v) && k8sAdmits(result[1].Operator, result[1].Values, v)) <==> admits(r, v)
//@   finding C13-bound-drops-exclusions [roundtrip] lostExclusion(r)

// ---- serialization of a requirement set (what ToNodeClaim writes into NodeClaim.Spec.Requirements) ----
//
// rsKeyed: every requirement is stored under its own key (maintained by Requirements.Add).
// The entries emitted for key k are the entries whose Key is k.
// [no-stricter] + [no-laxer] together are the round trip; [roundtrip] states it in the "all entries" form.
//@ pure rsKeyed(rs Requirements) bool = forall k string {k in rs} :: k in rs ==> rs[k].Key == k
//@ pure ownSel(a []v1.NodeSelectorRequirementWithMinValues) bool = loc(a) == nil || fresh(a)
//@ pure rsInt64(rs Requirements) bool = forall k string {k in rs} :: k in rs ==> boundsInt64(rs[k])

//@ func (Requirements).NodeSelectorRequirements
//@   prop C13
//@   requires [inv] rsInv(r) && rsKeyed(r)
//@   requires [machineint] rsInt64(r)
//@   hides admits, k8sAdmits, lostExclusion, inB, contains
//@   requires [maplen] len(r) >= 0      // tautology; works around an engine defect (cardinality fact of len(map) lost after the loop dry pass)
//@   modifies nothing
//@   nopanic
//@   ensures [fresh] ownSel(result)
//@   ensures [keys] forall j int {result[j]} :: 0 <= j && j < len(result) ==> ((result[j].Key in r) && result[j].MinValues == r[result[j].Key].MinValues)
//@   ensures [covered] forall k string {k in r} :: k in r ==> (exists j int {result[j]} :: 0 <= j && j < len(result) && result[j].Key == k)
//@   ensures [no-stricter] forall j int {result[j]} :: 0 <= j && j < len(result) ==> (forall v string :: admits(r[result[j].Key], v) ==> k8sAdmits(result[j].Operator, result[j].Values, v))
//@   ensures [no-laxer] forall k string {k in r} :: k in r ==> (forall v string :: !admits(r[k], v) ==> (exists j int {result[j]} :: 0 <= j && j < len(result) && result[j].Key == k && !k8sAdmits(result[j].Operator, result[j].Values, v)))
//@   ensures [roundtrip] forall k string {k in r} :: k in r ==> (forall v string :: (forall j int {result[j]} :: (0 <= j && j < len(result) && result[j].Key == k) ==> k8sAdmits(result[j].Operator, result[j].Values, v)) <==> admits(r[k], v))
//@   loop 1 invariant [fresh] ownSel(result) && len(result) >= 0
//@   loop 1 invariant [keys] forall j int {result[j]} :: 0 <= j && j < len(result) ==> ((result[j].Key in r) && seen(result[j].Key) && result[j].MinValues == r[result[j].Key].MinValues)
//@   loop 1 invariant [covered] forall k string {seen(k)} :: seen(k) ==> (exists j int {result[j]} :: 0 <= j && j < len(result) && result[j].Key == k)
//@   loop 1 invariant [no-stricter] forall j int {result[j]} :: 0 <= j && j < len(result) ==> (forall v string :: admits(r[result[j].Key], v) ==> k8sAdmits(result[j].Operator, result[j].Values, v))
//@   loop 1 invariant [no-laxer] forall k string {seen(k)} :: seen(k) ==> (forall v string :: !admits(r[k], v) ==> (exists j int {result[j]} :: 0 <= j && j < len(result) && result[j].Key == k && !k8sAdmits(result[j].Operator, result[j].Values, v)))

// ---- Requirement.Any (C13, last sentence: building the NodeClaim never panics) ----
//
// Any draws rand.Intn(anyHi - anyLo) + anyLo for a complement requirement. rand.Intn panics for a non-positive
// argument. The engine's ints are mathematical, so the absence of overflow in `*r.lte + 1` and `max - min` is
// stated by hand ([nooverflow]); with wrap-around arithmetic the draw width is only meaningful then.
// anyOK is the weakest precondition (over mathematical ints) for: no panic, no overflow.
//@ pure anyLo(r *Requirement) int = (r.gte == nil ? 0 : *r.gte)
//@ pure anyHi(r *Requirement) int = (r.lte == nil ? math.MaxInt64 : *r.lte + 1)
//@ pure anyOK(r *Requirement) bool = r.complement ==> ((r.lte != nil ==> *r.lte < math.MaxInt64) && anyLo(r) < anyHi(r) && anyHi(r) - anyLo(r) <= math.MaxInt64)

//@ func (*Requirement).Any
//@   prop C13
//@   requires [inv] reqInv(r)
//@   requires [range] anyOK(r)
//@   modifies nothing
//@   nopanic
//@   let n = @rand.Intn + anyLo(r)
//@   ensures [in] !r.complement && len(r.values) > 0 ==> ((result in r.values) && admits(r, result))
//@   ensures [none] !r.complement && len(r.values) == 0 ==> result == ""
//@   ensures [drawn] r.complement ==> (anyLo(r) <= n && n < anyHi(r) && (r.gte != nil ==> n >= *r.gte) && (r.lte != nil ==> n <= *r.lte) && 0 <= n - anyLo(r) && n <= math.MaxInt64)
//
// validatedBounds: all that NodePool validation (ValidateRequirement: bound operands are integers >= 0) plus the
// constructors (Gt n -> gte n+1, Lt n -> lte n-1, Gt MaxInt -> DoesNotExist, Intersection collapses gte > lte)
// guarantee about the bounds. anyOK does NOT follow from it: see lemma-like clause list in the report
// (Lt 0; Lte MaxInt64; Gte MaxInt64 / Gt MaxInt64-1).
//@ pure validatedBounds(r *Requirement) bool = (r.gte != nil ==> (0 <= *r.gte && *r.gte <= math.MaxInt64)) && (r.lte != nil ==> (0 - 1 <= *r.lte && *r.lte <= math.MaxInt64)) && ((r.gte != nil && r.lte != nil) ==> *r.gte <= *r.lte)
// The validated requirements on which Any is NOT safe are exactly: `Lt 0` alone (lte == -1, no lower bound),
// any upper bound `Lte MaxInt64`, and a lone lower bound `Gte MaxInt64` (or `Gt MaxInt64-1`).
//@ lemma anyUnsafeValidated [C13]: forall r *Requirement :: (reqInv(r) && validatedBounds(r)) ==> (!anyOK(r) <==> (r.complement && ((r.lte != nil && *r.lte == math.MaxInt64) || (r.gte == nil && r.lte != nil && *r.lte == 0 - 1) || (r.lte == nil && r.gte != nil && *r.gte == math.MaxInt64))))
