//go:build verif

// Contracts for property C13 (the launch request carries the scheduler's decision faithfully).
// Comment-only: this file adds no code. Reuses admits / reqInv / k8sAdmits / inB / contains / rsInv of
// zz_contracts_verif.go (same package).
package scheduling

// ---- serialization of one requirement (C13, first sentence) ----
//
// One selector entry e (operator, values) admits a *present* label value v iff k8sAdmits(e.Operator, e.Values, v).
// Round trip, key by key: the conjunction of all entries emitted for r admits v  <==>  admits(r, v).
//
// The engine treats Go ints as mathematical integers and supplies no range fact for values read from the
// heap. int64Ptr states the Go type fact "the pointee is a machine int" (always true at run time); it is needed
// because itoa/atoi round-trip only on machine integers.
//@ pure int64Ptr(p *int) bool = p == nil || (math.MinInt64 <= *p && *p <= math.MaxInt64)
//@ pure boundsInt64(r *Requirement) bool = int64Ptr(r.gte) && int64Ptr(r.lte)
//
// lostExclusion: the region of the finding C13-bound-drops-exclusions: an exclusion list together with a
// bound, where some excluded value lies inside the bound.
//@ pure hasBound(r *Requirement) bool = r.gte != nil || r.lte != nil
//@ pure lostExclusion(r *Requirement) bool = r.complement && hasBound(r) && (exists x string {x in r.values} :: (x in r.values) && inB(x, r.gte, r.lte))

// [overadmit] is what the code does (exact); [roundtrip] is what C13 demands. They differ exactly on lostExclusion:
// [roundtrip].outside (= [roundtrip-weak]) is proved, [lost] proves that [roundtrip] is FALSE for every input in
// the region (finding C13-bound-drops-exclusions, see known_findings_proposed.json). Callers assume [roundtrip].
//@ func (*Requirement).NodeSelectorRequirement
//@   prop C13
//@   requires [inv] reqInv(r)
//@   requires [onebound] !(r.gte != nil && r.lte != nil)
//@   requires [machineint] boundsInt64(r)
//@   modifies nothing
//@   nopanic
//@   ensures [key] result.Key == r.Key
//@   ensures [minvalues] result.MinValues == r.MinValues
//@   ensures [overadmit] forall v string :: k8sAdmits(result.Operator, result.Values, v) <==> (admits(r, v) || (r.complement && hasBound(r) && (v in r.values) && inB(v, r.gte, r.lte)))
//@   ensures [roundtrip-weak] !lostExclusion(r) ==> forall v string :: k8sAdmits(result.Operator, result.Values, v) <==> admits(r, v)
//@   ensures [lost] lostExclusion(r) ==> exists v string :: k8sAdmits(result.Operator, result.Values, v) && !admits(r, v)
//@   ensures [roundtrip] forall v string :: k8sAdmits(result.Operator, result.Values, v) <==> admits(r, v)
//@   finding C13-bound-drops-exclusions [roundtrip] lostExclusion(r)

//@ func (*Requirement).BoundedNodeSelectorRequirements
//@   prop C13
//@   requires [inv] reqInv(r)
//@   requires [twobounds] r.gte != nil && r.lte != nil
//@   requires [machineint] boundsInt64(r)
//@   modifies nothing
//@   nopanic
//@   ensures [two] len(result) == 2 && fresh(result)
//@   ensures [key] result[0].Key == r.Key && result[1].Key == r.Key
//@   ensures [minvalues] result[0].MinValues == r.MinValues && result[1].MinValues == r.MinValues
//@   ensures [overadmit] forall v string :: (k8sAdmits(result[0].Operator, result[0].Values, v) && k8sAdmits(result[1].Operator, result[1].Values, v)) <==> (admits(r, v) || ((v in r.values) && inB(v, r.gte, r.lte)))
//@   ensures [roundtrip-weak] !lostExclusion(r) ==> forall v string :: (k8sAdmits(result[0].Operator, result[0].Values, v) && k8sAdmits(result[1].Operator, result[1].Values, v)) <==> admits(r, v)
//@   ensures [lost] lostExclusion(r) ==> exists v string :: k8sAdmits(result[0].Operator, result[0].Values, v) && k8sAdmits(result[1].Operator, result[1].Values, v) && !admits(r, v)
//@   ensures [roundtrip] forall v string :: (k8sAdmits(result[0].Operator, result[0].Values, v) && k8sAdmits(result[1].Operator, result[1].Values, v)) <==> admits(r, v)
//@   finding C13-bound-drops-exclusions [roundtrip] lostExclusion(r)

// ---- serialization of a requirement set (what ToNodeClaim writes into NodeClaim.Spec.Requirements) ----
//
// rsKeyed: every requirement is stored under its own key (maintained by Requirements.Add).
// The entries emitted for key k are the entries whose Key is k.
// [no-stricter] + [no-laxer] together are the round trip; [roundtrip] states it in the "all entries" form.
//@ pure rsKeyed(rs Requirements) bool = forall k string {k in rs} :: k in rs ==> rs[k].Key == k
//@ pure ownSel(a []v1.NodeSelectorRequirementWithMinValues) bool = loc(a) == nil || fresh(a)
//@ pure rsInt64(rs Requirements) bool = forall k string {k in rs} :: k in rs ==> boundsInt64(rs[k])

//@ func (Requirements).NodeSelectorRequirements
//@   prop C13
//@   requires [inv] rsInv(r) && rsKeyed(r)
//@   requires [machineint] rsInt64(r)
//@   hides admits, k8sAdmits, lostExclusion, inB, contains
//@   requires [maplen] len(r) >= 0      // tautology; works around an engine defect (cardinality fact of len(map) lost after the loop dry pass)
//@   modifies nothing
//@   nopanic
//@   ensures [fresh] ownSel(result)
//@   ensures [keys] forall j int {result[j]} :: 0 <= j && j < len(result) ==> ((result[j].Key in r) && result[j].MinValues == r[result[j].Key].MinValues)
//@   ensures [covered] forall k string {k in r} :: k in r ==> (exists j int {result[j]} :: 0 <= j && j < len(result) && result[j].Key == k)
//@   ensures [no-stricter] forall j int {result[j]} :: 0 <= j && j < len(result) ==> (forall v string :: admits(r[result[j].Key], v) ==> k8sAdmits(result[j].Operator, result[j].Values, v))
//@   ensures [no-laxer] forall k string {k in r} :: k in r ==> (forall v string :: !admits(r[k], v) ==> (exists j int {result[j]} :: 0 <= j && j < len(result) && result[j].Key == k && !k8sAdmits(result[j].Operator, result[j].Values, v)))
//@   ensures [roundtrip] forall k string {k in r} :: k in r ==> (forall v string :: (forall j int {result[j]} :: (0 <= j && j < len(result) && result[j].Key == k) ==> k8sAdmits(result[j].Operator, result[j].Values, v)) <==> admits(r[k], v))
//@   loop 1 invariant [fresh] ownSel(result) && len(result) >= 0
//@   loop 1 invariant [keys] forall j int {result[j]} :: 0 <= j && j < len(result) ==> ((result[j].Key in r) && seen(result[j].Key) && result[j].MinValues == r[result[j].Key].MinValues)
//@   loop 1 invariant [covered] forall k string {seen(k)} :: seen(k) ==> (exists j int {result[j]} :: 0 <= j && j < len(result) && result[j].Key == k)
//@   loop 1 invariant [no-stricter] forall j int {result[j]} :: 0 <= j && j < len(result) ==> (forall v string :: admits(r[result[j].Key], v) ==> k8sAdmits(result[j].Operator, result[j].Values, v))
//@   loop 1 invariant [no-laxer] forall k string {seen(k)} :: seen(k) ==> (forall v string :: !admits(r[k], v) ==> (exists j int {result[j]} :: 0 <= j && j < len(result) && result[j].Key == k && !k8sAdmits(result[j].Operator, result[j].Values, v)))

// ---- Requirement.Any (C13, last sentence: building the NodeClaim never panics) ----
//
// Any draws rand.Intn(anyHi - anyLo) + anyLo for a complement requirement. rand.Intn panics for a non-positive
// argument. The engine's ints are mathematical, so the absence of overflow in `*r.lte + 1` and `max - min` is
// stated by hand inside anyOK (`*r.lte < MaxInt64`, `anyHi - anyLo <= MaxInt64`); the engine proves sufficiency of
// anyOK, and `anyLo < anyHi` is necessary (dropping it makes safe.call.rand.Intn fail). With Go's wrap-around one
// overflowing sub-case happens not to panic (Gte n>=1 together with Lte MaxInt64); anyOK excludes it all the same.
// The returned string is fmt.Sprint(n), for which the engine has no model (arbitrary string): [drawn] therefore
// speaks about the drawn integer n, not about the result; admits(r, result) for complement requirements is NOT
// decided (and is false when n happens to spell a member of a non-empty exclusion list).
//@ pure anyLo(r *Requirement) int = (r.gte == nil ? 0 : *r.gte)
//@ pure anyHi(r *Requirement) int = (r.lte == nil ? math.MaxInt64 : *r.lte + 1)
//@ pure anyOK(r *Requirement) bool = r.complement ==> ((r.lte != nil ==> *r.lte < math.MaxInt64) && anyLo(r) < anyHi(r) && anyHi(r) - anyLo(r) <= math.MaxInt64)

//@ func (*Requirement).Any
//@   prop C13
//@   requires [inv] reqInv(r)
//@   requires [range] anyOK(r)
//@   modifies nothing
//@   nopanic
//@   let n = @rand.Intn + anyLo(r)
//@   ensures [in] !r.complement && len(r.values) > 0 ==> ((result in r.values) && admits(r, result))
//@   ensures [none] !r.complement && len(r.values) == 0 ==> result == ""
//@   ensures [drawn] r.complement ==> (anyLo(r) <= n && n < anyHi(r) && (r.gte != nil ==> n >= *r.gte) && (r.lte != nil ==> n <= *r.lte) && 0 <= n - anyLo(r) && n <= math.MaxInt64)
//
// validatedBounds: all that NodePool validation (ValidateRequirement: bound operands are integers >= 0) plus the
// constructors (Gt n -> gte n+1, Lt n -> lte n-1, Gt MaxInt -> DoesNotExist, Intersection collapses gte > lte)
// guarantee about the bounds. anyOK does NOT follow from it (lemma anyUnsafeValidated below).
//@ pure validatedBounds(r *Requirement) bool = (r.gte != nil ==> (0 <= *r.gte && *r.gte <= math.MaxInt64)) && (r.lte != nil ==> (0 - 1 <= *r.lte && *r.lte <= math.MaxInt64)) && ((r.gte != nil && r.lte != nil) ==> *r.gte <= *r.lte)
// The validated requirements on which Any is NOT safe are exactly: `Lt 0` alone (lte == -1, no lower bound),
// any upper bound `Lte MaxInt64`, and a lone lower bound `Gte MaxInt64` (or `Gt MaxInt64-1`).
//@ lemma anyUnsafeValidated [C13]: forall r *Requirement :: (reqInv(r) && validatedBounds(r)) ==> (!anyOK(r) <==> (r.complement && ((r.lte != nil && *r.lte == math.MaxInt64) || (r.gte == nil && r.lte != nil && *r.lte == 0 - 1) || (r.lte == nil && r.gte != nil && *r.gte == math.MaxInt64))))

// ---- how requirement sets are built (justifies the preconditions rsInv / rsKeyed of the serialization) ----
//
// Requirements.Add stores, under the requirement's own key, the requirement itself (new key) or its
// intersection with the requirement already stored. Keys are assumed normalized (every constructor normalizes).
//
// MERGE NOTE: the C17 draft (/verif/drafts/C17/pkg/scheduling/zz_contracts_C17_verif.go) also puts
// (Requirements).Add under contract, with the same preconditions and [inv]/[keys]/[untouched] clauses and a more
// general [admits] clause. A function can have one contract only: when both drafts are merged, delete the block
// between BEGIN-ADD and END-ADD below and append the four lines marked (C13+) to C17's contract
// (checked: C13, C17 and C12 all stay green with that merge).
//@ pure reqsOK(xs []*Requirement) bool = forall j int {xs[j]} :: (0 <= j && j < len(xs)) ==> (reqInv(xs[j]) && allocated(xs[j]) && !(xs[j].Key in v1.NormalizedLabels))
//@ pure keyAmong(xs []*Requirement, n int, k string) bool = exists j int {xs[j]} :: 0 <= j && j < n && xs[j].Key == k

// BEGIN-ADD
//@ func (Requirements).Add
//@   prop C13
//@   requires [inv] r != nil && rsInv(r)
//@   requires [args] reqsOK(requirements)
//@   modifies r[:]
//@   nopanic
//@   ensures [inv] rsInv(r)
//@   ensures [keys] forall k string {k in r} :: (k in r) <==> (old(k in r) || keyAmong(requirements, len(requirements), k))
//@   ensures [untouched] forall k string {k in r} :: (old(k in r) && !keyAmong(requirements, len(requirements), k)) ==> r[k] == old(r[k])
//@   ensures [single] len(requirements) == 1 ==> (forall v string :: admits(r[requirements[0].Key], v) <==> (admits(requirements[0], v) && (old(requirements[0].Key in r) ==> admits(old(r[requirements[0].Key]), v))))
//@   ensures [keyed] old(rsKeyed(r)) ==> rsKeyed(r)                                                                                   // (C13+)
//@   ensures [single-new] (len(requirements) == 1 && !old(requirements[0].Key in r)) ==> r[requirements[0].Key] == requirements[0]    // (C13+)
//@   loop 1 invariant [inv] rsInv(r)
//@   loop 1 invariant [keys] forall k string {k in r} :: (k in r) <==> (old(k in r) || keyAmong(requirements, $i + 1, k))
//@   loop 1 invariant [untouched] forall k string {k in r} :: (old(k in r) && !keyAmong(requirements, $i + 1, k)) ==> r[k] == old(r[k])
//@   loop 1 invariant [single] ($i == 0) ==> (forall v string :: admits(r[requirements[0].Key], v) <==> (admits(requirements[0], v) && (old(requirements[0].Key in r) ==> admits(old(r[requirements[0].Key]), v))))
//@   loop 1 invariant [keyed] old(rsKeyed(r)) ==> rsKeyed(r)                                                                          // (C13+)
//@   loop 1 invariant [single-new] ($i == 0 && !old(requirements[0].Key in r)) ==> r[requirements[0].Key] == requirements[0]          // (C13+)
// END-ADD

// NewRequirements folds Add over its arguments, starting from the empty set. When the arguments carry pairwise
// distinct keys (as the values of a keyed requirement set do) the result stores exactly those objects.
//@ pure distinctKeys(xs []*Requirement) bool = forall a int, b int {xs[a], xs[b]} :: (0 <= a && a < b && b < len(xs)) ==> xs[a].Key != xs[b].Key

//@ func NewRequirements
//@   prop C13
//@   requires [args] reqsOK(requirements)
//@   modifies nothing
//@   nopanic
//@   ensures [inv] fresh(result) && result != nil && rsInv(result) && rsKeyed(result)
//@   ensures [keys] forall k string {k in result} :: (k in result) <==> keyAmong(requirements, len(requirements), k)
//@   ensures [same] distinctKeys(requirements) ==> (forall j int {requirements[j]} :: (0 <= j && j < len(requirements)) ==> result[requirements[j].Key] == requirements[j])
//@   loop 1 invariant [inv] fresh(r) && r != nil && rsInv(r) && rsKeyed(r)
//@   loop 1 invariant [keys] forall k string {k in r} :: (k in r) <==> keyAmong(requirements, $i + 1, k)
//@   loop 1 invariant [same] distinctKeys(requirements) ==> (forall j int {requirements[j]} :: (0 <= j && j <= $i) ==> r[requirements[j].Key] == requirements[j])

// HasMinValues: some requirement carries a minValues floor.
// (no precondition and no nopanic on purpose: InstanceTypes.Truncate, under contract for C19, calls it)
//@ func (Requirements).HasMinValues
//@   prop C13
//@   modifies nothing
//@   ensures [exact] result <==> (exists k string {k in r} :: (k in r) && r[k].MinValues != nil)
//@   loop 1 invariant forall k string {seen(k)} :: seen(k) ==> r[k].MinValues == nil
