//go:build verif

// Contracts (C01, "volume zones" on a NodeClaim about to be created) for the deductive verifier in /verif (kvc).
// Comment-only: this file adds no code. Reuses rsWF of zz_contracts_C01s2_verif.go (same package).
package scheduling

//@ pure includesAlt(c scheduling.Requirements, alt scheduling.Requirements) bool = forall k string {k in alt} :: (k in alt) ==> ((k in c) && (forall v string {v in c[k].values} :: scheduling.admits(c[k], v) ==> scheduling.admits(alt[k], v)))

//@ func (*NodeClaim).tryVolumeAlternative
//@   prop C01
//@   assumes [baseWF] baseRequirements != nil && rsWF(baseRequirements)
//@   assumes [volWF] volReqs != nil ==> (rsWF(volReqs) && scheduling.rsKeyed(volReqs))
//@   modifies *
//@   after lo.Values assume [values] forall j int {$r0[j]} :: (0 <= j && j < len($r0)) ==> (exists k string {k in $0[0]} :: (k in $0[0]) && $0[0][k] == $r0[j])
//@   after lo.Values assume [valuesAll] forall k string {k in $0[0]} :: (k in $0[0]) ==> (exists j int {$r0[j]} :: 0 <= j && j < len($r0) && $r0[j] == $0[0][k])
//@   let copy = @scheduling.NewRequirements
//@   after (*Allocator).Allocate assume [wfAfterAllocate] $r1 == nil ==> ($r0 != nil && rsWF(copy) && rsWF($r0.Requirements))
//@   after (*Topology).AddRequirements assume [wfAfterTopology] $r1 == nil ==> (rsWF(copy) && rsWF($r0))
//@   after filterInstanceTypesByRequirements assume [wfAfterFilter] scheduling.rsInv(copy) && rmInv(n.reservationManager) && itsTracked(n.reservationManager, $r0)
//@   after lo.Filter assume [catalogAfterDRAFilter] itsTracked(n.reservationManager, $r0)
//@   ghost volIncluded
//@   after (Requirements).Add set volIncluded = volIncluded || includesAlt(copy, volReqs)
//@   site (Requirements).Compatible #1 requires [volCheck] $0 == copy && $1 == volReqs
//@   site (Requirements).Add requires [intoCopy] $0 == copy
//@   site (Requirements).Add requires [notIntoBase] $0 != baseRequirements
//@   site (*Topology).AddRequirements requires [tightensCopy] $4 == copy
//@   site filterInstanceTypesByRequirements requires [filtersCopy] $1 == copy
//@   site (*NodeClaim).offeringsToReserve requires [reservesCopy] $3 == copy
//@   ensures [returnsCopy] result.4 == nil ==> result.0 == copy
//@   ensures [volumeZoneIncluded] (result.4 == nil && volReqs != nil) ==> volIncluded
//@   loop 1 invariant [wf] scheduling.rsInv(copy) && rmInv(n.reservationManager) && itsTracked(n.reservationManager, remaining)
//@   hides itsTracked
