/*
Copyright The Kubernetes Authors.

Licensed under the Apache License, Version 2.0 (the "License");
you may not use this file except in compliance with the License.
You may obtain a copy of the License at

    http://www.apache.org/licenses/LICENSE-2.0

Unless required by applicable law or agreed to in writing, software
distributed under the License is distributed on an "AS IS" BASIS,
WITHOUT WARRANTIES OR CONDITIONS OF ANY KIND, either express or implied.
See the License for the specific language governing permissions and
limitations under the License.
*/

package disruption

import (
	"context"
	stderrors "errors"
	"fmt"
	"strings"
	"sync"
	"time"

	"github.com/awslabs/operatorpkg/serrors"
	"github.com/awslabs/operatorpkg/status"
	"github.com/samber/lo"
	"go.uber.org/multierr"
	"golang.org/x/time/rate"
	"k8s.io/apimachinery/pkg/api/errors"
	"k8s.io/apimachinery/pkg/types"
	"k8s.io/client-go/util/retry"
	"k8s.io/client-go/util/workqueue"
	"k8s.io/klog/v2"
	"k8s.io/utils/clock"
	controllerruntime "sigs.k8s.io/controller-runtime"
	"sigs.k8s.io/controller-runtime/pkg/client"
	"sigs.k8s.io/controller-runtime/pkg/controller"
	"sigs.k8s.io/controller-runtime/pkg/event"
	"sigs.k8s.io/controller-runtime/pkg/handler"
	"sigs.k8s.io/controller-runtime/pkg/log"
	"sigs.k8s.io/controller-runtime/pkg/manager"
	"sigs.k8s.io/controller-runtime/pkg/reconcile"
	"sigs.k8s.io/controller-runtime/pkg/source"

	pscheduling "sigs.k8s.io/karpenter/pkg/controllers/provisioning/scheduling"
	operatorlogging "sigs.k8s.io/karpenter/pkg/operator/logging"

	v1 "sigs.k8s.io/karpenter/pkg/apis/v1"
	disruptionevents "sigs.k8s.io/karpenter/pkg/controllers/disruption/events"
	"sigs.k8s.io/karpenter/pkg/controllers/provisioning"
	"sigs.k8s.io/karpenter/pkg/controllers/state"
	"sigs.k8s.io/karpenter/pkg/events"
	"sigs.k8s.io/karpenter/pkg/metrics"
	"sigs.k8s.io/karpenter/pkg/operator/injection"
	utilscontroller "sigs.k8s.io/karpenter/pkg/utils/controller"
	nodeclaimutils "sigs.k8s.io/karpenter/pkg/utils/nodeclaim"
	"sigs.k8s.io/karpenter/pkg/utils/pretty"
)

const (
	queueBaseDelay          = 1 * time.Second
	queueMaxDelay           = 10 * time.Second
	minRetryDuration        = 10 * time.Minute
	maxRetryDuration        = 1 * time.Hour
	maxConcurrentReconciles = 100
	retryDurationScale      = 80 * time.Millisecond
)

type UnrecoverableError struct {
	error
}

func NewUnrecoverableError(err error) *UnrecoverableError {
	return &UnrecoverableError{error: err}
}

func IsUnrecoverableError(err error) bool {
	if err == nil {
		return false
	}
	var unrecoverableError *UnrecoverableError
	return stderrors.As(err, &unrecoverableError)
}

func (q *Queue) GetMaxRetryDuration() time.Duration {
	q.RLock()
	numCommands := len(q.ProviderIDToCommand)
	q.RUnlock()
	retryDuration := retryDurationScale * time.Duration(numCommands)
	return lo.Clamp(retryDuration, minRetryDuration, maxRetryDuration)
}

type Queue struct {
	sync.RWMutex
	ProviderIDToCommand map[string]*Command // providerID -> command, maps a candidate to its command
	source              chan event.TypedGenericEvent[*v1.NodeClaim]
	kubeClient          client.Client
	recorder            events.Recorder
	cluster             *state.Cluster
	clock               clock.Clock
	provisioner         *provisioning.Provisioner
}

// NewQueue creates a queue that will asynchronously orchestrate disruption commands
func NewQueue(kubeClient client.Client, recorder events.Recorder, cluster *state.Cluster, clock clock.Clock,
	provisioner *provisioning.Provisioner,
) *Queue {
	queue := &Queue{
		// nolint:staticcheck
		// We need to implement a deprecated interface since Command currently doesn't implement "comparable"
		source:              make(chan event.TypedGenericEvent[*v1.NodeClaim], 10000),
		ProviderIDToCommand: map[string]*Command{},
		kubeClient:          kubeClient,
		recorder:            recorder,
		cluster:             cluster,
		clock:               clock,
		provisioner:         provisioner,
	}
	return queue
}

func (q *Queue) Name() string {
	return "disruption.queue"
}

func (q *Queue) Register(ctx context.Context, m manager.Manager) error {
	return controllerruntime.NewControllerManagedBy(m).
		Named(q.Name()).
		WatchesRawSource(source.Channel(q.source, &handler.TypedEnqueueRequestForObject[*v1.NodeClaim]{})).
		WithOptions(controller.Options{
			RateLimiter: workqueue.NewTypedMaxOfRateLimiter[reconcile.Request](
				workqueue.NewTypedItemExponentialFailureRateLimiter[reconcile.Request](queueBaseDelay, queueMaxDelay),
				&workqueue.TypedBucketRateLimiter[reconcile.Request]{Limiter: rate.NewLimiter(rate.Limit(100), 1000)},
			),
			MaxConcurrentReconciles: utilscontroller.LinearScaleReconciles(utilscontroller.CPUCount(ctx), 100, 1000),
		}).
		Complete(reconcile.AsReconciler(m.GetClient(), q))
}

func (q *Queue) Reconcile(ctx context.Context, nodeClaim *v1.NodeClaim) (reconcile.Result, error) {
	ctx = injection.WithControllerName(ctx, q.Name())
	q.RLock()
	cmd, exists := q.ProviderIDToCommand[nodeClaim.Status.ProviderID]
	q.RUnlock()
	if !exists {
		log.FromContext(ctx).Error(fmt.Errorf("no command found"), "")
		return reconcile.Result{}, nil
	}
	ctx = log.IntoContext(ctx, log.FromContext(ctx).WithValues(cmd.LogValues()...))

	if err := q.waitOrTerminate(ctx, cmd); err != nil {
		// If recoverable, re-queue and try again.
		if !IsUnrecoverableError(err) {
			return reconcile.Result{RequeueAfter: queueBaseDelay}, nil
		}
		// If the command failed, bail on the action.
		// 1. Emit metrics for launch failures
		// 2. Ensure cluster state no longer thinks these nodes are deleting
		// 3. Remove it from the Queue's internal data structure
		failedLaunches := lo.Filter(cmd.Replacements, func(r *Replacement, _ int) bool {
			return !r.Initialized
		})
		DisruptionQueueFailuresTotal.Add(float64(len(failedLaunches)), map[string]string{
			decisionLabel:          string(cmd.Decision()),
			metrics.ReasonLabel:    pretty.ToSnakeCase(string(cmd.Reason())),
			ConsolidationTypeLabel: string(cmd.Decision()),
		})
		stateNodes := lo.Map(cmd.Candidates, func(c *Candidate, _ int) *state.StateNode { return c.StateNode })
		multiErr := multierr.Combine(err, state.RequireNoScheduleTaint(ctx, q.kubeClient, false, stateNodes...))
		multiErr = multierr.Combine(multiErr, state.ClearNodeClaimsCondition(ctx, q.kubeClient, q.clock, v1.ConditionTypeDisruptionReason, stateNodes...))
		// Log the error
		log.FromContext(ctx).Error(multiErr, "failed terminating nodes while executing a disruption command")
	} else {
		log.FromContext(ctx).V(1).Info("command succeeded")
		cmd.Succeeded = true
	}
	q.CompleteCommand(cmd)
	return reconcile.Result{}, nil
}

// waitOrTerminate will wait until launched nodeclaims are ready.
// Once the replacements are ready, it will terminate the candidates.
// nolint:gocyclo
func (q *Queue) waitOrTerminate(ctx context.Context, cmd *Command) (err error) {
	// We use the number of commands in the queue as a proxy for cloud provider traffic.
	// As the number of commands increase, we expect more delays and scale the retry duration accordingly.
	retryDuration := q.GetMaxRetryDuration()
	// Wrap an error in an unrecoverable error if it timed out. A command that has just terminated all of
	// its candidates has succeeded, however long it took: there is nothing left to retry or to roll back.
	defer func() {
		if err != nil && q.clock.Since(cmd.CreationTimestamp) > retryDuration {
			err = NewUnrecoverableError(serrors.Wrap(fmt.Errorf("command reached timeout, %w", err), "duration", q.clock.Since(cmd.CreationTimestamp)))
		}
	}()
	waitErrs := make([]error, len(cmd.Replacements))
	for i := range cmd.Replacements {
		// If we know the node claim is Initialized, no need to check again.
		if cmd.Replacements[i].Initialized {
			continue
		}
		// Get the nodeclaim
		nodeClaim := &v1.NodeClaim{}
		if err := q.kubeClient.Get(ctx, types.NamespacedName{Name: cmd.Replacements[i].Name}, nodeClaim); err != nil {
			// The NodeClaim got deleted after an initial eventual consistency delay
			// This means that there was an ICE error or the Node initializationTTL expired
			// In this case, the error is unrecoverable, so don't requeue.
			if errors.IsNotFound(err) && !q.cluster.NodeClaimExists(cmd.Replacements[i].Name) {
				return NewUnrecoverableError(fmt.Errorf("replacement was deleted, %w", err))
			}
			waitErrs[i] = fmt.Errorf("getting node claim, %w", err)
			continue
		}
		// We emitted this event when disruption was blocked on launching/termination.
		// This does not block other forms of deprovisioning, but we should still emit this.
		q.recorder.Publish(disruptionevents.Launching(nodeClaim, string(cmd.Reason())))
		initializedStatus := nodeClaim.StatusConditions().Get(v1.ConditionTypeInitialized)
		if !initializedStatus.IsTrue() {
			q.recorder.Publish(disruptionevents.WaitingOnReadiness(nodeClaim))
			waitErrs[i] = serrors.Wrap(fmt.Errorf("nodeclaim not initialized"), "NodeClaim", klog.KRef("", nodeClaim.Name))
			continue
		}
		cmd.Replacements[i].Initialized = true
	}
	// If we have any errors, don't continue
	if err := multierr.Combine(waitErrs...); err != nil {
		return fmt.Errorf("waiting for replacement initialization, %w", err)
	}

	// All replacements have been provisioned.
	// All we need to do now is get a successful delete call for each node claim,
	// then the termination controller will handle the eventual deletion of the nodes.
	errs := make([]error, len(cmd.Candidates))
	workqueue.ParallelizeUntil(ctx, len(cmd.Candidates), len(cmd.Candidates), func(i int) {
		if err := retry.OnError(retry.DefaultBackoff, func(err error) bool { return client.IgnoreNotFound(err) != nil }, func() error {
			return q.kubeClient.Delete(ctx, cmd.Candidates[i].NodeClaim)
		}); err != nil {
			errs[i] = client.IgnoreNotFound(err)
			return
		}
		q.recorder.Publish(disruptionevents.Terminating(cmd.Candidates[i].Node, cmd.Candidates[i].NodeClaim, string(cmd.Reason()))...)
		// Drift also flows through this queue, so only report a policy for consolidation.
		consolidationPolicy := ""
		if cmd.ConsolidationType() != "" {
			consolidationPolicy = pretty.ToSnakeCase(string(cmd.Candidates[i].NodePool.Spec.Disruption.ConsolidationPolicy))
		}
		labels := map[string]string{
			metrics.ReasonLabel:              pretty.ToSnakeCase(string(cmd.Reason())),
			metrics.NodePoolLabel:            cmd.Candidates[i].NodeClaim.Labels[v1.NodePoolLabelKey],
			metrics.CapacityTypeLabel:        cmd.Candidates[i].NodeClaim.Labels[v1.CapacityTypeLabelKey],
			metrics.ConsolidationPolicyLabel: consolidationPolicy,
			metrics.TerminationModeLabel:     nodeclaimutils.DisruptionTerminationMode(cmd.Candidates[i].NodeClaim),
		}
		metrics.NodeClaimsDisruptedTotal.Inc(labels)
		metrics.PodsDisruptionInitiatedTotal.Add(float64(len(cmd.Candidates[i].reschedulablePods)), labels)
	})
	// If there were any deletion failures, we should requeue.
	// In the case where we requeue, but the timeout for the command is reached, we'll mark this as a failure.
	return multierr.Combine(errs...)
}

// markDisrupted taints the node and adds the Disrupted condition to the NodeClaim for a candidate that is about to be disrupted
// For static NodeClaims, we mark NodeClaims as pendingdisruption in statenodepool
func (q *Queue) markDisrupted(ctx context.Context, cmd *Command) ([]*Candidate, error) {
	errs := make([]error, len(cmd.Candidates))
	workqueue.ParallelizeUntil(ctx, len(cmd.Candidates), len(cmd.Candidates), func(i int) {
		if err := state.RequireNoScheduleTaint(ctx, q.kubeClient, true, cmd.Candidates[i].StateNode); err != nil {
			errs[i] = serrors.Wrap(fmt.Errorf("tainting nodes, %w", err), "taint", pretty.Taint(v1.DisruptedNoScheduleTaint))
			return
		}
		// refresh nodeclaim before updating status
		nodeClaim := &v1.NodeClaim{}
		if err := retry.OnError(retry.DefaultBackoff, func(err error) bool { return client.IgnoreNotFound(err) != nil }, func() error {
			if e := q.kubeClient.Get(ctx, client.ObjectKeyFromObject(cmd.Candidates[i].NodeClaim), nodeClaim); e != nil {
				return e
			}
			stored := nodeClaim.DeepCopy()
			nodeClaim.StatusConditions(status.WithClock(q.clock)).SetTrueWithReason(v1.ConditionTypeDisruptionReason, string(cmd.Reason()), string(cmd.Reason()))
			return q.kubeClient.Status().Patch(ctx, nodeClaim, client.MergeFrom(stored))
		}); err != nil {
			errs[i] = client.IgnoreNotFound(err)
			return
		}
	})
	var markedCandidates []*Candidate
	for i := range errs {
		if errs[i] != nil {
			continue
		}
		markedCandidates = append(markedCandidates, cmd.Candidates[i])

		// Mark all StaticNodeClaims as pendingdisruption in nodepoolstate
		if cmd.Candidates[i].OwnedByStaticNodePool() {
			q.cluster.NodePoolState.MarkNodeClaimPendingDisruption(cmd.Candidates[i].NodePool.Name, cmd.Candidates[i].NodeClaim.Name)
		}
	}
	return markedCandidates, multierr.Combine(errs...)
}

// createReplacementNodeClaims creates replacement NodeClaims
func (q *Queue) createReplacementNodeClaims(ctx context.Context, cmd *Command) error {
	nodeClaimNames, err := q.provisioner.CreateNodeClaims(ctx, lo.Map(cmd.Replacements, func(r *Replacement, _ int) *pscheduling.NodeClaim { return r.NodeClaim }), provisioning.WithReason(strings.ToLower(string(cmd.Reason()))))
	if err != nil {
		return err
	}
	if len(nodeClaimNames) != len(cmd.Replacements) {
		// shouldn't ever occur since a partially failed CreateNodeClaims should return an error
		return serrors.Wrap(fmt.Errorf("expected replacement count did not equal actual replacement count"), "expected-count", len(cmd.Replacements), "actual-count", len(nodeClaimNames))
	}
	for i, name := range nodeClaimNames {
		cmd.Replacements[i].Name = name
	}
	return nil
}

// StartCommand will do the following:
// 1. Taint candidate nodes
// 2. Spin up replacement nodes
// 3. Add Command to the queue to wait to delete the candidates.
func (q *Queue) StartCommand(ctx context.Context, cmd *Command) error {
	// First check if we can add the command.
	providerIDs := lo.Map(cmd.Candidates, func(c *Candidate, _ int) string {
		return c.ProviderID()
	})
	if q.HasAny(providerIDs...) {
		return fmt.Errorf("candidate is being disrupted")
	}

	log.FromContext(ctx).WithValues(append([]any{
		"command", cmd.String(),
	}, cmd.LogValues()...)...).Info("disrupting node(s)")

	// Cordon the old nodes before we launch the replacements to prevent new pods from scheduling to the old nodes
	markedCandidates, markDisruptedErr := q.markDisrupted(ctx, cmd)
	// If we get a failure marking some nodes as disrupted, if we are launching replacements, we shouldn't continue
	// with disrupting the candidates. If it's just a delete operation, we can proceed
	if markDisruptedErr != nil && (len(cmd.Replacements) > 0 || len(markedCandidates) == 0) {
		return serrors.Wrap(fmt.Errorf("marking disrupted, %w", markDisruptedErr), "command-id", cmd.ID)
	}

	// Update the command to only consider the successfully MarkDisrupted candidates
	cmd.Candidates = markedCandidates

	if err := q.createReplacementNodeClaims(ctx, cmd); err != nil {
		// If we failed to launch the replacement, don't disrupt.  If this is some permanent failure,
		// we don't want to disrupt workloads with no way to provision new nodes for them.
		return serrors.Wrap(fmt.Errorf("launching replacement nodeclaim, %w", err), "command-id", cmd.ID)
	}
	// IMPORTANT
	// We must MarkForDeletion AFTER we launch the replacements and not before
	// The reason for this is to avoid producing double-launches
	// If we MarkForDeletion before we create replacements, it's possible for the provisioner
	// to recognize that it needs to launch capacity for terminating pods, causing us to launch
	// capacity for these pods twice instead of just once
	q.cluster.MarkForDeletion(lo.Map(cmd.Candidates, func(c *Candidate, _ int) string { return c.ProviderID() })...)

	// Nominate each node for scheduling and emit pod nomination events
	// We emit all nominations before we exit the disruption loop as
	// we want to ensure that nodes that are nominated are respected in the subsequent
	// disruption reconciliation. This is essential in correctly modeling multiple
	// disruption commands in parallel.
	// This will only nominate nodes for 2 * batchingWindow. Once the candidates are
	// tainted with the Karpenter taint, the provisioning controller will continue
	// to do scheduling simulations and nominate the pods on the candidate nodes until
	// the node is cleaned up.
	cmd.Results.Record(log.IntoContext(ctx, operatorlogging.NopLogger), q.recorder, q.cluster)

	q.Lock()
	for _, c := range cmd.Candidates {
		q.ProviderIDToCommand[c.ProviderID()] = cmd
	}
	// IMPORTANT
	// We are adding the first nodeclaim in the list of candidates into the reconciliation queue
	// This invariant SHOULD NOT be relied on anywhere else besides within this file.
	q.source <- event.TypedGenericEvent[*v1.NodeClaim]{Object: cmd.Candidates[0].NodeClaim}
	q.Unlock()

	// An action is only performed and pods/nodes are only disrupted after a successful add to the queue
	nodePools := lo.Uniq(lo.Map(cmd.Candidates, func(c *Candidate, _ int) string {
		return c.NodePool.Name
	}))
	for _, nodePool := range nodePools {
		NodepoolDecisionsPerformed.Inc(map[string]string{
			metrics.NodePoolLabel:  nodePool,
			decisionLabel:          string(cmd.Decision()),
			metrics.ReasonLabel:    strings.ToLower(string(cmd.Reason())),
			ConsolidationTypeLabel: cmd.ConsolidationType(),
		})
	}
	DecisionsPerformedTotal.Inc(map[string]string{
		decisionLabel:          string(cmd.Decision()),
		metrics.ReasonLabel:    strings.ToLower(string(cmd.Reason())),
		ConsolidationTypeLabel: cmd.ConsolidationType(),
	})
	return nil
}

// HasAny checks to see if the candidate is part of an currently executing command.
func (q *Queue) HasAny(ids ...string) bool {
	q.RLock()
	defer q.RUnlock()

	// If the mapping has at least one of the candidates' providerIDs, return true.
	for _, id := range ids {
		if _, exists := q.ProviderIDToCommand[id]; exists {
			return true
		}
	}
	return false
}

// For TESTING ONLY
// This function is not thread safe as it returns pointers to commands.
// If you edit these commands returned, you can create race conditions.
func (q *Queue) GetCommands() []*Command {
	q.RLock()
	defer q.RUnlock()

	return lo.UniqValues(q.ProviderIDToCommand)
}

// CompleteCommand fully clears the queue of all references of a hash/command
func (q *Queue) CompleteCommand(cmd *Command) {
	q.cluster.UnmarkForDeletion(lo.Map(cmd.Candidates, func(c *Candidate, _ int) string { return c.ProviderID() })...)
	// Remove all candidates linked to the command
	q.Lock()
	defer q.Unlock()
	for _, c := range cmd.Candidates {
		delete(q.ProviderIDToCommand, c.ProviderID())
	}
}

func (q *Queue) IsEmpty() bool {
	q.RLock()
	defer q.RUnlock()
	return len(q.ProviderIDToCommand) == 0
}
