//go:build verif

// Contracts for the deductive verifier in /verif (kvc). Comment-only: this file adds no code.
package disruption

// ---- C07: per-method eligibility (exact) ----
//@ pure dynamicPool(c *Candidate) bool = c.NodePool.Spec.Replicas == nil
//@ pure isEmptySpec(c *Candidate) bool = c.RescheduleDisruptionCost <= PerNodeBaseDisruptionCost
//@ pure ncTrue(c *Candidate, t string) bool = v1.ncCondIs(c.NodeClaim, t, metav1.ConditionTrue)

//@ func (*Candidate).OwnedByStaticNodePool
//@   prop C07
//@   modifies nothing
//@   ensures result == !dynamicPool(c)

//@ func (*Candidate).IsEmpty
//@   prop C07 C06
//@   modifies nothing
//@   ensures result == isEmptySpec(c)

//@ func (*consolidation).ShouldDisrupt
//@   prop C07
//@   requires cn != nil && cn.StateNode != nil && cn.NodeClaim != nil && cn.Node != nil && cn.NodePool != nil
//@   modifies nothing
//@   ensures [exact] result <==> (dynamicPool(cn) && cn.instanceType != nil && (v1.CapacityTypeLabelKey in state.snLab(cn.StateNode)) && (corev1.LabelTopologyZone in state.snLab(cn.StateNode)) && cn.NodePool.Spec.Disruption.ConsolidateAfter.Duration != nil && !isEmptySpec(cn) && cn.NodePool.Spec.Disruption.ConsolidationPolicy != v1.ConsolidationPolicyWhenEmpty && ncTrue(cn, v1.ConditionTypeConsolidatable))

//@ func (*Emptiness).ShouldDisrupt
//@   prop C07
//@   requires c != nil && c.StateNode != nil && c.NodeClaim != nil && c.Node != nil && c.NodePool != nil
//@   modifies nothing
//@   ensures [exact] result <==> (dynamicPool(c) && c.NodePool.Spec.Disruption.ConsolidateAfter.Duration != nil && !(@(*Cluster).HasBufferPods) && isEmptySpec(c) && ncTrue(c, v1.ConditionTypeConsolidatable))

//@ func (*Drift).ShouldDisrupt
//@   prop C07
//@   requires c != nil && c.StateNode != nil && c.NodeClaim != nil && c.NodePool != nil
//@   modifies nothing
//@   ensures [exact] result <==> (dynamicPool(c) && ncTrue(c, v1.ConditionTypeDrifted))

//@ func (*StaticDrift).ShouldDisrupt
//@   prop C07
//@   requires c != nil && c.StateNode != nil && c.NodeClaim != nil && c.NodePool != nil
//@   modifies nothing
//@   ensures [exact] result <==> (!dynamicPool(c) && ncTrue(c, v1.ConditionTypeDrifted))

// A candidate is only built for a node that is not already queued, passes every node-level check,
// belongs to a known NodePool, and whose pods do not block it — where only the eventual (drift)
// class may override pod-level blockers, and only with a terminationGracePeriod.
//@ func NewCandidate
//@   prop C07
//@   readsclock
//@   requires node != nil && queue != nil
//@   modifies *
//@   let podErr = (@(*StateNode).ValidatePodsDisruptable).1
//@   ensures [notqueued] result.1 == nil ==> !(@(*Queue).HasAny)
//@   ensures [node] result.1 == nil ==> (@(*StateNode).ValidateNodeDisruptable) == nil
//@   ensures [pool] result.1 == nil ==> result.0 != nil && result.0.StateNode == node && result.0.NodePool != nil
//@   ensures [pods] result.1 == nil ==> (podErr == nil || (disruptionClass == EventualDisruptionClass && atcall(@(*StateNode).ValidatePodsDisruptable, node.NodeClaim.Spec.TerminationGracePeriod) != nil && state.IsPodBlockEvictionError(podErr)))

// ---- C05: the per-pool remaining budget ----
// Eligible nodes (managed, initialized, instance not terminating) form the pool total; those of
// them that are not Ready or are marked for deletion already consume the budget. For every listed
// pool the remaining budget is bounded by every applicable active budget minus the consumers.
//@ pure elig(n *state.StateNode) bool = state.snManaged(n) && state.snInitialized(n) && !v1.ncCondIs(n.NodeClaim, v1.ConditionTypeInstanceTerminating, metav1.ConditionTrue)
//@ pure poolOf(n *state.StateNode) string = state.snLab(n)[v1.NodePoolLabelKey]
//@ pure consuming(n *state.StateNode) bool = !nodeutils.condStatus(n.Node, corev1.NodeReady, corev1.ConditionTrue) || state.snMarked(n)
//@ rec cntElig(xs []*state.StateNode, i int, p string) int = i <= 0 ? 0 : cntElig(xs, i - 1, p) + ((elig(xs[i - 1]) && poolOf(xs[i - 1]) == p) ? 1 : 0)
//@ rec cntDis(xs []*state.StateNode, i int, p string) int = i <= 0 ? 0 : cntDis(xs, i - 1, p) + ((elig(xs[i - 1]) && poolOf(xs[i - 1]) == p && consuming(xs[i - 1])) ? 1 : 0)
//@ pure bounded(np *v1.NodePool, reason v1.DisruptionReason, r int, total int, dis int, t int) bool = r >= 0 && (v1.budgetsValid(np) ==> (forall k int {np.Spec.Disruption.Budgets[k]} :: (0 <= k && k < len(np.Spec.Disruption.Budgets) && v1.applies(&np.Spec.Disruption.Budgets[k], reason)) ==> r <= max(0, v1.budgetAllowed(&np.Spec.Disruption.Budgets[k], t, total) - dis)))

//@ func BuildDisruptionBudgetMapping
//@   prop C05
//@   hides budgetAllowed, applies, budgetsValid
//@   frozenclock
//@   modifies *
//@   let nodes = @(*Cluster).DeepCopyNodes
//@   let total = beforecall(@nodepoolutils.ListManaged, cntElig(nodes, len(nodes), p))
//@   ensures [bounded] result.1 == nil ==> (forall p string {p in result.0} :: (p in result.0) ==> (exists j int {nodePools[j]} :: 0 <= j && j < len(nodePools) && nodePools[j].Name == p && bounded(nodePools[j], reason, result.0[p], beforecall(@nodepoolutils.ListManaged, cntElig(nodes, len(nodes), p)), beforecall(@nodepoolutils.ListManaged, cntDis(nodes, len(nodes), p)), now())))
//@   loop 1 invariant [empty] forall p string {p in disruptionBudgetMapping} :: !(p in disruptionBudgetMapping)
//@   loop 1 invariant [nonneg] forall p string {numNodes[p]} {disrupting[p]} :: numNodes[p] >= 0 && disrupting[p] >= 0
//@   loop 1 invariant [n] forall p string {numNodes[p]} :: numNodes[p] == cntElig(nodes, $i + 1, p)
//@   loop 1 invariant [d] forall p string {disrupting[p]} :: disrupting[p] == cntDis(nodes, $i + 1, p)
//@   loop 2 invariant [counts] forall p string {numNodes[p]} {disrupting[p]} :: numNodes[p] >= 0 && disrupting[p] >= 0 && numNodes[p] == beforecall(@nodepoolutils.ListManaged, cntElig(nodes, len(nodes), p)) && disrupting[p] == beforecall(@nodepoolutils.ListManaged, cntDis(nodes, len(nodes), p))
//@   loop 2 invariant [bounded] forall p string {p in disruptionBudgetMapping} :: (p in disruptionBudgetMapping) ==> (exists j int {nodePools[j]} :: 0 <= j && j <= $i && nodePools[j].Name == p && bounded(nodePools[j], reason, disruptionBudgetMapping[p], beforecall(@nodepoolutils.ListManaged, cntElig(nodes, len(nodes), p)), beforecall(@nodepoolutils.ListManaged, cntDis(nodes, len(nodes), p)), now()))

// ---- C08: replacements are ready before removal; failed actions roll back ----

// Candidates are only terminated (the ParallelizeUntil over cmd.Candidates that issues the Deletes)
// once every replacement is latched Initialized, and a replacement is latched only after its own
// NodeClaim was fetched successfully and shows Initialized=True. An unrecoverable error — the one
// that makes Reconcile roll the command back — is only produced before termination has started;
// the one exception is the recorded finding (a candidate deletion keeps failing until the command's
// retry window is over).
//@ func (*Queue).waitOrTerminate
//@   prop C08
//@   requires cmd != nil
//@   modifies * except q.ProviderIDToCommand, q.ProviderIDToCommand[:]
//@   ghost terminationStarted, madeUnrecoverable
//@   after workqueue.ParallelizeUntil set terminationStarted = true
//@   after NewUnrecoverableError set madeUnrecoverable = true
//@   site workqueue.ParallelizeUntil requires [allReplacementsInitialized] forall k int {cmd.Replacements[k]} :: 0 <= k && k < len(cmd.Replacements) ==> cmd.Replacements[k].Initialized
//@   site store.Replacement.Initialized requires [latchedOnObservation] $1 ==> ($0 == cmd.Replacements[i] && (@(client.Client).Get) == nil && v1.ncCondIs(nodeClaim, v1.ConditionTypeInitialized, metav1.ConditionTrue))
//@   site (client.Client).Get requires [fetchesTheReplacement] $2.Name == cmd.Replacements[i].Name && $3 == nodeClaim
//@   ensures [rollbackOnlyBeforeTermination] madeUnrecoverable ==> !terminationStarted
//@   finding C08-timeout-during-termination [rollbackOnlyBeforeTermination] terminationStarted && (@multierr.Combine) != nil
//@   loop 1 invariant [shape] len(waitErrs) == len(cmd.Replacements) && cmd.Replacements == loopentry(cmd.Replacements) && loc(waitErrs) == loopentry(loc(waitErrs))
//@   loop 1 invariant [progress] forall k int {cmd.Replacements[k]} :: 0 <= k && k <= $i ==> (waitErrs[k] == nil ==> cmd.Replacements[k].Initialized)
//@   loop 1 invariant [ghosts] !terminationStarted && !madeUnrecoverable

// Queue invariant: every queued provider id maps to a command.
//@ pure qInv(q *Queue) bool = q.ProviderIDToCommand != nil && (forall id string {id in q.ProviderIDToCommand} :: (id in q.ProviderIDToCommand) ==> q.ProviderIDToCommand[id] != nil)

//@ func NewQueue
//@   prop C08
//@   modifies nothing
//@   ensures [startsEmpty] qInv(result) && len(result.ProviderIDToCommand) == 0

// Reconcile of one queued command: the command is completed (removed from the queue) only when
// waitOrTerminate succeeded or failed unrecoverably; a recoverable error requeues and leaves it queued.
// On the failure path the disruption taint is removed from, and the DisruptionReason condition cleared
// on, every candidate before the command is completed, and Succeeded stays false so that
// CompleteCommand un-marks the candidates in the cluster state. Succeeded is only ever set on success.
// C05: a command whose termination step went through (the candidates' Deletes were issued) is recorded as succeeded
// before it is completed, so that CompleteCommand keeps its candidates' deletion marks and the following disruption rounds
// keep counting them as nodes being deleted.
//@ func (*Queue).Reconcile
//@   prop C08 C05
//@   requires nodeClaim != nil
//@   repinv qInv(q)
//@   modifies *
//@   ghost untainted, cleared
//@   after state.RequireNoScheduleTaint set untainted = !$2
//@   after state.ClearNodeClaimsCondition set cleared = $3 == v1.ConditionTypeDisruptionReason
//@   site state.RequireNoScheduleTaint requires [everyCandidate] len($3) == len(cmd.Candidates) && (forall k int {$3[k]} :: 0 <= k && k < len($3) ==> $3[k] == cmd.Candidates[k].StateNode)
//@   site state.ClearNodeClaimsCondition requires [everyCandidate] len($4) == len(cmd.Candidates) && (forall k int {$4[k]} :: 0 <= k && k < len($4) ==> $4[k] == cmd.Candidates[k].StateNode)
//@   site store.Command.Succeeded requires [onlyOnSuccess] $0 == cmd && ($1 ==> (@(*Queue).waitOrTerminate) == nil)
//@   site (*Queue).CompleteCommand requires [sameCommand] $1 == cmd
//@   site (*Queue).CompleteCommand requires [finishedOnly] (@(*Queue).waitOrTerminate) == nil || IsUnrecoverableError(@(*Queue).waitOrTerminate)
//@   site (*Queue).CompleteCommand requires [rolledBackFirst] (@(*Queue).waitOrTerminate) != nil ==> untainted && cleared
//@   site (*Queue).CompleteCommand requires [terminatedCompletesAsSucceeded] (@(*Queue).waitOrTerminate) == nil ==> cmd.Succeeded
//@   site (*Queue).waitOrTerminate requires [queuedCommand] $2 == cmd

// Completing a command: a command that did not succeed gets every candidate un-marked in the cluster
// state (so the nodes count as capacity again), and all its candidates leave the queue.
// C05 (budgets hold across consecutive reconcile rounds): the candidates of a command that SUCCEEDED have had their
// deletion issued; until the informer delivers that deletion, the deletion mark in the cluster state is the only thing
// that makes BuildDisruptionBudgetMapping count them as "being deleted" (consuming = not Ready || snMarked). So completing
// a succeeded command must not clear any deletion mark: UnmarkForDeletion is reserved for the rollback of a command that
// did not succeed, and no state node that was marked before the call is un-marked by it.
//@ func (*Queue).CompleteCommand
//@   prop C08 C05
//@   requires cmd != nil
//@   repinv qInv(q)
//@   modifies *
//@   ghost unmarked
//@   after (*Cluster).UnmarkForDeletion set unmarked = true
//@   site (*Cluster).UnmarkForDeletion requires [everyCandidate] len($1) == len(cmd.Candidates) && (forall k int {$1[k]} :: 0 <= k && k < len($1) ==> $1[k] == cmd.Candidates[k].ProviderID())
//@   site (*Cluster).UnmarkForDeletion requires [onlyOnRollback] !cmd.Succeeded
//@   ensures [failedCommandsUnmarked] !old(cmd.Succeeded) ==> unmarked
//@   ensures [succeededStayMarked] old(cmd.Succeeded) ==> (forall n *state.StateNode {n.markedForDeletion} :: old(n.markedForDeletion) ==> n.markedForDeletion)
//@   ensures [succeededNeverUnmarked] old(cmd.Succeeded) ==> !unmarked
//@   ensures [dequeued] forall k int {cmd.Candidates[k]} :: 0 <= k && k < len(cmd.Candidates) ==> !(cmd.Candidates[k].ProviderID() in q.ProviderIDToCommand)
//@   loop 1 invariant forall k int {cmd.Candidates[k]} :: 0 <= k && k <= $i ==> !(cmd.Candidates[k].ProviderID() in q.ProviderIDToCommand)
//@   loop 1 invariant (!old(cmd.Succeeded) ==> unmarked) && cmd.Candidates == loopentry(cmd.Candidates) && q.ProviderIDToCommand == loopentry(q.ProviderIDToCommand) && qInv(q)

//@ func (*Queue).HasAny
//@   prop C08
//@   modifies nothing
//@   ensures [exact] result <==> (exists k int {ids[k]} :: 0 <= k && k < len(ids) && (ids[k] in q.ProviderIDToCommand))
//@   loop 1 invariant forall k int {ids[k]} :: 0 <= k && k <= $i ==> !(ids[k] in q.ProviderIDToCommand)

// Tainting and marking the candidates. The candidates handed back are, in order, exactly those whose
// tainting and DisruptionReason patch succeeded; with no error that is every candidate.
//@ func (*Queue).markDisrupted
//@   prop C08
//@   requires cmd != nil
//@   modifies * except cmd.Candidates, cmd.Candidates[:], cmd.Replacements, q.ProviderIDToCommand, q.ProviderIDToCommand[:]
//@   ensures [allOrError] result.1 == nil ==> len(result.0) == len(cmd.Candidates)
//@   ensures [onlyMarked] forall k int {result.0[k]} :: 0 <= k && k < len(result.0) ==> (exists j int {cmd.Candidates[j]} :: 0 <= j && j < len(cmd.Candidates) && result.0[k] == cmd.Candidates[j] && errs[j] == nil)
//@   loop 1 invariant len(errs) == len(cmd.Candidates) && len(markedCandidates) <= $i + 1 && (cap(markedCandidates) == 0 || fresh(markedCandidates))
//@   loop 1 invariant len(markedCandidates) == $i + 1 || (exists k int {errs[k]} :: 0 <= k && k <= $i && errs[k] != nil)
//@   loop 1 invariant forall k int {markedCandidates[k]} :: 0 <= k && k < len(markedCandidates) ==> (exists j int {cmd.Candidates[j]} :: 0 <= j && j < len(cmd.Candidates) && markedCandidates[k] == cmd.Candidates[j] && errs[j] == nil)

//@ func (*Queue).markDisrupted closure@workqueue.ParallelizeUntil
//@   prop C08
//@   requires cmd != nil && 0 <= i && i < len(cmd.Candidates) && len(errs) == len(cmd.Candidates)
//@   modifies * except cmd.Candidates, cmd.Candidates[:], cmd.Replacements, q.ProviderIDToCommand, q.ProviderIDToCommand[:]

// Starting a command: refused when any candidate already belongs to a queued command (a node is never
// the subject of two actions); candidates are tainted before replacements are created; with
// replacements, a tainting failure aborts; nothing is marked for deletion or queued unless every
// replacement NodeClaim was created; an error return leaves the queue and the deletion marks alone.
//@ func (*Queue).StartCommand
//@   prop C08
//@   requires cmd != nil
//@   repinv qInv(q)
//@   modifies *
//@   ghost marked
//@   after (*Cluster).MarkForDeletion set marked = true
//@   site (*Queue).markDisrupted requires [notAlreadyQueued] !(@(*Queue).HasAny)
//@   site (*Queue).HasAny requires [everyCandidate] len($1) == len(cmd.Candidates) && (forall k int {$1[k]} :: 0 <= k && k < len($1) ==> $1[k] == cmd.Candidates[k].ProviderID())
//@   site (*Queue).createReplacementNodeClaims requires [taintedFirst] len(cmd.Replacements) > 0 ==> (@(*Queue).markDisrupted).1 == nil
//@   site (*Cluster).MarkForDeletion requires [replacementsCreatedFirst] (@(*Queue).createReplacementNodeClaims) == nil
//@   site store.Command.Candidates requires [onlyMarked] $0 == cmd && $1 == (@(*Queue).markDisrupted).0
//@   ensures [errorLeavesNoMark] result != nil ==> !marked
//@   loop 1 invariant qInv(q)
//@   loop 2 invariant qInv(q)

// Creating the replacements does not touch the queue's own bookkeeping.
//@ func (*Queue).createReplacementNodeClaims
//@   prop C08
//@   requires cmd != nil
//@   modifies * except q.ProviderIDToCommand, q.ProviderIDToCommand[:]
//@   ensures [allNamed] result == nil ==> len(nodeClaimNames) == len(cmd.Replacements)

// A restart or an error can leave nodes tainted / NodeClaims marked that no queued command owns. Before
// any method computes new commands, the controller removes the disruption taint and the
// DisruptionReason condition from every node that is neither queued nor marked for deletion.
//@ func (*Controller).Reconcile
//@   prop C08
//@   modifies *
//@   site (*Controller).disrupt requires [staleMarksRemovedFirst] (@state.RequireNoScheduleTaint) == nil && (@state.ClearNodeClaimsCondition) == nil
//@   site state.RequireNoScheduleTaint requires [untaint] !$2 && $3 == outdatedNodes
//@   site state.ClearNodeClaimsCondition requires [reason] $3 == v1.ConditionTypeDisruptionReason && $4 == outdatedNodes

// Whole-package inventory (C08): a NodeClaim is deleted by the disruption package only in waitOrTerminate, i.e.
// only at the point whose preconditions (all replacements latched Initialized) are proved above.
//@ inventory candidateDeleteOnlyInWaitOrTerminate [C08]: (client.Client).Delete arg 2 NodeClaim in sigs.k8s.io/karpenter/pkg/controllers/disruption only (*Queue).waitOrTerminate
