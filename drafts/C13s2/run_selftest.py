#!/usr/bin/env python3
"""Runs /verif/drafts/C13s2/selftest.json through the contract overlay (never touches /repo): each mutant is a copy of
the source file placed in a temporary overlay next to the contract files. One check at a time, restricted with --only
to the function the mutated file's contract is about (pass --full to run the whole property)."""
import json, os, shutil, subprocess, sys
D='/verif/drafts/C13s2'
entries=json.load(open(D+'/selftest.json'))
args=[a for a in sys.argv[1:] if not a.startswith('--')]
full='--full' in sys.argv
bad=0
for e in entries:
    if args and not any(o in e['name'] for o in args): continue
    ov='/tmp/ov_C13s2_mut'
    shutil.rmtree(ov, ignore_errors=True)
    shutil.copytree(D, ov, ignore=shutil.ignore_patterns('*.json','*.py','*.md'))
    src=open('/repo/'+e['file']).read()
    if src.count(e['old'])!=1:
        print('STALE', e['name'], src.count(e['old'])); bad+=1; continue
    dst=os.path.join(ov, e['file']); os.makedirs(os.path.dirname(dst), exist_ok=True)
    open(dst,'w').write(src.replace(e['old'], e['new'], 1))
    env=dict(os.environ, KVC_CONTRACT_OVERLAY=ov, KVC_VERIF='/tmp/ag_C13s2_mut')
    only='' if full else (" --only 'MinResources'" if e['file'].endswith('resources.go') else " --only 'addDaemonRequests'")
    r=subprocess.run('cd /verif && ./check %s%s'%(e['prop'],only), shell=True, capture_output=True, text=True, env=env)
    viol=[l for l in r.stdout.splitlines() if l.startswith('VIOLATION')]
    failed=r.returncode!=0
    ok = failed if e['expect']=='fail' else not failed
    names=[v.split('replay=')[1].split()[0].split('/')[-1].replace('.json','') for v in viol]
    if ok and e['expect']=='fail' and e.get('obligation'):
        ok = any(e['obligation'].replace('(','_').replace(')','_').replace('*','_') in n for n in names)
    print('%s %-50s expect=%s got=%s\n      %s'%('ok  ' if ok else 'BAD ', e['name'], e['expect'], 'fail' if failed else 'pass', '\n      '.join(n.split('.',1)[1] if False else n[-80:] for n in names[:8])))
    if not ok:
        bad+=1
        print(r.stdout[-800:], r.stderr[-800:])
shutil.rmtree('/tmp/ov_C13s2_mut', ignore_errors=True)
print('%d bad'%bad)
sys.exit(1 if bad else 0)
