//go:build verif

// Contracts (C13, daemon overhead of the launch request) for the deductive verifier in /verif (kvc).
// Comment-only: this file adds no code.
package resources

// ---- C13: per-resource minimum over a list of ResourceLists (the daemon overhead every launchable group needs) ----
// namedInAll(rs, n, k): each of the first n lists names resource k.
//@ pure namedInAll(rs []v1.ResourceList, n int, k v1.ResourceName) bool = forall j int {rs[j]} :: (0 <= j && j < n) ==> (k in rs[j])

// MinResources: a new list that names exactly the resources EVERY argument names (none when there is no argument);
// for each such name it holds a quantity that is <= the quantity of every argument ([lower]) and equal to one of
// them ([attained]). A name some argument lacks is dropped, i.e. reads as zero: the Kubernetes meaning of an
// unlisted resource, and the minimum with an argument that does not request it.
//@ func MinResources
//@   prop C13
//@   modifies nothing
//@   ensures [fresh] fresh(result) && result != nil
//@   ensures [keys] forall k v1.ResourceName {k in result} :: (k in result) <==> (len(resources) > 0 && namedInAll(resources, len(resources), k))
//@   ensures [lower] forall j int, k v1.ResourceName {resources[j][k]} :: (0 <= j && j < len(resources) && (k in result)) ==> result[k] <= resources[j][k]
//@   ensures [attained] forall k v1.ResourceName {k in result} :: (k in result) ==> (exists j int {resources[j]} :: 0 <= j && j < len(resources) && result[k] == resources[j][k])
//@   ensures [two] len(resources) == 2 ==> (forall k v1.ResourceName {k in result} {result[k]} :: ((k in result) <==> ((k in resources[0]) && (k in resources[1]))) && result[k] == (((k in resources[0]) && (k in resources[1])) ? min(resources[0][k], resources[1][k]) : 0))
//@   loop 1 invariant [fresh] fresh(resourceList) && resourceList != nil
//@   loop 1 invariant [keys] forall k v1.ResourceName {k in resourceList} :: (k in resourceList) <==> seen(k)
//@   loop 1 invariant [copy] forall k v1.ResourceName {resourceList[k]} :: (k in resourceList) ==> resourceList[k] == resources[0][k]
//@   loop 2 invariant [fresh] fresh(resourceList) && resourceList != nil
//@   loop 2 invariant [keys] forall k v1.ResourceName {k in resourceList} :: (k in resourceList) <==> namedInAll(resources, $i + 2, k)
//@   loop 2 invariant [lower] forall j int, k v1.ResourceName {resources[j][k]} :: (0 <= j && j <= $i + 1 && (k in resourceList)) ==> resourceList[k] <= resources[j][k]
//@   loop 2 invariant [attained] forall k v1.ResourceName {k in resourceList} :: (k in resourceList) ==> (exists j int {resources[j]} :: 0 <= j && j <= $i + 1 && resourceList[k] == resources[j][k])
//@   loop 3 invariant [fresh] fresh(resourceList) && resourceList != nil
//@   loop 3 invariant [keys] forall k v1.ResourceName {k in resourceList} :: (k in resourceList) <==> (namedInAll(resources, $i2 + 2, k) && (seen(k) ==> (k in resources[$i2 + 2])))
//@   loop 3 invariant [lower] forall j int, k v1.ResourceName {resources[j][k]} :: (0 <= j && j <= $i2 + 1 && (k in resourceList)) ==> resourceList[k] <= resources[j][k]
//@   loop 3 invariant [lowerCur] forall k v1.ResourceName {seen(k)} :: (seen(k) && (k in resourceList)) ==> resourceList[k] <= resources[$i2 + 2][k]
//@   loop 3 invariant [attained] forall k v1.ResourceName {k in resourceList} :: (k in resourceList) ==> (exists j int {resources[j]} :: 0 <= j && j <= $i2 + 2 && resourceList[k] == resources[j][k])
