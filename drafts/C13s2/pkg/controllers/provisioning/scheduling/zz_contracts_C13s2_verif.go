//go:build verif

// Contracts (C13, "its resource requests cover the pods placed on it plus daemon overhead") for the deductive
// verifier in /verif (kvc). Comment-only: this file adds no code.
package scheduling

// Daemon overhead is kept per GROUP of instance types (the instance types that run the same daemon pods). When the
// scheduling decision is finalized the NodeClaim's spec.resources.requests (so far: the pods placed on it) receive
// the per-resource MINIMUM of the overheads of exactly those groups that can still be launched, i.e. that have at
// least one instance type among the NodeClaim's remaining InstanceTypeOptions. A group whose instance types were all
// pruned by the decision takes no part: no node of that group can be launched, and counting it could only lower the
// request below what every launchable instance type needs.
//
// itRemains(opts, it):   it is one of the remaining options
// grpCounted(opts, its): a group with instance types `its` is counted: one of them remains
// anyCounted(opts, gs, n): one of the first n groups is counted
// commonKey(opts, gs, k): every counted group's overhead names resource k
// nonnegCounted(opts, gs): no counted group has a negative overhead quantity
//@ pure itRemains(opts []*cloudprovider.InstanceType, it *cloudprovider.InstanceType) bool = exists m int {opts[m]} :: 0 <= m && m < len(opts) && opts[m] == it
//@ pure grpCounted(opts []*cloudprovider.InstanceType, its []*cloudprovider.InstanceType) bool = exists a int {its[a]} :: 0 <= a && a < len(its) && itRemains(opts, its[a])
//@ pure anyCounted(opts []*cloudprovider.InstanceType, gs []DaemonOverheadGroup, n int) bool = exists j int {gs[j]} :: 0 <= j && j < n && grpCounted(opts, gs[j].InstanceTypes)
//@ pure commonKey(opts []*cloudprovider.InstanceType, gs []DaemonOverheadGroup, n int, k corev1.ResourceName) bool = forall j int {gs[j]} :: (0 <= j && j < n && grpCounted(opts, gs[j].InstanceTypes)) ==> (k in gs[j].DaemonOverhead)
//@ pure nonnegCounted(opts []*cloudprovider.InstanceType, gs []DaemonOverheadGroup) bool = forall j int, k corev1.ResourceName {gs[j].DaemonOverhead[k]} :: (0 <= j && j < len(gs) && grpCounted(opts, gs[j].InstanceTypes)) ==> gs[j].DaemonOverhead[k] >= 0

// addDaemonRequests (the last step of FinalizeScheduling).
// [none]     no group can be launched any more: the requests are left as they are.
// [covers]   C13 "resource requests cover the pods ... plus daemon overhead": for every resource the request grows by
//            the overhead of a COUNTED group (one that still has a remaining instance type), never by less than every
//            launchable group needs. (An unlisted resource reads as zero.)
// [minimal]  "min across instance types": the request grows by no more than ANY counted group's overhead, provided
//            the counted groups' overheads share a resource name (RequestsForPods always names `pods`) and are not
//            negative. See the report for what happens without a shared name.
// [pods]     the pods' part is kept: nothing is taken away from what was requested before.
//@ func (*NodeClaim).addDaemonRequests
//@   prop C13
//@   let opts = n.InstanceTypeOptions
//@   let gs = n.daemonOverheadGroups
//@   modifies n.Spec.Resources.Requests
//@   site resources.MinResources requires [countedOnly] grpCounted(opts, g.InstanceTypes) && len($0) == 2 && $0[0] == minDaemonOverhead && $0[1] == g.DaemonOverhead
//@   ensures [none] !anyCounted(opts, gs, len(gs)) ==> n.Spec.Resources.Requests == old(n.Spec.Resources.Requests)
//@   ensures [covers] anyCounted(opts, gs, len(gs)) ==> (forall k corev1.ResourceName {n.Spec.Resources.Requests[k]} :: exists j int {gs[j]} :: 0 <= j && j < len(gs) && grpCounted(opts, gs[j].InstanceTypes) && n.Spec.Resources.Requests[k] == old(n.Spec.Resources.Requests[k]) + gs[j].DaemonOverhead[k])
//@   ensures [minimal] (commonKey(opts, gs, len(gs), corev1.ResourcePods) && nonnegCounted(opts, gs)) ==> (forall j int, k corev1.ResourceName {gs[j].DaemonOverhead[k]} :: (0 <= j && j < len(gs) && grpCounted(opts, gs[j].InstanceTypes)) ==> n.Spec.Resources.Requests[k] <= old(n.Spec.Resources.Requests[k]) + gs[j].DaemonOverhead[k])
//@   loop 1 invariant [nonecounted] !anyCounted(opts, gs, $i + 1) ==> len(minDaemonOverhead) == 0
//@   loop 1 invariant [attained] anyCounted(opts, gs, $i + 1) ==> (forall k corev1.ResourceName {minDaemonOverhead[k]} :: exists j int {gs[j]} :: 0 <= j && j <= $i && grpCounted(opts, gs[j].InstanceTypes) && minDaemonOverhead[k] == gs[j].DaemonOverhead[k])
//@   loop 1 invariant [keysall] forall k corev1.ResourceName {k in minDaemonOverhead} :: (anyCounted(opts, gs, $i + 1) && commonKey(opts, gs, $i + 1, k)) ==> (k in minDaemonOverhead)
//@   loop 1 invariant [upper] commonKey(opts, gs, len(gs), corev1.ResourcePods) ==> (forall j int, k corev1.ResourceName {gs[j].DaemonOverhead[k]} :: (0 <= j && j <= $i && grpCounted(opts, gs[j].InstanceTypes) && (k in minDaemonOverhead)) ==> minDaemonOverhead[k] <= gs[j].DaemonOverhead[k])
//@   loop 2 invariant [notyet] forall a int {g.InstanceTypes[a]} :: (0 <= a && a <= $i) ==> !itRemains(opts, g.InstanceTypes[a])

// ---- FinalizeScheduling: NOT under contract (kept as a proposal, plain comments) ----
// With the block below activated (replace "// PROPOSED " by "//@") [none] [covers] [minimal] discharge through the
// contract of addDaemonRequests (20 of 23 obligations); what does not:
//   * call.cloudprovider.(*Offering).ReservationID.1.pre.wf inside the lo.Map closure: the query is malformed
//     (z3: `unknown constant k` - the representative element index of the closure run is not declared); it would
//     also need `requires forall j :: cloudprovider.ridOK(n.reservedOfferings[j])`
//   * call.scheduling.(Requirements).Add.1.pre.args: needs !(cloudprovider.ReservationIDLabel in v1.NormalizedLabels)
//     (a fact about a package-level map) and the key of NewRequirement's result
//   * frame.Box$Str: the []string built by lo.Map ("closure not expressible, element facts omitted")
// PROPOSED  func (*NodeClaim).FinalizeScheduling
// PROPOSED    prop C13
// PROPOSED    requires [inv] n.Requirements != nil && scheduling.rsInv(n.Requirements)
// PROPOSED    modifies n.Requirements[:], n.Annotations, n.Spec.Resources.Requests, drivers[:]
// PROPOSED    ensures [none] / [covers] / [minimal]: the three postconditions of addDaemonRequests, verbatim
