#!/bin/bash
# Reproduce the FULL C19 run: a private copy of the engine (in /tmp) with the prototype patch, an overlay (in /tmp)
# made of full/**/*.txt plus the experimental IsCompatible clause. Touches neither /repo nor /verif/kvc.
# usage: run_full.sh [selftest]
set -e
HERE=$(cd "$(dirname "$0")" && pwd)
E=/tmp/kvc_C19_full; O=/tmp/c19_full_overlay
export GOFLAGS=-mod=mod GOPROXY=off GOSUMDB=off GOTOOLCHAIN=local PATH=/opt/veriftools/go1.26.8/bin:$PATH
rm -rf $E $O && cp -r /verif/kvc $E && python3 $HERE/engine_patch/apply.py $E >/dev/null && (cd $E && go build -o kvc.bin .)
(cd $HERE/full && find . -name '*_verif.go.txt' | while read f; do mkdir -p $O/$(dirname $f); cp $f $O/${f%.txt}; done)
python3 $HERE/engine_patch/mk_iscompat_overlay.py $O >/dev/null
cat > $E/check <<EOS
#!/bin/bash
export GOFLAGS=-mod=mod GOPROXY=off GOSUMDB=off GOTOOLCHAIN=local PATH=/opt/veriftools/go1.26.8/bin:\$PATH
cd /verif; exec $E/kvc.bin check "\$@"
EOS
chmod +x $E/check
if [ "$1" = selftest ]; then
  C19_CHECK=$E/check python3 $HERE/run_selftest.py --file $HERE/selftest_full.json --overlay $O
else
  cd /verif && KVC_CONTRACT_OVERLAY=$O KVC_VERIF=/tmp/ag_C19_full $E/check C19 && KVC_VERIF=/tmp/ag_C19_full python3 show.py C19
fi
