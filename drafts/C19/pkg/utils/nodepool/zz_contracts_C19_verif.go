//go:build verif

// Draft contracts (C19) for the deductive verifier in /verif (kvc). Comment-only: this file adds no code.
package nodepool

// ---- C19, weight side: OrderByWeight orders NodePools by "weight descending (nil weight = 0),
// then name descending" ----
//
// What is ACTIVE in this file (decided by the stock engine): the order relation itself is a strict
// weak order, in fact a strict TOTAL order on (weight, name) pairs, so sort.Slice has a unique
// result whenever NodePool names are distinct ("consistent ordering").
//
// What is NOT decided by the stock engine (see ../../../full/ for the contracts that discharge on the
// prototype engine patch in ../../../engine_patch/):
//   * the comparator closure `OrderByWeight$1`: it compares two strings with `>`; the engine emits
//     `(> Str Str)` for that, which is ill-sorted SMT (Str is an uninterpreted sort without order),
//     so every obligation of the closure comes back "unknown";
//   * OrderByWeight itself: sort.Slice has no stub, the call havocs the whole heap.
//
// Until the engine has a string order, Go's `a > b` on strings is the uninterpreted nameAfter(a, b);
// the lemmas take "nameAfter is a strict total order" (which Go's byte-wise lexicographic comparison
// is) as an explicit hypothesis, nameOrderOK().
//@ pure nameAfter(a string, b string) bool
//@ pure nameOrderOK() bool = (forall a string {nameAfter(a, a)} :: !nameAfter(a, a)) && (forall a string, b string, c string {nameAfter(a, b), nameAfter(b, c)} :: (nameAfter(a, b) && nameAfter(b, c)) ==> nameAfter(a, c)) && (forall a string, b string {nameAfter(a, b)} {nameAfter(b, a)} :: a == b || nameAfter(a, b) || nameAfter(b, a))

// before(wa, na, wb, nb): a pool with weight wa and name na is ordered before one with (wb, nb).
//@ pure before(wa int, na string, wb int, nb string) bool = wa > wb || (wa == wb && nameAfter(na, nb))

// A larger weight always wins, whatever the names are (first sentence of C19).
//@ lemma weightOrderWeightFirst [C19]: forall wa int, na string, wb int, nb string :: (wa > wb ==> before(wa, na, wb, nb)) && (wa < wb ==> !before(wa, na, wb, nb))
// Strict weak order (what sort.Slice needs of its comparator): irreflexive, asymmetric, transitive;
// incomparability is equality of the (weight, name) pair (weightOrderTotal), hence transitive.
//@ lemma weightOrderIrreflexive [C19]: nameOrderOK() ==> (forall w int, n string :: !before(w, n, w, n))
//@ lemma weightOrderAsymmetric [C19]: nameOrderOK() ==> (forall wa int, na string, wb int, nb string :: before(wa, na, wb, nb) ==> !before(wb, nb, wa, na))
//@ lemma weightOrderTransitive [C19]: nameOrderOK() ==> (forall wa int, na string, wb int, nb string, wc int, nc string :: (before(wa, na, wb, nb) && before(wb, nb, wc, nc)) ==> before(wa, na, wc, nc))
//@ lemma weightOrderTotal [C19]: nameOrderOK() ==> (forall wa int, na string, wb int, nb string :: (before(wa, na, wb, nb) || before(wb, nb, wa, na)) || (wa == wb && na == nb))
