//go:build verif

// Contracts for the deductive verifier in /verif (kvc). Comment-only: this file adds no code.
package nodepool

//@ pure npWeight(np *v1.NodePool) int = np.Spec.Weight == nil ? 0 : *np.Spec.Weight
//@ pure npBefore(x *v1.NodePool, y *v1.NodePool) bool = npWeight(x) > npWeight(y) || (npWeight(x) == npWeight(y) && x.Name > y.Name)

//@ func OrderByWeight closure@sort.Slice
//@   prop C19
//@   requires 0 <= a && a < len(nps) && 0 <= b && b < len(nps)
//@   requires nps[a] != nil && nps[b] != nil
//@   modifies nothing
//@   ensures [exact] result == npBefore(nps[a], nps[b])
