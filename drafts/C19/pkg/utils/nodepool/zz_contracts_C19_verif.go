//go:build verif

// Contracts for the deductive verifier in /verif (kvc). Comment-only: this file adds no code.
package nodepool

//@ pure nameAfter(a string, b string) bool
//@ pure nameOrderOK() bool = (forall a string {nameAfter(a, a)} :: !nameAfter(a, a)) && (forall a string, b string, c string {nameAfter(a, b), nameAfter(b, c)} :: (nameAfter(a, b) && nameAfter(b, c)) ==> nameAfter(a, c)) && (forall a string, b string {nameAfter(a, b)} {nameAfter(b, a)} :: a == b || nameAfter(a, b) || nameAfter(b, a))
//@ pure before(wa int, na string, wb int, nb string) bool = wa > wb || (wa == wb && nameAfter(na, nb))

//@ lemma weightOrderIrreflexive [C19]: nameOrderOK() ==> (forall w int, n string :: !before(w, n, w, n))
//@ lemma weightOrderAsymmetric [C19]: nameOrderOK() ==> (forall wa int, na string, wb int, nb string :: before(wa, na, wb, nb) ==> !before(wb, nb, wa, na))
//@ lemma weightOrderTransitive [C19]: nameOrderOK() ==> (forall wa int, na string, wb int, nb string, wc int, nc string :: (before(wa, na, wb, nb) && before(wb, nb, wc, nc)) ==> before(wa, na, wc, nc))
//@ lemma weightOrderTotal [C19]: nameOrderOK() ==> (forall wa int, na string, wb int, nb string :: (before(wa, na, wb, nb) || before(wb, nb, wa, na)) || (wa == wb && na == nb))
//@ lemma weightOrderWeightFirst [C19]: forall wa int, na string, wb int, nb string :: (wa > wb ==> before(wa, na, wb, nb)) && (wa < wb ==> !before(wa, na, wb, nb))
