//go:build verif

// Contracts for the deductive verifier in /verif (kvc). Comment-only: this file adds no code.
package cloudprovider

//@ pure compat(reqs scheduling.Requirements, o *Offering) bool
//@ pure elig(reqs scheduling.Requirements, o *Offering) bool = o.Available && compat(reqs, o)
//@ rec minPriceUpTo(ofs Offerings, n int, reqs scheduling.Requirements) real = n <= 0 ? math.MaxFloat64 : ((elig(reqs, ofs[n - 1]) && ofs[n - 1].Price < minPriceUpTo(ofs, n - 1, reqs)) ? ofs[n - 1].Price : minPriceUpTo(ofs, n - 1, reqs))
//@ pure minPrice(it *InstanceType, reqs scheduling.Requirements) real = minPriceUpTo(it.Offerings, len(it.Offerings), reqs)
//@ pure offsOK(it *InstanceType) bool = it != nil && (forall k int {it.Offerings[k]} :: 0 <= k && k < len(it.Offerings) ==> (it.Offerings[k] != nil && scheduling.rsInv(it.Offerings[k].Requirements)))

//@ func (InstanceTypes).OrderByPrice closure@sort.Slice
//@   prop C19
//@   requires 0 <= i && i < len(its) && 0 <= j && j < len(its)
//@   requires offsOK(its[i]) && offsOK(its[j]) && scheduling.rsInv(reqs)
//@   modifies nothing
//@   ensures [exact] result == (minPrice(its[i], reqs) < minPrice(its[j], reqs))
//@   loop 1 invariant iPrice == minPriceUpTo(its[i].Offerings, $i + 1, reqs)
//@   loop 2 invariant jPrice == minPriceUpTo(its[j].Offerings, $i + 1, reqs)
