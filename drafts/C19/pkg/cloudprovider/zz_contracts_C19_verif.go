//go:build verif

// Draft contracts (C19) for the deductive verifier in /verif (kvc). Comment-only: this file adds no code.
package cloudprovider

// ---- C19, price side: instance types are ranked by their cheapest compatible available offering
// and truncation keeps a prefix of that ranking ----
//
// Vocabulary (float64 is real):
//   compat(reqs, o)        reqs.IsCompatible(o.Requirements, AllowUndefinedWellKnownLabels). UNINTERPRETED
//                          here: the C12 contract of IsCompatible gives its result only as
//                          `@(Requirements).Compatible == nil`, which at a call site is a fresh
//                          unknown per call, so two calls on the same operands are not known to agree.
//                          The exact clauses that need "IsCompatible is a function of its operands"
//                          are in ../../full/ (they discharge once that is available).
//   elig(reqs, o)          o is Available and compatible with reqs
//   isMinUpTo(ofs,n,reqs,p) p = min(MaxFloat64, min{ofs[k].Price | k < n, elig(reqs, ofs[k])}): p is a
//                          lower bound of the eligible prices, at most the sentinel, and either the
//                          sentinel or attained by an eligible offering
//   isMinPrice(it,reqs,p)  p is the min price of instance type it under reqs ("minPrice(it, reqs) = p");
//                          unique by lemma minPriceUnique
//   leqPrice(x,y,reqs)     minPrice(x, reqs) <= minPrice(y, reqs), written without naming the minima
//                          (so that it needs no witness and survives heap changes); lemma
//                          leqPriceMeaning ties it to isMinPrice
//   lessPrice(x,y,reqs)    minPrice(x) < minPrice(y): the order the comparator is meant to implement
//@ pure compat(reqs scheduling.Requirements, o *Offering) bool
//@ pure elig(reqs scheduling.Requirements, o *Offering) bool = o.Available && compat(reqs, o)
//@ pure isMinUpTo(ofs Offerings, n int, reqs scheduling.Requirements, p real) bool = p <= math.MaxFloat64 && (forall k int {ofs[k]} :: (0 <= k && k < n && elig(reqs, ofs[k])) ==> p <= ofs[k].Price) && (p == math.MaxFloat64 || (exists k int {ofs[k]} :: 0 <= k && k < n && elig(reqs, ofs[k]) && ofs[k].Price == p))
//@ pure isMinPrice(it *InstanceType, reqs scheduling.Requirements, p real) bool = isMinUpTo(it.Offerings, len(it.Offerings), reqs, p)
//@ pure leqPrice(x *InstanceType, y *InstanceType, reqs scheduling.Requirements) bool = forall k int {y.Offerings[k]} :: (0 <= k && k < len(y.Offerings) && elig(reqs, y.Offerings[k])) ==> (math.MaxFloat64 <= y.Offerings[k].Price || (exists m int {x.Offerings[m]} :: 0 <= m && m < len(x.Offerings) && elig(reqs, x.Offerings[m]) && x.Offerings[m].Price <= y.Offerings[k].Price))
//@ pure lessPrice(x *InstanceType, y *InstanceType, reqs scheduling.Requirements) bool = !leqPrice(y, x, reqs)
//@ pure sortedByPrice(s InstanceTypes, reqs scheduling.Requirements) bool = forall a int, b int {s[a], s[b]} :: (0 <= a && a < b && b < len(s)) ==> leqPrice(s[a], s[b], reqs)

// the minimum is unique, leqPrice means "<= on the minima"
//@ lemma minPriceUnique [C19]: forall it *InstanceType, reqs scheduling.Requirements, p real, q real :: (isMinPrice(it, reqs, p) && isMinPrice(it, reqs, q)) ==> p == q
//@ lemma leqPriceMeaning [C19]: forall x *InstanceType, y *InstanceType, reqs scheduling.Requirements, p real, q real :: (isMinPrice(x, reqs, p) && isMinPrice(y, reqs, q)) ==> (leqPrice(x, y, reqs) <==> p <= q)
// lessPrice is a strict weak order on instance types that have a min price (all do: the fold computes it)
//@ lemma priceOrderIrreflexive [C19]: forall x *InstanceType, reqs scheduling.Requirements, p real :: isMinPrice(x, reqs, p) ==> !lessPrice(x, x, reqs)
//@ lemma priceOrderAsymmetric [C19]: forall x *InstanceType, y *InstanceType, reqs scheduling.Requirements, p real, q real :: (isMinPrice(x, reqs, p) && isMinPrice(y, reqs, q) && lessPrice(x, y, reqs)) ==> !lessPrice(y, x, reqs)
//@ lemma priceOrderTransitive [C19]: forall x *InstanceType, y *InstanceType, z *InstanceType, reqs scheduling.Requirements, p real, q real, r real :: (isMinPrice(x, reqs, p) && isMinPrice(y, reqs, q) && isMinPrice(z, reqs, r) && lessPrice(x, y, reqs) && lessPrice(y, z, reqs)) ==> lessPrice(x, z, reqs)
//@ lemma priceOrderTiesTransitive [C19]: forall x *InstanceType, y *InstanceType, z *InstanceType, reqs scheduling.Requirements, p real, q real, r real :: (isMinPrice(x, reqs, p) && isMinPrice(y, reqs, q) && isMinPrice(z, reqs, r) && !lessPrice(x, y, reqs) && !lessPrice(y, x, reqs) && !lessPrice(y, z, reqs) && !lessPrice(z, y, reqs)) ==> (!lessPrice(x, z, reqs) && !lessPrice(z, x, reqs))
// cutting a price-sorted list at n: every kept type is at most as dear as every dropped one
//@ lemma truncationKeepsCheapest [C19]: forall s InstanceTypes, reqs scheduling.Requirements, n int, k int, d int :: (sortedByPrice(s, reqs) && 0 <= k && k < n && n <= d && d < len(s)) ==> leqPrice(s[k], s[d], reqs)

// offsOK: representation invariant of a catalog entry as far as the comparator needs it (the C12
// contract of IsCompatible requires rsInv of both operands).
//@ pure offsOK(it *InstanceType) bool = it != nil && (forall k int {it.Offerings[k]} :: 0 <= k && k < len(it.Offerings) ==> (it.Offerings[k] != nil && scheduling.rsInv(it.Offerings[k].Requirements)))
// availAttained: the compat-independent part of isMinUpTo (sentinel bound; attained by an AVAILABLE offering).
//@ pure availAttained(ofs Offerings, n int, p real) bool = p <= math.MaxFloat64 && (p == math.MaxFloat64 || (exists k int {ofs[k]} :: 0 <= k && k < n && ofs[k].Available && ofs[k].Price == p))

// The comparator of OrderByPrice. ACTIVE part (independent of what IsCompatible returns): each fold
// starts from the sentinel, only ever takes the price of an AVAILABLE offering of its own instance
// type, asks IsCompatible with the scheduler's requirements as receiver and that offering's requirements
// as argument (the relation is not symmetric) and only for available offerings, and the result is
// `first < second`. The exact clauses ([iMin], [jMin], [exact] result == lessPrice(its[i], its[j], reqs))
// are in ../../full/. The code has NO name tie-break: equal min prices compare as equal in both directions.
// (`of` in the site clauses is the range variable of the loop the call is in.)
//@ func (InstanceTypes).OrderByPrice closure@sort.Slice
//@   prop C19
//@   requires 0 <= i && i < len(its) && 0 <= j && j < len(its)
//@   requires offsOK(its[i]) && offsOK(its[j]) && scheduling.rsInv(reqs)
//@   modifies nothing
//@   site (Requirements).IsCompatible #1 requires [args1] $0 == reqs && $1 == of.Requirements && of.Available
//@   site (Requirements).IsCompatible #2 requires [args2] $0 == reqs && $1 == of.Requirements && of.Available
//@   ensures [iAvail] availAttained(its[i].Offerings, len(its[i].Offerings), iPrice)
//@   ensures [jAvail] availAttained(its[j].Offerings, len(its[j].Offerings), jPrice)
//@   ensures [compare] result == (iPrice < jPrice)
//@   loop 1 invariant availAttained(its[i].Offerings, $i + 1, iPrice)
//@   loop 2 invariant availAttained(its[j].Offerings, $i + 1, jPrice)

// Truncate: what is cut is the list ordered by price under the SAME requirements, the cut starts at
// index 0 and is maxItems long, and on success exactly that prefix is returned. With lemma
// truncationKeepsCheapest and "OrderByPrice returns its receiver sorted by lessPrice" (not decidable
// without a sort.Slice stub; lo.Slice has no stub either, its result is an arbitrary value for the
// stock engine) this is "no kept type is dearer than a dropped one". The closed form ([isPrefix],
// [cheapest]) is in ../../full/.
//@ func (InstanceTypes).Truncate
//@   prop C19
//@   modifies *
//@   site (InstanceTypes).OrderByPrice requires [input] $0 == its && $1 == requirements
//@   site lo.Slice requires [prefix] $0 == @(InstanceTypes).OrderByPrice && $1 == 0 && $2 == maxItems
//@   ensures [kept] result.1 == nil ==> result.0 == @lo.Slice
