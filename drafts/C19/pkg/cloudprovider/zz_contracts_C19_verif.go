//go:build verif

// Contracts for the deductive verifier in /verif (kvc). Comment-only: this file adds no code.
package cloudprovider

//@ pure compat(reqs scheduling.Requirements, o *Offering) bool
//@ pure elig(reqs scheduling.Requirements, o *Offering) bool = o.Available && compat(reqs, o)
//@ pure isMinUpTo(ofs Offerings, n int, reqs scheduling.Requirements, p real) bool = p <= math.MaxFloat64 && (forall k int {ofs[k]} :: (0 <= k && k < n && elig(reqs, ofs[k])) ==> p <= ofs[k].Price) && (p == math.MaxFloat64 || (exists k int {ofs[k]} :: 0 <= k && k < n && elig(reqs, ofs[k]) && ofs[k].Price == p))
//@ pure isMinPrice(it *InstanceType, reqs scheduling.Requirements, p real) bool = isMinUpTo(it.Offerings, len(it.Offerings), reqs, p)
//@ pure leqPrice(x *InstanceType, y *InstanceType, reqs scheduling.Requirements) bool = forall k int {y.Offerings[k]} :: (0 <= k && k < len(y.Offerings) && elig(reqs, y.Offerings[k])) ==> (math.MaxFloat64 <= y.Offerings[k].Price || (exists m int {x.Offerings[m]} :: 0 <= m && m < len(x.Offerings) && elig(reqs, x.Offerings[m]) && x.Offerings[m].Price <= y.Offerings[k].Price))
//@ pure availAttained(ofs Offerings, n int, p real) bool = p <= math.MaxFloat64 && (p == math.MaxFloat64 || (exists k int {ofs[k]} :: 0 <= k && k < n && ofs[k].Available && ofs[k].Price == p))
//@ pure offsOK(it *InstanceType) bool = it != nil && (forall k int {it.Offerings[k]} :: 0 <= k && k < len(it.Offerings) ==> (it.Offerings[k] != nil && scheduling.rsInv(it.Offerings[k].Requirements)))

//@ lemma minPriceUnique [C19]: forall it *InstanceType, reqs scheduling.Requirements, p real, q real :: (isMinPrice(it, reqs, p) && isMinPrice(it, reqs, q)) ==> p == q
//@ lemma leqPriceMeaning [C19]: forall x *InstanceType, y *InstanceType, reqs scheduling.Requirements, p real, q real :: (isMinPrice(x, reqs, p) && isMinPrice(y, reqs, q)) ==> (leqPrice(x, y, reqs) <==> p <= q)

//@ func (InstanceTypes).OrderByPrice closure@sort.Slice
//@   prop C19
//@   requires 0 <= i && i < len(its) && 0 <= j && j < len(its)
//@   requires offsOK(its[i]) && offsOK(its[j]) && scheduling.rsInv(reqs)
//@   modifies nothing
//@   site (Requirements).IsCompatible #1 requires [args1] $0 == reqs && $1 == of.Requirements && of.Available
//@   site (Requirements).IsCompatible #2 requires [args2] $0 == reqs && $1 == of.Requirements && of.Available
//@   ensures [iAvail] availAttained(its[i].Offerings, len(its[i].Offerings), iPrice)
//@   ensures [jAvail] availAttained(its[j].Offerings, len(its[j].Offerings), jPrice)
//@   ensures [compare] result == (iPrice < jPrice)
//@   loop 1 invariant availAttained(its[i].Offerings, $i + 1, iPrice)
//@   loop 2 invariant availAttained(its[j].Offerings, $i + 1, jPrice)

//@ func (InstanceTypes).Truncate
//@   prop C19
//@   modifies *
//@   site (InstanceTypes).OrderByPrice requires [input] $0 == its && $1 == requirements
//@   site lo.Slice requires [prefix] $0 == @(InstanceTypes).OrderByPrice && $1 == 0 && $2 == maxItems
//@   ensures [kept] result.1 == nil ==> result.0 == @lo.Slice
