#!/usr/bin/env python3
"""Apply the C19 prototype engine patch to a COPY of /verif/kvc (never to /verif/kvc itself).
usage: apply.py <dir-with-a-copy-of-kvc>
E1  Go's string order (<, <=, >, >=) in code and in specs: an order embedding str_rank: Str -> Real
    (stock engine emits (> Str Str), ill-sorted, every obligation of the function becomes unknown)
E2  stub for sort.Slice, E3 stub for lo.Slice: c19stubs.go (documented at the top of that file)"""
import sys, os, shutil
d = sys.argv[1]
here = os.path.dirname(os.path.abspath(__file__))
def patch(fn, old, new):
    p = os.path.join(d, fn); s = open(p).read()
    assert old in s, (fn, old[:60])
    open(p, 'w').write(s.replace(old, new, 1))
patch('smt.go', "(declare-fun str_cat (Str Str) Str)\n",
 "(declare-fun str_cat (Str Str) Str)\n; string order: an order embedding into the reals (every countable linear order embeds in Q)\n(declare-fun str_rank (Str) Real)\n(declare-fun str_unrank (Real) Str)\n(assert (forall ((s Str)) (! (= (str_unrank (str_rank s)) s) :pattern ((str_rank s)))))\n")
patch('instr.go', '''	case token.LSS:
		return fmt.Sprintf("(< %s %s)", x, y)
	case token.LEQ:
		return fmt.Sprintf("(<= %s %s)", x, y)
	case token.GTR:
		return fmt.Sprintf("(> %s %s)", x, y)
	case token.GEQ:
		return fmt.Sprintf("(>= %s %s)", x, y)
''', '''	case token.LSS, token.LEQ, token.GTR, token.GEQ:
		if isString(xt) {
			x, y = fmt.Sprintf("(str_rank %s)", x), fmt.Sprintf("(str_rank %s)", y)
		}
		return fmt.Sprintf("(%s %s %s)", op.String(), x, y)
''')
patch('spec.go', '''	case "<", "<=", ">", ">=":
		a, b := env.unify(x, y)
''', '''	case "<", "<=", ">", ">=":
		a, b := env.unify(x, y)
		if (isString(x.typ) && !isUntyped(x.typ)) || (isString(y.typ) && !isUntyped(y.typ)) {
			a, b = fmt.Sprintf("(str_rank %s)", a), fmt.Sprintf("(str_rank %s)", b)
		}
''')
shutil.copy(os.path.join(here, 'c19stubs.go.txt'), os.path.join(d, 'c19stubs.go'))
print('patched', d)
