#!/usr/bin/env python3
"""EXPERIMENT ONLY: write <overlay>/pkg/scheduling/zz_contracts_verif.go = /repo's file plus one clause that makes
(Requirements).IsCompatible a function of its operands (what the full C19 contracts need from the C12 owner).
usage: mk_iscompat_overlay.py <overlay-dir>"""
import sys, os
ov = sys.argv[1]
s = open('/repo/pkg/scheduling/zz_contracts_verif.go').read()
key = "//@ func (Requirements).IsCompatible\n"
i = s.index(key)
j = s.find("\n\n", i)
if j < 0: j = len(s)
block = s[i:j]
new = ("// C19 EXPERIMENT ONLY: IsCompatible as a function of its two operands.\n"
       "//@ pure compatWK(r Requirements, q Requirements) bool\n" + block +
       "\n//@   ensures [functional] result == compatWK(r, requirements)")
os.makedirs(os.path.join(ov, 'pkg/scheduling'), exist_ok=True)
open(os.path.join(ov, 'pkg/scheduling/zz_contracts_verif.go'), 'w').write(s[:i] + new + s[j:])
print('written')
