#!/usr/bin/env python3
"""Runs /verif/drafts/C11s3/selftest.json through the contract overlay (never touches /repo): each mutant is a copy of
the source file placed in a temporary overlay next to the contract files; strictly one check at a time. Entries may carry
extra fields "only" (substring handed to ./check --only) and "with_proposed" (also overlay the files of proposed/*.proposed,
i.e. the strengthened copy of an existing contract file described in PROPOSED_CHANGES.md). Usage: run_selftest.py [name-substr...]"""
import json, os, shutil, subprocess, sys
D='/verif/drafts/C11s3'
entries=json.load(open(D+'/selftest.json'))
only=sys.argv[1:]
bad=0
for i,e in enumerate(entries):
    if only and not any(o in e['name'] for o in only): continue
    ov='/tmp/ov_C11s3_mut'; vd='/tmp/ag_C11s3_mut'
    shutil.rmtree(ov, ignore_errors=True); shutil.rmtree(vd, ignore_errors=True)
    shutil.copytree(D, ov, ignore=shutil.ignore_patterns('*.json','*.py','*.md','proposed'))
    if e.get('with_proposed'):
        for root,_,fs in os.walk(D+'/proposed'):
            for f in fs:
                if f.endswith('.proposed'):
                    t=os.path.join(ov, os.path.relpath(root, D+'/proposed'), f[:-len('.proposed')]); os.makedirs(os.path.dirname(t), exist_ok=True); shutil.copy(os.path.join(root,f), t)
    src=open('/repo/'+e['file']).read()
    if e['old'] not in src:
        print('BAD  %-45s STALE'%e['name']); bad+=1; continue
    dst=os.path.join(ov, e['file']); os.makedirs(os.path.dirname(dst), exist_ok=True)
    open(dst,'w').write(src.replace(e['old'], e['new'], 1))
    os.makedirs(vd, exist_ok=True)
    if os.path.exists('/verif/known_findings.json'): shutil.copy('/verif/known_findings.json', vd+'/known_findings.json')
    env=dict(os.environ, KVC_CONTRACT_OVERLAY=ov, KVC_VERIF=vd)
    cmd='cd /verif && ./check %s'%e['prop'] + (" --only '%s'"%e['only'] if e.get('only') else '')
    r=subprocess.run(cmd, shell=True, capture_output=True, text=True, env=env)
    viol=[l for l in r.stdout.splitlines() if l.startswith('VIOLATION')]
    failed=r.returncode!=0
    ok = failed if e['expect']=='fail' else not failed
    san=lambda s: s.replace('(','_').replace(')','_').replace('*','_').replace('$','_')
    if ok and e['expect']=='fail' and e.get('obligation'):
        ok = any(san(e['obligation']) in san(v) for v in viol)
    msg='expect=%s got=%s %s'%(e['expect'], 'fail' if failed else 'pass', ' | '.join(v.split('replay=')[1].split(' ')[0].split('/')[-1][:90] if 'replay=' in v else v[:90] for v in viol[:12]))
    if not ok: msg+='\n'+r.stdout[-800:]+r.stderr[-300:]
    shutil.rmtree(ov, ignore_errors=True); shutil.rmtree(vd, ignore_errors=True)
    print('%s %-45s %s'%('ok  ' if ok else 'BAD ', e['name'], msg)); bad+= (not ok)
print('%d bad'%bad); sys.exit(1 if bad else 0)
