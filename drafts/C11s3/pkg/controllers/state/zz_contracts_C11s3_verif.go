//go:build verif

// Contracts for the deductive verifier in /verif (kvc). Comment-only: this file adds no code.
// C11 (per-NodePool totals part): when a NodeClaim (or a Node) goes away while the other half of its StateNode is
// still tracked, the per-NodePool resource totals and node counts must move by exactly the difference between what
// the StateNode contributed BEFORE the change and what it contributes afterwards. updateNodePoolResources(old, new)
// subtracts the contribution of its first and adds the contribution of its second argument, so every caller has to
// hand it (1) a description of the state before the mutation that the mutation cannot reach (a copy, or the object
// that is being replaced) and (2) the tracked object after the mutation.
package state

//@ pure ncIdOf(c *Cluster, name string) string = c.nodeClaimNameToProviderID[name]
//@ pure ncNodeOf(c *Cluster, name string) *StateNode = c.nodes[c.nodeClaimNameToProviderID[name]]

// the NodePool a StateNode is counted under once its NodeClaim is detached (none if the whole StateNode leaves)
//@ pure poolDetached(n *StateNode) string = (n != nil && n.Node != nil) ? n.Node.Labels[v1.NodePoolLabelKey] : ""

//@ func (*Cluster).cleanupNodeClaim
//@   prop C11 C04
//@   repinv [indexApart] ncIndexApart(c)
//@   let id = old(ncIdOf(c, name))
//@   let sn = old(ncNodeOf(c, name))
//@   modifies c.nodes[:], c.nodes[c.nodeClaimNameToProviderID[name]].NodeClaim, c.nodePoolResources[:], c.nodePoolResources[poolOf(c.nodes[c.nodeClaimNameToProviderID[name]])][:], c.nodePoolResources[poolDetached(c.nodes[c.nodeClaimNameToProviderID[name]])][:], c.clusterState, c.nodeClaimNameToProviderID[:], c.NodePoolState.nodePoolNameToNodeClaimState[:], c.NodePoolState.nodePoolNameToNodePoolLimit[:], c.NodePoolState.nodeClaimNameToNodePoolName[:], c.NodePoolState.nodePoolNameToNodeClaimState[c.NodePoolState.nodeClaimNameToNodePoolName[name]].Active[:], c.NodePoolState.nodePoolNameToNodeClaimState[c.NodePoolState.nodeClaimNameToNodePoolName[name]].Deleting[:], c.NodePoolState.nodePoolNameToNodeClaimState[c.NodePoolState.nodeClaimNameToNodePoolName[name]].PendingDisruption[:]
//@   site (*Cluster).updateNodePoolResources requires [receiver] $0 == c
//@   site (*Cluster).updateNodePoolResources requires [distinct] $1 != $2
//@   site (*Cluster).updateNodePoolResources #1 requires [wholeNodeLeaves] $1 == sn && $2 == nil && sn.NodeClaim == old(sn.NodeClaim) && sn.Node == old(sn.Node) && sn.markedForDeletion == old(sn.markedForDeletion)
//@   site (*Cluster).updateNodePoolResources #2 requires [oldIsCopy] $1 == @(*StateNode).ShallowCopy && $1 != sn
//@   site (*Cluster).updateNodePoolResources #2 requires [oldAsBefore] $1.NodeClaim == old(sn.NodeClaim) && $1.Node == old(sn.Node) && $1.markedForDeletion == old(sn.markedForDeletion)
//@   site (*Cluster).updateNodePoolResources #2 requires [newIsTracked] $2 == sn && c.nodes[id] == sn
//@   site (*Cluster).updateNodePoolResources #2 requires [newDetached] $2.NodeClaim == nil && $2.Node == old(sn.Node) && $2.markedForDeletion == old(sn.markedForDeletion)
//@   site (*Cluster).updateNodePoolResources #1 requires [pool] poolOf($1) == old(poolOf(sn))
//@   site (*Cluster).updateNodePoolResources #2 requires [oldPool] poolOf($1) == old(poolOf(sn))
//@   site (*Cluster).updateNodePoolResources #2 requires [newPool] poolOf($2) == old(poolDetached(sn))
//@   ensures [removed] !ncTracked(c, name)
//@   ensures [othersKept] forall k string {k in c.nodeClaimNameToProviderID} :: k != name ==> ((k in c.nodeClaimNameToProviderID) == old(k in c.nodeClaimNameToProviderID) && c.nodeClaimNameToProviderID[k] == old(c.nodeClaimNameToProviderID[k]))
//@   ensures [detached] (id != "" && old(sn.Node) != nil) ==> ((id in c.nodes) == old(id in c.nodes) && c.nodes[id] == sn && sn.NodeClaim == nil && sn.Node == old(sn.Node))
//@   ensures [dropped] (id != "" && old(sn.Node) == nil) ==> !(id in c.nodes)
//@   ensures [untouched] id == "" ==> (forall k string {k in c.nodes} :: (k in c.nodes) == old(k in c.nodes) && c.nodes[k] == old(c.nodes[k]))
//@   ensures [otherNodesKept] forall k string {k in c.nodes} :: k != id ==> ((k in c.nodes) == old(k in c.nodes) && c.nodes[k] == old(c.nodes[k]))
//@   ensures [claimKeptElsewhere] forall n *StateNode {n.NodeClaim} :: n != sn ==> n.NodeClaim == old(n.NodeClaim)

// ---- the mirror image: a Node goes away while its NodeClaim is still tracked ----
//@ pure nodeIdOf(c *Cluster, name string) string = c.nodeNameToProviderID[name]
//@ pure nodeNodeOf(c *Cluster, name string) *StateNode = c.nodes[c.nodeNameToProviderID[name]]
// the NodePool a StateNode is counted under once its Node is gone (none if the whole StateNode leaves)
//@ pure poolNodeGone(n *StateNode) string = (n != nil && n.NodeClaim != nil) ? n.NodeClaim.Labels[v1.NodePoolLabelKey] : ""

//@ func (*Cluster).cleanupNode
//@   prop C11
//@   let id = old(nodeIdOf(c, name))
//@   let sn = old(nodeNodeOf(c, name))
//@   modifies c.nodes[:], c.nodes[c.nodeNameToProviderID[name]].Node, c.nodePoolResources[:], c.nodePoolResources[poolOf(c.nodes[c.nodeNameToProviderID[name]])][:], c.nodePoolResources[poolNodeGone(c.nodes[c.nodeNameToProviderID[name]])][:], c.clusterState, c.nodeNameToProviderID[:]
//@   site (*Cluster).updateNodePoolResources requires [receiver] $0 == c
//@   site (*Cluster).updateNodePoolResources requires [distinct] $1 != $2
//@   site (*Cluster).updateNodePoolResources #1 requires [wholeNodeLeaves] $1 == sn && $2 == nil && sn.NodeClaim == old(sn.NodeClaim) && sn.Node == old(sn.Node) && sn.markedForDeletion == old(sn.markedForDeletion)
//@   site (*Cluster).updateNodePoolResources #1 requires [pool] poolOf($1) == old(poolOf(sn))
//@   site (*Cluster).updateNodePoolResources #2 requires [oldIsCopy] $1 == @(*StateNode).ShallowCopy && $1 != sn
//@   site (*Cluster).updateNodePoolResources #2 requires [oldAsBefore] $1.NodeClaim == old(sn.NodeClaim) && $1.Node == old(sn.Node) && $1.markedForDeletion == old(sn.markedForDeletion)
//@   site (*Cluster).updateNodePoolResources #2 requires [oldPool] poolOf($1) == old(poolOf(sn))
//@   site (*Cluster).updateNodePoolResources #2 requires [newIsTracked] $2 == sn && c.nodes[id] == sn
//@   site (*Cluster).updateNodePoolResources #2 requires [newDetached] $2.Node == nil && $2.NodeClaim == old(sn.NodeClaim) && $2.markedForDeletion == old(sn.markedForDeletion)
//@   site (*Cluster).updateNodePoolResources #2 requires [newPool] poolOf($2) == old(poolNodeGone(sn))
//@   ensures [removed] id != "" ==> !(name in c.nodeNameToProviderID)
//@   ensures [detached] (id != "" && old(sn.NodeClaim) != nil) ==> ((id in c.nodes) == old(id in c.nodes) && c.nodes[id] == sn && sn.Node == nil && sn.NodeClaim == old(sn.NodeClaim))
//@   ensures [dropped] (id != "" && old(sn.NodeClaim) == nil) ==> !(id in c.nodes)
//@   ensures [otherNodesKept] forall k string {k in c.nodes} :: k != id ==> ((k in c.nodes) == old(k in c.nodes) && c.nodes[k] == old(c.nodes[k]))
//@   ensures [nodeKeptElsewhere] forall n *StateNode {n.Node} :: n != sn ==> n.Node == old(n.Node)
