//go:build verif

// Contracts for the deductive verifier in /verif (kvc). Comment-only: this file adds no code.
// C11: cluster state equals a fresh recomputation from the API, decided as per-transition obligations.
package state

// ---- (3) ShallowCopy copies every field ----
//@ func (*StateNode).ShallowCopy
//@   prop C11
//@   nopanic
//@   requires in != nil
//@   modifies nothing
//@   ensures [fresh] fresh(result) && result != nil
//@   ensures [Node] result.Node == in.Node
//@   ensures [NodeClaim] result.NodeClaim == in.NodeClaim
//@   ensures [daemonSetRequests] result.daemonSetRequests == in.daemonSetRequests
//@   ensures [daemonSetLimits] result.daemonSetLimits == in.daemonSetLimits
//@   ensures [podRequests] result.podRequests == in.podRequests
//@   ensures [podLimits] result.podLimits == in.podLimits
//@   ensures [podDisruptionCosts] result.podDisruptionCosts == in.podDisruptionCosts
//@   ensures [hostPortUsage] result.hostPortUsage == in.hostPortUsage
//@   ensures [volumeUsage] result.volumeUsage == in.volumeUsage
//@   ensures [markedForDeletion] result.markedForDeletion == in.markedForDeletion
//@   ensures [nominatedUntil] result.nominatedUntil == in.nominatedUntil

// ---- helpers: Capacity builds a new list; updateNodePoolResources only touches the per-pool totals ----
//@ func (*StateNode).Capacity
//@   prop C11
//@   modifies nothing
//@   ensures [fresh] fresh(result)
//@   loop 1 invariant fresh(ret)

//@ pure poolOf(n *StateNode) string = (n != nil && (n.Node != nil || n.NodeClaim != nil)) ? snLab(n)[v1.NodePoolLabelKey] : ""
//@ func (*Cluster).updateNodePoolResources
//@   prop C11
//@   modifies c.nodePoolResources[:], c.nodePoolResources[poolOf(oldNode)][:], c.nodePoolResources[poolOf(newNode)][:]

// ---- (1) a NodeClaim update keeps every per-node aggregate of the StateNode it replaces ----
//@ func (*Cluster).newStateFromNodeClaim
//@   prop C11, C04      // C04: a rebuilt state node keeps its deletion mark (marked nodes are not capacity)
//@   requires [claim] nodeClaim != nil
//@   modifies * except oldNode.podRequests[:], oldNode.podLimits[:], oldNode.daemonSetRequests[:], oldNode.daemonSetLimits[:], oldNode.podDisruptionCosts[:]
//@   site (*Cluster).updateNodePoolResources requires [oldIsReplaced] $0 == c && (old(oldNode) != nil ==> $1 == old(oldNode)) && $1 != nil
//@   site (*Cluster).updateNodePoolResources requires [newIsResult] $2 == n && fresh($2) && $1 != $2
//@   ensures [fresh] fresh(result)
//@   ensures [NodeClaim] result.NodeClaim == nodeClaim
//@   ensures [Node] result.Node == (oldNode != nil ? old(oldNode.Node) : nil)
//@   ensures [podRequests] oldNode != nil ==> (forall k types.NamespacedName {k in result.podRequests} :: ((k in result.podRequests) <==> old(k in oldNode.podRequests)) && result.podRequests[k] == old(oldNode.podRequests[k]))
//@   ensures [podLimits] oldNode != nil ==> (forall k types.NamespacedName {k in result.podLimits} :: ((k in result.podLimits) <==> old(k in oldNode.podLimits)) && result.podLimits[k] == old(oldNode.podLimits[k]))
//@   ensures [daemonSetRequests] oldNode != nil ==> (forall k types.NamespacedName {k in result.daemonSetRequests} :: ((k in result.daemonSetRequests) <==> old(k in oldNode.daemonSetRequests)) && result.daemonSetRequests[k] == old(oldNode.daemonSetRequests[k]))
//@   ensures [daemonSetLimits] oldNode != nil ==> (forall k types.NamespacedName {k in result.daemonSetLimits} :: ((k in result.daemonSetLimits) <==> old(k in oldNode.daemonSetLimits)) && result.daemonSetLimits[k] == old(oldNode.daemonSetLimits[k]))
//@   ensures [podDisruptionCosts] oldNode != nil ==> (forall k types.NamespacedName {k in result.podDisruptionCosts} :: ((k in result.podDisruptionCosts) <==> old(k in oldNode.podDisruptionCosts)) && result.podDisruptionCosts[k] == old(oldNode.podDisruptionCosts[k]))
//@   ensures [hostPortUsage] oldNode != nil ==> result.hostPortUsage == old(oldNode.hostPortUsage)
//@   ensures [volumeUsage] oldNode != nil ==> result.volumeUsage == old(oldNode.volumeUsage)
//@   ensures [markedForDeletion] result.markedForDeletion == (oldNode != nil && old(oldNode.markedForDeletion))
//@   ensures [nominatedUntil] oldNode != nil ==> result.nominatedUntil == old(oldNode.nominatedUntil)
//@   ensures [newEmpty] oldNode == nil ==> (len(result.podRequests) == 0 && len(result.podLimits) == 0 && len(result.daemonSetRequests) == 0 && len(result.daemonSetLimits) == 0 && len(result.podDisruptionCosts) == 0 && result.nominatedUntil.Time == 0)

// ---- (2) per-pod bookkeeping of a StateNode ----
//@ func (*StateNode).cleanupForPod
//@   prop C11
//@   modifies in.podRequests[:], in.podLimits[:], in.daemonSetRequests[:], in.daemonSetLimits[:], in.podDisruptionCosts[:], in.hostPortUsage.reserved[:], in.volumeUsage.podVolumes[:], in.volumeUsage.volumes
//@   ensures [podRequests] !(podKey in in.podRequests)
//@   ensures [podLimits] !(podKey in in.podLimits)
//@   ensures [daemonSetRequests] !(podKey in in.daemonSetRequests)
//@   ensures [daemonSetLimits] !(podKey in in.daemonSetLimits)
//@   ensures [podDisruptionCosts] !(podKey in in.podDisruptionCosts)
//@   ensures [hostPorts] !(podKey in in.hostPortUsage.reserved)
//@   ensures [podVolumes] !(podKey in in.volumeUsage.podVolumes)
//@   ensures [others_podRequests] forall k types.NamespacedName {k in in.podRequests} :: k != podKey ==> ((k in in.podRequests) == old(k in in.podRequests) && in.podRequests[k] == old(in.podRequests[k]))
//@   ensures [others_podLimits] forall k types.NamespacedName {k in in.podLimits} :: k != podKey ==> ((k in in.podLimits) == old(k in in.podLimits) && in.podLimits[k] == old(in.podLimits[k]))
//@   ensures [others_daemonSetRequests] forall k types.NamespacedName {k in in.daemonSetRequests} :: k != podKey ==> ((k in in.daemonSetRequests) == old(k in in.daemonSetRequests) && in.daemonSetRequests[k] == old(in.daemonSetRequests[k]))
//@   ensures [others_daemonSetLimits] forall k types.NamespacedName {k in in.daemonSetLimits} :: k != podKey ==> ((k in in.daemonSetLimits) == old(k in in.daemonSetLimits) && in.daemonSetLimits[k] == old(in.daemonSetLimits[k]))
//@   ensures [others_podDisruptionCosts] forall k types.NamespacedName {k in in.podDisruptionCosts} :: k != podKey ==> ((k in in.podDisruptionCosts) == old(k in in.podDisruptionCosts) && in.podDisruptionCosts[k] == old(in.podDisruptionCosts[k]))
//@   ensures [others_hostPorts] forall k types.NamespacedName {k in in.hostPortUsage.reserved} :: k != podKey ==> ((k in in.hostPortUsage.reserved) == old(k in in.hostPortUsage.reserved) && in.hostPortUsage.reserved[k] == old(in.hostPortUsage.reserved[k]))
//@   ensures [others_podVolumes] forall k types.NamespacedName {k in in.volumeUsage.podVolumes} :: k != podKey ==> ((k in in.volumeUsage.podVolumes) == old(k in in.volumeUsage.podVolumes) && in.volumeUsage.podVolumes[k] == old(in.volumeUsage.podVolumes[k]))
//@   ensures [volumesRebuilt] scheduling.vuSync(in.volumeUsage)

// After a successful update the pod's entry is what a fresh computation from this pod gives: requests and
// limits always, daemonset requests/limits exactly for daemonset pods, a disruption cost exactly for
// non-daemonset pods with positive eviction cost, host ports and volumes always; no other pod's entry moves.
//@ pure mapsApart(n *StateNode) bool = n.podRequests != n.podLimits && n.podRequests != n.daemonSetRequests && n.podRequests != n.daemonSetLimits && n.podLimits != n.daemonSetRequests && n.podLimits != n.daemonSetLimits && n.daemonSetRequests != n.daemonSetLimits
//@ pure isDaemon(p *corev1.Pod) bool = podutils.ownedBy(p, gvstr("apps", "v1"), "DaemonSet")
//@ func (*StateNode).updateForPod
//@   prop C11
//@   requires [apart] mapsApart(in)
//@   modifies * except in.Node, in.NodeClaim, in.daemonSetRequests, in.daemonSetLimits, in.podRequests, in.podLimits, in.hostPortUsage, in.volumeUsage, in.markedForDeletion, in.nominatedUntil, in.hostPortUsage.reserved, in.volumeUsage.podVolumes, in.volumeUsage.limits, in.volumeUsage.limits[:]
//@   ensures [key] podKey.Name == old(pod.Name) && podKey.Namespace == old(pod.Namespace)
//@   ensures [podRequests] result == nil ==> (podKey in in.podRequests)
//@   ensures [podLimits] result == nil ==> (podKey in in.podLimits)
//@   ensures [daemonSetRequests] result == nil ==> ((podKey in in.daemonSetRequests) <==> old(isDaemon(pod)))
//@   ensures [daemonSetLimits] result == nil ==> ((podKey in in.daemonSetLimits) <==> old(isDaemon(pod)))
//@   ensures [podDisruptionCosts] result == nil ==> ((podKey in in.podDisruptionCosts) <==> (!old(isDaemon(pod)) && evictionCost > 0))
//@   ensures [costMapKept] old(in.podDisruptionCosts) != nil ==> in.podDisruptionCosts == old(in.podDisruptionCosts)
//@   ensures [costMapNew] old(in.podDisruptionCosts) == nil ==> (in.podDisruptionCosts == nil || fresh(in.podDisruptionCosts))
//@   ensures [costValue] (result == nil && !old(isDaemon(pod)) && evictionCost > 0) ==> in.podDisruptionCosts[podKey] == evictionCost
//@   ensures [hostPorts] result == nil ==> ((podKey in in.hostPortUsage.reserved) && in.hostPortUsage.reserved[podKey] == hostPorts)
//@   ensures [podVolumes] result == nil ==> ((podKey in in.volumeUsage.podVolumes) && in.volumeUsage.podVolumes[podKey] == volumes)
//@   ensures [others_podRequests] forall k types.NamespacedName {k in in.podRequests} :: (k != podKey || result != nil) ==> ((k in in.podRequests) == old(k in in.podRequests) && in.podRequests[k] == old(in.podRequests[k]))
//@   ensures [others_podLimits] forall k types.NamespacedName {k in in.podLimits} :: (k != podKey || result != nil) ==> ((k in in.podLimits) == old(k in in.podLimits) && in.podLimits[k] == old(in.podLimits[k]))
//@   ensures [others_daemonSetRequests] forall k types.NamespacedName {k in in.daemonSetRequests} :: (k != podKey || result != nil) ==> ((k in in.daemonSetRequests) == old(k in in.daemonSetRequests) && in.daemonSetRequests[k] == old(in.daemonSetRequests[k]))
//@   ensures [others_daemonSetLimits] forall k types.NamespacedName {k in in.daemonSetLimits} :: (k != podKey || result != nil) ==> ((k in in.daemonSetLimits) == old(k in in.daemonSetLimits) && in.daemonSetLimits[k] == old(in.daemonSetLimits[k]))
//@   ensures [others_podDisruptionCosts] forall k types.NamespacedName {k in in.podDisruptionCosts} :: (k != podKey || result != nil) ==> ((k in in.podDisruptionCosts) == old(k in in.podDisruptionCosts) && in.podDisruptionCosts[k] == old(in.podDisruptionCosts[k]))
//@   ensures [others_hostPorts] forall k types.NamespacedName {k in in.hostPortUsage.reserved} :: (k != podKey || result != nil) ==> ((k in in.hostPortUsage.reserved) == old(k in in.hostPortUsage.reserved) && in.hostPortUsage.reserved[k] == old(in.hostPortUsage.reserved[k]))
//@   ensures [others_podVolumes] forall k types.NamespacedName {k in in.volumeUsage.podVolumes} :: (k != podKey || result != nil) ==> ((k in in.volumeUsage.podVolumes) == old(k in in.volumeUsage.podVolumes) && in.volumeUsage.podVolumes[k] == old(in.volumeUsage.podVolumes[k]))
//@   ensures [volumesSynced] (result == nil && old(scheduling.vuSync(in.volumeUsage))) ==> scheduling.vuSync(in.volumeUsage)

// ---- (1) a Node update rebuilds the per-pod aggregates from the API and keeps the rest of the StateNode it replaces ----
//@ func (*Cluster).populateResourceRequests
//@   prop C11
//@   requires [apart] mapsApart(n)
//@   modifies * except n.Node, n.NodeClaim, n.daemonSetRequests, n.daemonSetLimits, n.podRequests, n.podLimits, n.hostPortUsage, n.volumeUsage, n.markedForDeletion, n.nominatedUntil
//@   ensures [costMapKept] old(n.podDisruptionCosts) != nil ==> n.podDisruptionCosts == old(n.podDisruptionCosts)
//@   ensures [costMapNew] old(n.podDisruptionCosts) == nil ==> (n.podDisruptionCosts == nil || fresh(n.podDisruptionCosts))
//@   loop 1 invariant (loopentry(n.podDisruptionCosts) != nil ==> n.podDisruptionCosts == loopentry(n.podDisruptionCosts)) && (loopentry(n.podDisruptionCosts) == nil ==> (n.podDisruptionCosts == nil || fresh(n.podDisruptionCosts)))

//@ func (*Cluster).populateVolumeLimits
//@   prop C11
//@   modifies * except n.Node, n.NodeClaim, n.daemonSetRequests, n.daemonSetLimits, n.podRequests, n.podLimits, n.podDisruptionCosts, n.hostPortUsage, n.volumeUsage, n.markedForDeletion, n.nominatedUntil

//@ func (*Cluster).newStateFromNode
//@   prop C11, C04      // C04: a rebuilt state node keeps its deletion mark (marked nodes are not capacity)
//@   requires [node] node != nil
//@   modifies *
//@   site (*Cluster).updateNodePoolResources requires [oldIsReplaced] $0 == c && (old(oldNode) != nil ==> $1 == old(oldNode)) && $1 != nil
//@   site (*Cluster).updateNodePoolResources requires [newIsResult] $2 == n && fresh($2) && $1 != $2
//@   ensures [fresh] result.1 == nil ==> fresh(result.0)
//@   ensures [Node] result.1 == nil ==> result.0.Node == node
//@   ensures [NodeClaim] result.1 == nil ==> result.0.NodeClaim == (oldNode != nil ? old(oldNode.NodeClaim) : nil)
//@   ensures [markedForDeletion] result.1 == nil ==> result.0.markedForDeletion == (oldNode != nil && old(oldNode.markedForDeletion))
//@   ensures [nominatedUntil] result.1 == nil ==> result.0.nominatedUntil.Time == (oldNode != nil ? old(oldNode.nominatedUntil.Time) : 0)
//@   ensures [podRequests] result.1 == nil ==> fresh(result.0.podRequests)
//@   ensures [podLimits] result.1 == nil ==> fresh(result.0.podLimits)
//@   ensures [daemonSetRequests] result.1 == nil ==> fresh(result.0.daemonSetRequests)
//@   ensures [daemonSetLimits] result.1 == nil ==> fresh(result.0.daemonSetLimits)
//@   ensures [podDisruptionCosts] result.1 == nil ==> (result.0.podDisruptionCosts == nil || fresh(result.0.podDisruptionCosts))
//@   ensures [hostPortUsage] result.1 == nil ==> fresh(result.0.hostPortUsage)
//@   ensures [volumeUsage] result.1 == nil ==> fresh(result.0.volumeUsage)
//@   ensures [apart] result.1 == nil ==> mapsApart(result.0)

// ---- (4) deletion marks: exactly the listed nodes that are tracked change, and only in the asked direction ----
//@ pure nodesNonNil(c *Cluster) bool = forall id string {id in c.nodes} :: (id in c.nodes) ==> c.nodes[id] != nil
//@ func (*Cluster).MarkForDeletion
//@   prop C11, C08      // C08: rolled-back candidates count as schedulable capacity again / candidates of a started command do not
//@   repinv [tracked] nodesNonNil(c)
//@   modifies * except c.nodes, c.nodes[:]
//@   site (*Cluster).updateNodePoolResources requires [distinct] $0 == c && $1 != $2
//@   site (*Cluster).updateNodePoolResources requires [oldIsCopy] $1 == @(*StateNode).ShallowCopy && $1.Node == n.Node && $1.NodeClaim == n.NodeClaim
//@   site (*Cluster).updateNodePoolResources requires [newIsTracked] $2 == n && c.nodes[id] == n && n.markedForDeletion
//@   site store.StateNode.markedForDeletion requires [copiedFirst] $0 == n && (@(*StateNode).ShallowCopy) != $0 && (@(*StateNode).ShallowCopy).markedForDeletion == n.markedForDeletion
//@   ensures [set] forall j int {providerIDs[j]} :: (0 <= j && j < len(providerIDs) && (providerIDs[j] in c.nodes)) ==> c.nodes[providerIDs[j]].markedForDeletion
//@   ensures [kept] forall n *StateNode {n.markedForDeletion} :: old(n.markedForDeletion) ==> n.markedForDeletion
//@   ensures [onlyListed] forall n *StateNode {n.markedForDeletion} :: (n.markedForDeletion && !old(n.markedForDeletion)) ==> (exists j int {providerIDs[j]} :: 0 <= j && j < len(providerIDs) && (providerIDs[j] in c.nodes) && c.nodes[providerIDs[j]] == n)
//@   loop 1 invariant [set] forall j int {providerIDs[j]} :: (0 <= j && j <= $i && (providerIDs[j] in c.nodes)) ==> c.nodes[providerIDs[j]].markedForDeletion
//@   loop 1 invariant [kept] forall n *StateNode {n.markedForDeletion} :: old(n.markedForDeletion) ==> n.markedForDeletion
//@   loop 1 invariant [onlyListed] forall n *StateNode {n.markedForDeletion} :: (n.markedForDeletion && !old(n.markedForDeletion)) ==> (exists j int {providerIDs[j]} :: 0 <= j && j <= $i && (providerIDs[j] in c.nodes) && c.nodes[providerIDs[j]] == n)

//@ func (*Cluster).UnmarkForDeletion
//@   prop C11, C08      // C08: rolled-back candidates count as schedulable capacity again / candidates of a started command do not
//@   repinv [tracked] nodesNonNil(c)
//@   modifies * except c.nodes, c.nodes[:]
//@   site (*Cluster).updateNodePoolResources requires [distinct] $0 == c && $1 != $2
//@   site (*Cluster).updateNodePoolResources requires [oldIsCopy] $1 == @(*StateNode).ShallowCopy && $1.Node == n.Node && $1.NodeClaim == n.NodeClaim
//@   site (*Cluster).updateNodePoolResources requires [newIsTracked] $2 == n && c.nodes[id] == n && !n.markedForDeletion
//@   site store.StateNode.markedForDeletion requires [copiedFirst] $0 == n && (@(*StateNode).ShallowCopy) != $0 && (@(*StateNode).ShallowCopy).markedForDeletion == n.markedForDeletion
//@   ensures [cleared] forall j int {providerIDs[j]} :: (0 <= j && j < len(providerIDs) && (providerIDs[j] in c.nodes)) ==> !c.nodes[providerIDs[j]].markedForDeletion
//@   ensures [kept] forall n *StateNode {n.markedForDeletion} :: !old(n.markedForDeletion) ==> !n.markedForDeletion
//@   ensures [onlyListed] forall n *StateNode {n.markedForDeletion} :: (!n.markedForDeletion && old(n.markedForDeletion)) ==> (exists j int {providerIDs[j]} :: 0 <= j && j < len(providerIDs) && (providerIDs[j] in c.nodes) && c.nodes[providerIDs[j]] == n)
//@   loop 1 invariant [cleared] forall j int {providerIDs[j]} :: (0 <= j && j <= $i && (providerIDs[j] in c.nodes)) ==> !c.nodes[providerIDs[j]].markedForDeletion
//@   loop 1 invariant [kept] forall n *StateNode {n.markedForDeletion} :: !old(n.markedForDeletion) ==> !n.markedForDeletion
//@   loop 1 invariant [onlyListed] forall n *StateNode {n.markedForDeletion} :: (!n.markedForDeletion && old(n.markedForDeletion)) ==> (exists j int {providerIDs[j]} :: 0 <= j && j <= $i && (providerIDs[j] in c.nodes) && c.nodes[providerIDs[j]] == n)
