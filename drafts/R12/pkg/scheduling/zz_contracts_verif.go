//go:build verif

// Contracts for the deductive verifier in /verif (kvc). Comment-only: this file adds no code.
package scheduling

// ---- set semantics of a Requirement (C12) ----
//
// inB: a present label value v respects the integer bounds (a bound makes non-integers inadmissible).
// admits: the set of label values a Requirement admits.
// k8sAdmits: Kubernetes node-selector semantics for a *present* label value v.
//
//@ pure inB(v string, gte *int, lte *int) bool = (gte == nil && lte == nil) || (atoi_ok(v) && (gte == nil || atoi_val(v) >= *gte) && (lte == nil || atoi_val(v) <= *lte))
//@ pure admits(r *Requirement, v string) bool = (r.complement ? !(v in r.values) : (v in r.values)) && inB(v, r.gte, r.lte)
//@ pure reqInv(r *Requirement) bool = r != nil && r.values != nil && (!r.complement ==> (r.gte == nil && r.lte == nil))
//@ pure contains(vals []string, v string) bool = exists j int {vals[j]} :: 0 <= j && j < len(vals) && vals[j] == v
//@ pure k8sAdmits(op corev1.NodeSelectorOperator, vals []string, v string) bool = (op == corev1.NodeSelectorOpIn ? contains(vals, v) : (op == corev1.NodeSelectorOpNotIn ? !contains(vals, v) : (op == corev1.NodeSelectorOpExists ? true : (op == corev1.NodeSelectorOpDoesNotExist ? false : (op == corev1.NodeSelectorOpGt ? (atoi_ok(v) && atoi_val(v) > atoi_val(vals[0])) : (op == corev1.NodeSelectorOpLt ? (atoi_ok(v) && atoi_val(v) < atoi_val(vals[0])) : (op == v1.NodeSelectorOpGte ? (atoi_ok(v) && atoi_val(v) >= atoi_val(vals[0])) : (op == v1.NodeSelectorOpLte ? (atoi_ok(v) && atoi_val(v) <= atoi_val(vals[0])) : false))))))))
//@ pure optMax(a *int, b *int) int = (a == nil ? *b : (b == nil ? *a : max(*a, *b)))

//@ func withinBounds
//@   prop C12
//@   modifies nothing
//@   ensures result == inB(valueAsString, gte, lte)

//@ func minIntPtr
//@   prop C12
//@   modifies nothing
//@   ensures a == nil ==> result == b
//@   ensures b == nil ==> result == a
//@   ensures a != nil && b != nil ==> (result == a || result == b) && *result == min(*a, *b)

//@ func maxIntPtr
//@   prop C12
//@   modifies nothing
//@   ensures a == nil ==> result == b
//@   ensures b == nil ==> result == a
//@   ensures a != nil && b != nil ==> (result == a || result == b) && *result == max(*a, *b)

//@ func (*Requirement).Has
//@   prop C12
//@   modifies nothing
//@   ensures result == admits(r, value)

//@ func (*Requirement).Len
//@   prop C12
//@   modifies nothing
//@   ensures r.complement ==> result == math.MaxInt64 - len(r.values)
//@   ensures !r.complement ==> result == len(r.values)

//@ func (*Requirement).Operator
//@   prop C12
//@   modifies nothing
//@   ensures r.complement ==> result == ((len(r.values) > 0 && r.gte == nil && r.lte == nil) ? corev1.NodeSelectorOpNotIn : corev1.NodeSelectorOpExists)
//@   ensures !r.complement ==> result == (len(r.values) > 0 ? corev1.NodeSelectorOpIn : corev1.NodeSelectorOpDoesNotExist)

// Intersection admits exactly what both operands admit (second sentence of C12) and
// re-establishes the representation invariant.
//@ func (*Requirement).Intersection
//@   prop C12
//@   requires reqInv(r) && reqInv(requirement)
//@   modifies nothing
//@   ensures [inv] fresh(result) && reqInv(result)
//@   ensures [admits] forall v string :: admits(result, v) <==> (admits(r, v) && admits(requirement, v))
//@   ensures [key] !(r.Key in v1.NormalizedLabels) ==> result.Key == r.Key
//@   ensures [minvalues] (result.MinValues == nil <==> (r.MinValues == nil && requirement.MinValues == nil)) && (result.MinValues != nil ==> *result.MinValues == optMax(r.MinValues, requirement.MinValues))
//@   loop 1 invariant fresh(values) && values != nil
//@   loop 1 invariant forall k string :: (k in values) <==> (loopentry(k in values) && (!seen(k) || inB(k, gte, lte)))

// A requirement built from any node-selector operator admits exactly the label values
// Kubernetes would admit (first sentence of C12). Bound operators take one integer value
// (every caller passes validated input: ValidateRequirement for NodePools, API validation for pods).
//@ pure isBoundOp(op corev1.NodeSelectorOperator) bool = op == corev1.NodeSelectorOpGt || op == corev1.NodeSelectorOpLt || op == v1.NodeSelectorOpGte || op == v1.NodeSelectorOpLte
//@ pure isSetOp(op corev1.NodeSelectorOperator) bool = op == corev1.NodeSelectorOpIn || op == corev1.NodeSelectorOpNotIn || op == corev1.NodeSelectorOpExists || op == corev1.NodeSelectorOpDoesNotExist

//@ pure normKey(key string) string = (key in v1.NormalizedLabels) ? v1.NormalizedLabels[key] : key
// aliasOf(k, v): the value a requirement on the (normalized) key k stores for the written value v: its registered
// alias translation when the key has a non-empty value map naming v, else v itself.
//@ pure aliasOf(k string, v string) string = ((k in v1.NormalizedLabelValues) && len(v1.NormalizedLabelValues[k]) > 0 && (v in v1.NormalizedLabelValues[k])) ? v1.NormalizedLabelValues[k][v] : v
//@ func NewRequirementWithFlexibility
//@   prop C12
//@   requires isBoundOp(operator) || isSetOp(operator)
//@   requires isBoundOp(operator) ==> len(values) == 1 && atoi_ok(values[0])
//@   requires (operator == corev1.NodeSelectorOpExists || operator == corev1.NodeSelectorOpDoesNotExist) ==> len(values) == 0
//@   requires isBoundOp(operator) ==> !(normKey(key) in v1.NormalizedLabelValues)
//@   modifies values[:]
//@   ensures [inv] fresh(result) && reqInv(result) && fresh(result.values)
//@   ensures [admits] forall v string :: admits(result, v) <==> k8sAdmits(operator, values, v)
//@   let gtMax = operator == corev1.NodeSelectorOpGt && atoi_val(values[0]) == math.MaxInt
//@   ensures [minvalues] !gtMax ==> result.MinValues == minValues
//@   ensures [key] !gtMax ==> result.Key == ((key in v1.NormalizedLabels) ? v1.NormalizedLabels[key] : key)
//@   ensures [minvalues2] gtMax ==> result.MinValues == nil
//@   ensures [aliases] forall j int {values[j]} :: (0 <= j && j < len(values)) ==> values[j] == aliasOf(normKey(key), old(values[j]))      // every operator sees alias-translated values (the result is built from them: [admits])
//@   loop 1 invariant [aliasesSoFar] forall j int {values[j]} :: (0 <= j && j < len(values)) ==> values[j] == (j <= $i ? aliasOf(normKey(key), old(values[j])) : old(values[j]))
//@   loop 2 invariant s != nil && fresh(s)
//@   loop 2 invariant forall j int {values[j]} :: 0 <= j && j <= $i ==> values[j] in s
//@   loop 2 invariant forall v string {v in s} :: v in s ==> (exists j int {values[j]} :: 0 <= j && j <= $i && values[j] == v)

//@ func NewRequirement
//@   prop C12
//@   requires isBoundOp(operator) || isSetOp(operator)
//@   requires isBoundOp(operator) ==> len(values) == 1 && atoi_ok(values[0])
//@   requires (operator == corev1.NodeSelectorOpExists || operator == corev1.NodeSelectorOpDoesNotExist) ==> len(values) == 0
//@   requires isBoundOp(operator) ==> !(normKey(key) in v1.NormalizedLabelValues)
//@   modifies values[:]
//@   ensures [inv] fresh(result) && reqInv(result) && fresh(result.values)
//@   ensures [admits] forall v string :: admits(result, v) <==> k8sAdmits(operator, values, v)
//@   let gtMax = operator == corev1.NodeSelectorOpGt && atoi_val(values[0]) == math.MaxInt
//@   ensures [minvalues] result.MinValues == nil
//@   ensures [key] !gtMax ==> result.Key == ((key in v1.NormalizedLabels) ? v1.NormalizedLabels[key] : key)

// The quick overlap test agrees with non-emptiness of the intersection (third sentence of C12).
// [complete]: a false answer means no value is admitted by both; [sound]: a true answer means
// some value is. The witnesses for the both-complement case are spellings outside both finite sets.
//@ func (*Requirement).HasIntersection
//@   prop C12
//@   requires reqInv(r) && reqInv(requirement)
//@   modifies nothing
//@   let lo = optMax(r.gte, requirement.gte)
//@   witness finwit(r.values, requirement.values, ((r.gte != nil || requirement.gte != nil) ? optMax(r.gte, requirement.gte) : ((r.lte != nil || requirement.lte != nil) ? optMin(r.lte, requirement.lte) : 0)))
//@   witness anystr(r.values, requirement.values)
//@   ensures [complete] !result ==> forall v string :: !(admits(r, v) && admits(requirement, v))
//@   ensures [sound] result ==> exists v string :: admits(r, v) && admits(requirement, v)
//@   loop 1 invariant forall k string {seen(k)} :: seen(k) ==> !(admits(r, k) && admits(requirement, k))
//@   loop 2 invariant forall k string {seen(k)} :: seen(k) ==> !(admits(r, k) && admits(requirement, k))
//@   loop 3 invariant forall k string {seen(k)} :: seen(k) ==> !(admits(r, k) && admits(requirement, k))
//@ pure optMin(a *int, b *int) int = (a == nil ? *b : (b == nil ? *a : min(*a, *b)))

// ---- requirement sets (C12, fourth sentence) ----
//
// absentOK: the requirement is satisfied by a node that does not carry the label (Kubernetes:
// only NotIn and DoesNotExist match an absent label; a bound needs the label to be present).
// compatKey: some labelling (a value, or absence) satisfies both requirements on one key.
//
//@ pure absentOK(r *Requirement) bool = r.complement ? (len(r.values) > 0 && r.gte == nil && r.lte == nil) : len(r.values) == 0
//@ pure overlap(a *Requirement, b *Requirement) bool = exists v string :: admits(a, v) && admits(b, v)
//@ pure compatKey(a *Requirement, b *Requirement) bool = overlap(a, b) || (absentOK(a) && absentOK(b))
//@ pure rsInv(rs Requirements) bool = forall k string {k in rs} :: k in rs ==> (reqInv(rs[k]) && allocated(rs[k]))

//@ func (Requirements).Has
//@   prop C12
//@   modifies nothing
//@   ensures result == (key in r)

//@ func (Requirements).Get
//@   prop C12
//@   requires rsInv(r)
//@   modifies nothing
//@   ensures [defined] (key in r) ==> result == r[key]
//@   ensures [undefined] !(key in r) ==> fresh(result) && reqInv(result) && !absentOK(result) && (forall v string :: admits(result, v))

//@ func (Requirements).intersectKeys
//@   prop C12
//@   modifies nothing
//@   ensures fresh(result) && result != nil
//@   ensures forall k string {k in result} :: (k in result) <==> ((k in r) && (k in rhs))
//@   loop 1 invariant fresh(keys) && keys != nil
//@   loop 1 invariant forall k string {k in keys} :: (k in keys) <==> (seen(k) && (k in largest))

//@ func (Requirements).Intersects
//@   prop C12
//@   requires rsInv(r) && rsInv(requirements)
//@   modifies nothing
//@   ensures [semantics] (errs == nil) <==> (forall k string {k in r} {k in requirements} :: ((k in r) && (k in requirements)) ==> compatKey(r[k], requirements[k]))
//@   loop 1 invariant (errs == nil) <==> (forall k string {seen(k)} :: seen(k) ==> compatKey(r[k], requirements[k]))

//@ func labelHint
//@   prop C12
//@   modifies nothing

//@ func (Requirements).Compatible
//@   prop C12
//@   requires rsInv(r) && rsInv(requirements)
//@   modifies nothing
//@   let allow = (@option.Resolve).AllowUndefined
//@   ensures [semantics] (result == nil) <==> ((forall k string {k in requirements} :: ((k in requirements) && !(k in r)) ==> ((k in allow) || absentOK(requirements[k]))) && (forall k string {k in r} {k in requirements} :: ((k in r) && (k in requirements)) ==> compatKey(r[k], requirements[k])))
//@   loop 1 invariant forall k string {seen(k)} :: seen(k) ==> ((k in r) || (k in allow) || absentOK(requirements[k]))

//@ func (Requirements).IsCompatible
//@   prop C12
//@   requires rsInv(r) && rsInv(requirements)
//@   modifies nothing
//@   ensures result == (@(Requirements).Compatible == nil)

// ---- C14 helper: a taint matching (key, effect) an entry of KnownEphemeralTaints is reported ----
//@ func IsKnownEphemeralTaint
//@   prop C14
//@   modifies nothing
//@   ensures [listed] (taint != nil && (exists i int {KnownEphemeralTaints[i]} :: 0 <= i && i < len(KnownEphemeralTaints) && KnownEphemeralTaints[i].Key == taint.Key && KnownEphemeralTaints[i].Effect == taint.Effect)) ==> result
//@   loop 1 invariant forall i int {KnownEphemeralTaints[i]} :: 0 <= i && i <= $i ==> !(KnownEphemeralTaints[i].Key == taint.Key && KnownEphemeralTaints[i].Effect == taint.Effect)
