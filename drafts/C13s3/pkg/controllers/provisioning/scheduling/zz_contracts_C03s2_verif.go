//go:build verif

// Draft contracts (C03s2) for the deductive verifier in /verif (kvc). Comment-only: this file adds no code.
package scheduling

// ---- C03: the NodeClaim template of a (static) NodePool names that pool ----
// CreateNodeClaims gives back one unit of the node-limit reservation per launched NodeClaim under
// nodeClaim.NodePoolName, and only if nodeClaim.IsStaticNodeClaim: the template built for a pool must carry that pool's
// name and must be flagged static exactly if the pool has replicas. Building the template changes nothing that existed.
//
// ---- C13: the template carries the NodePool hash and the pool's identity labels (C13s3) ----
// "labels, taints and NodePool hash come from the NodePool template": whatever annotations / labels the NodePool
// template itself carries (they are free-form: neither the CRD nor RuntimeValidate restricts annotation keys), the
// annotations of the built template hold the hash COMPUTED from the pool (nodePool.Hash()) and the current hash
// version, its labels hold the pool's name under v1.NodePoolLabelKey, and every other template annotation / label is kept.
//@ func NewNodeClaimTemplate
//@   prop C03 C13
//@   requires [pool] nodePool != nil
//@   assumes [validated] scheduling.normIdem(0) && scheduling.selsOK(nodePool.Spec.Template.Spec.Requirements) && scheduling.selsDisjoint(nodePool.Spec.Template.Spec.Requirements)
//@   modifies *
//@   after scheduling.NewNodeSelectorRequirementsWithMinValues assume [callerSetKept] nct.Requirements != nil && scheduling.rsInv(nct.Requirements)
//@   after (Requirements).Values assume [valuesOfASet] scheduling.addArgsOK($r0)
//@   let hash = @(*NodePool).Hash
//@   let classKey = @fmt.Sprintf
//@   let ann = beforecall(@scheduling.NewNodeSelectorRequirementsWithMinValues, result.Annotations)
//@   let lab = beforecall(@scheduling.NewNodeSelectorRequirementsWithMinValues, result.Labels)
//@   ensures [own] fresh(result)
//@   ensures [namesThePool] result.NodePoolName == old(nodePool.Name)
//@   ensures [staticIffReplicas] result.IsStaticNodeClaim == old(nodePool.Spec.Replicas != nil)
//@   ensures [hash] beforecall(@scheduling.NewNodeSelectorRequirementsWithMinValues, (v1.NodePoolHashAnnotationKey in ann) && ann[v1.NodePoolHashAnnotationKey] == hash)
//@   ensures [hashVersion] beforecall(@scheduling.NewNodeSelectorRequirementsWithMinValues, (v1.NodePoolHashVersionAnnotationKey in ann) && ann[v1.NodePoolHashVersionAnnotationKey] == v1.NodePoolHashVersion)
//@   ensures [templateAnnotationsKept] beforecall(@scheduling.NewNodeSelectorRequirementsWithMinValues, forall k string {k in ann} {ann[k]} :: (k != v1.NodePoolHashAnnotationKey && k != v1.NodePoolHashVersionAnnotationKey) ==> (((k in ann) <==> old(k in nodePool.Spec.Template.Annotations)) && ann[k] == old(nodePool.Spec.Template.Annotations[k])))
//@   ensures [poolLabel] beforecall(@scheduling.NewNodeSelectorRequirementsWithMinValues, classKey != v1.NodePoolLabelKey ==> ((v1.NodePoolLabelKey in lab) && lab[v1.NodePoolLabelKey] == old(nodePool.Name)))
//@   ensures [templateLabelsKept] beforecall(@scheduling.NewNodeSelectorRequirementsWithMinValues, forall k string {k in lab} {lab[k]} :: (k != v1.NodePoolLabelKey && k != classKey) ==> (((k in lab) <==> old(k in nodePool.Spec.Template.Labels)) && lab[k] == old(nodePool.Spec.Template.Labels[k])))
//@   site lo.Assign #1 requires [computedPairLast] len($0) == 2 && $0[0] == old(nodePool.Spec.Template.Annotations) && (v1.NodePoolHashAnnotationKey in $0[1]) && $0[1][v1.NodePoolHashAnnotationKey] == hash && (v1.NodePoolHashVersionAnnotationKey in $0[1]) && $0[1][v1.NodePoolHashVersionAnnotationKey] == v1.NodePoolHashVersion
//@   site lo.Assign #2 requires [poolLabelLast] len($0) == 2 && $0[0] == old(nodePool.Spec.Template.Labels) && (classKey != v1.NodePoolLabelKey ==> ((v1.NodePoolLabelKey in $0[1]) && $0[1][v1.NodePoolLabelKey] == old(nodePool.Name)))
