//go:build verif

// Draft contracts (C03s2) for the deductive verifier in /verif (kvc). Comment-only: this file adds no code.
package scheduling

// ---- C03: the NodeClaim template of a (static) NodePool names that pool ----
// CreateNodeClaims gives back one unit of the node-limit reservation per launched NodeClaim under
// nodeClaim.NodePoolName, and only if nodeClaim.IsStaticNodeClaim: the template built for a pool must carry that pool's
// name and must be flagged static exactly if the pool has replicas. Building the template changes nothing that existed.
//
// ---- C13: the template carries the NodePool hash and the pool's identity labels (C13s3) ----
// "labels, taints and NodePool hash come from the NodePool template": whatever annotations / labels the NodePool
// template itself carries (they are free-form: neither the CRD nor RuntimeValidate restricts annotation keys), the
// annotations of the built template hold the hash COMPUTED from the pool (nodePool.Hash()) and the current hash
// version, its labels hold the pool's name under v1.NodePoolLabelKey, and every other template annotation / label is kept.
//@ func NewNodeClaimTemplate
//@   prop C03 C13
//@   requires [pool] nodePool != nil
//@   modifies *
//@   let tmpl = @(*NodeClaimTemplate).ToNodeClaim
//@   let hash = @(*NodePool).Hash
//@   let ann = atcall(@lo.Assign#1, result.Annotations)
//@   ensures [own] fresh(result)
//@   ensures [namesThePool] result.NodePoolName == nodePool.Name
//@   ensures [staticIffReplicas] result.IsStaticNodeClaim == (nodePool.Spec.Replicas != nil)
