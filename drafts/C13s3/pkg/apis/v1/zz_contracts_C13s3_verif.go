//go:build verif

// Draft contracts (C13s3) for the deductive verifier in /verif (kvc). Comment-only: this file adds no code.
package v1

// NodePool.Hash hashes the template with hashstructure (reflection, read-only). Without a contract the call is
// inlined and hashstructure.Hash makes every object reachable by type from the template arbitrary (label / annotation
// maps, requirement entries), which is not what hashing does.
// TRUSTED (assumption, listed in the evidence): computing the hash changes nothing.
//@ func (*NodePool).Hash
//@   prop C13
//@   trusted
//@   modifies nothing
