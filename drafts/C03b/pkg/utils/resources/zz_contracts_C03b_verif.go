//go:build verif

// Contracts (C03, dynamic NodePools) for the deductive verifier in /verif (kvc). Comment-only: this file adds no code.
package resources

// ---- C03: per-resource maximum over a list of ResourceLists (the worst case subtractMax charges) ----
// MaxResources: a new list that names exactly the resources some argument names; for each such name it holds a
// quantity that is >= the quantity of every argument NAMING it ([upper]) and equal to one of them ([attained]).
// NB the code's rule: an argument that does not name a resource does not take part in that resource's maximum
// (it is NOT counted as zero), so with all-negative named quantities the maximum is negative.
//@ func MaxResources
//@   prop C03
//@   modifies nothing
//@   ensures [fresh] fresh(result) && result != nil
//@   ensures [keys] forall k v1.ResourceName {k in result} :: (k in result) <==> namedIn(resources, len(resources), k)
//@   ensures [upper] forall j int, k v1.ResourceName {k in resources[j]} :: (0 <= j && j < len(resources) && (k in resources[j])) ==> result[k] >= resources[j][k]
//@   ensures [attained] forall k v1.ResourceName {k in result} :: (k in result) ==> (exists j int {resources[j]} :: 0 <= j && j < len(resources) && (k in resources[j]) && result[k] == resources[j][k])
//@   loop 1 invariant [fresh] fresh(resourceList) && resourceList != nil
//@   loop 1 invariant [keys] forall k v1.ResourceName {k in resourceList} :: (k in resourceList) <==> namedIn(resources, $i + 1, k)
//@   loop 1 invariant [upper] forall j int, k v1.ResourceName {k in resources[j]} :: (0 <= j && j <= $i && (k in resources[j])) ==> resourceList[k] >= resources[j][k]
//@   loop 1 invariant [attained] forall k v1.ResourceName {k in resourceList} :: (k in resourceList) ==> (exists j int {resources[j]} :: 0 <= j && j <= $i && (k in resources[j]) && resourceList[k] == resources[j][k])
//@   loop 2 invariant [fresh] fresh(resourceList) && resourceList != nil
//@   loop 2 invariant [keys] forall k v1.ResourceName {k in resourceList} :: (k in resourceList) <==> (namedIn(resources, $i1 + 1, k) || seen(k))
//@   loop 2 invariant [upper] forall j int, k v1.ResourceName {k in resources[j]} :: (0 <= j && j <= $i1 && (k in resources[j])) ==> resourceList[k] >= resources[j][k]
//@   loop 2 invariant [upperCur] forall k v1.ResourceName {seen(k)} :: seen(k) ==> resourceList[k] >= resources[$i1 + 1][k]
//@   loop 2 invariant [attained] forall k v1.ResourceName {k in resourceList} :: (k in resourceList) ==> (exists j int {resources[j]} :: 0 <= j && j <= $i1 + 1 && (k in resources[j]) && resourceList[k] == resources[j][k])
