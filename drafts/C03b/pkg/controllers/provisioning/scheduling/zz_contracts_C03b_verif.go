//go:build verif

// Contracts (C03, dynamic NodePools) for the deductive verifier in /verif (kvc). Comment-only: this file adds no code.
package scheduling

// ---- C03: the scheduler's pessimistic head-room accounting for NodePool limits ----
// rem is the head-room of one NodePool (limits minus the capacity already counted); a resource rem does not name is
// unlimited. A missing name in an instance type's Capacity reads as zero.
//
// capFits(it, rem):  launching it keeps every limited resource within rem (the rule the code applies).
// allFit(its, rem):  every instance type of the list fits.
// named(its, n, k):  one of the first n instance types names resource k in its Capacity.
// capsNonneg(its):   no instance type lists a negative capacity (true of every real catalog).
//@ pure capFits(it *cloudprovider.InstanceType, rem corev1.ResourceList) bool = forall k corev1.ResourceName {k in rem} :: (k in rem) ==> it.Capacity[k] <= rem[k]
//@ pure allFit(its []*cloudprovider.InstanceType, rem corev1.ResourceList) bool = forall j int {its[j]} :: (0 <= j && j < len(its)) ==> capFits(its[j], rem)
//@ pure named(its []*cloudprovider.InstanceType, n int, k corev1.ResourceName) bool = exists j int {its[j]} :: 0 <= j && j < n && (k in its[j].Capacity)
//@ pure capsNonneg(its []*cloudprovider.InstanceType) bool = forall j int, k corev1.ResourceName {k in its[j].Capacity} :: (0 <= j && j < len(its) && (k in its[j].Capacity)) ==> its[j].Capacity[k] >= 0

// What subtractMax computes, as a relation between the new head-room res, the old one rem and the options its:
// smKeys: the same resource names; smUpper: for every option NAMING a resource, res is at most rem minus that capacity;
// smAttained: if some option names the resource, res equals rem minus the capacity of one of them (so, with smUpper,
// rem minus the MAXIMUM named capacity); smUnnamed: a resource no option names keeps its head-room.
//@ pure smKeys(res corev1.ResourceList, rem corev1.ResourceList) bool = forall k corev1.ResourceName {k in res} :: (k in res) <==> (k in rem)
//@ pure smUpper(res corev1.ResourceList, rem corev1.ResourceList, its []*cloudprovider.InstanceType) bool = forall j int, k corev1.ResourceName {k in its[j].Capacity} :: (0 <= j && j < len(its) && (k in rem) && (k in its[j].Capacity)) ==> res[k] <= rem[k] - its[j].Capacity[k]
//@ pure smAttained(res corev1.ResourceList, rem corev1.ResourceList, its []*cloudprovider.InstanceType) bool = forall k corev1.ResourceName {k in res} :: ((k in rem) && named(its, len(its), k)) ==> (exists j int {its[j]} :: 0 <= j && j < len(its) && (k in its[j].Capacity) && res[k] == rem[k] - its[j].Capacity[k])
//@ pure smUnnamed(res corev1.ResourceList, rem corev1.ResourceList, its []*cloudprovider.InstanceType) bool = forall k corev1.ResourceName {k in res} :: ((k in rem) && !named(its, len(its), k)) ==> res[k] == rem[k]
//@ pure subMaxOf(res corev1.ResourceList, rem corev1.ResourceList, its []*cloudprovider.InstanceType) bool = smKeys(res, rem) && smUpper(res, rem, its) && smAttained(res, rem, its) && smUnnamed(res, rem, its)

// The pessimistic bound (induction step of "true head-room >= tracked head-room >= 0"): let rem be the tracked
// head-room, real a true head-room that is at least rem, its a non-empty option list that passed the filter against rem,
// res = subtractMax(rem, its). Then WHICHEVER option j the cloud provider launches, the new true head-room
// real - Capacity(its[j]) is at least the new tracked head-room res, and res is not negative.
//@ lemma pessimisticStep [C03]: forall res corev1.ResourceList, rem corev1.ResourceList, real corev1.ResourceList, its []*cloudprovider.InstanceType, j int :: (0 <= j && j < len(its) && allFit(its, rem) && capsNonneg(its) && subMaxOf(res, rem, its) && (forall k corev1.ResourceName {k in rem} :: (k in rem) ==> real[k] >= rem[k])) ==> (forall k corev1.ResourceName {k in rem} :: (k in rem) ==> (res[k] >= 0 && real[k] - its[j].Capacity[k] >= res[k]))

// One node, as a quantity of the resource "nodes": every node (and every NodeClaim) counts {nodes: 1} towards its
// NodePool's usage (StateNode.Capacity, Cluster.updateNodePoolResources). Uninterpreted; only its sign is used.
//@ pure oneNode() int
//@ axiom oneNodePositive: oneNode() > 0

// subtractMax: for every resource the head-room names, the new head-room is the old one minus the LARGEST capacity
// any of the options names for it (unchanged if none names it); the same names; the arguments are untouched.
// [worstCase] is the property-level reading: with a sane catalog the result is below remaining - Capacity(it) for
// EVERY option it (names an option lacks count as zero).
// [nodeCharged] is demanded by the property, not by the code: opening a NodeClaim uses up one node of a `nodes` limit
// whichever option is launched. The code only subtracts what Capacity lists, and no catalog lists "nodes"
// => finding C03-node-count-not-charged (see findings/node_count_limit_test.go in the draft directory).
//@ func subtractMax
//@   prop C03
//@   uses oneNodePositive
//@   modifies nothing
//@   ensures [alias] result == remaining || (fresh(result) && result != nil)
//@   ensures [keys] smKeys(result, remaining)
//@   ensures [upper] smUpper(result, remaining, instanceTypes)
//@   ensures [attained] smAttained(result, remaining, instanceTypes)
//@   ensures [unnamed] smUnnamed(result, remaining, instanceTypes)
//@   ensures [worstCase] capsNonneg(instanceTypes) ==> (forall j int, k corev1.ResourceName {instanceTypes[j].Capacity[k]} :: (0 <= j && j < len(instanceTypes) && (k in remaining)) ==> result[k] <= remaining[k] - instanceTypes[j].Capacity[k])
//@   ensures [nodeCharged] (len(instanceTypes) > 0 && (resources.Node in remaining)) ==> result[resources.Node] <= remaining[resources.Node] - oneNode()
//@   finding C03-node-count-not-charged [nodeCharged] !(exists j int {instanceTypes[j]} :: 0 <= j && j < len(instanceTypes) && (resources.Node in instanceTypes[j].Capacity) && instanceTypes[j].Capacity[resources.Node] >= oneNode())
//@   loop 1 invariant [len] len(allInstanceResources) == $i + 1
//@   loop 1 invariant [own] loc(allInstanceResources) == nil || fresh(allInstanceResources)
//@   loop 1 invariant [caps] forall j int {allInstanceResources[j]} {instanceTypes[j]} :: (0 <= j && j <= $i) ==> allInstanceResources[j] == instanceTypes[j].Capacity
//@   loop 2 invariant [fresh] fresh(result) && result != nil && result != itResources
//@   loop 2 invariant [maxKeys] forall k corev1.ResourceName {k in itResources} :: (k in itResources) <==> named(instanceTypes, len(instanceTypes), k)
//@   loop 2 invariant [maxUpper] forall j int, k corev1.ResourceName {k in instanceTypes[j].Capacity} :: (0 <= j && j < len(instanceTypes) && (k in instanceTypes[j].Capacity)) ==> itResources[k] >= instanceTypes[j].Capacity[k]
//@   loop 2 invariant [maxAttained] forall k corev1.ResourceName {k in itResources} :: (k in itResources) ==> (exists j int {instanceTypes[j]} :: 0 <= j && j < len(instanceTypes) && (k in instanceTypes[j].Capacity) && itResources[k] == instanceTypes[j].Capacity[k])
//@   loop 2 invariant [keys] forall k corev1.ResourceName {k in result} :: (k in result) <==> seen(k)
//@   loop 2 invariant [diff] forall k corev1.ResourceName {result[k]} :: seen(k) ==> result[k] == remaining[k] - itResources[k]

// filterByRemainingResources: exactly the instance types whose capacity fits the head-room, in their original order.
// fitCount(its, n, rem): how many of the first n instance types fit. The j-th input, if it fits, is output number
// fitCount(its, j, rem) ([placed]); the output has fitCount(its, len(its), rem) entries ([len]); every output is such an
// input ([from]). So nothing is added, nothing that fits is dropped, nothing that does not fit is kept, order is kept.
// (fitCount is read in the entry state: the function changes nothing that existed, but appending writes the heap
// component fitCount reads, and a recursive spec function has no frame rule.)
//@ rec fitCount(its []*cloudprovider.InstanceType, n int, rem corev1.ResourceList) int = n <= 0 ? 0 : fitCount(its, n - 1, rem) + (capFits(its[n - 1], rem) ? 1 : 0)

//@ func filterByRemainingResources
//@   prop C03
//@   modifies nothing
//@   ensures [own] loc(result) == nil || fresh(result)
//@   ensures [len] len(result) == old(fitCount(instanceTypes, len(instanceTypes), remaining))
//@   ensures [placed] forall j int {instanceTypes[j]} :: (0 <= j && j < len(instanceTypes) && capFits(instanceTypes[j], remaining)) ==> (0 <= old(fitCount(instanceTypes, j, remaining)) && old(fitCount(instanceTypes, j, remaining)) < len(result) && result[old(fitCount(instanceTypes, j, remaining))] == instanceTypes[j])
//@   ensures [from] forall k int {result[k]} :: (0 <= k && k < len(result)) ==> (exists j int {instanceTypes[j]} :: 0 <= j && j < len(instanceTypes) && instanceTypes[j] == result[k] && capFits(instanceTypes[j], remaining) && old(fitCount(instanceTypes, j, remaining)) == k)
//@   ensures [mono] forall a int, b int {old(fitCount(instanceTypes, a, remaining)), old(fitCount(instanceTypes, b, remaining))} :: (0 <= a && a <= b && b <= len(instanceTypes)) ==> old(fitCount(instanceTypes, a, remaining)) <= old(fitCount(instanceTypes, b, remaining))
//@   ensures [order] forall a int, b int {result[a], result[b]} :: (0 <= a && a < b && b < len(result)) ==> (exists i int, j int {instanceTypes[i], instanceTypes[j]} :: 0 <= i && i < j && j < len(instanceTypes) && instanceTypes[i] == result[a] && instanceTypes[j] == result[b])
//@   ensures [allFit] allFit(result, remaining)
//@   ensures [noneAdded] forall k int {result[k]} :: (0 <= k && k < len(result)) ==> (exists j int {instanceTypes[j]} :: 0 <= j && j < len(instanceTypes) && instanceTypes[j] == result[k])
//@   ensures [fittingKept] forall j int {instanceTypes[j]} :: (0 <= j && j < len(instanceTypes) && capFits(instanceTypes[j], remaining)) ==> (exists k int {result[k]} :: 0 <= k && k < len(result) && result[k] == instanceTypes[j])
//@   loop 1 invariant [own] loc(filtered) == nil || fresh(filtered)
//@   loop 1 invariant [len] len(filtered) == old(fitCount(instanceTypes, $i + 1, remaining))
//@   loop 1 invariant [placed] forall j int {instanceTypes[j]} :: (0 <= j && j <= $i && capFits(instanceTypes[j], remaining)) ==> (0 <= old(fitCount(instanceTypes, j, remaining)) && old(fitCount(instanceTypes, j, remaining)) < len(filtered) && filtered[old(fitCount(instanceTypes, j, remaining))] == instanceTypes[j])
//@   loop 1 invariant [from] forall k int {filtered[k]} :: (0 <= k && k < len(filtered)) ==> (exists j int {instanceTypes[j]} :: 0 <= j && j <= $i && instanceTypes[j] == filtered[k] && capFits(instanceTypes[j], remaining) && old(fitCount(instanceTypes, j, remaining)) == k)
//@   loop 1 invariant [mono] forall a int, b int {old(fitCount(instanceTypes, a, remaining)), old(fitCount(instanceTypes, b, remaining))} :: (0 <= a && a <= b && b <= $i + 1) ==> old(fitCount(instanceTypes, a, remaining)) <= old(fitCount(instanceTypes, b, remaining))
//@   loop 2 invariant [viableT] viableInstance ==> (forall k corev1.ResourceName {seen(k)} :: seen(k) ==> it.Capacity[k] <= remaining[k])
//@   loop 2 invariant [viableF] !viableInstance ==> (exists k corev1.ResourceName {seen(k)} :: seen(k) && (k in remaining) && it.Capacity[k] > remaining[k])

// ---- the call sites ----
// The per-template worker of addToNewNodeClaim: for a NodePool that has limits (an entry in s.remainingResources) the
// candidate NodeClaim is built ONLY from instance types that fit the pool's tracked head-room (they come out of
// filterByRemainingResources applied to the template's own options and that head-room), and not at all when a `nodes`
// limit has no head-room left.
// (The clauses live in the worker's one contract, shared with C19: see zz_contracts_C19_verif.go in this draft directory,
// which is /repo's file plus `C03` on the prop line, the `let pool` line and the six `site` lines marked C03.)

// The contract of addToNewNodeClaim itself (the head-room of the opened NodeClaim's pool is charged with subtractMax over
// that NodeClaim's options and the result is stored) is in pending/ of the draft directory: all its obligations discharge,
// but the engine keeps the captured variable newNodeClaim at nil across the call of the package-local parallelizeUntil
// (the worker's writes are not applied), so the code after `if newNodeClaim != nil` is unreachable for it and the
// vacuity guard of the subtractMax site rightly fails.

// ToNodeClaim (only called by Provisioner.Create) is cut off for C03: the contract claims nothing (anything may change,
// no postcondition) and the body is NOT verified here. Without it ToNodeClaim is inlined into Provisioner.Create and
// drags in the preconditions of OrderByPrice / Requirements.Add / NewRequirements / resolveCustomLabelsFromRequirements
// (C19, C17, C13: well-formedness of the NodeClaim's requirement set), which are not C03's business and which
// Provisioner.Create cannot demand from its callers. Replace by a real contract when C13 needs one.
//@ func (*NodeClaimTemplate).ToNodeClaim
//@   prop C03
//@   trusted
//@   modifies *

// updateRemainingResources (called once per existing node when the scheduler is built): the head-room of the node's own
// NodePool, if that pool is tracked, is reduced by the node's capacity (the list StateNode.Capacity returns: it
// includes {nodes: 1}) for every resource the head-room names ([chargesNodeCapacity]: the stored list is resources.Subtract(head-room, node.Capacity()),
// see its contract in pkg/utils/resources); the names stay; every other pool keeps its head-room.
//@ func (*Scheduler).updateRemainingResources
//@   prop C03
//@   modifies s.remainingResources[:]
//@   let pool = state.snLab(node)[v1.NodePoolLabelKey]
//@   let before = old(s.remainingResources[pool])
//@   ensures [tracked] forall q string {q in s.remainingResources} :: (q in s.remainingResources) <==> old(q in s.remainingResources)
//@   ensures [others] forall q string {s.remainingResources[q]} :: q != pool ==> s.remainingResources[q] == old(s.remainingResources[q])
//@   ensures [untracked] !old(pool in s.remainingResources) ==> s.remainingResources[pool] == before
//@   ensures [names] old(pool in s.remainingResources) ==> (forall k corev1.ResourceName {k in s.remainingResources[pool]} :: (k in s.remainingResources[pool]) <==> (k in before))
//@   site resources.Subtract requires [chargesNodeCapacity] old(pool in s.remainingResources) && $0 == s.remainingResources[pool] && $1 == @(*StateNode).Capacity
//@   ensures [replaced] old(pool in s.remainingResources) ==> (fresh(s.remainingResources[pool]) && s.remainingResources[pool] != nil)
