//go:build verif

// Contracts for the deductive verifier in /verif (kvc). Comment-only: this file adds no code.
package scheduling

// C19, first sentence: NodeClaim templates are ordered heaviest NodePool first and are evaluated in parallel;
// the worker keeps the successful candidate with the LOWEST template index. Per worker call (i = template
// index; idx / newNodeClaim are the shared best-so-far, guarded by mu): the recorded index never grows, the
// recorded NodeClaim always belongs to the recorded index, and a success at an index below the best so far
// replaces it. Together these make the final idx the minimum successful index among the calls that ran, in
// any order of execution (the parallel schedule itself is not modelled: one call at a time).
//@ func (*Scheduler).addToNewNodeClaim closure@parallelizeUntil
//@   prop C19 C03
//@   modifies *
//@   ghost fits, reservedRefusal
//@   after (*NodeClaim).CanAdd set fits = $r4 == nil
//@   after IsReservedOfferingError set reservedRefusal = $r0
//@   ensures [neverLater] idx <= old(idx)
//@   ensures [earlierSuccessWins] (fits && i < old(idx)) ==> (idx == i && newNodeClaim == @NewNodeClaim && newNodeClaim != nil)
//@   ensures [winnerMatchesIndex] (newNodeClaim != old(newNodeClaim) && newNodeClaim != nil) ==> (idx == i && i < old(idx) && fits)
//@   ensures [laterSuccessIgnored] i >= old(idx) ==> (idx == old(idx) && newNodeClaim == old(newNodeClaim))
//@   ensures [plainFailureKeepsBest] (!fits && !reservedRefusal) ==> (idx == old(idx) && newNodeClaim == old(newNodeClaim))
// ---- C03 (merged in by the C03b draft): limits are enforced on the options every candidate NodeClaim is built from ----
//@   let pool = s.nodeClaimTemplates[i].NodePoolName
//@   site filterByRemainingResources requires [templateOptions] $0 == s.nodeClaimTemplates[i].InstanceTypeOptions
//@   site filterByRemainingResources requires [againstPoolHeadroom] (pool in s.remainingResources) && $1 == s.remainingResources[pool]
//@   site NewNodeClaim requires [ofThisTemplate] $0 == s.nodeClaimTemplates[i]
//@   site NewNodeClaim requires [onlyFittingOptions] (pool in s.remainingResources) ==> allFit($3, s.remainingResources[pool])
//@   site NewNodeClaim requires [optionsFromTemplate] forall k int {$3[k]} :: (0 <= k && k < len($3)) ==> (exists j int {s.nodeClaimTemplates[i].InstanceTypeOptions[j]} :: 0 <= j && j < len(s.nodeClaimTemplates[i].InstanceTypeOptions) && s.nodeClaimTemplates[i].InstanceTypeOptions[j] == $3[k])
//@   site NewNodeClaim requires [nodeLimitNotExhausted] ((pool in s.remainingResources) && (resources.Node in s.remainingResources[pool])) ==> s.remainingResources[pool][resources.Node] != 0
