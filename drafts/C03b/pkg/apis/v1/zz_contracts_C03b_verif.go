//go:build verif

// Contracts (C03, dynamic NodePools) for the deductive verifier in /verif (kvc). Comment-only: this file adds no code.
package v1

// ---- C03: the limit test made before every NodeClaim create ----
// A ResourceList is a map ResourceName -> Quantity (an integer for the engine); a missing name reads as zero.
// over(l, r): some resource that the limits name AND the usage names is used strictly beyond its limit.
// Resources the limits do not name are unlimited.
//@ pure over(l Limits, r corev1.ResourceList) bool = exists k corev1.ResourceName {k in r} :: (k in r) && (k in l) && r[k] > l[k]

//@ func (Limits).ExceededBy
//@   prop C03
//@   modifies nothing
//@   after (*Quantity).AsDec assume [onlyReceiver] forall q *resource.Quantity {*q} :: q != $0 ==> *q == old(*q)
//@   ensures [exact] (result != nil) <==> over(l, resources)
//@   ensures [nolimits] l == nil ==> result == nil
//@   ensures [sound] result == nil ==> (forall k corev1.ResourceName {k in l} :: ((k in l) && (k in resources)) ==> resources[k] <= l[k])
//@   loop 1 invariant [sofar] forall k corev1.ResourceName {seen(k)} :: seen(k) ==> !((k in l) && resources[k] > l[k])
