//go:build verif

// PENDING (C03b): needs a model of the package-local parallelizeUntil in the engine (run the worker closure / apply its
// contract, or at least make the cells the worker writes arbitrary after the call). Today the call is havocked but the
// captured variables (newNodeClaim, idx, ...) count as objects that never left the function and keep their initial
// values, so `if newNodeClaim != nil` is dead code for the engine: every obligation below discharges, and the vacuity
// guard addToNewNodeClaim#site.subtractMax.1.reach reports "unsat: VACUOUS". To activate: move this file next to
// zz_contracts_C03b_verif.go. Note: with a contract addToNewNodeClaim is no longer inlined into (*Scheduler).add, so
// C04's `site store.Scheduler.newNodeClaims` clause of add finds no store any more (its two
// `site (*Scheduler).addToNewNodeClaim` clauses keep the meaning).
package scheduling

// addToNewNodeClaim: whenever a new NodeClaim is opened (the pod is added to it), the head-room of THAT NodeClaim's
// NodePool is charged with subtractMax over THAT NodeClaim's options, and the result is what the scheduler keeps.
//@ func (*Scheduler).addToNewNodeClaim
//@   prop C03
//@   modifies *
//@   ghost opened, charged
//@   after (*NodeClaim).Add set opened = true
//@   after subtractMax set charged = true
//@   site subtractMax requires [chargesTheClaimsPool] $0 == s.remainingResources[newNodeClaim.NodePoolName]
//@   site subtractMax requires [chargesTheClaimsOptions] $1 == newNodeClaim.InstanceTypeOptions
//@   ensures [openedImpliesCharged] opened ==> charged
//@   ensures [recorded] charged ==> s.remainingResources[newNodeClaim.NodePoolName] == @subtractMax
