//go:build verif

// Contracts for the deductive verifier in /verif (kvc). Comment-only: this file adds no code.
// C04: "No scheduling pass runs while a NodeClaim Karpenter created has not yet been launched" — the record of an
// unlaunched NodeClaim (which is what holds Synced() false) may only be dropped from cluster state once the API server
// answered NotFound for exactly that NodeClaim.
package nodeclaimgc

//@ func (*Controller).Reconcile
//@   prop C04
//@   modifies *
//@   site (client.Client).Get requires [looksUpTheClaim] $2.Name == req.Name && $2.Namespace == ""
//@   site (*Cluster).DeleteNodeClaim requires [onlyWhenGoneFromTheAPI] (@(client.Client).Get) != nil && @errors.IsNotFound
//@   site (*Cluster).DeleteNodeClaim requires [thatClaim] $0 == c.cluster && $1 == req.Name
