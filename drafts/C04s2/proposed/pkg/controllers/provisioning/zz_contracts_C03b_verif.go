//go:build verif

// Contracts (C03, dynamic NodePools) for the deductive verifier in /verif (kvc). Comment-only: this file adds no code.
package provisioning

// ---- C03: the limit test in front of every NodeClaim create ----
// Create re-reads the NodeClaim's own NodePool, tests THAT pool's limits against the cluster state's current usage of
// THAT pool (Cluster.NodePoolResourcesFor), and sends the create request only if Limits.ExceededBy reported no excess;
// an excess is returned as the error. (ExceededBy's rule: pkg/apis/v1, `over`. It is a backstop against limits that
// are ALREADY exceeded: usage equal to the limit still admits the create, and the capacity of the NodeClaim being
// created is not part of the usage. Keeping the new capacity within the limit is the scheduler's part.)
//@ func (*Provisioner).Create
//@   prop C03 C04
//@   modifies *
//@   ghost handedToState
//@   after (*Cluster).UpdateNodeClaim set handedToState = ($0 == p.cluster && $1 == @(*NodeClaimTemplate).ToNodeClaim)
//@   site (*Cluster).UpdateNodeClaim requires [afterCreateSucceeded] (@(client.Client).Create) == nil
//@   ensures [createdClaimHandedToState] result.1 == nil ==> handedToState
//@   site (client.Client).Get requires [readsTheClaimsPool] $2.Name == n.NodePoolName && $2.Namespace == "" && $3 == latest
//@   site (*Cluster).NodePoolResourcesFor requires [usageOfTheClaimsPool] $0 == p.cluster && $1 == n.NodePoolName
//@   site (Limits).ExceededBy requires [latestLimits] $0 == latest.Spec.Limits
//@   site (Limits).ExceededBy requires [currentUsage] $1 == @(*Cluster).NodePoolResourcesFor
//@   site (client.Client).Create requires [poolWasRead] (@(client.Client).Get) == nil
//@   site (client.Client).Create requires [limitsNotExceeded] (@(Limits).ExceededBy) == nil
//@   site (client.Client).Create requires [createsThisClaim] $2 == @(*NodeClaimTemplate).ToNodeClaim
//@   loop 1 invariant [none] handedToState
//@   ensures [refusedWhenExceeded] ((@(client.Client).Get) == nil && (@(Limits).ExceededBy) != nil) ==> (result.1 != nil && result.1 == @(Limits).ExceededBy)
