//go:build verif

// Contracts for the deductive verifier in /verif (kvc). Comment-only: this file adds no code.
// C04 (cluster-state bookkeeping part): "No scheduling pass runs while a NodeClaim Karpenter created has not yet been
// launched". (*Cluster).Synced (zz_contracts_C04_verif.go) answers true only if allLaunched(c): every NodeClaim tracked
// by name has a provider id. That gate is only as good as the tracking, so the functions that write / read the
// name -> provider id index are put under contract here.
package state

//@ pure ncTracked(c *Cluster, name string) bool = name in c.nodeClaimNameToProviderID
//@ pure ncIndexApart(c *Cluster) bool = c.nodeClaimNameToProviderID != c.nodeNameToProviderID && c.nodeClaimNameToProviderID != c.NodePoolState.nodeClaimNameToNodePoolName
//@ pure ncUnlaunched(c *Cluster, name string) bool = (name in c.nodeClaimNameToProviderID) && c.nodeClaimNameToProviderID[name] == ""

// ---- (4a) UpdateNodeClaim: every NodeClaim handed to cluster state is tracked by name with ITS provider id ----
//@ func (*Cluster).UpdateNodeClaim
//@   prop C04
//@   repinv [indexApart] ncIndexApart(c)
//@   modifies * except nodeClaim.Name, nodeClaim.Status.ProviderID, c.nodeClaimNameToProviderID, c.nodeNameToProviderID, c.nodes, c.NodePoolState
//@   ensures [tracked] ncTracked(c, nodeClaim.Name)
//@   ensures [providerID] c.nodeClaimNameToProviderID[nodeClaim.Name] == nodeClaim.Status.ProviderID
//@   ensures [unlaunchedRecorded] nodeClaim.Status.ProviderID == "" ==> ncUnlaunched(c, nodeClaim.Name)
//@   ensures [holdsBackNextPass] nodeClaim.Status.ProviderID == "" ==> !allLaunched(c)
//@   ensures [othersKept] forall k string {k in c.nodeClaimNameToProviderID} :: k != nodeClaim.Name ==> ((k in c.nodeClaimNameToProviderID) == old(k in c.nodeClaimNameToProviderID) && c.nodeClaimNameToProviderID[k] == old(c.nodeClaimNameToProviderID[k]))
//@   ensures [othersStillHoldBack] forall k string {k in c.nodeClaimNameToProviderID} :: (k != nodeClaim.Name && old(ncUnlaunched(c, k))) ==> ncUnlaunched(c, k)
//@   ensures [launchedIsCapacity] nodeClaim.Status.ProviderID != "" ==> ((nodeClaim.Status.ProviderID in c.nodes) && c.nodes[nodeClaim.Status.ProviderID] != nil && c.nodes[nodeClaim.Status.ProviderID].NodeClaim == nodeClaim)

// ---- (4b) DeleteNodeClaim: forgets exactly the named NodeClaim; every other tracked NodeClaim (in particular another one
// that is still unlaunched) stays tracked with the provider id it had ----
//@ func (*Cluster).DeleteNodeClaim
//@   prop C04
//@   repinv [indexApart] ncIndexApart(c)
//@   modifies * except c.nodeClaimNameToProviderID, c.nodeNameToProviderID, c.nodes, c.NodePoolState
//@   ensures [removed] !ncTracked(c, name)
//@   ensures [othersKept] forall k string {k in c.nodeClaimNameToProviderID} :: k != name ==> ((k in c.nodeClaimNameToProviderID) == old(k in c.nodeClaimNameToProviderID) && c.nodeClaimNameToProviderID[k] == old(c.nodeClaimNameToProviderID[k]))
//@   ensures [othersStillHoldBack] forall k string {k in c.nodeClaimNameToProviderID} :: (k != name && old(ncUnlaunched(c, k))) ==> ncUnlaunched(c, k)

// ---- (4c) the readers of the index ----
//@ func (*Cluster).NodeClaimExists
//@   prop C04
//@   modifies nothing
//@   ensures [exact] result <==> ncTracked(c, nodeClaimName)

//@ func (*Cluster).UnlaunchedNodeClaimExists
//@   prop C04
//@   modifies nothing
//@   ensures [exact] result <==> ncUnlaunched(c, nodeClaimName)
//@   ensures [holdsBackNextPass] result ==> !allLaunched(c)
