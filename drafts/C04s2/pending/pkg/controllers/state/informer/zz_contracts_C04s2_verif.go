//go:build verif

// Contracts for the deductive verifier in /verif (kvc). Comment-only: this file adds no code.
// C04: "No scheduling pass runs while a NodeClaim Karpenter created has not yet been launched" — the NodeClaim watcher
// drops a NodeClaim from cluster state only when the API server answered NotFound for it, and otherwise hands the
// object it just read to cluster state (which records it by name with its provider id, "" while unlaunched).
package informer

//@ func (*NodeClaimController).Reconcile
//@   prop C04
//@   modifies *
//@   site (client.Client).Get requires [looksUpTheClaim] $2.Name == req.Name && $2.Namespace == req.Namespace && $3 == nodeClaim
//@   site (*Cluster).DeleteNodeClaim requires [onlyWhenGoneFromTheAPI] (@(client.Client).Get) != nil && @errors.IsNotFound
//@   site (*Cluster).DeleteNodeClaim requires [thatClaim] $0 == c.cluster && $1 == req.Name
//@   site (*Cluster).UpdateNodeClaim requires [whatTheAPIReturned] $0 == c.cluster && $1 == nodeClaim && (@(client.Client).Get) == nil
