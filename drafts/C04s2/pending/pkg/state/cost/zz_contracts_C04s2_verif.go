//go:build verif

package cost

// cut-offs only (claim nothing: everything may change, no postcondition); the bodies are rejected by the engine
// ("defer outside the entry block") and would otherwise abort the VC of the caller they are inlined into.
//@ func (*ClusterCost).UpdateNodeClaim
//@   prop C04
//@   trusted
//@   modifies *

//@ func (*ClusterCost).DeleteNodeClaim
//@   prop C04
//@   trusted
//@   modifies *
