#!/usr/bin/env python3
"""Runs /verif/drafts/C04s2/selftest.json through a throw-away contract overlay (never touches /repo).
overlay field: absent = drafts/C04s2/pkg (deliverable); "proposed" = drafts/C04s2/proposed/pkg (needs PROPOSED_CHANGES.md)."""
import json, os, shutil, subprocess, sys
D='/verif/drafts/C04s2'
entries=json.load(open(D+'/selftest.json'))+json.load(open(D+'/selftest_proposed.json'))+json.load(open(D+'/selftest_pending.json'))
only=sys.argv[1:]
bad=0
for e in entries:
    if only and not any(o in e['name'] for o in only): continue
    ov='/tmp/ov_C04s2_mut'
    shutil.rmtree(ov, ignore_errors=True); os.makedirs(ov)
    shutil.copytree(D+('/proposed/pkg' if e.get('overlay')=='proposed' else '/pkg'), ov+'/pkg')
    if e.get('overlay')=='pending': shutil.copytree(D+'/pending/pkg', ov+'/pkg', dirs_exist_ok=True)
    src=open('/repo/'+e['file']).read()
    if e['old'] not in src:
        print('STALE', e['name']); bad+=1; continue
    dst=os.path.join(ov, e['file']); os.makedirs(os.path.dirname(dst), exist_ok=True)
    open(dst,'w').write(src.replace(e['old'], e['new'], 1))
    env=dict(os.environ, KVC_CONTRACT_OVERLAY=ov, KVC_VERIF='/tmp/ag_C04s2_mut')
    os.makedirs('/tmp/ag_C04s2_mut', exist_ok=True)
    cmd='cd /verif && ./check %s'%e['prop']
    if e.get('only'): cmd+=" --only '%s'"%e['only']
    r=subprocess.run(cmd, shell=True, capture_output=True, text=True, env=env)
    viol=[l for l in r.stdout.splitlines() if l.startswith('VIOLATION') or l.startswith('UNKNOWN') or l.startswith('ERROR')]
    failed=r.returncode!=0
    ok = failed if e['expect']=='fail' else not failed
    if ok and e['expect']=='fail' and e.get('obligation'):
        ok = any(e['obligation'].replace('(','_').replace(')','_').replace('*','_') in v.replace('(','_').replace(')','_').replace('*','_') for v in viol)
    print('%s %-50s expect=%s got=%s %s'%('ok  ' if ok else 'BAD ', e['name'], e['expect'], 'fail' if failed else 'pass', ' | '.join((v.split('replay=')[1].split('/')[-1].split('.json')[0][-60:] if 'replay=' in v else v[:120]) for v in viol[:4])))
    if not ok:
        bad+=1
        print(r.stdout[-1200:], r.stderr[-800:])
shutil.rmtree('/tmp/ov_C04s2_mut', ignore_errors=True)
print('%d bad'%bad)
sys.exit(1 if bad else 0)
