//go:build verif

// Draft contracts (C03s2) for the deductive verifier in /verif (kvc). Comment-only: this file adds no code.
package disruption

// ---- C03: static drift never plans more replacement NodeClaims than the node-limit reservation granted ----
//
// Replacing a drifted node of a static NodePool launches the replacement NodeClaim BEFORE the old one is marked for
// deletion (Queue.StartCommand), so every command adds one NodeClaim next to the running ones. The only thing that
// keeps "the number of NodeClaims never exceeds limits.nodes ... also while drifted nodes are being replaced" is that
// the commands planned for a pool are covered one-to-one by what NodePoolState.ReserveNodeCount granted for that pool
// (its contract, pkg/controllers/state: [withinLimit] active+deleting+pending+reserved <= limit after a grant).
//
//   [reservesForThisPool]   the reservation is taken from the cluster's NodePoolState under the name of the pool whose
//                           candidates are being walked
//   [asksNoMoreThanCandidates] what is asked for is between 0 and the number of drifted candidates of the pool
//   [withinGrant]           the loop that emits one replace command (one replacement NodeClaim) per element it walks has,
//                           at every iteration, walked no more elements ($i + 1) than ReserveNodeCount granted for this pool
//   [oneReplacementPerCommand] a command replaces one candidate by exactly one NodeClaim
//   [grantWithinCandidates] the grant used as slice bound is positive and at most the number of candidates of the pool
//                           (npCandidates[:granted] cannot panic)
//
// NOT active (lines marked UNDECIDED): nopanic for npCandidates[0] / np dereferences and "$1 == np.Name" (the pool the
// reservation is booked under is the pool the replacement NodeClaims are created for). Both need the lo.GroupBy facts
// (groups non-empty, elements non-nil, element.NodePool.Name == key) at every head of loop 1; lo.GroupBy has no model
// (stated as `after ... assume`), and the facts could not be carried through loop 2 (loop2.step.groupsNonNil /
// loop2.step.groupsNamed stay unknown: the body writes fresh [1]*Candidate literals, same heap component).
//@ func (*StaticDrift).ComputeCommands
//@   prop C03
// UNDECIDED (see report)   nopanic
//@   requires [wired] d != nil && d.cluster != nil && d.cluster.NodePoolState != nil
//@   requires [budgetsNonNegative] forall p string {disruptionBudgetMapping[p]} :: disruptionBudgetMapping[p] >= 0
// UNDECIDED (see report)   requires [candidatesHavePools] forall j int {candidates[j]} :: (0 <= j && j < len(candidates)) ==> (candidates[j] != nil && candidates[j].NodePool != nil)
//@   modifies *
// UNDECIDED (see report)   after lo.GroupBy assume [groupsNonEmpty] forall k string {k in $r0} {$r0[k]} :: (k in $r0) ==> len($r0[k]) > 0
// UNDECIDED (see report)   after lo.GroupBy assume [groupsOfTheCandidates] forall k string, j int {$r0[k][j]} :: ((k in $r0) && 0 <= j && j < len($r0[k])) ==> ($r0[k][j] != nil && $r0[k][j].NodePool != nil && $r0[k][j].NodePool.Name == k)
//@   site (*NodePoolState).ReserveNodeCount requires [reservesForThisPool] $0 == d.cluster.NodePoolState && $1 == npName
//@   site (*NodePoolState).ReserveNodeCount requires [asksNoMoreThanCandidates] 0 <= $3 && $3 <= len(npCandidates)
//@   site (*NodePoolState).ReserveNodeCount requires [againstTheNodeLimit] $2 == (ok ? @(*Quantity).Value : math.MaxInt64)
//@   site replacementsFromNodeClaims requires [oneReplacementPerCommand] len($0) == 1
//@   loop 1 invariant [wired] d.cluster == old(d.cluster) && d.cluster.NodePoolState == old(d.cluster.NodePoolState)
//@   loop 1 invariant [budgetsNonNegative] forall p string {disruptionBudgetMapping[p]} :: disruptionBudgetMapping[p] >= 0
// UNDECIDED (see report)   loop 1 invariant [groupsNonEmpty] forall k string {k in candidatesByNodePool} {candidatesByNodePool[k]} :: (k in candidatesByNodePool) ==> len(candidatesByNodePool[k]) > 0
// UNDECIDED (see report)   loop 1 invariant [groupsNonNil] forall k string, j int {candidatesByNodePool[k][j]} :: ((k in candidatesByNodePool) && 0 <= j && j < len(candidatesByNodePool[k])) ==> (candidatesByNodePool[k][j] != nil && candidatesByNodePool[k][j].NodePool != nil)
// UNDECIDED (see report)   loop 1 invariant [groupsNamed] forall k string, j int {candidatesByNodePool[k][j]} :: ((k in candidatesByNodePool) && 0 <= j && j < len(candidatesByNodePool[k])) ==> candidatesByNodePool[k][j].NodePool.Name == k
// UNDECIDED (see report)   loop 2 invariant [groupsNonNil] forall k string, j int {candidatesByNodePool[k][j]} :: ((k in candidatesByNodePool) && 0 <= j && j < len(candidatesByNodePool[k])) ==> (candidatesByNodePool[k][j] != nil && candidatesByNodePool[k][j].NodePool != nil)
// UNDECIDED (see report)   loop 2 invariant [groupsNamed] forall k string, j int {candidatesByNodePool[k][j]} :: ((k in candidatesByNodePool) && 0 <= j && j < len(candidatesByNodePool[k])) ==> candidatesByNodePool[k][j].NodePool.Name == k
// UNDECIDED (see report)   loop 2 invariant [groupsNonEmpty] forall k string {k in candidatesByNodePool} {candidatesByNodePool[k]} :: (k in candidatesByNodePool) ==> len(candidatesByNodePool[k]) > 0
//@   loop 2 invariant [withinGrant] 0 <= $i + 1 && $i + 1 <= @(*NodePoolState).ReserveNodeCount
//@   loop 2 invariant [grantWithinCandidates] maxAllowedDrifts == @(*NodePoolState).ReserveNodeCount && 0 < maxAllowedDrifts && maxAllowedDrifts <= len(npCandidates)
