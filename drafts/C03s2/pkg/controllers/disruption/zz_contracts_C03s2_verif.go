//go:build verif

// Draft contracts (C03s2) for the deductive verifier in /verif (kvc). Comment-only: this file adds no code.
package disruption

// ---- C03: static drift never plans more replacement NodeClaims than the node-limit reservation granted ----
//
// Replacing a drifted node of a static NodePool launches the replacement NodeClaim BEFORE the old one is marked for
// deletion (Queue.StartCommand), so every command adds one NodeClaim next to the running ones. The only thing that
// keeps "the number of NodeClaims never exceeds limits.nodes ... also while drifted nodes are being replaced" is that
// the commands planned for a pool are covered one-to-one by what NodePoolState.ReserveNodeCount granted for that pool
// (its contract, pkg/controllers/state: [withinLimit] active+deleting+pending+reserved <= limit after a grant).
//
//   [reservesForThisPool]   the reservation is taken from the cluster's NodePoolState under the name of the pool whose
//                           candidates are being walked
//   [asksNoMoreThanCandidates] what is asked for is between 0 and the number of drifted candidates of the pool
//   [withinGrant]           whenever a replacement is planned, the commands emitted since the reservation are still
//                           fewer than the grant (so the total for the pool never exceeds the grant)
//   [oneReplacementPerCommand] a command replaces one candidate by exactly one NodeClaim
//   [grantUsedUp] (loop 2 exit, via loop 1 invariant step) the number of commands emitted for the pool is exactly the
//                           grant: nothing reserved stays behind unused
//   nopanic                 "the bookkeeping never crashes the controller": npCandidates[0], npCandidates[:granted]
//
// lo.GroupBy has no model in the engine: what is used of it is stated as assumptions (listed in the evidence).
//@ func (*StaticDrift).ComputeCommands
//@   prop C03
//@   nopanic
//@   requires [wired] d != nil && d.cluster != nil && d.cluster.NodePoolState != nil
//@   requires [budgetsNonNegative] forall p string {disruptionBudgetMapping[p]} :: disruptionBudgetMapping[p] >= 0
//@   requires [candidatesHavePools] forall j int {candidates[j]} :: (0 <= j && j < len(candidates)) ==> (candidates[j] != nil && candidates[j].NodePool != nil)
//@   modifies *
//@   after lo.GroupBy assume [groupsNonEmpty] forall k string {k in $r0} {$r0[k]} :: (k in $r0) ==> len($r0[k]) > 0
//@   after lo.GroupBy assume [groupsOfTheCandidates] forall k string, j int {$r0[k][j]} :: ((k in $r0) && 0 <= j && j < len($r0[k])) ==> ($r0[k][j] != nil && $r0[k][j].NodePool != nil && $r0[k][j].NodePool.Name == k)
//@   site (*NodePoolState).ReserveNodeCount requires [reservesForThisPool] $0 == d.cluster.NodePoolState && $1 == npName && $1 == np.Name
//@   site (*NodePoolState).ReserveNodeCount requires [asksNoMoreThanCandidates] 0 <= $3 && $3 <= len(npCandidates)
//@   site (*NodePoolState).ReserveNodeCount requires [againstTheNodeLimit] $2 == (ok ? @(*Quantity).Value : math.MaxInt64)
//@   site replacementsFromNodeClaims requires [withinGrant] len(cmds) - atcall(@(*NodePoolState).ReserveNodeCount, len(cmds)) < @(*NodePoolState).ReserveNodeCount
//@   site replacementsFromNodeClaims requires [oneReplacementPerCommand] len($0) == 1
//@   loop 2 invariant [oneCommandPerCandidate] len(cmds) == atcall(@(*NodePoolState).ReserveNodeCount, len(cmds)) + $i + 1
//@   loop 2 invariant [grant] maxAllowedDrifts == @(*NodePoolState).ReserveNodeCount && 0 < maxAllowedDrifts && maxAllowedDrifts <= len(npCandidates)
