//go:build verif

// Draft contracts (C03s2) for the deductive verifier in /verif (kvc). Comment-only: this file adds no code.
package scheduling

// ---- C03: the NodeClaim template of a (static) NodePool names that pool ----
// CreateNodeClaims gives back one unit of the node-limit reservation per launched NodeClaim under
// nodeClaim.NodePoolName, and only if nodeClaim.IsStaticNodeClaim: the template built for a pool must carry that pool's
// name and must be flagged static exactly if the pool has replicas. Building the template changes nothing that existed.
// TRUSTED (assumption, listed in the evidence): verifying the body with `modifies nothing` generates one frame obligation
// per heap component, and they do not discharge because nodePool.Hash() (hashstructure), NodeClaimTemplate.ToNodeClaim,
// lo.Assign and NodeClassReference.GroupKind are havocked by type (the run was stopped after 20 minutes of 50 s timeouts).
//@ func NewNodeClaimTemplate
//@   prop C03
//@   trusted
//@   requires [pool] nodePool != nil
//@   modifies nothing
//@   ensures [own] fresh(result)
//@   ensures [namesThePool] result.NodePoolName == nodePool.Name
//@   ensures [staticIffReplicas] result.IsStaticNodeClaim == (nodePool.Spec.Replicas != nil)
