//go:build verif

// Draft contracts (C17, DRA shared-counter clause) for the deductive verifier in /verif (kvc). Comment-only.
package dynamicresources

// hasBudget: the tracker holds a remaining-counter budget for (nodeclaim, instance type).
//@ pure hasBudget(at *AllocationTracker, nc NodeClaimID, it InstanceTypeID) bool = (nc in at.templateRemainingCounters) && (it in at.templateRemainingCounters[nc])

//@ func (*AllocationTracker).InitTemplateRemainingCounters
//@   prop C17
//@   modifies at.templateRemainingCounters[:], at.templateRemainingCounters[nodeClaimID][:]
//@   ensures [installed] hasBudget(at, nodeClaimID, itID)
//@   ensures [firstWins] old(hasBudget(at, nodeClaimID, itID)) ==> at.templateRemainingCounters[nodeClaimID][itID] == old(at.templateRemainingCounters[nodeClaimID][itID])
//@   ensures [fullBudget] !old(hasBudget(at, nodeClaimID, itID)) ==> at.templateRemainingCounters[nodeClaimID][itID] == totals
//@   ensures [sameInner] old(nodeClaimID in at.templateRemainingCounters) ==> at.templateRemainingCounters[nodeClaimID] == old(at.templateRemainingCounters[nodeClaimID])
//@   ensures [freshInner] !old(nodeClaimID in at.templateRemainingCounters) ==> fresh(at.templateRemainingCounters[nodeClaimID])
//@   ensures [onlyAdds] forall it InstanceTypeID {it in at.templateRemainingCounters[nodeClaimID]} :: (it in at.templateRemainingCounters[nodeClaimID]) <==> (it == itID || old(hasBudget(at, nodeClaimID, it)))
//@   ensures [keeps] forall it InstanceTypeID {it in at.templateRemainingCounters[nodeClaimID]} :: it != itID && old(hasBudget(at, nodeClaimID, it)) ==> (hasBudget(at, nodeClaimID, it) && at.templateRemainingCounters[nodeClaimID][it] == old(at.templateRemainingCounters[nodeClaimID][it]))
//@   ensures [others] forall nc NodeClaimID {nc in at.templateRemainingCounters} :: nc != nodeClaimID ==> (((nc in at.templateRemainingCounters) <==> old(nc in at.templateRemainingCounters)) && at.templateRemainingCounters[nc] == old(at.templateRemainingCounters[nc]))

// typeSep: separation facts that Go's static typing already implies (a map[InstanceTypeID][]DeviceID can never be the
// same object as a map[NodeClaimID]map[InstanceTypeID]sets.Set[DeviceID] or a sets.Set[InstanceTypeID]); the engine's
// "map mutated during range" check compares only the KEY types of the two maps and has no dynamic type on locations,
// so these have to be spelled out for the two device loops of Commit (same device as ofOK in the C17 reservation contracts).
//@ pure typeSep(at *AllocationTracker, alloc *allocation) bool = loc(at.InflightTemplateAllocations) != loc(alloc.deviceIDsByIT) && loc(at.InflightClusterAllocationsByNodeClaim) != loc(alloc.deviceIDsByIT)
//@ pure typeSepMeta(at *AllocationTracker, alloc *allocation) bool = forall id DeviceID {id in at.InflightClusterAllocations} :: (id in at.InflightClusterAllocations) ==> loc(at.InflightClusterAllocations[id].InstanceTypes) != loc(alloc.deviceIDsByIT)

//@ func (*AllocationTracker).Commit
//@   prop C17
//@   requires [typesep] typeSep(at, alloc) && typeSepMeta(at, alloc)
//@   loop 1 invariant [typesep] typeSepMeta(at, alloc)
//@   loop 2 invariant [typesep] typeSepMeta(at, alloc)
//@   maypanic true
//@   ghost charged
//@   after (*AllocationTracker).commitTemplateCounters set charged = true
//@   site (*AllocationTracker).InitTemplateRemainingCounters requires [ownClaim] $1 == alloc.nodeClaimID && (itID in alloc.templateCounterTotalsByIT) && $2 == itID && $3 == alloc.templateCounterTotalsByIT[itID]
//@   loop 3 invariant [totalsFixed] forall it InstanceTypeID {it in alloc.templateCounterTotalsByIT} :: (it in alloc.templateCounterTotalsByIT) <==> loopentry(it in alloc.templateCounterTotalsByIT)
//@   loop 3 invariant [installedSoFar] forall it InstanceTypeID {seen(it)} :: seen(it) ==> hasBudget(at, alloc.nodeClaimID, it)
//@   site (*AllocationTracker).commitTemplateCounters requires [budgetInstalledFirst] forall it InstanceTypeID {it in alloc.templateCounterTotalsByIT} :: (it in alloc.templateCounterTotalsByIT) ==> hasBudget(at, alloc.nodeClaimID, it)
//@   site (*AllocationTracker).commitTemplateCounters requires [ownClaim] $1 == alloc.nodeClaimID
//@   site (*AllocationTracker).commitTemplateCounters requires [ownConsumption] $2 == alloc.templateCounterConsumptionByIT
//@   ensures [templateCountersCharged] charged
