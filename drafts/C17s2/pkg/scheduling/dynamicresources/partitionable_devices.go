/*
Copyright The Kubernetes Authors.

Licensed under the Apache License, Version 2.0 (the "License");
you may not use this file except in compliance with the License.
You may obtain a copy of the License at

    http://www.apache.org/licenses/LICENSE-2.0

Unless required by applicable law or agreed to in writing, software
distributed under the License is distributed on an "AS IS" BASIS,
WITHOUT WARRANTIES OR CONDITIONS OF ANY KIND, either express or implied.
See the License for the specific language governing permissions and
limitations under the License.
*/

package dynamicresources

import (
	"github.com/samber/lo"
	resourcev1 "k8s.io/api/resource/v1"
	"k8s.io/apimachinery/pkg/api/resource"

	"sigs.k8s.io/karpenter/pkg/cloudprovider"
)

// commitCounters stores per-IT counter consumption and decrements remaining counters by the
// delta between the new accumulated pessimistic max and the old one.
func (at *AllocationTracker) commitCounters(nodeClaimID NodeClaimID, newCounterConsumptionByIT map[InstanceTypeID]map[PoolKey]map[string]map[string]resourcev1.Counter) {
	if len(newCounterConsumptionByIT) == 0 {
		return
	}
	storedCounterSetsByIT, ok := at.countersByNodeClaimIT[nodeClaimID]
	if !ok {
		storedCounterSetsByIT = make(map[InstanceTypeID]map[PoolKey]map[string]map[string]resourcev1.Counter)
		at.countersByNodeClaimIT[nodeClaimID] = storedCounterSetsByIT
	}

	// Compute old pessimistic max before merging new consumption.
	var oldCounterMax map[PoolKey]map[string]map[string]resourcev1.Counter
	if len(storedCounterSetsByIT) > 0 {
		oldCounterMax = pessimisticCounterMax(storedCounterSetsByIT)
	}

	// Merge new consumption into stored state.
	for it, counterSetsByPool := range newCounterConsumptionByIT {
		storedCounterSetsByPool, ok := storedCounterSetsByIT[it]
		if !ok {
			storedCounterSetsByIT[it] = counterSetsByPool
			continue
		}

		for poolKey, counterSets := range counterSetsByPool {
			storedCounterSets, ok := storedCounterSetsByPool[poolKey]
			if !ok {
				storedCounterSetsByPool[poolKey] = counterSets
				continue
			}
			for counterSetName, counters := range counterSets {
				storedCounterSet, ok := storedCounterSets[counterSetName]
				if !ok {
					storedCounterSets[counterSetName] = counters
					continue
				}
				for counterName, counter := range counters {
					storedCounter := storedCounterSet[counterName]
					storedCounter.Value.Add(counter.Value)
					storedCounterSet[counterName] = storedCounter
				}
			}
		}
	}

	// Compute new pessimistic max after merging.
	newCounterMax := pessimisticCounterMax(storedCounterSetsByIT)

	// Subtract only the delta (newMax - oldMax) from remaining counters.
	subtractDeltaFromRemaining(at.RemainingCounters, oldCounterMax, newCounterMax)
}

// commitTemplateCounters subtracts per-IT template counter consumption directly from the
// pre-initialized remaining budgets. Template counters don't need pessimistic-max treatment —
// each IT has its own independent budget.
func (at *AllocationTracker) commitTemplateCounters(nodeClaimID NodeClaimID, consumptionByIT map[InstanceTypeID]map[PoolKey]map[string]map[string]resourcev1.Counter) {
	if len(consumptionByIT) == 0 {
		return
	}
	remainingCounterSetsByIT := at.templateRemainingCounters[nodeClaimID]
	if remainingCounterSetsByIT == nil {
		return
	}
	for itID, counterSetsByPool := range consumptionByIT {
		remainingCounterSetsByPool := remainingCounterSetsByIT[itID]
		if remainingCounterSetsByPool == nil {
			continue
		}
		for poolKey, counterSets := range counterSetsByPool {
			remainingCounterSets := remainingCounterSetsByPool[poolKey]
			for counterSetName, counters := range counterSets {
				remainingCounterSet := remainingCounterSets[counterSetName]
				for counterName, counter := range counters {
					remainingCounter := remainingCounterSet[counterName]
					remainingCounter.Value.Sub(counter.Value)
					remainingCounterSet[counterName] = remainingCounter
				}
			}
		}
	}
}

// subtractDeltaFromRemaining subtracts (newCounterMax - oldCounterMax) from remaining counters.
func subtractDeltaFromRemaining(remaining map[PoolKey]map[string]map[string]resourcev1.Counter, oldCounterMax, newCounterMax map[PoolKey]map[string]map[string]resourcev1.Counter) {
	for poolKey, newCounterSets := range newCounterMax {
		poolRemaining, ok := remaining[poolKey]
		if !ok {
			continue
		}
		for counterSetName, newCounters := range newCounterSets {
			counterSetRemaining, ok := poolRemaining[counterSetName]
			if !ok {
				continue
			}
			for counterName, newCounter := range newCounters {
				delta := newCounter.Value.DeepCopy()
				if old, ok := getCounter(oldCounterMax, poolKey, counterSetName, counterName); ok {
					delta.Sub(old.Value)
				}
				if delta.Sign() > 0 {
					remainingCounter, ok := counterSetRemaining[counterName]
					if !ok {
						continue
					}
					remainingCounter.Value.Sub(delta)
					counterSetRemaining[counterName] = remainingCounter
				}
			}
		}
	}
}

// releaseCounters adjusts remaining counters when instance types are pruned. Recomputes the
// pessimistic max from remaining ITs and adds back the delta.
func (at *AllocationTracker) releaseCounters(nodeClaimID NodeClaimID, releasedITs []InstanceTypeID) {
	storedCounterSetsByIT, ok := at.countersByNodeClaimIT[nodeClaimID]
	if !ok {
		return
	}

	oldCounterMax := pessimisticCounterMax(storedCounterSetsByIT)

	for _, itID := range releasedITs {
		delete(storedCounterSetsByIT, itID)
	}

	var newCounterMax map[PoolKey]map[string]map[string]resourcev1.Counter
	if len(storedCounterSetsByIT) > 0 {
		newCounterMax = pessimisticCounterMax(storedCounterSetsByIT)
	}
	addDeltaToRemaining(at.RemainingCounters, oldCounterMax, newCounterMax)

	if len(storedCounterSetsByIT) == 0 {
		delete(at.countersByNodeClaimIT, nodeClaimID)
	}
}

// releaseTemplateCounters removes template counter state for pruned instance types.
func (at *AllocationTracker) releaseTemplateCounters(nodeClaimID NodeClaimID, releasedITs []InstanceTypeID) {
	remainingCounterSetsByIT, ok := at.templateRemainingCounters[nodeClaimID]
	if !ok {
		return
	}
	for _, itID := range releasedITs {
		delete(remainingCounterSetsByIT, itID)
	}
	if len(remainingCounterSetsByIT) == 0 {
		delete(at.templateRemainingCounters, nodeClaimID)
	}
}

// addDeltaToRemaining adds (oldCounterMax - newCounterMax) back to remaining counters.
func addDeltaToRemaining(remaining map[PoolKey]map[string]map[string]resourcev1.Counter, oldCounterMax, newCounterMax map[PoolKey]map[string]map[string]resourcev1.Counter) {
	for poolKey, oldCounterSets := range oldCounterMax {
		poolRemaining, ok := remaining[poolKey]
		if !ok {
			continue
		}
		for counterSetName, oldCounters := range oldCounterSets {
			counterSetRemaining, ok := poolRemaining[counterSetName]
			if !ok {
				continue
			}
			for counterName, oldCounter := range oldCounters {
				delta := oldCounter.Value.DeepCopy()
				if new, ok := getCounter(newCounterMax, poolKey, counterSetName, counterName); ok {
					delta.Sub(new.Value)
				}
				if delta.Sign() > 0 {
					remainingCounter := counterSetRemaining[counterName]
					remainingCounter.Value.Add(delta)
					counterSetRemaining[counterName] = remainingCounter
				}
			}
		}
	}
}

// InitRemainingCounters initializes the remaining counter budget for a pool. Called lazily on first
// access for each pool during allocation. The initial value is the pool's total counter budget
// minus consumption from preallocated devices.
func (at *AllocationTracker) InitRemainingCounters(pool *Pool) {
	if _, ok := at.RemainingCounters[pool.Key]; ok {
		return
	}
	if len(pool.CounterSets) == 0 {
		return
	}
	remainingCounterSets := make(map[string]map[string]resourcev1.Counter, len(pool.CounterSets))
	for counterSetName, counters := range pool.CounterSets {
		remainingCounterSets[counterSetName] = make(map[string]resourcev1.Counter, len(counters))
		for counterName, counter := range counters {
			remainingCounterSets[counterSetName][counterName] = resourcev1.Counter{Value: counter.Value.DeepCopy()}
		}
	}
	// Deduct consumption from preallocated devices.
	for i := range pool.Devices {
		if !at.PreallocatedDevices.Has(pool.Devices[i].ID) &&
			!lo.HasKey(at.PreallocatedConsumedCapacity, pool.Devices[i].ID) {
			continue
		}
		deductFromCounters(remainingCounterSets, pool.Devices[i].Device)
	}
	for i := range pool.NonTargetingDevices {
		if !at.PreallocatedDevices.Has(pool.NonTargetingDevices[i].ID) &&
			!lo.HasKey(at.PreallocatedConsumedCapacity, pool.NonTargetingDevices[i].ID) {
			continue
		}
		deductFromCounters(remainingCounterSets, pool.NonTargetingDevices[i].Device)
	}
	at.RemainingCounters[pool.Key] = remainingCounterSets
}

// deductFromCounters subtracts a device's counter consumption from counter budgets.
func deductFromCounters(remainingCounterSets map[string]map[string]resourcev1.Counter, device cloudprovider.Device) {
	for _, consumption := range device.ConsumesCounters {
		counterSetRemaining, ok := remainingCounterSets[consumption.CounterSet]
		if !ok {
			continue
		}
		for counterName, counter := range consumption.Counters {
			remainingCounter, ok := counterSetRemaining[counterName]
			if !ok {
				continue
			}
			remainingCounter.Value.Sub(counter.Value)
			counterSetRemaining[counterName] = remainingCounter
		}
	}
}

// InitTemplateRemainingCounters lazily initializes the remaining counter budget for a
// (NodeClaim, IT) pair. The caller provides the total budget (computed from SharedCounters on
// the template slices). Subsequent calls for the same (NC, IT) are no-ops.
func (at *AllocationTracker) InitTemplateRemainingCounters(
	nodeClaimID NodeClaimID,
	itID InstanceTypeID,
	totals map[PoolKey]map[string]map[string]resourcev1.Counter,
) {
	remainingCounterSetsByIT, ok := at.templateRemainingCounters[nodeClaimID]
	if !ok || remainingCounterSetsByIT[itID] == nil {
		remainingCounterSetsByIT = make(map[InstanceTypeID]map[PoolKey]map[string]map[string]resourcev1.Counter)
		at.templateRemainingCounters[nodeClaimID] = remainingCounterSetsByIT
	}
	if _, ok := remainingCounterSetsByIT[itID]; ok {
		return
	}
	remainingCounterSetsByIT[itID] = totals
}

// TemplateRemainingForIT returns the remaining template counter budget for the given
// (NodeClaim, IT) pair. Returns nil if not yet initialized.
func (at *AllocationTracker) TemplateRemainingForIT(nodeClaimID NodeClaimID, itID InstanceTypeID) map[PoolKey]map[string]map[string]resourcev1.Counter {
	remainingCounterSetsByIT, ok := at.templateRemainingCounters[nodeClaimID]
	if !ok {
		return nil
	}
	return remainingCounterSetsByIT[itID]
}

// pessimisticCounterMax computes the maximum counter value per pool/counterSet/counter across all ITs.
// returns map: poolKey → counterSetName → counterName → remaining counter.
func pessimisticCounterMax(counterConsumptionByIT map[InstanceTypeID]map[PoolKey]map[string]map[string]resourcev1.Counter) map[PoolKey]map[string]map[string]resourcev1.Counter {
	counterMaxByPool := make(map[PoolKey]map[string]map[string]resourcev1.Counter)
	for _, counterSetsByPool := range counterConsumptionByIT {
		for poolKey, counterSets := range counterSetsByPool {
			maxCounterSets, ok := counterMaxByPool[poolKey]
			if !ok {
				maxCounterSets = make(map[string]map[string]resourcev1.Counter)
				counterMaxByPool[poolKey] = maxCounterSets
			}
			for counterSetName, counters := range counterSets {
				maxCounters, ok := maxCounterSets[counterSetName]
				if !ok {
					maxCounters = make(map[string]resourcev1.Counter)
					maxCounterSets[counterSetName] = maxCounters
				}
				for counterName, counter := range counters {
					maxCounter, ok := maxCounters[counterName]
					if !ok || counter.Value.Cmp(maxCounter.Value) > 0 {
						maxCounters[counterName] = resourcev1.Counter{Value: counter.Value.DeepCopy()}
					}
				}
			}
		}
	}
	return counterMaxByPool
}

func getCounter(m map[PoolKey]map[string]map[string]resourcev1.Counter, pool PoolKey, set, name string) (resourcev1.Counter, bool) {
	if m == nil {
		return resourcev1.Counter{}, false
	}
	sets, ok := m[pool]
	if !ok {
		return resourcev1.Counter{}, false
	}
	counters, ok := sets[set]
	if !ok {
		return resourcev1.Counter{}, false
	}
	c, ok := counters[name]
	return c, ok
}

// poolCountersExhausted returns true if any counter in the pool has been fully consumed
// by DFS-local tentative allocations, meaning no additional counter-consuming device from
// this pool can succeed.
func (a *allocator) poolCountersExhausted(pool *Pool) bool {
	if len(pool.CounterSets) == 0 {
		return false
	}
	remaining := a.allocationTracker.RemainingCounters[pool.Key]
	if remaining == nil {
		return false
	}
	allocating := a.allocatingCounters[pool.Key]
	if allocating == nil {
		return false
	}
	for counterSetName, counterSet := range allocating {
		counterSetRemaining, ok := remaining[counterSetName]
		if !ok {
			continue
		}
		for counterName, allocCounter := range counterSet {
			remCounter, ok := counterSetRemaining[counterName]
			if !ok {
				continue
			}
			if remCounter.Value.Value()-allocCounter.Value.Value() <= 0 {
				return true
			}
		}
	}
	return false
}

// checkCounters verifies that shared counters have sufficient remaining budget for the device.
// remainingCounterSets is the base budget (from AllocationTracker for in-cluster pools, or
// templateRemainingCounters for template pools). The DFS-local allocatingCounters are subtracted
// to account for tentative allocations in the current search.
func (a *allocator) checkCounters(device cloudprovider.Device, poolKey PoolKey, remainingCounterSets map[string]map[string]resourcev1.Counter, template bool) bool {
	if len(device.ConsumesCounters) == 0 {
		return true
	}
	if remainingCounterSets == nil {
		return false
	}
	allocatingCounterSets := lo.Ternary(template, a.templateAllocatingCounters[poolKey], a.allocatingCounters[poolKey])
	for _, consumption := range device.ConsumesCounters {
		counterSetRemaining, ok := remainingCounterSets[consumption.CounterSet]
		if !ok {
			return false
		}
		var allocatingCounters map[string]resourcev1.Counter
		if allocatingCounterSets != nil {
			allocatingCounters = allocatingCounterSets[consumption.CounterSet]
		}
		for counterName, counter := range consumption.Counters {
			remainingCounter, ok := counterSetRemaining[counterName]
			if !ok {
				return false
			}
			allocatingVal := int64(0)
			if allocatingCounters != nil {
				if ac, ok := allocatingCounters[counterName]; ok {
					allocatingVal = ac.Value.Value()
				}
			}
			if remainingCounter.Value.Value()-allocatingVal < counter.Value.Value() {
				return false
			}
		}
	}
	return true
}

// deductAllocatingCounters adds a device's counter consumption to the DFS-local allocating state.
func (a *allocator) deductAllocatingCounters(device cloudprovider.Device, poolKey PoolKey, template bool) {
	if len(device.ConsumesCounters) == 0 {
		return
	}
	counterMap := lo.Ternary(template, a.templateAllocatingCounters, a.allocatingCounters)
	allocatingCounterSets, ok := counterMap[poolKey]
	if !ok {
		allocatingCounterSets = make(map[string]map[string]resourcev1.Counter)
		counterMap[poolKey] = allocatingCounterSets
	}
	for _, consumption := range device.ConsumesCounters {
		allocatingCounters, ok := allocatingCounterSets[consumption.CounterSet]
		if !ok {
			allocatingCounters = make(map[string]resourcev1.Counter)
			allocatingCounterSets[consumption.CounterSet] = allocatingCounters
		}
		for counterName, counter := range consumption.Counters {
			allocatingCounter := allocatingCounters[counterName]
			allocatingCounter.Value.Add(counter.Value)
			allocatingCounters[counterName] = allocatingCounter
		}
	}
}

// restoreAllocatingCounters reverses a device's counter consumption from the DFS-local allocating state.
func (a *allocator) restoreAllocatingCounters(device cloudprovider.Device, poolKey PoolKey, template bool) {
	if len(device.ConsumesCounters) == 0 {
		return
	}
	counterMap := lo.Ternary(template, a.templateAllocatingCounters, a.allocatingCounters)
	allocatingCounterSets, ok := counterMap[poolKey]
	if !ok {
		return
	}
	for _, consumption := range device.ConsumesCounters {
		allocatingCounters, ok := allocatingCounterSets[consumption.CounterSet]
		if !ok {
			continue
		}
		for counterName, counter := range consumption.Counters {
			allocatingCounter, ok := allocatingCounters[counterName]
			if !ok {
				continue
			}
			allocatingCounter.Value.Sub(counter.Value)
			allocatingCounters[counterName] = allocatingCounter
		}
	}
}

// countersFeasible checks whether the remaining counter budgets can possibly
// satisfy the aggregate demand from all requests. This is a conservative
// lower-bound check: if even the minimum total consumption exceeds available
// budget, no DFS path can succeed. This is only done for AllMode requests
// as their eligible devices (both in-cluster and template) are pre-computed.
// For FirstAvailable, at least one sub-request per request needs to be feasible.
func (a *allocator) countersFeasible() bool {
	for _, cd := range a.claimData {
		for _, rd := range cd.Requests {
			if len(rd.SubRequests) > 0 {
				anyFeasible := false
				for i := range rd.SubRequests {
					if rd.SubRequests[i].AllocationMode != resourcev1.DeviceAllocationModeAll {
						anyFeasible = true
						break
					}
					if a.allModeCountersFeasible(&rd.SubRequests[i]) {
						anyFeasible = true
						break
					}
				}
				if !anyFeasible {
					return false
				}
			} else if rd.AllocationMode == resourcev1.DeviceAllocationModeAll {
				if !a.allModeCountersFeasible(&rd) {
					return false
				}
			}
		}
	}
	return true
}

//nolint:gocyclo
func (a *allocator) allModeCountersFeasible(rd *RequestData) bool {
	// For All mode, we must allocate all predetermined devices.
	// Decrement from shadow copies of remaining counters as we iterate.
	// Map: poolKey -> counterSetName -> counterName -> Counter
	inClusterShadow := make(map[PoolKey]map[string]map[string]resourcev1.Counter)
	templateShadow := make(map[PoolKey]map[string]map[string]resourcev1.Counter)

	devices := rd.AllDevices
	if templateDevices, ok := rd.AllTemplateDevicesByIT[a.itID]; ok {
		devices = append(devices, templateDevices...)
	}

	for _, d := range devices {
		if len(d.ConsumesCounters) == 0 {
			continue
		}
		poolKey := PoolKey{Driver: d.ID.Driver, Pool: d.ID.Pool}

		var shadow map[PoolKey]map[string]map[string]resourcev1.Counter
		if d.ID.Template {
			shadow = templateShadow
		} else {
			shadow = inClusterShadow
		}

		if _, ok := shadow[poolKey]; !ok {
			var remaining map[string]map[string]resourcev1.Counter
			if d.ID.Template {
				if a.templateRemainingCounters != nil {
					remaining = a.templateRemainingCounters[poolKey]
				}
			} else {
				remaining = a.allocationTracker.RemainingCounters[poolKey]
			}
			// This is uninitialized before first DFS; defer to checkCounters which
			// initializes the remaining counters.
			if remaining == nil {
				return true
			}
			shadow[poolKey] = copyCounterSets(remaining)
		}
		poolShadow := shadow[poolKey]
		for _, consumption := range d.ConsumesCounters {
			counterSetsShadow, ok := poolShadow[consumption.CounterSet]
			if !ok {
				return false
			}
			for counterName, counter := range consumption.Counters {
				availCounter, ok := counterSetsShadow[counterName]
				if !ok {
					return false
				}
				availCounter.Value.Sub(counter.Value)
				if availCounter.Value.Cmp(resource.Quantity{}) < 0 {
					return false
				}
				counterSetsShadow[counterName] = availCounter
			}
		}
	}
	return true
}

func copyCounterSets(src map[string]map[string]resourcev1.Counter) map[string]map[string]resourcev1.Counter {
	cp := make(map[string]map[string]resourcev1.Counter, len(src))
	for counterSetName, counters := range src {
		cpCounters := make(map[string]resourcev1.Counter, len(counters))
		for counterName, counter := range counters {
			cpCounters[counterName] = resourcev1.Counter{Value: counter.Value.DeepCopy()}
		}
		cp[counterSetName] = cpCounters
	}
	return cp
}
