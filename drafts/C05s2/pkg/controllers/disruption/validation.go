/*
Copyright The Kubernetes Authors.

Licensed under the Apache License, Version 2.0 (the "License");
you may not use this file except in compliance with the License.
You may obtain a copy of the License at

    http://www.apache.org/licenses/LICENSE-2.0

Unless required by applicable law or agreed to in writing, software
distributed under the License is distributed on an "AS IS" BASIS,
WITHOUT WARRANTIES OR CONDITIONS OF ANY KIND, either express or implied.
See the License for the specific language governing permissions and
limitations under the License.
*/

package disruption

import (
	"context"
	"errors"
	"fmt"
	"time"

	"github.com/samber/lo"
	"k8s.io/utils/clock"
	"sigs.k8s.io/controller-runtime/pkg/client"

	v1 "sigs.k8s.io/karpenter/pkg/apis/v1"
	"sigs.k8s.io/karpenter/pkg/cloudprovider"
	"sigs.k8s.io/karpenter/pkg/controllers/provisioning"
	"sigs.k8s.io/karpenter/pkg/controllers/provisioning/scheduling"
	"sigs.k8s.io/karpenter/pkg/controllers/state"
	"sigs.k8s.io/karpenter/pkg/events"
)

type ValidationError struct {
	error
}

func NewValidationError(err error) *ValidationError {
	return &ValidationError{error: err}
}

func IsValidationError(err error) bool {
	if err == nil {
		return false
	}
	var validationError *ValidationError
	return errors.As(err, &validationError)
}

// BudgetValidationError indicates validation failed due to disruption budget constraints
type BudgetValidationError struct {
	*ValidationError
}

func NewBudgetValidationError(err error) *BudgetValidationError {
	return &BudgetValidationError{ValidationError: NewValidationError(err)}
}

func (e *BudgetValidationError) Unwrap() error {
	return e.ValidationError
}

// SchedulingValidationError indicates validation failed due to scheduling constraints
type SchedulingValidationError struct {
	*ValidationError
}

func NewSchedulingValidationError(err error) *SchedulingValidationError {
	return &SchedulingValidationError{ValidationError: NewValidationError(err)}
}

func (e *SchedulingValidationError) Unwrap() error {
	return e.ValidationError
}

// ChurnValidationError indicates validation failed due to churn detection
type ChurnValidationError struct {
	*ValidationError
}

func NewChurnValidationError(err error) *ChurnValidationError {
	return &ChurnValidationError{ValidationError: NewValidationError(err)}
}

func (e *ChurnValidationError) Unwrap() error {
	return e.ValidationError
}

type Validator interface {
	Validate(context.Context, Command, time.Duration) (Command, error)
}

// Validation is used to perform validation on a consolidation command.  It makes an assumption that when re-used, all
// of the commands passed to IsValid were constructed based off of the same consolidation state.  This allows it to
// skip the validation TTL for all but the first command.
type validation struct {
	clock         clock.Clock
	cluster       *state.Cluster
	kubeClient    client.Client
	cloudProvider cloudprovider.CloudProvider
	provisioner   *provisioning.Provisioner
	recorder      events.Recorder
	queue         *Queue
	reason        v1.DisruptionReason
}

type EmptinessValidator struct {
	validation
	filter         CandidateFilter
	validationType string
}

func NewEmptinessValidator(c consolidation) *EmptinessValidator {
	e := &Emptiness{consolidation: c}
	return &EmptinessValidator{
		validation: validation{
			clock:         c.clock,
			cluster:       c.cluster,
			kubeClient:    c.kubeClient,
			provisioner:   c.provisioner,
			cloudProvider: c.cloudProvider,
			recorder:      c.recorder,
			queue:         c.queue,
			reason:        v1.DisruptionReasonEmpty,
		},
		filter:         e.ShouldDisrupt,
		validationType: e.ConsolidationType(),
	}
}

func (e *EmptinessValidator) Validate(ctx context.Context, cmd Command, validationPeriod time.Duration) (Command, error) {
	if validationPeriod > 0 {
		select {
		case <-ctx.Done():
			return Command{}, errors.New("interrupted")
		case <-e.clock.After(validationPeriod):
		}
	}
	validatedCandidates, err := e.validateCandidates(ctx, cmd.Candidates...)
	if err != nil {
		return Command{}, err
	}
	cmd.Candidates = validatedCandidates
	return cmd, nil
}

type ConsolidationValidator struct {
	validation
	filter         CandidateFilter
	validationType string
}

func NewSingleConsolidationValidator(c consolidation) *ConsolidationValidator {
	s := &SingleNodeConsolidation{consolidation: c}
	return &ConsolidationValidator{
		validation: validation{
			clock:         c.clock,
			cluster:       c.cluster,
			kubeClient:    c.kubeClient,
			provisioner:   c.provisioner,
			cloudProvider: c.cloudProvider,
			recorder:      c.recorder,
			queue:         c.queue,
			reason:        v1.DisruptionReasonUnderutilized,
		},
		filter:         s.ShouldDisrupt,
		validationType: s.ConsolidationType(),
	}
}

func NewMultiConsolidationValidator(c consolidation) *ConsolidationValidator {
	m := &MultiNodeConsolidation{consolidation: c}
	return &ConsolidationValidator{
		validation: validation{
			clock:         c.clock,
			cluster:       c.cluster,
			kubeClient:    c.kubeClient,
			provisioner:   c.provisioner,
			cloudProvider: c.cloudProvider,
			recorder:      c.recorder,
			queue:         c.queue,
			reason:        v1.DisruptionReasonUnderutilized,
		},
		filter:         m.ShouldDisrupt,
		validationType: m.ConsolidationType(),
	}
}

func (c *ConsolidationValidator) Validate(ctx context.Context, cmd Command, validationPeriod time.Duration) (Command, error) {
	if err := c.isValid(ctx, cmd, validationPeriod); err != nil {
		return Command{}, err
	}
	return cmd, nil
}

func (c *ConsolidationValidator) isValid(ctx context.Context, cmd Command, validationPeriod time.Duration) error {
	if validationPeriod > 0 {
		select {
		case <-ctx.Done():
			return errors.New("context canceled")
		case <-c.clock.After(validationPeriod):
		}
	}
	validatedCandidates, err := c.validateCandidates(ctx, cmd.Candidates...)
	if err != nil {
		return err
	}
	if err := c.validateCommand(ctx, cmd, validatedCandidates); err != nil {
		return err
	}
	// Revalidate candidates after validating the command. This mitigates the chance of a race condition outlined in
	// the following GitHub issue: https://github.com/kubernetes-sigs/karpenter/issues/1167.
	if _, err = c.validateCandidates(ctx, validatedCandidates...); err != nil {
		return err
	}
	return nil
}

func (e *EmptinessValidator) validateCandidates(ctx context.Context, candidates ...*Candidate) ([]*Candidate, error) {
	// This GetCandidates call filters out nodes that were nominated
	validatedCandidates, err := GetCandidates(ctx, e.cluster, e.kubeClient, e.recorder, e.clock, e.cloudProvider, e.filter, GracefulDisruptionClass, e.queue)
	if err != nil {
		return nil, fmt.Errorf("constructing validation candidates, %w", err)
	}
	validatedCandidates = mapCandidates(candidates, validatedCandidates)
	if len(validatedCandidates) == 0 {
		FailedValidationsTotal.Add(float64(len(candidates)), map[string]string{ConsolidationTypeLabel: e.validationType})
		return nil, NewChurnValidationError(fmt.Errorf("%d candidates are no longer valid", len(candidates)))
	}
	disruptionBudgetMapping, err := BuildDisruptionBudgetMapping(ctx, e.cluster, e.clock, e.kubeClient, e.cloudProvider, e.recorder, e.reason)
	if err != nil {
		return nil, fmt.Errorf("building disruption budgets, %w", err)
	}

	if valid := lo.Filter(validatedCandidates, func(cn *Candidate, _ int) bool {
		if e.cluster.IsNodeNominated(cn.ProviderID()) {
			FailedValidationsTotal.Inc(map[string]string{ConsolidationTypeLabel: e.validationType})
			return false
		}
		allowedDisruptions := disruptionBudgetMapping[cn.NodePool.Name]
		if allowedDisruptions == 0 {
			FailedValidationsTotal.Inc(map[string]string{ConsolidationTypeLabel: e.validationType})
			return false
		}
		allowedDisruptions--
		return true
	}); len(valid) > 0 {
		return valid, nil
	}
	return nil, NewBudgetValidationError(fmt.Errorf("%d candidates failed validation because it they were nominated for a pod or would violate disruption budgets", len(candidates)))
}

// ValidateCandidates gets the current representation of the provided candidates and ensures that they are all still valid.
// For a candidate to still be valid, the following conditions must be met:
//
//	a. It must pass the global candidate filtering logic (no blocking PDBs, no do-not-disrupt annotation, etc)
//	b. It must not have any pods nominated for it
//	c. It must still be disruptable without violating node disruption budgets
//
// If these conditions are met for all candidates, ValidateCandidates returns a slice with the updated representations.
func (c *ConsolidationValidator) validateCandidates(ctx context.Context, candidates ...*Candidate) ([]*Candidate, error) {
	// GracefulDisruptionClass is hardcoded here because ValidateCandidates is only used for consolidation disruption. All consolidation disruption is graceful disruption.
	validatedCandidates, err := GetCandidates(ctx, c.cluster, c.kubeClient, c.recorder, c.clock, c.cloudProvider, c.filter, GracefulDisruptionClass, c.queue)
	if err != nil {
		return nil, fmt.Errorf("constructing validation candidates, %w", err)
	}
	validatedCandidates = mapCandidates(candidates, validatedCandidates)
	// If we filtered out any candidates, return nil as some NodeClaims in the consolidation decision have changed.
	if len(validatedCandidates) != len(candidates) {
		FailedValidationsTotal.Add(float64(len(candidates)), map[string]string{ConsolidationTypeLabel: c.validationType})
		return nil, NewChurnValidationError(fmt.Errorf("%d candidates are no longer valid", len(candidates)-len(validatedCandidates)))
	}
	disruptionBudgetMapping, err := BuildDisruptionBudgetMapping(ctx, c.cluster, c.clock, c.kubeClient, c.cloudProvider, c.recorder, c.reason)
	if err != nil {
		return nil, fmt.Errorf("building disruption budgets, %w", err)
	}
	// Return nil if any candidate meets either of the following conditions:
	//  a. A pod was nominated to the candidate
	//  b. Disrupting the candidate would violate node disruption budgets
	for _, vc := range validatedCandidates {
		if c.cluster.IsNodeNominated(vc.ProviderID()) {
			FailedValidationsTotal.Add(float64(len(candidates)), map[string]string{ConsolidationTypeLabel: c.validationType})
			return nil, NewBudgetValidationError(fmt.Errorf("a candidate was nominated during validation"))
		}
		if disruptionBudgetMapping[vc.NodePool.Name] == 0 {
			FailedValidationsTotal.Add(float64(len(candidates)), map[string]string{ConsolidationTypeLabel: c.validationType})
			return nil, NewBudgetValidationError(fmt.Errorf("a candidate can no longer be disrupted without violating budgets"))
		}
		disruptionBudgetMapping[vc.NodePool.Name]--
	}
	return validatedCandidates, nil
}

// ValidateCommand validates a command for a Method
func (v *validation) validateCommand(ctx context.Context, cmd Command, candidates []*Candidate) error {
	// None of the chosen candidate are valid for execution, so retry
	if len(candidates) == 0 {
		return NewValidationError(fmt.Errorf("no candidates"))
	}
	results, err := SimulateScheduling(ctx, v.kubeClient, v.cluster, v.provisioner, v.clock, v.recorder, []scheduling.Options{scheduling.IsConsolidationSimulation}, candidates...)
	if err != nil {
		return fmt.Errorf("simluating scheduling, %w", err)
	}
	if !results.AllNonPendingPodsScheduled() {
		return NewSchedulingValidationError(errors.New(results.NonPendingPodSchedulingErrors()))
	}

	// We want to ensure that the re-simulated scheduling using the current cluster state produces the same result.
	// There are three possible options for the number of new candidates that we need to handle:
	// len(NewNodeClaims) == 0, as long as we weren't expecting a new node, this is valid
	// len(NewNodeClaims) > 1, something in the cluster changed so that the candidates we were going to delete can no longer
	//                    be deleted without producing more than one node
	// len(NewNodeClaims) == 1, as long as the noe looks like what we were expecting, this is valid
	if len(results.NewNodeClaims) == 0 {
		if len(cmd.Replacements) == 0 {
			// scheduling produced zero new NodeClaims and we weren't expecting any, so this is valid.
			return nil
		}
		// if it produced no new NodeClaims, but we were expecting one we should re-simulate as there is likely a better
		// consolidation option now
		return NewSchedulingValidationError(fmt.Errorf("scheduling simulation produced new results"))
	}

	// we need more than one replacement node which is never valid currently (all of our node replacement is m->1, never m->n)
	if len(results.NewNodeClaims) > 1 {
		return NewSchedulingValidationError(fmt.Errorf("scheduling simulation produced new results"))
	}

	// we now know that scheduling simulation wants to create one new node
	if len(cmd.Replacements) == 0 {
		// but we weren't expecting any new NodeClaims, so this is invalid
		return NewSchedulingValidationError(fmt.Errorf("scheduling simulation produced new results"))
	}

	// We know that the scheduling simulation wants to create a new node and that the command we are verifying wants
	// to create a new node. The scheduling simulation doesn't apply any filtering to instance types, so it may include
	// instance types that we don't want to launch which were filtered out when the lifecycleCommand was created.  To
	// check if our lifecycleCommand is valid, we just want to ensure that the list of instance types we are considering
	// creating are a subset of what scheduling says we should create.  We check for a subset since the scheduling
	// simulation here does no price filtering, so it will include more expensive types.
	//
	// This is necessary since consolidation only wants cheaper NodeClaims.  Suppose consolidation determined we should delete
	// a 4xlarge and replace it with a 2xlarge. If things have changed and the scheduling simulation we just performed
	// now says that we need to launch a 4xlarge. It's still launching the correct number of NodeClaims, but it's just
	// as expensive or possibly more so we shouldn't validate.
	if !instanceTypesAreSubset(cmd.Replacements[0].InstanceTypeOptions, results.NewNodeClaims[0].InstanceTypeOptions) {
		return NewSchedulingValidationError(fmt.Errorf("scheduling simulation produced new results"))
	}

	// Now we know:
	// - current scheduling simulation says to create a new node with types T = {T_0, T_1, ..., T_n}
	// - our lifecycle command says to create a node with types {U_0, U_1, ..., U_n} where U is a subset of T
	return nil
}

// getValidationFailureReason categorizes validation errors into specific failure types
func getValidationFailureReason(err error) string {
	if err == nil {
		return "unknown"
	}

	var budgetErr *BudgetValidationError
	var schedErr *SchedulingValidationError
	var churnErr *ChurnValidationError

	switch {
	case errors.As(err, &budgetErr):
		return "budget"
	case errors.As(err, &schedErr):
		return "scheduling"
	case errors.As(err, &churnErr):
		return "churn"
	default:
		return "unknown"
	}
}
