//go:build verif

// Draft contracts (C05s2) for the deductive verifier in /verif (kvc). Comment-only: this file adds no code.
package disruption

// ---- C05: the validation re-check of emptiness commands consumes the re-computed budget ----
//
// "This holds across ... multi-node commands, validation re-checks": after the validation delay the budgets are re-computed
// and the command's candidates are walked in order; a candidate is kept only against what the candidates kept before it
// have left of its pool's re-computed entry. One step of that walk is the predicate handed to lo.Filter; it works on the
// captured mapping (poolName is the key a candidate consumes, zz_contracts_C05b_verif.go):
//   [keptOnlyWithBudgetLeft]    a candidate is kept only if its pool's remaining entry was > 0 (entries are >= 0:
//                               BuildDisruptionBudgetMapping [bounded]; stated under that guard like the consolidation
//                               validator's [withinRecomputedBudget]);
//   [keptConsumesOneUnit]       keeping it takes (at least) one unit off the entry that later candidates of the pool see;
//   [neverReplenished]          no decision ever gives budget back to any pool;
//   [neverBelowZero]            no entry is driven below zero (so "!= 0" keeps meaning "> 0" for the later candidates).
// Together: along the walk, remaining[p] + #kept candidates of p <= re-computed[p] and remaining[p] >= 0 for every pool p,
// i.e. the kept candidates of a pool never exceed its re-computed budget. (Deliberately inequalities: consuming more than
// needed, e.g. for a candidate that is then rejected, is not forbidden by C05.)
//@ func (*EmptinessValidator).validateCandidates closure@lo.Filter
//@   prop C05
//@   modifies disruptionBudgetMapping[:]
//@   ensures [keptOnlyWithBudgetLeft] (result && old(disruptionBudgetMapping[poolName(cn)]) >= 0) ==> old(disruptionBudgetMapping[poolName(cn)]) > 0
//@   ensures [keptConsumesOneUnit] result ==> disruptionBudgetMapping[poolName(cn)] <= old(disruptionBudgetMapping[poolName(cn)]) - 1
//@   ensures [neverReplenished] forall p string {disruptionBudgetMapping[p]} :: disruptionBudgetMapping[p] <= old(disruptionBudgetMapping[p])
//@   ensures [neverBelowZero] forall p string {disruptionBudgetMapping[p]} :: old(disruptionBudgetMapping[p]) >= 0 ==> disruptionBudgetMapping[p] >= 0

// The re-check itself: the budgets are re-computed for the validator's own reason ("a budget applies to a reason if it
// lists it or lists none"); the walk starts from exactly that re-computed mapping (same map object, no entry touched in
// between, and only if the re-computation succeeded), and the candidates handed back are the ones the walk kept.
// NOT expressible with the current engine (see PROPOSED_CHANGES.md): the summed-up statement
//   result.1 == nil ==> forall p: re-computed[p] >= 0 ==> cntP(result.0, len(result.0), p, false) <= re-computed[p]
// because lo.Filter has no model for a predicate that changes state (fold over the elements).
//@ func (*EmptinessValidator).validateCandidates
//@   prop C05
//@   modifies *
//@   site BuildDisruptionBudgetMapping requires [forTheMethodsReason] $6 == e.reason
//@   site lo.Filter #1 requires [recomputationSucceeded] (@BuildDisruptionBudgetMapping).1 == nil
//@   site lo.Filter #1 requires [consumesTheRecomputedMapping] disruptionBudgetMapping == (@BuildDisruptionBudgetMapping).0
//@   site lo.Filter #1 requires [mappingAsRecomputed] forall p string {disruptionBudgetMapping[p]} :: disruptionBudgetMapping[p] == atcall(@BuildDisruptionBudgetMapping, (@BuildDisruptionBudgetMapping).0[p])
//@   site lo.Filter #1 requires [walksTheRefreshedCandidates] $0 == @mapCandidates
//@   ensures [keptAreTheFiltered] result.1 == nil ==> result.0 == @lo.Filter
