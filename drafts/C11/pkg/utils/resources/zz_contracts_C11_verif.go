//go:build verif

// Contracts for the deductive verifier in /verif (kvc). Comment-only: this file adds no code.
package resources

// C11 only needs that computing a pod's requests / limits reads the pods and writes nothing that existed
// before. TRUSTED (bodies not verified: nested loops over containers through Ceiling/MaxResources/MergeInto).
//@ func RequestsForPods
//@   prop C11
//@   trusted
//@   modifies nothing

//@ func LimitsForPods
//@   prop C11
//@   trusted
//@   modifies nothing
