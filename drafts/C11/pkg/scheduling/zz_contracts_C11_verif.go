//go:build verif

// Contracts for the deductive verifier in /verif (kvc). Comment-only: this file adds no code.
// C11: per-pod bookkeeping of volume usage (used by StateNode.updateForPod / cleanupForPod).
package scheduling

// Union builds a new map with new sets: neither argument (nor any set in them) is written.
//@ func (Volumes).Union
//@   prop C11
//@   modifies nothing
//@   ensures [fresh] fresh(result) && result != nil
//@   loop 1 invariant fresh(cp) && (forall d string {d in cp} :: (d in cp) ==> fresh(cp[d]))
//@   loop 2 invariant fresh(cp) && (forall d string {d in cp} :: (d in cp) ==> fresh(cp[d]))

// DeletePod forgets the pod (and rebuilds the per-driver union from the remaining pods).
// TRUSTED: the body cannot be verified yet. It calls (Volumes).Insert inside a loop; Insert writes the sets
// stored in its receiver, which a modifies clause cannot enumerate (no quantified target `u[*][:]`), an `inline`
// contract gets no automatic frame invariant for its loop and `fresh` there is relative to the inlined call, and
// a quantifier over sets.Set[string] does not parse. Only the per-pod part is stated; callers need nothing else.
//@ func (*VolumeUsage).DeletePod
//@   prop C11
//@   trusted
//@   modifies v.podVolumes[:], v.volumes
//@   ensures [gone] !(key in v.podVolumes)
//@   ensures [others] forall k types.NamespacedName {k in v.podVolumes} :: k != key ==> ((k in v.podVolumes) == old(k in v.podVolumes) && v.podVolumes[k] == old(v.podVolumes[k]))

// GetVolumes only reads the pod and API objects (PVC, PV, StorageClass) through the client. TRUSTED: the Get
// calls fill objects allocated inside, but a havocked client call makes every heap component reachable by type
// from its arguments arbitrary, so "writes nothing that existed before" cannot be derived by the engine.
//@ func GetVolumes
//@   prop C11
//@   trusted
//@   modifies nothing

//@ func GetHostPorts
//@   prop C11
//@   modifies nothing
//@   loop 1 invariant cap(usage) == 0 || fresh(usage)
//@   loop 2 invariant cap(usage) == 0 || fresh(usage)
