import json,sys,os
V=os.environ.get('KVC_VERIF','/verif')
import os
p=V+'/out/%s.partial-evidence.json'%sys.argv[1]
q=V+'/evidence/%s.json'%sys.argv[1]
d=json.load(open(p if os.path.exists(p) and (not os.path.exists(q) or os.path.getmtime(p)>os.path.getmtime(q)) else q))
c=d['coverage']
for e in (c.get('engine_errors') or []): print('ENGINE:',e[:400])
for o in c['obligation_results']:
    if o['result']!='unsat' and 'expected' not in o['result']: print(o['name'],'|',o['result'],'|',o.get('solver',''),round(o['time_s'],2))
print('slowest:',sorted([(round(o['time_s'],2),o['name']) for o in c['obligation_results']])[-3:])
