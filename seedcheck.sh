#!/bin/bash
# seedcheck.sh <patch.diff> <PROP> [more props]: apply a seeded change to a throw-away copy of /repo (so that
# /repo itself stays untouched while other jobs read it), run the property's quick check on the copy, clean up.
# The same result is obtained with: git -C /repo apply <patch>; ./check <PROP>; git -C /repo checkout -- .
p=$1; shift
d=/tmp/seedrepo_$$; o=/tmp/seedout_$$
rsync -a --exclude .git /repo/ $d/ && mkdir -p $o && cp /verif/known_findings.json $o/
(cd $d && git init -q . 2>/dev/null; git -C $d apply --whitespace=nowarn $p) || { echo "PATCH DOES NOT APPLY"; rm -rf $d $o; exit 3; }
(cd $d && go build ./... ) || { echo "DOES NOT BUILD"; rm -rf $d $o; exit 3; }
rc=0
for prop in "$@"; do
  (cd /verif && KVC_REPO=$d KVC_VERIF=$o ./check $prop --tier quick 2>&1 | grep -v "^warning" | sed "s|$o|<out>|g" | cut -c1-260 | tail -6); 
done
rm -rf $d $o
