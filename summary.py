#!/usr/bin/env python3
# summary.py: one table row per property from the evidence files the checks wrote (numbers of the last run of each check)
import json,glob
print('| ID | functions under contract | obligations discharged / generated | vacuity guards | trusted contracts used | solver time (s) | wall (s) |')
print('|----|--------------------------|------------------------------------|----------------|------------------------|-----------------|----------|')
tf=to=0
for f in sorted(glob.glob('/verif/evidence/C*.json')):
    e=json.load(open(f)); c=e['coverage']
    nt=sum(1 for t in (c.get('trusted_base') or []) if 'trusted contract' in t)
    print('| %s | %d | %d / %d | %d | %d | %.0f | %.0f |'%(e['property_id'],len(c['functions_under_contract']),c['discharged'],c['obligations'],c['vacuity_guards']['total'],nt,c['solver_time_s'],e['wall_s']))
    tf+=len(c['functions_under_contract']); to+=c['obligations']
print('\ntotal: %d function contracts verified (functions shared between properties counted per property), %d obligations'%(tf,to))
