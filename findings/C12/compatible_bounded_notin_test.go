package scheduling

import (
	"testing"

	corev1 "k8s.io/api/core/v1"

	v1 "sigs.k8s.io/karpenter/pkg/apis/v1"
)

// {k: NotIn[5] and Gte 3} can only be met by a node that carries label k, {k: DoesNotExist}
// only by one that does not: no labelling satisfies both, so they must not be compatible.
func TestVerifReplayCompatibleBoundedNotIn(t *testing.T) {
	a := NewRequirements(NewRequirement("example.com/k", corev1.NodeSelectorOpNotIn, "5"), NewRequirement("example.com/k", v1.NodeSelectorOpGte, "3"))
	b := NewRequirements(NewRequirement("example.com/k", corev1.NodeSelectorOpDoesNotExist))
	if err := a.Compatible(b); err == nil {
		t.Fatalf("reported compatible although no node labelling satisfies both")
	}
}
