package disruption

// Demonstration for the recorded C08 finding C08-timeout-during-termination: two candidates, the
// replacement is initialized, deleting candidate "b" keeps failing. Once the retry window is over the
// command is reported unrecoverable (so Queue.Reconcile rolls it back) although candidate "a" has
// already been deleted by the same action.
//
// run together with timeout_after_delete_test.go (it defines the helpers) through a go test -overlay
// that maps both files into pkg/controllers/disruption/.

import (
	"context"
	"fmt"
	"testing"
	"time"

	corev1 "k8s.io/api/core/v1"
	"k8s.io/apimachinery/pkg/api/errors"
	metav1 "k8s.io/apimachinery/pkg/apis/meta/v1"
	clientscheme "k8s.io/client-go/kubernetes/scheme"
	clock "k8s.io/utils/clock/testing"
	"sigs.k8s.io/controller-runtime/pkg/client"
	fakecr "sigs.k8s.io/controller-runtime/pkg/client/fake"
	"sigs.k8s.io/controller-runtime/pkg/client/interceptor"

	v1 "sigs.k8s.io/karpenter/pkg/apis/v1"
	"sigs.k8s.io/karpenter/pkg/controllers/state"
)

func TestC08TimeoutDuringTermination(t *testing.T) {
	ctx := context.Background()
	a := &v1.NodeClaim{ObjectMeta: metav1.ObjectMeta{Name: "a", Finalizers: []string{v1.TerminationFinalizer}}}
	b := &v1.NodeClaim{ObjectMeta: metav1.ObjectMeta{Name: "b", Finalizers: []string{v1.TerminationFinalizer}}}
	na := &corev1.Node{ObjectMeta: metav1.ObjectMeta{Name: "node-a"}}
	nb := &corev1.Node{ObjectMeta: metav1.ObjectMeta{Name: "node-b"}}
	kube := fakecr.NewClientBuilder().WithScheme(clientscheme.Scheme).WithObjects(a, b, na, nb).
		WithInterceptorFuncs(interceptor.Funcs{Delete: func(ctx context.Context, c client.WithWatch, obj client.Object, opts ...client.DeleteOption) error {
			if obj.GetName() == "b" {
				return fmt.Errorf("admission webhook denied the request")
			}
			return c.Delete(ctx, obj, opts...)
		}}).Build()

	now := time.Now()
	q := NewQueue(kube, nopRecorder{}, nil, clock.NewFakeClock(now), nil)
	cmd := &Command{
		Method:            driftLike{},
		CreationTimestamp: now.Add(-2 * maxRetryDuration),
		Candidates: []*Candidate{
			{StateNode: &state.StateNode{Node: na, NodeClaim: a}, NodePool: &v1.NodePool{}},
			{StateNode: &state.StateNode{Node: nb, NodeClaim: b}, NodePool: &v1.NodePool{}},
		},
		Replacements: []*Replacement{{Name: "replacement", Initialized: true}},
	}
	err := q.waitOrTerminate(ctx, cmd)

	got := &v1.NodeClaim{}
	getErr := kube.Get(ctx, client.ObjectKeyFromObject(a), got)
	aDeleted := errors.IsNotFound(getErr) || (getErr == nil && !got.DeletionTimestamp.IsZero())
	t.Logf("waitOrTerminate error: %v", err)
	t.Logf("unrecoverable (rollback will run): %v; candidate a deleted: %v", IsUnrecoverableError(err), aDeleted)
	if IsUnrecoverableError(err) && aDeleted {
		t.Fatalf("C08 finding reproduced: the action timed out and is rolled back, yet it deleted candidate a")
	}
}
