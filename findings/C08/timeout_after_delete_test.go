package disruption

// Demonstration for C08 ("if ... the action times out, that action deletes no candidate and the
// candidates return to service"): waitOrTerminate evaluates the command timeout only after it has
// issued the candidate deletions, and it converts even a nil error into an unrecoverable one. A
// command whose replacements are all initialized and that is reconciled after the retry window
// therefore deletes its candidate and still reports an unrecoverable failure, which makes
// Queue.Reconcile run the rollback (untaint, clear DisruptionReason, UnmarkForDeletion) for a
// candidate that has just been deleted.
//
// run: go test -overlay <json mapping pkg/controllers/disruption/zz_c08_demo_test.go to this file> \
//        -vet=off -count=1 -run TestC08TimeoutAfterDelete ./pkg/controllers/disruption/

import (
	"context"
	"testing"
	"time"

	corev1 "k8s.io/api/core/v1"
	"k8s.io/apimachinery/pkg/api/errors"
	metav1 "k8s.io/apimachinery/pkg/apis/meta/v1"
	clientscheme "k8s.io/client-go/kubernetes/scheme"
	clock "k8s.io/utils/clock/testing"
	"sigs.k8s.io/controller-runtime/pkg/client"
	fakecr "sigs.k8s.io/controller-runtime/pkg/client/fake"

	v1 "sigs.k8s.io/karpenter/pkg/apis/v1"
	"sigs.k8s.io/karpenter/pkg/controllers/state"
	"sigs.k8s.io/karpenter/pkg/events"
)

type nopRecorder struct{}

func (nopRecorder) Publish(...events.Event) {}

type driftLike struct{}

func (driftLike) ShouldDisrupt(context.Context, *Candidate) bool { return true }
func (driftLike) ComputeCommands(context.Context, map[string]int, ...*Candidate) ([]Command, error) {
	return nil, nil
}
func (driftLike) Reason() v1.DisruptionReason { return v1.DisruptionReasonDrifted }
func (driftLike) Class() string               { return EventualDisruptionClass }
func (driftLike) ConsolidationType() string   { return "" }

func TestC08TimeoutAfterDelete(t *testing.T) {
	ctx := context.Background()
	scheme := clientscheme.Scheme // karpenter's v1 types register themselves here (pkg/apis/v1/doc.go)

	candidateNC := &v1.NodeClaim{ObjectMeta: metav1.ObjectMeta{Name: "candidate", Finalizers: []string{v1.TerminationFinalizer}}}
	candidateNode := &corev1.Node{ObjectMeta: metav1.ObjectMeta{Name: "candidate-node"}}
	kube := fakecr.NewClientBuilder().WithScheme(scheme).WithObjects(candidateNC, candidateNode).Build()

	now := time.Now()
	clk := clock.NewFakeClock(now)
	q := NewQueue(kube, nopRecorder{}, nil, clk, nil)
	cmd := &Command{
		Method:            driftLike{},
		CreationTimestamp: now.Add(-2 * maxRetryDuration), // the retry window is long gone
		Candidates: []*Candidate{{
			StateNode: &state.StateNode{Node: candidateNode, NodeClaim: candidateNC},
			NodePool:  &v1.NodePool{},
		}},
		Replacements: []*Replacement{{Name: "replacement", Initialized: true}},
	}

	err := q.waitOrTerminate(ctx, cmd)

	got := &v1.NodeClaim{}
	getErr := kube.Get(ctx, client.ObjectKeyFromObject(candidateNC), got)
	deleted := errors.IsNotFound(getErr) || (getErr == nil && !got.DeletionTimestamp.IsZero())
	t.Logf("waitOrTerminate error: %v", err)
	t.Logf("unrecoverable (rollback will run): %v; candidate NodeClaim deleted: %v", IsUnrecoverableError(err), deleted)
	if IsUnrecoverableError(err) && deleted {
		t.Fatalf("C08 violated: the action is reported as timed out (rollback follows) although it deleted its candidate")
	}
}
