package nodepoolhealth

import "testing"

func TestVerifReplayDryRun(t *testing.T) {
	s := NewState()
	for _, v := range []bool{false, true, true, true, false} {
		s.Update("np", v)
	}
	dry := s.DryRun("np", false).Status()
	s.Update("np", false)
	if real := s.Status("np"); real != dry {
		t.Fatalf("what-if %v disagrees with recorded %v", dry, real)
	}
}
