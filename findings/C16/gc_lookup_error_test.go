package garbagecollection

import (
	"context"
	"errors"
	"testing"
	"time"

	corev1 "k8s.io/api/core/v1"
	metav1 "k8s.io/apimachinery/pkg/apis/meta/v1"
	"k8s.io/client-go/kubernetes/scheme"
	clock "k8s.io/utils/clock/testing"
	"sigs.k8s.io/controller-runtime/pkg/client"
	"sigs.k8s.io/controller-runtime/pkg/client/fake"
	"sigs.k8s.io/controller-runtime/pkg/client/interceptor"

	v1 "sigs.k8s.io/karpenter/pkg/apis/v1"
	cpfake "sigs.k8s.io/karpenter/pkg/cloudprovider/fake"
)

// A registered NodeClaim whose instance the provider does not list, while the Node lookup fails
// with a transient error: whether the Node is absent or NotReady "cannot be established", so the
// NodeClaim must not be deleted in this pass.
func TestVerifReplayGCLookupError(t *testing.T) {
	nc := &v1.NodeClaim{
		ObjectMeta: metav1.ObjectMeta{Name: "nc-1", Labels: map[string]string{}, Finalizers: []string{"keep"}},
		Spec: v1.NodeClaimSpec{NodeClassRef: &v1.NodeClassReference{Group: "karpenter.test.sh", Kind: "TestNodeClass", Name: "default"}},
		Status: v1.NodeClaimStatus{ProviderID: "fake://gone", NodeName: "n-1"},
	}
	nc.StatusConditions().SetTrue(v1.ConditionTypeRegistered)
	base := fake.NewClientBuilder().WithScheme(scheme.Scheme).WithObjects(nc).WithStatusSubresource(nc).
		WithIndex(&corev1.Node{}, "spec.providerID", func(o client.Object) []string { return []string{o.(*corev1.Node).Spec.ProviderID} }).
		WithInterceptorFuncs(interceptor.Funcs{
			List: func(ctx context.Context, c client.WithWatch, list client.ObjectList, opts ...client.ListOption) error {
				if _, ok := list.(*corev1.NodeList); ok {
					return errors.New("transient: etcd leader changed")
				}
				return c.List(ctx, list, opts...)
			},
		}).Build()
	ctrl := NewController(clock.NewFakeClock(time.Now()), base, cpfake.NewCloudProvider())
	_, _ = ctrl.Reconcile(context.Background())
	got := &v1.NodeClaim{}
	if err := base.Get(context.Background(), client.ObjectKeyFromObject(nc), got); err != nil {
		t.Fatalf("NodeClaim is gone although the Node lookup failed: %v", err)
	}
	if !got.DeletionTimestamp.IsZero() {
		t.Fatalf("NodeClaim was deleted although the Node lookup failed with a transient error")
	}
}
