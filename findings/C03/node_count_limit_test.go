// Finding C03-node-count-not-charged, reproduced on the real Scheduler without touching /repo:
//   echo '{"Replace": {"/repo/pkg/controllers/provisioning/scheduling/zz_c03b_nodes_limit_test.go": "/verif/drafts/C03b/findings/node_count_limit_test.go"}}' > /tmp/ov.json
//   cd /repo && GOFLAGS=-mod=mod GOPROXY=off GOSUMDB=off GOTOOLCHAIN=local PATH=/opt/veriftools/go1.26.8/bin:$PATH \
//     go test -overlay /tmp/ov.json -vet=off -count=1 -run TestC03bNodeCountLimitOneBatch -v ./pkg/controllers/provisioning/scheduling/
// Outcome on the current tree (node_count_limit_test.log): new NodeClaims=3, tracked remaining nodes=2 (limit 2), the
// ExceededBy backstop admits all 3 creates -> "C03 VIOLATED: 3 nodes launched into NodePool limited to 2 nodes".
package scheduling

import (
	"context"
	"testing"

	corev1 "k8s.io/api/core/v1"
	"k8s.io/apimachinery/pkg/api/resource"
	metav1 "k8s.io/apimachinery/pkg/apis/meta/v1"
	"k8s.io/client-go/tools/record"
	clocktesting "k8s.io/utils/clock/testing"
	fakecr "sigs.k8s.io/controller-runtime/pkg/client/fake"

	v1 "sigs.k8s.io/karpenter/pkg/apis/v1"
	"sigs.k8s.io/karpenter/pkg/cloudprovider"
	"sigs.k8s.io/karpenter/pkg/cloudprovider/fake"
	"sigs.k8s.io/karpenter/pkg/controllers/state"
	"sigs.k8s.io/karpenter/pkg/events"
	"sigs.k8s.io/karpenter/pkg/operator/injection"
	karpopts "sigs.k8s.io/karpenter/pkg/operator/options"
	"sigs.k8s.io/karpenter/pkg/test"
	"sigs.k8s.io/karpenter/pkg/utils/resources"
)

// C03b: a dynamic NodePool limited to 2 nodes; one batch of 3 pods that each need a node of their own.
func TestC03bNodeCountLimitOneBatch(t *testing.T) {
	ctx := karpopts.ToContext(injection.WithControllerName(context.Background(), "provisioner"), test.Options())
	nodeLimit := resource.MustParse("2")
	nodePool := test.NodePool(v1.NodePool{
		ObjectMeta: metav1.ObjectMeta{Name: "c03b-two-nodes"},
		Spec:       v1.NodePoolSpec{Limits: v1.Limits{resources.Node: nodeLimit}},
	})
	instanceTypes := []*cloudprovider.InstanceType{
		fake.NewInstanceType("only-2cpu", fake.WithResources(corev1.ResourceList{
			corev1.ResourceCPU:    resource.MustParse("2"),
			corev1.ResourceMemory: resource.MustParse("8Gi"),
			corev1.ResourcePods:   resource.MustParse("110"),
		})),
	}
	cloudProvider := fake.NewCloudProvider()
	cloudProvider.InstanceTypes = instanceTypes
	kubeClient := fakecr.NewFakeClient()
	clk := clocktesting.NewFakeClock(metav1.Now().Time)
	cluster := state.NewCluster(clk, kubeClient, cloudProvider)
	itMap := map[string][]*cloudprovider.InstanceType{nodePool.Name: instanceTypes}

	pods := test.UnschedulablePods(test.PodOptions{
		ResourceRequirements: corev1.ResourceRequirements{
			Requests: corev1.ResourceList{corev1.ResourceCPU: resource.MustParse("1500m")},
		},
	}, 3)
	stateNodes := cluster.DeepCopyNodes().Active()
	topology, err := NewTopology(ctx, kubeClient, cluster, stateNodes, []*v1.NodePool{nodePool}, itMap, pods)
	if err != nil {
		t.Fatalf("topology: %v", err)
	}
	s := NewScheduler(ctx, kubeClient, []*v1.NodePool{nodePool}, cluster, stateNodes, topology, itMap, nil,
		events.NewRecorder(&record.FakeRecorder{}), clk, nil, nil)
	results, err := s.Solve(ctx, pods)
	if err != nil {
		t.Fatalf("solve: %v", err)
	}
	rem := s.remainingResources[nodePool.Name][resources.Node]
	t.Logf("new NodeClaims=%d unschedulable pods=%d tracked remaining nodes=%s (limit %s)", len(results.NewNodeClaims), len(results.PodErrors), rem.String(), nodeLimit.String())
	// the provisioner's backstop, evaluated as Provisioner.Create does it: usage BEFORE each create, sequentially
	usage := int64(0)
	created := 0
	for range results.NewNodeClaims {
		if err := nodePool.Spec.Limits.ExceededBy(corev1.ResourceList{resources.Node: *resource.NewQuantity(usage, resource.DecimalSI)}); err != nil {
			t.Logf("create refused at usage=%d: %v", usage, err)
			continue
		}
		created++
		usage++ // UpdateNodeClaim counts the new claim as one node
	}
	t.Logf("NodeClaims created after the ExceededBy backstop: %d", created)
	if int64(created) > nodeLimit.Value() {
		t.Fatalf("C03 VIOLATED: %d nodes launched into NodePool %q limited to %s nodes", created, nodePool.Name, nodeLimit.String())
	}
}
