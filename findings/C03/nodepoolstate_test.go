package state

import "testing"

// Reserve against a pool, then the pool's last active NodeClaim goes away, then the reservation
// is released (the order static provisioning / static drift and a NodeClaim deletion can take).
func TestVerifReplayReleaseAfterCleanupDoesNotPanic(t *testing.T) {
	n := NewNodePoolState()
	n.SetNodeClaimMapping("np", "a")
	n.MarkNodeClaimActive("np", "a")
	if got := n.ReserveNodeCount("np", 5, 2); got != 2 {
		t.Fatalf("granted %d, want 2", got)
	}
	n.Cleanup("a")
	n.ReleaseNodeCount("np", 2) // nil dereference before the fix
}

// The outstanding reservation must survive the cleanup of the last active claim, otherwise a second
// reservation is granted on top of the first and the node limit is exceeded.
func TestVerifReplayReservationSurvivesCleanup(t *testing.T) {
	n := NewNodePoolState()
	n.SetNodeClaimMapping("np", "a")
	n.MarkNodeClaimActive("np", "a")
	first := n.ReserveNodeCount("np", 5, 4)
	n.Cleanup("a")
	second := n.ReserveNodeCount("np", 5, 5)
	if first+second > 5 {
		t.Fatalf("reservations %d + %d exceed the node limit 5", first, second)
	}
}

// A NodeClaim pending disruption must stay counted when the pool's last active claim is cleaned up.
func TestVerifReplayPendingDisruptionSurvivesCleanup(t *testing.T) {
	n := NewNodePoolState()
	n.SetNodeClaimMapping("np", "a")
	n.SetNodeClaimMapping("np", "b")
	n.MarkNodeClaimActive("np", "a")
	n.MarkNodeClaimPendingDisruption("np", "b")
	n.Cleanup("a")
	if _, _, pending := n.GetNodeCount("np"); pending != 1 {
		t.Fatalf("pending-disruption count = %d, want 1", pending)
	}
}
