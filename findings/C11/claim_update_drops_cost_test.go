package state

// Demonstration for C11 (cluster state equals a fresh recomputation): Cluster.UpdateNodeClaim rebuilds the
// StateNode through newStateFromNodeClaim, which carries over every per-node aggregate of the previous
// StateNode except podDisruptionCosts. After any NodeClaim update the node's DisruptionCost therefore falls
// back to the base cost 1 although its pods (and their eviction costs) are unchanged, until every pod
// happens to be reconciled again.

import (
	"testing"
	"time"

	corev1 "k8s.io/api/core/v1"
	metav1 "k8s.io/apimachinery/pkg/apis/meta/v1"
	"k8s.io/apimachinery/pkg/types"
	clock "k8s.io/utils/clock/testing"

	v1 "sigs.k8s.io/karpenter/pkg/apis/v1"
)

func TestC11ClaimUpdateDropsDisruptionCost(t *testing.T) {
	c := NewCluster(clock.NewFakeClock(time.Now()), nil, nil)
	nc := &v1.NodeClaim{ObjectMeta: metav1.ObjectMeta{Name: "claim"}, Status: v1.NodeClaimStatus{ProviderID: "fake://1"}}
	c.UpdateNodeClaim(nc)
	n := c.nodes["fake://1"]
	// what updateForPod records for three pods with eviction cost 1 each
	n.podDisruptionCosts = map[types.NamespacedName]float64{
		{Namespace: "default", Name: "a"}: 1, {Namespace: "default", Name: "b"}: 1, {Namespace: "default", Name: "c"}: 1,
	}
	n.podRequests[types.NamespacedName{Namespace: "default", Name: "a"}] = corev1.ResourceList{}
	before := c.nodes["fake://1"].DisruptionCost()

	nc2 := nc.DeepCopy()
	nc2.Labels = map[string]string{"touched": "true"} // any update of the NodeClaim
	c.UpdateNodeClaim(nc2)
	after := c.nodes["fake://1"].DisruptionCost()
	kept := len(c.nodes["fake://1"].podRequests)

	t.Logf("DisruptionCost before the NodeClaim update: %v, after: %v (podRequests entries carried over: %d)", before, after, kept)
	if after != before {
		t.Fatalf("C11 violated: the pods did not change, yet the node's disruption cost went from %v to %v", before, after)
	}
}
