package scheduling

// Demonstration for C11 (volume usage equals a fresh recomputation): VolumeUsage.Add only ever unions the
// pod's volumes into the per-driver sets. Cluster.updateNodeUsageFromPod calls it on every reconcile of an
// already tracked pod, so when the pod is later seen with fewer volumes (a PVC was deleted: GetVolumes skips
// PVCs that are NotFound; or the driver name resolved differently once the PV was bound) the old id stays
// counted against the node's volume limit until some pod is deleted from that node.

import (
	"testing"

	corev1 "k8s.io/api/core/v1"
	metav1 "k8s.io/apimachinery/pkg/apis/meta/v1"
	"k8s.io/apimachinery/pkg/util/sets"
)

func TestC11VolumeReAddKeepsStaleVolume(t *testing.T) {
	pod := &corev1.Pod{ObjectMeta: metav1.ObjectMeta{Namespace: "default", Name: "p"}}
	v := NewVolumeUsage()
	v.AddLimit("csi.example.com", 1)
	v.Add(pod, Volumes{"csi.example.com": sets.New("default/a", "default/b")})
	v.Add(pod, Volumes{"csi.example.com": sets.New("default/a")}) // the pod as it is now: PVC b is gone

	fresh := NewVolumeUsage()
	fresh.AddLimit("csi.example.com", 1)
	fresh.Add(pod, Volumes{"csi.example.com": sets.New("default/a")})

	// the same pod with the same single volume: must fit on both
	probe := Volumes{"csi.example.com": sets.New("default/a")}
	got, want := v.ExceedsLimits(probe), fresh.ExceedsLimits(probe)
	t.Logf("incremental state: %v; recomputed from the API: %v", got, want)
	if (got == nil) != (want == nil) {
		t.Fatalf("C11 violated: tracked volume usage differs from a fresh recomputation (%v vs %v)", got, want)
	}
}
