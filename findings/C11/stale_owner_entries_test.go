package state

// Demonstration for C11: a pod deleted and recreated under the same namespace/name on the same node with a
// different owner kind (daemonset pod -> plain pod, or the reverse), where Karpenter only observes the
// latest version. updateForPod overwrites the entries that apply to the new pod but leaves the ones that
// stopped applying, so the node's daemonset requests (or its disruption cost) keep counting a pod that
// no longer exists in that role; a recomputation from the API would not.

import (
	"context"
	"testing"

	appsv1 "k8s.io/api/apps/v1"
	corev1 "k8s.io/api/core/v1"
	"k8s.io/apimachinery/pkg/api/resource"
	metav1 "k8s.io/apimachinery/pkg/apis/meta/v1"
)

func TestC11StaleDaemonEntriesAfterOwnerChange(t *testing.T) {
	ctx := context.Background()
	mk := func(daemon bool) *corev1.Pod {
		p := &corev1.Pod{ObjectMeta: metav1.ObjectMeta{Namespace: "default", Name: "agent"},
			Spec: corev1.PodSpec{Containers: []corev1.Container{{Name: "c", Resources: corev1.ResourceRequirements{
				Requests: corev1.ResourceList{corev1.ResourceCPU: resource.MustParse("1")}}}}}}
		if daemon {
			p.OwnerReferences = []metav1.OwnerReference{{APIVersion: appsv1.SchemeGroupVersion.String(), Kind: "DaemonSet", Name: "ds", UID: "1", Controller: new(bool)}}
			*p.OwnerReferences[0].Controller = true
		}
		return p
	}
	n := NewNode()
	if err := n.updateForPod(ctx, nil, mk(true)); err != nil {
		t.Fatal(err)
	}
	// the daemonset pod is gone; a plain pod with the same name now runs on the node
	if err := n.updateForPod(ctx, nil, mk(false)); err != nil {
		t.Fatal(err)
	}
	fresh := NewNode()
	_ = fresh.updateForPod(ctx, nil, mk(false))
	got, want := n.DaemonSetRequests(), fresh.DaemonSetRequests()
	t.Logf("daemonset requests tracked: %v; recomputed from the API: %v", got, want)
	if got.Cpu().Cmp(*want.Cpu()) != 0 {
		t.Fatalf("C11 violated: stale daemonset request of the replaced pod is still counted (%v vs %v)", got.Cpu(), want.Cpu())
	}
}
