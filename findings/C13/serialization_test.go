package scheduling

// Demonstrations for C13 against the real code (in-package test, injected with go test -overlay):
//  1. a requirement that is an exclusion list AND carries a bound is serialized as the bound only, so the
//     NodeClaim written to the API admits a value the scheduler's requirement rejects;
//  2. Requirement.Any() panics for requirements that NodePool validation accepts (Lt 0, Lte MaxInt64,
//     Gte MaxInt64), reached through NodeClaimTemplate.ToNodeClaim -> resolveCustomLabelsFromRequirements.

import (
	"fmt"
	"math"
	"testing"

	corev1 "k8s.io/api/core/v1"

	v1 "sigs.k8s.io/karpenter/pkg/apis/v1"
)

func TestC13BoundDropsExclusions(t *testing.T) {
	key := "example.com/generation"
	r := NewRequirements(
		NewRequirement(key, corev1.NodeSelectorOpNotIn, "5"),
		NewRequirement(key, v1.NodeSelectorOpGte, "3"),
	)
	if r.Get(key).Has("5") {
		t.Fatalf("setup: the in-memory requirement should reject 5")
	}
	written := r.NodeSelectorRequirements()
	t.Logf("written to the NodeClaim: %+v", written)
	back := NewNodeSelectorRequirementsWithMinValues(written...)
	if back.Get(key).Has("5") {
		t.Fatalf("C13 violated: scheduler requirement rejects %q=5, the serialized NodeClaim requirement admits it", key)
	}
}

func TestC13AnyPanics(t *testing.T) {
	for _, tc := range []struct {
		op  corev1.NodeSelectorOperator
		val string
	}{
		{corev1.NodeSelectorOpLt, "0"},
		{v1.NodeSelectorOpLte, fmt.Sprint(math.MaxInt64)},
		{v1.NodeSelectorOpGte, fmt.Sprint(math.MaxInt64)},
	} {
		func() {
			defer func() {
				if p := recover(); p != nil {
					t.Errorf("C13 violated: Any() panics for %s %s: %v", tc.op, tc.val, p)
				}
			}()
			_ = NewRequirement("example.com/n", tc.op, tc.val).Any()
		}()
	}
}
