package main

import (
	"fmt"
	"go/ast"
	"go/token"
	"go/types"
	"os"
	"sort"
	"strings"

	"golang.org/x/tools/go/ssa"
)

// State is the symbolic machine state at a program point.
type State struct {
	pc     Term
	heap   map[string]Term // component -> current term (absent: initial constant)
	alloc  Term
	binder *heapBinder
}

func (s *State) clone() *State {
	n := &State{pc: s.pc, alloc: s.alloc, heap: make(map[string]Term, len(s.heap)), binder: s.binder}
	for k, v := range s.heap {
		n.heap[k] = v
	}
	return n
}

// Engine holds what is shared between all frames of one function verification.
type Engine struct {
	vc          *VC
	prog        *Program
	cs          *Contracts
	compSort    map[string]string // component -> SMT sort
	inlineN     int
	maxDepth    int
	callLog     []*CallRec // every call executed in the top frame (for @pattern and must-call)
	siteHits    map[*SiteSpec]int
	sitePat     map[*SiteSpec]int
	siteInstr   map[*SiteSpec]ssa.Instruction
	topFrame    *Frame
	allocEvents []allocEvent
	freshOnly   map[string]string // heap version -> the version it differs from only inside objects allocated in between
	rngCtr      int
	compPkgs    map[string]map[string]bool
	importsOf   map[*types.Package]map[string]bool
	safeCtr     map[string]int
	callCtr     map[string]int
	usedPure    map[string]bool
	qn          int
	cardDone    map[string]bool
	condSets    map[string]condSetInfo
	privGlobals []string
	hasLocals   bool
	condHandles map[string]condHandle
	recFns      map[string]*recInfo
	privFields  map[string]string // field component -> package path, for unexported fields
}

type CallRec struct {
	Name    string // canonical callee name or iface method "(pkg.Iface).Method"
	Instr   ssa.Instruction
	Results []Term
	Args    []Term
	PC      Term
	Block   *ssa.BasicBlock // position of the (outermost) call site in the top-level function
	Index   int
	Depth   int
	After   *State // state right after the call returned
	Before  *State // state right before the call
}

type Closure struct {
	fn       *ssa.Function
	bindings []Term
	frame    *Frame
}

type retPoint struct {
	st      *State
	results []Term
	block   *ssa.BasicBlock
	idx     int
}

type Frame struct {
	eng          *Engine
	fn           *ssa.Function
	vals         map[ssa.Value]Term
	closures     map[ssa.Value]*Closure
	depth        int
	tag          string
	con          *Contract
	entry        *State
	top          bool
	rets         []retPoint
	loopMods     map[*ssa.BasicBlock]map[string]bool
	hdrStates    map[*ssa.BasicBlock]*State
	loopOrd      map[*ssa.BasicBlock]int
	ranges       map[ssa.Value]*rangeInfo
	defers       []*ssa.Defer
	params       []Term
	srcNames     map[string]ssa.Value
	srcRefs      map[string][]*ssa.DebugRef
	srcAddrs     map[string]ssa.Value
	parent       *Frame
	curBlock     *ssa.BasicBlock
	curIdx       int
	caseRecvs    []Term
	inLoopHdr    *ssa.BasicBlock
	loopBody     map[*ssa.BasicBlock]map[*ssa.BasicBlock]bool
	frameDone    bool
	appendStatic int
	backEdgeN    map[*ssa.BasicBlock]int
	loopEntries  map[*ssa.BasicBlock]*State
	frameTs      []modTarget
}

type rangeInfo struct {
	id      string
	mapLoc  Term
	mapType *types.Map
	dom0    Term // domain at Range time
	n       Term // number of keys
	keyAt   string
	idxOf   string
	ctrComp string // state component holding the iteration counter
	isStr   bool
}

func (e *Engine) comp(name, sort string) string {
	if _, ok := e.compSort[name]; !ok {
		e.compSort[name] = sort
		c0 := sym(name + "@0")
		e.vc.decl("comp:"+name, fmt.Sprintf("(declare-const %s %s)", c0, sort))
		// closed initial heap: what pre-allocated cells hold was allocated before the call
		switch {
		case sort == "(Array Loc Loc)":
			e.vc.decl("closed:"+name, fmt.Sprintf("(assert (forall ((l Loc)) (! (=> (< (rootid l) alloc@0) (< (rootid (select %s l)) alloc@0)) :pattern ((select %s l)))))", c0, c0))
		case sort == "(Array Loc Slice)":
			e.vc.decl("closed:"+name, fmt.Sprintf("(assert (forall ((l Loc)) (! (=> (< (rootid l) alloc@0) (< (rootid (s_arr (select %s l))) alloc@0)) :pattern ((select %s l)))))", c0, c0))
		case strings.HasPrefix(name, "MapDom$"):
			ks := strings.TrimSuffix(strings.TrimPrefix(sort, "(Array Loc (Array "), " Bool))")
			e.vc.decl("closed:"+name, fmt.Sprintf("(assert (= (select %s nil) %s))", c0, e.emptySet(ks)))
		case strings.HasPrefix(sort, "(Array Loc (Array ") && strings.HasSuffix(sort, " Loc))"):
			ks := strings.TrimSuffix(strings.TrimPrefix(sort, "(Array Loc (Array "), " Loc))")
			e.vc.decl("closed:"+name, fmt.Sprintf("(assert (forall ((l Loc) (k %s)) (! (=> (< (rootid l) alloc@0) (< (rootid (select (select %s l) k)) alloc@0)) :pattern ((select (select %s l) k)))))", ks, c0, c0))
		}
	}
	return name
}

// nilMapEmpty: whatever else is arbitrary about a havocked map-domain component, the nil map has no keys.
func (e *Engine) nilMapEmpty(c string, t Term) {
	if !strings.HasPrefix(c, "MapDom$") {
		return
	}
	ks := strings.TrimSuffix(strings.TrimPrefix(e.compSort[c], "(Array Loc (Array "), " Bool))")
	e.vc.assume(fmt.Sprintf("(= (select %s nil) %s)", t, e.emptySet(ks)))
}

// get returns the current term of a component.
func (e *Engine) get(st *State, comp string) Term {
	if t, ok := st.heap[comp]; ok {
		return t
	}
	if st.binder != nil {
		// heap-parametric evaluation (recursive spec functions): the component is a bound variable
		n := sym(fmt.Sprintf("hq$%d", len(st.binder.comps)))
		st.binder.comps = append(st.binder.comps, comp)
		st.binder.names = append(st.binder.names, n)
		st.heap[comp] = n
		return n
	}
	if strings.HasPrefix(comp, "$rng$") {
		return "0" // the Range instruction has not run on this path: no live iterator
	}
	return sym(comp + "@0")
}

type heapBinder struct {
	comps []string
	names []string
}

// ---- heap components ----

// notePkgs records the packages of the named types a component's cell type mentions. Code of a package
// that does not (transitively) import one of them cannot name that type, hence cannot write such a cell
// except through reflection or unsafe (listed assumption where used).
func (e *Engine) notePkgs(comp string, t types.Type) {
	if e.compPkgs == nil {
		e.compPkgs = map[string]map[string]bool{}
	}
	if e.compPkgs[comp] != nil {
		return
	}
	set := map[string]bool{}
	var walk func(t types.Type, d int)
	walk = func(t types.Type, d int) {
		if d > 4 {
			return
		}
		switch u := types.Unalias(t).(type) {
		case *types.Named:
			if u.Obj().Pkg() != nil {
				set[u.Obj().Pkg().Path()] = true
			}
			if ta := u.TypeArgs(); ta != nil {
				for i := 0; i < ta.Len(); i++ {
					walk(ta.At(i), d+1)
				}
			}
		case *types.Pointer:
			walk(u.Elem(), d+1)
		case *types.Slice:
			walk(u.Elem(), d+1)
		case *types.Map:
			walk(u.Key(), d+1)
			walk(u.Elem(), d+1)
		}
	}
	walk(t, 0)
	e.compPkgs[comp] = set
}

// invisibleTo: some type of the component is declared in a karpenter package that `from` does not import.
func (e *Engine) invisibleTo(comp string, from *types.Package) bool {
	if from == nil {
		return false
	}
	if e.importsOf == nil {
		e.importsOf = map[*types.Package]map[string]bool{}
	}
	imp := e.importsOf[from]
	if imp == nil {
		imp = map[string]bool{from.Path(): true}
		var walk func(p *types.Package)
		walk = func(p *types.Package) {
			for _, q := range p.Imports() {
				if !imp[q.Path()] {
					imp[q.Path()] = true
					walk(q)
				}
			}
		}
		walk(from)
		e.importsOf[from] = imp
	}
	for p := range e.compPkgs[comp] {
		if strings.HasPrefix(p, modPath+"/") && !imp[p] {
			return true
		}
	}
	return false
}

func (e *Engine) fieldComp(structT types.Type, i int) (comp string, boxed bool) {
	if pt, ok := structT.Underlying().(*types.Pointer); ok {
		structT = pt.Elem()
	}
	st := structT.Underlying().(*types.Struct)
	ft := st.Field(i).Type()
	if e.prog.escFields[fieldKey(structT, i)] {
		return e.boxComp(ft), true
	}
	name := fmt.Sprintf("F$%s$%s", shortTypeKey(structT), st.Field(i).Name())
	if nt, ok := types.Unalias(structT).(*types.Named); ok && nt.Obj().Pkg() != nil {
		e.notePkgs(name, nt)
	}
	if nt, ok := structT.(*types.Named); ok && nt.Obj().Pkg() != nil && !st.Field(i).Exported() {
		if e.privFields == nil {
			e.privFields = map[string]string{}
		}
		e.privFields[name] = nt.Obj().Pkg().Path()
	}
	return e.comp(name, fmt.Sprintf("(Array Loc %s)", e.vc.sortOf(ft))), false
}

// boxComp: the heap component holding cells of static type t that are not struct fields (slice
// elements, variables whose address is taken, pointees of pointers to scalars). Cells of pointer or map
// type are kept apart by their underlying Go type: without unsafe, a cell of type *A cannot be reached
// through a pointer to a cell of type *B (pointer conversion needs identical underlying base types).
func (e *Engine) boxComp(t types.Type) string {
	s := e.vc.sortOf(t)
	name := "Box$" + strings.Trim(s, "|")
	if s == "Loc" {
		switch u := types.Unalias(t).Underlying().(type) {
		case *types.Pointer, *types.Map:
			name += "$" + shortTypeKey(u)
			e.notePkgs(name, u)
		}
	}
	return e.comp(name, fmt.Sprintf("(Array Loc %s)", s))
}

// mapTypeTag distinguishes maps by their Go type where the SMT sorts alone would merge them (pointer or
// map valued maps, named key types): two maps of non-identical types cannot be the same object.
func mapTypeTag(mt *types.Map) string {
	return "$" + shortTypeKey(types.NewMap(types.Unalias(mt.Key()), types.Unalias(mt.Elem())))
}

func (e *Engine) mapDomComp(mt *types.Map) string {
	ks := e.vc.sortOf(mt.Key())
	vs := e.vc.sortOf(mt.Elem())
	// one domain component per (key, value) type: maps of different types cannot alias
	name := "MapDom$" + strings.Trim(ks, "|") + "$" + strings.Trim(vs, "|") + mapTypeTag(mt)
	e.notePkgs(name, mt)
	return e.comp(name, fmt.Sprintf("(Array Loc (Array %s Bool))", ks))
}

func (e *Engine) mapValComp(mt *types.Map) string {
	ks := e.vc.sortOf(mt.Key())
	vs := e.vc.sortOf(mt.Elem())
	name := "MapVal$" + strings.Trim(ks, "|") + "$" + strings.Trim(vs, "|") + mapTypeTag(mt)
	e.notePkgs(name, mt)
	return e.comp(name, fmt.Sprintf("(Array Loc (Array %s %s))", ks, vs))
}

func (e *Engine) cardFn(keySort string) string {
	n := sym("card$" + strings.Trim(keySort, "|"))
	e.vc.decl("fn:"+n, fmt.Sprintf("(declare-fun %s ((Array %s Bool)) Int)", n, keySort))
	return n
}

// card returns the cardinality term of a key set and emits its ground axioms
// (non-negative; positive exactly when some key is present) without array equalities.
func (e *Engine) card(keySort string, dom Term) Term {
	n := e.cardFn(keySort)
	t := fmt.Sprintf("(%s %s)", n, dom)
	if e.vc.noname == 0 {
		w := sym("cardwit$" + strings.Trim(keySort, "|"))
		e.vc.decl("fn:"+w, fmt.Sprintf("(declare-fun %s ((Array %s Bool)) %s)", w, keySort, keySort))
		k := "cardfact:" + t
		if !e.cardDone[k] {
			if e.cardDone == nil {
				e.cardDone = map[string]bool{}
			}
			e.cardDone[k] = true
			e.vc.assume(fmt.Sprintf("(and (>= %s 0) (=> (> %s 0) (select %s (%s %s))) (forall ((k %s)) (! (=> (select %s k) (> %s 0)) :pattern ((select %s k)))))", t, t, dom, w, dom, keySort, dom, t, dom))
		}
	}
	return t
}

func (e *Engine) emptySet(keySort string) Term {
	return fmt.Sprintf("((as const (Array %s Bool)) false)", keySort)
}

// loadAt reads a value of type t stored at location loc (cell or struct path).
func (e *Engine) loadAt(st *State, loc Term, t types.Type) Term {
	if isStructLike(t) {
		if stt, ok := t.Underlying().(*types.Struct); ok {
			e.vc.sortOf(t)
			if stt.NumFields() == 0 {
				return e.vc.structCtor(t)
			}
			var fs []string
			for i := 0; i < stt.NumFields(); i++ {
				fs = append(fs, e.loadField(st, loc, t, i))
			}
			return fmt.Sprintf("(%s %s)", e.vc.structCtor(t), strings.Join(fs, " "))
		}
		// arrays as values: opaque
		return e.vc.fresh("arrval", e.vc.sortOf(t))
	}
	return sel(e.get(st, e.boxComp(t)), loc)
}

func (e *Engine) loadField(st *State, base Term, structT types.Type, i int) Term {
	if pt, ok := structT.Underlying().(*types.Pointer); ok {
		structT = pt.Elem()
	}
	ft := structT.Underlying().(*types.Struct).Field(i).Type()
	if isStructLike(ft) {
		return e.loadAt(st, fmt.Sprintf("(fld %s %d)", base, i), ft)
	}
	comp, boxed := e.fieldComp(structT, i)
	if boxed {
		return sel(e.get(st, comp), fmt.Sprintf("(fld %s %d)", base, i))
	}
	return sel(e.get(st, comp), base)
}

func (e *Engine) storeAt(st *State, loc Term, t types.Type, v Term) {
	if isStructLike(t) {
		if stt, ok := t.Underlying().(*types.Struct); ok {
			for i := 0; i < stt.NumFields(); i++ {
				fv := v
				if v != "" {
					fv = fmt.Sprintf("(%s %s)", e.vc.structSel(t, i), v)
				}
				e.storeField(st, loc, t, i, fv)
			}
			return
		}
		return
	}
	c := e.boxComp(t)
	st.heap[c] = e.vc.name("h", e.compSort[c], sto(e.get(st, c), loc, v))
}

func (e *Engine) storeField(st *State, base Term, structT types.Type, i int, v Term) {
	if pt, ok := structT.Underlying().(*types.Pointer); ok {
		structT = pt.Elem()
	}
	ft := structT.Underlying().(*types.Struct).Field(i).Type()
	if isStructLike(ft) {
		e.storeAt(st, fmt.Sprintf("(fld %s %d)", base, i), ft, v)
		return
	}
	comp, boxed := e.fieldComp(structT, i)
	ix := base
	if boxed {
		ix = fmt.Sprintf("(fld %s %d)", base, i)
	}
	st.heap[comp] = e.vc.name("h", e.compSort[comp], sto(e.get(st, comp), ix, v))
}

// zeroAt initialises fresh storage of type t at loc.
func (e *Engine) zeroAt(st *State, loc Term, t types.Type) {
	if isStructLike(t) {
		if stt, ok := t.Underlying().(*types.Struct); ok {
			for i := 0; i < stt.NumFields(); i++ {
				ft := stt.Field(i).Type()
				if isStructLike(ft) {
					e.zeroAt(st, fmt.Sprintf("(fld %s %d)", loc, i), ft)
				} else {
					e.storeField(st, loc, t, i, e.vc.zero(ft))
				}
			}
			return
		}
		if at, ok := t.Underlying().(*types.Array); ok {
			// elements zero: quantified fact on a fresh version of the Box component
			et := at.Elem()
			if isStructLike(et) {
				return // fields of fresh elements are unconstrained (sound: over-approximation)
			}
			c := e.boxComp(et)
			old := e.get(st, c)
			nw := e.vc.fresh("h", e.compSort[c])
			e.vc.assume(fmt.Sprintf("(forall ((l Loc)) (! (= (select %s l) (ite (and (is_idx l) (= (idx_base l) %s)) %s (select %s l))) :pattern ((select %s l))))", nw, loc, e.vc.zero(et), old, nw))
			st.heap[c] = nw
			return
		}
		return
	}
	e.storeAt(st, loc, t, e.vc.zero(t))
}

func (e *Engine) newObj(st *State) Term {
	loc := fmt.Sprintf("(obj %s)", st.alloc)
	loc = e.vc.name("new", "Loc", loc)
	if !strings.HasPrefix(loc, "(obj") {
		// named
	}
	st.alloc = e.vc.name("alloc", "Int", fmt.Sprintf("(+ %s 1)", st.alloc))
	return loc
}

// wf emits the well-formedness fact for a value of type t read from memory or received from outside.
func (e *Engine) wf(st *State, v Term, t types.Type) {
	switch e.vc.sortOf(t) {
	case "Loc":
		e.vc.assumeIf(st.pc, fmt.Sprintf("(< (rootid %s) %s)", v, st.alloc))
	case "Slice":
		e.vc.assumeIf(st.pc, fmt.Sprintf("(and (< (rootid (s_arr %s)) %s) (<= 0 (s_len %s)) (<= (s_len %s) (s_cap %s)) (<= 0 (s_off %s)) (=> (> (s_cap %s) 0) (<= 0 (rootid (s_arr %s)))))", v, st.alloc, v, v, v, v, v, v))
	case "Int":
		if b, ok := t.Underlying().(*types.Basic); ok && b.Info()&types.IsUnsigned != 0 {
			e.vc.assumeIf(st.pc, fmt.Sprintf("(>= %s 0)", v))
		}
	}
}

// ---- frames ----

func (e *Engine) newFrame(fn *ssa.Function, parent *Frame) *Frame {
	e.inlineN++
	fr := &Frame{eng: e, fn: fn, vals: map[ssa.Value]Term{}, closures: map[ssa.Value]*Closure{},
		tag: fmt.Sprintf("%d", e.inlineN), loopMods: map[*ssa.BasicBlock]map[string]bool{}, hdrStates: map[*ssa.BasicBlock]*State{},
		ranges: map[ssa.Value]*rangeInfo{}, parent: parent}
	if parent != nil {
		fr.depth = parent.depth + 1
	}
	fr.srcNames = map[string]ssa.Value{}
	fr.srcRefs = map[string][]*ssa.DebugRef{}
	amb := map[string]bool{}
	for _, b := range fn.Blocks {
		for _, ins := range b.Instrs {
			if al, ok := ins.(*ssa.Alloc); ok && al.Comment != "" && al.Comment != "complit" && al.Comment != "new" && al.Comment != "varargs" {
				if fr.srcAddrs == nil {
					fr.srcAddrs = map[string]ssa.Value{}
				}
				if old, ok := fr.srcAddrs[al.Comment]; ok && old != al {
					fr.srcAddrs[al.Comment] = nil
				} else if !ok {
					fr.srcAddrs[al.Comment] = al
				}
			}
			if d, ok := ins.(*ssa.DebugRef); ok && d.IsAddr {
				if id, ok := d.Expr.(*ast.Ident); ok {
					if fr.srcAddrs == nil {
						fr.srcAddrs = map[string]ssa.Value{}
					}
					if old, ok := fr.srcAddrs[id.Name]; ok && old != d.X {
						fr.srcAddrs[id.Name] = nil
					} else if !ok {
						fr.srcAddrs[id.Name] = d.X
					}
				}
			}
			if d, ok := ins.(*ssa.DebugRef); ok && !d.IsAddr {
				if id, ok := d.Expr.(*ast.Ident); ok {
					fr.srcRefs[id.Name] = append(fr.srcRefs[id.Name], d)
					if old, ok := fr.srcNames[id.Name]; ok && old != d.X {
						amb[id.Name] = true
					}
					fr.srcNames[id.Name] = d.X
				}
			}
		}
	}
	for n := range amb {
		delete(fr.srcNames, n)
	}
	return fr
}

// srcValue resolves a source-level local name at the current point: the unique SSA value it
// denotes; inside a loop invariant, the value its uses inside that loop denote.
func (fr *Frame) srcValue(name string) (ssa.Value, bool) {
	if v, ok := fr.srcNames[name]; ok {
		return v, true
	}
	refs := fr.srcRefs[name]
	if len(refs) == 0 {
		return nil, false
	}
	if h := fr.inLoopHdr; h != nil {
		var found ssa.Value
		okc := true
		for _, d := range refs {
			if fr.inLoop(h, d.Block()) {
				if _, isPhi := d.X.(*ssa.Phi); isPhi && d.X.(*ssa.Phi).Block() == h {
					continue
				}
				if found != nil && found != d.X {
					okc = false
				}
				found = d.X
			}
		}
		if found != nil && okc {
			return found, true
		}
	}
	// otherwise: the reference that most closely dominates the current point
	if cur := fr.curBlock; cur != nil {
		depth := func(b *ssa.BasicBlock) int {
			n := 0
			for x := b; x != nil; x = x.Idom() {
				n++
			}
			return n
		}
		var best *ssa.DebugRef
		for _, d := range refs {
			if d.Block() != cur && !d.Block().Dominates(cur) {
				continue
			}
			if _, ok := fr.vals[d.X]; !ok {
				if _, isConst := d.X.(*ssa.Const); !isConst {
					continue
				}
			}
			if best == nil || depth(d.Block()) > depth(best.Block()) || (d.Block() == best.Block() && d.Pos() > best.Pos()) {
				best = d
			}
		}
		if best != nil {
			return best.X, true
		}
	}
	return nil, false
}

// globalLoc: the location of a package-level variable (usable without a frame, e.g. in lemmas).
func (e *Engine) globalLoc(v *ssa.Global) Term {
	if e.topFrame != nil {
		return e.topFrame.val(v)
	}
	vc := e.vc
	n := sym("glob$" + shortName(v.String()))
	if !vc.declared["glob:"+n] {
		vc.decl("glob:"+n, fmt.Sprintf("(declare-const %s Loc)", n))
		vc.decls = append(vc.decls, fmt.Sprintf("(assert (and (is_obj %s) (not (= %s nil)) (>= (rootid %s) 0) (< (rootid %s) alloc@0)))", n, n, n, n))
		vc.globals = append(vc.globals, n)
	}
	return n
}

type unsupported string

func (fr *Frame) unsup(f string, a ...any) {
	panic(unsupported(fmt.Sprintf("%s: %s", fr.fn.String(), fmt.Sprintf(f, a...))))
}

func (fr *Frame) val(v ssa.Value) Term {
	vc := fr.eng.vc
	switch v := v.(type) {
	case *ssa.Const:
		return vc.constTerm(v.Value, v.Type())
	case *ssa.Global:
		n := sym("glob$" + shortName(v.String()))
		if !vc.declared["glob:"+n] {
			vc.decl("glob:"+n, fmt.Sprintf("(declare-const %s Loc)", n))
			vc.decls = append(vc.decls, fmt.Sprintf("(assert (and (not (= %s nil)) (is_obj %s) (>= (rootid %s) 0) (< (rootid %s) alloc@0)))", n, n, n, n))
			vc.globals = append(vc.globals, n)
			top := fr
			for top.parent != nil {
				top = top.parent
			}
			if v.Pkg != nil && top.fn.Pkg != nil && v.Pkg == top.fn.Pkg && v.Object() != nil && !v.Object().Exported() {
				fr.eng.privGlobals = append(fr.eng.privGlobals, n)
				vc.decl("fn:privroot", "(declare-fun privroot (Int) Bool)")
				vc.decls = append(vc.decls, fmt.Sprintf("(assert (privroot (rootid %s)))", n))
			}
		}
		return n
	case *ssa.Function:
		n := sym("fn$" + shortName(v.String()))
		vc.decl("fnv:"+n, fmt.Sprintf("(declare-const %s Loc)", n))
		if _, ok := fr.closures[v]; !ok {
			fr.closures[v] = &Closure{fn: v, frame: fr}
		}
		return n
	case *ssa.Builtin:
		return "nil"
	}
	if t, ok := fr.vals[v]; ok {
		return t
	}
	// free variable of an enclosing function
	if fv, ok := v.(*ssa.FreeVar); ok {
		fr.unsup("unbound free variable %s", fv.Name())
	}
	fr.unsup("value %s (%T) used before definition", v.Name(), v)
	return ""
}

func (fr *Frame) closureOf(v ssa.Value) *Closure {
	for f := fr; f != nil; f = f.parent {
		if c, ok := f.closures[v]; ok {
			return c
		}
	}
	if fn, ok := v.(*ssa.Function); ok {
		return &Closure{fn: fn, frame: fr}
	}
	return nil
}

func (fr *Frame) setVal(v ssa.Value, t Term) {
	vc := fr.eng.vc
	if len(t) > 60 {
		t = vc.name(fmt.Sprintf("%s.%s", fr.fn.Name(), v.Name()), vc.sortOf(v.Type()), t)
	}
	fr.vals[v] = t
}

// ---- CFG helpers ----

func dominates(a, b *ssa.BasicBlock) bool { return a.Dominates(b) }

func isBackEdge(from, to *ssa.BasicBlock) bool { return to.Dominates(from) }

func rpo(fn *ssa.Function) []*ssa.BasicBlock {
	seen := map[*ssa.BasicBlock]bool{}
	var post []*ssa.BasicBlock
	var visit func(b *ssa.BasicBlock)
	visit = func(b *ssa.BasicBlock) {
		seen[b] = true
		for _, s := range b.Succs {
			if !seen[s] && !isBackEdge(b, s) {
				visit(s)
			}
		}
		post = append(post, b)
	}
	visit(fn.Blocks[0])
	for i, j := 0, len(post)-1; i < j; i, j = i+1, j-1 {
		post[i], post[j] = post[j], post[i]
	}
	return post
}

func loopHeaders(fn *ssa.Function) []*ssa.BasicBlock {
	hs := map[*ssa.BasicBlock]bool{}
	for _, b := range fn.Blocks {
		for _, s := range b.Succs {
			if isBackEdge(b, s) {
				hs[s] = true
			}
		}
	}
	var out []*ssa.BasicBlock
	for b := range hs {
		out = append(out, b)
	}
	// ordinal by source position of the loop (falls back to block index)
	sort.Slice(out, func(i, j int) bool {
		pi, pj := blockPos(out[i]), blockPos(out[j])
		if pi != pj && pi != token.NoPos && pj != token.NoPos {
			return pi < pj
		}
		return out[i].Index < out[j].Index
	})
	return out
}

func blockPos(b *ssa.BasicBlock) token.Pos {
	for _, ins := range b.Instrs {
		if p := ins.Pos(); p != token.NoPos {
			return p
		}
	}
	for _, s := range b.Succs {
		for _, ins := range s.Instrs {
			if p := ins.Pos(); p != token.NoPos {
				return p
			}
		}
	}
	return token.NoPos
}

func hasLoops(fn *ssa.Function) bool { return len(loopHeaders(fn)) > 0 }

type edgeIn struct {
	st      *State
	predIdx int
}

func predIndex(from *ssa.BasicBlock, succIdx int) int {
	to := from.Succs[succIdx]
	occ := 0
	for k := 0; k < succIdx; k++ {
		if from.Succs[k] == to {
			occ++
		}
	}
	for j, p := range to.Preds {
		if p == from {
			if occ == 0 {
				return j
			}
			occ--
		}
	}
	return -1
}

// run executes the frame's function from state st. Results are collected in fr.rets.
func (fr *Frame) run(st *State) {
	fn := fr.fn
	hdrs := loopHeaders(fn)
	fr.loopOrd = map[*ssa.BasicBlock]int{}
	for i, h := range hdrs {
		fr.loopOrd[h] = i + 1
	}
	if fr.eng.vc.dry > 0 {
		fr.pass(st, true)
		return
	}
	if len(hdrs) > 0 {
		// dry pass: find what each loop modifies
		e := fr.eng
		e.vc.dry++
		saveA, saveD, saveC := len(e.vc.asserts), len(e.vc.decls), e.vc.ctr
		saveDeclared := map[string]bool{}
		for k := range e.vc.declared {
			saveDeclared[k] = true
		}
		saveLog := len(e.callLog)
		// names derived from these counters (range counters, inlined-frame tags) must agree between the
		// dry pass, which records what each loop modifies, and the real pass
		saveRng, saveInl := e.rngCtr, e.inlineN
		saveVals := fr.vals
		saveClos := fr.closures
		fr.vals = map[ssa.Value]Term{}
		for k, v := range saveVals {
			fr.vals[k] = v
		}
		fr.closures = map[ssa.Value]*Closure{}
		for k, v := range saveClos {
			fr.closures[k] = v
		}
		fr.pass(st.clone(), true)
		fr.vals = saveVals
		fr.closures = saveClos
		fr.rets = nil
		fr.defers = nil
		e.callLog = e.callLog[:saveLog]
		e.rngCtr, e.inlineN = saveRng, saveInl
		e.vc.asserts = e.vc.asserts[:saveA]
		// keep declarations made in the dry pass (they are harmless) but restore nothing else
		_ = saveD
		_ = saveC
		_ = saveDeclared
		e.vc.dry--
	}
	fr.pass(st, false)
}

func (fr *Frame) pass(st *State, dry bool) {
	fn := fr.fn
	e := fr.eng
	in := map[*ssa.BasicBlock][]edgeIn{}
	in[fn.Blocks[0]] = []edgeIn{{st, -1}}
	for _, b := range rpo(fn) {
		edges := in[b]
		if len(edges) == 0 {
			if os.Getenv("KVC_DEBUG") != "" && fr.top {
				fmt.Fprintf(os.Stderr, "unreached block %d of %s (dry=%v)\n", b.Index, fn.Name(), dry)
			}
			continue
		}
		var cur *State
		if _, isHdr := fr.loopOrd[b]; isHdr {
			cur = fr.enterLoop(b, edges, dry)
		} else {
			cur = fr.merge(b, edges)
		}
		fr.curBlock = b
		for i, ins := range b.Instrs {
			fr.curIdx = i
			if _, ok := ins.(*ssa.Phi); ok {
				continue
			}
			switch ins := ins.(type) {
			case *ssa.If:
				c := fr.val(ins.Cond)
				for k, s := range b.Succs {
					ns := cur.clone()
					if k == 0 {
						ns.pc = e.vc.name("pc", "Bool", and(cur.pc, c))
					} else {
						ns.pc = e.vc.name("pc", "Bool", and(cur.pc, not(c)))
					}
					fr.pushEdge(in, b, k, s, ns, dry)
				}
			case *ssa.Jump:
				fr.pushEdge(in, b, 0, b.Succs[0], cur, dry)
			case *ssa.Return:
				var rs []Term
				for _, r := range ins.Results {
					rs = append(rs, fr.val(r))
				}
				fr.rets = append(fr.rets, retPoint{cur, rs, b, i})
			case *ssa.Panic:
				fr.onPanic(cur, ins)
			default:
				fr.step(ins, cur)
			}
		}
	}
}

func (fr *Frame) pushEdge(in map[*ssa.BasicBlock][]edgeIn, from *ssa.BasicBlock, k int, to *ssa.BasicBlock, st *State, dry bool) {
	pi := predIndex(from, k)
	if isBackEdge(from, to) {
		fr.backEdge(to, st, pi, dry)
		return
	}
	in[to] = append(in[to], edgeIn{st, pi})
}

func (fr *Frame) mergeStates(edges []edgeIn) *State {
	e := fr.eng
	if len(edges) == 1 {
		return edges[0].st.clone()
	}
	out := &State{heap: map[string]Term{}}
	var pcs []Term
	for _, ed := range edges {
		pcs = append(pcs, ed.st.pc)
	}
	out.pc = e.vc.name("pc", "Bool", or(pcs...))
	keys := map[string]bool{}
	for _, ed := range edges {
		for k := range ed.st.heap {
			keys[k] = true
		}
	}
	for _, k := range sortedKeys(keys) {
		t := e.get(edges[len(edges)-1].st, k)
		for i := len(edges) - 2; i >= 0; i-- {
			t = ite(edges[i].st.pc, e.get(edges[i].st, k), t)
		}
		out.heap[k] = e.vc.name("h", e.compSort[k], t)
	}
	t := edges[len(edges)-1].st.alloc
	for i := len(edges) - 2; i >= 0; i-- {
		t = ite(edges[i].st.pc, edges[i].st.alloc, t)
	}
	out.alloc = e.vc.name("alloc", "Int", t)
	return out
}

func (fr *Frame) merge(b *ssa.BasicBlock, edges []edgeIn) *State {
	out := fr.mergeStates(edges)
	for _, ins := range b.Instrs {
		phi, ok := ins.(*ssa.Phi)
		if !ok {
			break
		}
		t := fr.val(phi.Edges[edges[len(edges)-1].predIdx])
		for i := len(edges) - 2; i >= 0; i-- {
			t = ite(edges[i].st.pc, fr.val(phi.Edges[edges[i].predIdx]), t)
		}
		if top := fr.eng.topFrame; top != nil && top.con != nil && top.con.Options["namedjoins"] && strings.HasPrefix(t, "(ite") {
			// a join value that is a constant symbol can be used in quantifier patterns (an ite cannot)
			t = fr.eng.vc.name("phi", fr.eng.vc.sortOf(phi.Type()), t)
		}
		fr.setVal(phi, t)
		if c := fr.mergeClosure(phi, edges); c != nil {
			fr.closures[phi] = c
		}
	}
	return out
}

func (fr *Frame) mergeClosure(phi *ssa.Phi, edges []edgeIn) *Closure { return nil }

func phiName(phi *ssa.Phi) string {
	c := phi.Comment
	return strings.TrimPrefix(c, "#")
}

// loopEnv binds the loop-carried names for invariant evaluation.
func (fr *Frame) loopBindings(h *ssa.BasicBlock, st *State, phiVal func(*ssa.Phi) Term) map[string]binding {
	env := map[string]binding{}
	if ri := fr.rangeOfLoop(h); ri != nil {
		env["$i"] = binding{fr.eng.get(st, ri.ctrComp), tInt}
		env["$n"] = binding{ri.n, tInt}
	}
	// range indices of the other (enclosing) loops: $i<ordinal>
	for h2, ord := range fr.loopOrd {
		if h2 == h {
			continue
		}
		for _, ins := range h2.Instrs {
			phi, ok := ins.(*ssa.Phi)
			if !ok {
				break
			}
			if n := phiName(phi); n == "rangeindex" || n == "rangeint.iter" {
				if t, ok := fr.vals[phi]; ok {
					env[fmt.Sprintf("$i%d", ord)] = binding{t, phi.Type()}
				}
			}
		}
	}
	for _, ins := range h.Instrs {
		phi, ok := ins.(*ssa.Phi)
		if !ok {
			break
		}
		n := phiName(phi)
		t := phiVal(phi)
		env[n] = binding{t, phi.Type()}
		if n == "rangeindex" || n == "rangeint.iter" {
			env["$i"] = binding{t, phi.Type()}
		}
	}
	return env
}

func (fr *Frame) invariants(h *ssa.BasicBlock) []*Clause {
	if fr.con == nil {
		return nil
	}
	return fr.con.Loops[fr.loopOrd[h]]
}

func (fr *Frame) enterLoop(h *ssa.BasicBlock, edges []edgeIn, dry bool) *State {
	defer func() { fr.inLoopHdr = nil }()
	e := fr.eng
	vc := e.vc
	entry := fr.mergeStates(edges)
	entryPhi := func(phi *ssa.Phi) Term {
		t := fr.val(phi.Edges[edges[len(edges)-1].predIdx])
		for i := len(edges) - 2; i >= 0; i-- {
			t = ite(edges[i].st.pc, fr.val(phi.Edges[edges[i].predIdx]), t)
		}
		return t
	}
	ord := fr.loopOrd[h]
	if dry {
		for _, ins := range h.Instrs {
			phi, ok := ins.(*ssa.Phi)
			if !ok {
				break
			}
			fr.vals[phi] = vc.fresh("dryphi", vc.sortOf(phi.Type()))
		}
		fr.hdrStates[h] = entry.clone()
		if fr.loopMods[h] == nil {
			fr.loopMods[h] = map[string]bool{}
		}
		return entry
	}
	invs := fr.invariants(h)
	if len(invs) == 0 && fr.top {
		vc.warn = append(vc.warn, fmt.Sprintf("%s: loop %d has no invariant", fr.fn.String(), ord))
	}
	if len(invs) == 0 && !fr.top && !(fr.con != nil && fr.con.Inline) {
		fr.unsup("inlined function has a loop (loop %d) and no invariants; give it a contract", ord)
	}
	// init obligations
	if fr.loopEntries == nil {
		fr.loopEntries = map[*ssa.BasicBlock]*State{}
	}
	fr.loopEntries[h] = entry.clone()
	fr.inLoopHdr = h
	env := fr.loopBindings(h, entry, entryPhi)
	for k, c := range invs {
		g := fr.evalClause(c, entry, env)
		vc.oblige(fr.oblName(fmt.Sprintf("loop%d.init.%s", ord, clauseID(c, k))), "loop-init", entry.pc, g, c.Src)
	}
	// havoc
	hst := entry.clone()
	for _, c := range sortedKeys(fr.loopMods[h]) {
		if c == "$alloc" {
			continue
		}
		if strings.HasPrefix(c, "$rng$") {
			if own := fr.rangeOfLoop(h); own == nil || own.ctrComp != c {
				// iterator of a range nested in this loop: at this loop's head it is not live (a new
				// Range instruction creates a new iterator), so it does not constrain map mutation
				hst.heap[c] = "0"
				continue
			}
		}
		hst.heap[c] = vc.fresh("lh$"+c, e.compSort[c])
		e.nilMapEmpty(c, hst.heap[c])
	}
	if fr.loopMods[h]["$alloc"] {
		na := vc.fresh("alloc", "Int")
		vc.assume(fmt.Sprintf("(>= %s %s)", na, entry.alloc))
		hst.alloc = na
	}
	delete(hst.heap, "$alloc")
	for _, ins := range h.Instrs {
		phi, ok := ins.(*ssa.Phi)
		if !ok {
			break
		}
		n := vc.fresh(fmt.Sprintf("%s.%s.%s", fr.fn.Name(), phi.Name(), phiName(phi)), vc.sortOf(phi.Type()))
		fr.vals[phi] = n
		fr.eng.wf(hst, n, phi.Type())
	}
	// auto facts for range counters (proved inductive by construction: counter only incremented by Next)
	fr.hdrStates[h] = hst.clone()
	env = fr.loopBindings(h, hst, func(phi *ssa.Phi) Term { return fr.vals[phi] })
	for _, c := range invs {
		vc.assumeIf(hst.pc, fr.evalClause(c, hst, env))
	}
	fr.autoRangeFacts(h, hst)
	// automatic bound of a slice-range index: -1 <= $i < n (proved at entry and on every back edge)
	if phi, n := rangeIndexBound(h); phi != nil {
		nt := fr.val(n)
		vc.oblige(fr.oblName(fmt.Sprintf("loop%d.init.auto-index", ord)), "loop-init", entry.pc, fmt.Sprintf("(and (<= (- 1) %s) (< %s %s))", entryPhi(phi), entryPhi(phi), nt), "range index within bounds")
		vc.assumeIf(hst.pc, fmt.Sprintf("(and (<= (- 1) %s) (< %s %s))", fr.vals[phi], fr.vals[phi], nt))
	}
	// automatic frame invariant: what the function's modifies clause excludes stays equal to the entry heap
	for _, c := range sortedKeys(fr.loopMods[h]) {
		if g := fr.frameGoal(c, entry); g != "" {
			vc.oblige(fr.oblName(fmt.Sprintf("loop%d.init.frame.%s", ord, c)), "loop-init", entry.pc, g, "loop frame: "+c+" unchanged outside the modifies clause")
			vc.assumeIf(hst.pc, fr.frameGoal(c, hst))
		}
	}
	return hst
}

// frameGoal: component c of st agrees with the entry heap on every pre-allocated location
// that the function's modifies clause does not name. "" when not applicable.
func (fr *Frame) frameGoal(c string, st *State) Term {
	if fr.top && fr.con != nil && fr.con.ModAll && len(fr.con.Except) > 0 && !strings.HasPrefix(c, "$") {
		e := fr.eng
		if !strings.HasPrefix(e.compSort[c], "(Array Loc ") {
			return ""
		}
		if !fr.frameDone {
			fr.frameDone = true
			menv := fr.specEnvFor(fr.entry)
			fr.frameTs = menv.resolveModifies(fr.con.Except)
		}
		cur := e.get(st, c)
		init := sym(c + "@0")
		it := inTargets(fr.frameTs, c, "l!frame")
		if it == "false" {
			return ""
		}
		if cur == init {
			return "true"
		}
		return fmt.Sprintf("(forall ((l!frame Loc)) (! (=> %s (= (select %s l!frame) (select %s l!frame))) :pattern ((select %s l!frame))))", it, cur, init, cur)
	}
	if !fr.top || fr.con == nil || !fr.con.HasMod || fr.con.ModAll || strings.HasPrefix(c, "$") {
		return ""
	}
	e := fr.eng
	if !strings.HasPrefix(e.compSort[c], "(Array Loc ") {
		return ""
	}
	if !fr.frameDone {
		fr.frameDone = true
		menv := fr.specEnvFor(fr.entry)
		fr.frameTs = menv.resolveModifies(fr.con.Modifies)
	}
	cur := e.get(st, c)
	init := sym(c + "@0")
	if cur == init {
		return "true"
	}
	l := "l!frame"
	cond := and(fmt.Sprintf("(< (rootid %s) alloc@0)", l), notInTargets(fr.frameTs, c, l))
	return fmt.Sprintf("(forall ((%s Loc)) (! (=> %s (= (select %s %s) (select %s %s))) :pattern ((select %s %s))))", l, cond, cur, l, init, l, cur, l)
}

// rangeIndexBound recognises the go/ssa lowering of "for i := range slice": a header with
// phi #rangeindex, next = phi+1, cond = next < n with n defined outside the loop.
func rangeIndexBound(h *ssa.BasicBlock) (*ssa.Phi, ssa.Value) {
	var phi *ssa.Phi
	for _, ins := range h.Instrs {
		if p, ok := ins.(*ssa.Phi); ok && phiName(p) == "rangeindex" {
			phi = p
		}
	}
	if phi == nil {
		return nil, nil
	}
	for _, ins := range h.Instrs {
		add, ok := ins.(*ssa.BinOp)
		if !ok || add.Op != token.ADD || add.X != phi {
			continue
		}
		for _, ins2 := range h.Instrs {
			lt, ok := ins2.(*ssa.BinOp)
			if ok && lt.Op == token.LSS && lt.X == add {
				if v, isIns := lt.Y.(ssa.Instruction); isIns && v.Block() == h {
					return nil, nil
				}
				return phi, lt.Y
			}
		}
	}
	return nil, nil
}

func clauseID(c *Clause, k int) string {
	if c.Label != "" {
		return c.Label
	}
	return fmt.Sprint(k + 1)
}

func (fr *Frame) backEdge(h *ssa.BasicBlock, st *State, predIdx int, dry bool) {
	defer func() { fr.inLoopHdr = nil }()
	e := fr.eng
	vc := e.vc
	if dry {
		fr.recordMods(st, fr.curBlock)
		return
	}
	ord := fr.loopOrd[h]
	fr.inLoopHdr = h
	if fr.backEdgeN == nil {
		fr.backEdgeN = map[*ssa.BasicBlock]int{}
	}
	fr.backEdgeN[h]++
	edgeTag := ""
	if n := fr.backEdgeN[h]; n > 1 {
		edgeTag = fmt.Sprintf(".e%d", n)
	}
	env := fr.loopBindings(h, st, func(phi *ssa.Phi) Term { return fr.val(phi.Edges[predIdx]) })
	for k, c := range fr.invariants(h) {
		g := fr.evalClause(c, st, env)
		vc.oblige(fr.oblName(fmt.Sprintf("loop%d.step.%s%s", ord, clauseID(c, k), edgeTag)), "loop-step", st.pc, g, c.Src)
	}
	if phi, n := rangeIndexBound(h); phi != nil {
		v := fr.val(phi.Edges[predIdx])
		vc.oblige(fr.oblName(fmt.Sprintf("loop%d.step.auto-index%s", ord, edgeTag)), "loop-step", st.pc, fmt.Sprintf("(and (<= (- 1) %s) (< %s %s))", v, v, fr.val(n)), "range index within bounds")
	}
	for _, c := range sortedKeys(fr.loopMods[h]) {
		if g := fr.frameGoal(c, st); g != "" && g != "true" {
			vc.oblige(fr.oblName(fmt.Sprintf("loop%d.step.frame.%s%s", ord, c, edgeTag)), "loop-step", st.pc, g, "loop frame: "+c+" unchanged outside the modifies clause")
		}
	}
	fr.autoRangeStep(h, st)
}

// recordMods (dry pass): whatever differs between st and the header state of every loop
// that encloses the current point, in this frame and in the calling frames, is modified by that loop.
func (fr *Frame) recordMods(st *State, from *ssa.BasicBlock) {
	e := fr.eng
	for f, blk := fr, from; f != nil; f, blk = f.parent, nil {
		if blk == nil {
			blk = f.curBlock
		}
		for h := range f.loopOrd {
			hs := f.hdrStates[h]
			if hs == nil || !f.inLoop(h, blk) {
				continue
			}
			mods := f.loopMods[h]
			if mods == nil {
				mods = map[string]bool{}
				f.loopMods[h] = mods
			}
			for k, v := range st.heap {
				if e.get(hs, k) != v {
					mods[k] = true
				}
			}
			if st.alloc != hs.alloc {
				mods["$alloc"] = true
			}
		}
	}
}

// inLoop: b belongs to the natural loop of header h.
func (fr *Frame) inLoop(h, b *ssa.BasicBlock) bool {
	if fr.loopBody == nil {
		fr.loopBody = map[*ssa.BasicBlock]map[*ssa.BasicBlock]bool{}
	}
	body := fr.loopBody[h]
	if body == nil {
		body = map[*ssa.BasicBlock]bool{h: true}
		var stack []*ssa.BasicBlock
		for _, p := range h.Preds {
			if isBackEdge(p, h) && !body[p] {
				body[p] = true
				stack = append(stack, p)
			}
		}
		for len(stack) > 0 {
			x := stack[len(stack)-1]
			stack = stack[:len(stack)-1]
			for _, p := range x.Preds {
				if !body[p] {
					body[p] = true
					stack = append(stack, p)
				}
			}
		}
		fr.loopBody[h] = body
	}
	return body[b]
}

func (fr *Frame) oblName(s string) string {
	n := shortName(canonName(fr.fn))
	if !fr.top {
		n = shortName(fr.eng.vc.fnKey) + "/" + n
	}
	return n + "#" + s
}

func (fr *Frame) onPanic(st *State, ins *ssa.Panic) {
	vc := fr.eng.vc
	top := fr
	for top.parent != nil {
		top = top.parent
	}
	if top.con != nil && top.con.MayPanic != nil {
		// panic allowed exactly under the stated condition of the entry state
		g := top.evalClause(top.con.MayPanic, top.entry, nil)
		vc.oblige(fr.oblName(fmt.Sprintf("safe.panic.%d", fr.panicOrd(ins))), "safety", st.pc, g, "panic only when "+top.con.MayPanic.Src)
		return
	}
	vc.oblige(fr.oblName(fmt.Sprintf("safe.panic.%d", fr.panicOrd(ins))), "safety", st.pc, "false", "panic unreachable")
}

func (fr *Frame) panicOrd(ins *ssa.Panic) int {
	n := 0
	for _, b := range fr.fn.Blocks {
		for _, i := range b.Instrs {
			if p, ok := i.(*ssa.Panic); ok {
				n++
				if p == ins {
					return n
				}
			}
		}
	}
	return n
}
