package main

import (
	"fmt"
	"go/constant"
	"go/types"
	"sort"
	"strings"

	"golang.org/x/tools/go/ssa"
)

// Stub library: assumed contracts on dependencies. Every stub used by a run is listed
// in the evidence file (trusted_base).

type stubFn func(cx *callCtx) []Term

var stubs = map[string]stubFn{}

func init() {
	noop := func(cx *callCtx) []Term { return cx.zeroResults() }
	for _, n := range []string{"Lock", "Unlock", "RLock", "RUnlock"} {
		stubs["sync.(*RWMutex)."+n] = noop
		stubs["sync.(*Mutex)."+n] = noop
	}
	const sets = "k8s.io/apimachinery/pkg/util/sets."
	stubs[sets+"(Set).Has"] = func(cx *callCtx) []Term {
		mt := cx.mapT(0)
		return []Term{sel(cx.dom(mt, cx.args[0]), cx.args[1])}
	}
	stubs[sets+"(Set).Len"] = func(cx *callCtx) []Term {
		mt := cx.mapT(0)
		return []Term{cx.fr.mapLen(cx.st, cx.args[0], mt)}
	}
	stubs[sets+"(Set).Insert"] = func(cx *callCtx) []Term {
		mt := cx.mapT(0)
		cx.setBulk(mt, cx.args[0], cx.args[1], true)
		return []Term{cx.args[0]}
	}
	stubs[sets+"(Set).Delete"] = func(cx *callCtx) []Term {
		mt := cx.mapT(0)
		cx.setBulk(mt, cx.args[0], cx.args[1], false)
		return []Term{cx.args[0]}
	}
	stubs[sets+"New"] = func(cx *callCtx) []Term {
		mt := cx.sig.Results().At(0).Type().Underlying().(*types.Map)
		r := cx.newSet(mt, func(k Term) Term { return "false" })
		if len(cx.args) > 0 {
			cx.setBulkN(mt, r, cx.args[0], true, 0)
		}
		return []Term{r}
	}
	binop := func(f func(a, b Term) Term) stubFn {
		return func(cx *callCtx) []Term {
			mt := cx.mapT(0)
			da, db := cx.dom(mt, cx.args[0]), cx.dom(mt, cx.args[1])
			r := cx.newSet(mt, func(k Term) Term { return f(sel(da, k), sel(db, k)) })
			return []Term{r}
		}
	}
	stubs[sets+"(Set).Union"] = binop(func(a, b Term) Term { return or(a, b) })
	stubs[sets+"(Set).Intersection"] = binop(func(a, b Term) Term { return and(a, b) })
	stubs[sets+"(Set).Difference"] = binop(func(a, b Term) Term { return and(a, not(b)) })
	stubs[sets+"(Set).Clone"] = func(cx *callCtx) []Term {
		mt := cx.mapT(0)
		da := cx.dom(mt, cx.args[0])
		return []Term{cx.newSet(mt, func(k Term) Term { return sel(da, k) })}
	}
	list := func(cx *callCtx) []Term {
		mt := cx.mapT(0)
		return []Term{cx.setToSlice(mt, cx.args[0])}
	}
	stubs[sets+"(Set).UnsortedList"] = list
	stubs[sets+"List"] = list

	const lo = "github.com/samber/lo."
	stubs[lo+"FromPtr"] = func(cx *callCtx) []Term {
		et := cx.argTs[0].Underlying().(*types.Pointer).Elem()
		e := cx.fr.eng
		return []Term{ite(eq(cx.args[0], "nil"), e.vc.zero(et), e.loadAt(cx.st, cx.args[0], et))}
	}
	stubs[lo+"ToPtr"] = func(cx *callCtx) []Term {
		e := cx.fr.eng
		loc := e.newObj(cx.st)
		e.storeAt(cx.st, loc, cx.argTs[0], cx.args[0])
		return []Term{loc}
	}
	stubs[lo+"Ternary"] = func(cx *callCtx) []Term { return []Term{ite(cx.args[0], cx.args[1], cx.args[2])} }

	stubs["strconv.Atoi"] = func(cx *callCtx) []Term {
		vc := cx.fr.eng.vc
		declAtoi(vc)
		s := cx.args[0]
		return []Term{fmt.Sprintf("(ite (atoi_ok %s) (atoi_val %s) 0)", s, s), fmt.Sprintf("(ite (atoi_ok %s) nil_iface atoi_err)", s)}
	}
	itoa := func(cx *callCtx) []Term {
		vc := cx.fr.eng.vc
		declAtoi(vc)
		return []Term{fmt.Sprintf("(itoa %s)", cx.args[0])}
	}
	stubs["strconv.Itoa"] = itoa
	stubs["strconv.FormatInt"] = itoa // base 10 at every call site in scope (checked by the stub user)

	nonNilErr := func(cx *callCtx) []Term {
		vc := cx.fr.eng.vc
		r := vc.fresh("err", "Iface")
		vc.assume(fmt.Sprintf("(not (= %s nil_iface))", r))
		return []Term{r}
	}
	stubs["fmt.Errorf"] = nonNilErr
	stubs["errors.New"] = nonNilErr
	stubs["go.uber.org/multierr.Append"] = func(cx *callCtx) []Term {
		vc := cx.fr.eng.vc
		vc.decl("fn:multierr_append", "(declare-fun multierr_append (Iface Iface) Iface)")
		vc.decl("ax:multierr_append", "(assert (forall ((a Iface) (b Iface)) (! (and (= (= (multierr_append a b) nil_iface) (and (= a nil_iface) (= b nil_iface))) (=> (= a nil_iface) (= (multierr_append a b) b)) (=> (= b nil_iface) (= (multierr_append a b) a))) :pattern ((multierr_append a b)))))")
		return []Term{fmt.Sprintf("(multierr_append %s %s)", cx.args[0], cx.args[1])}
	}
	stubs["github.com/awslabs/operatorpkg/option.Resolve"] = func(cx *callCtx) []Term {
		// applies caller-supplied option functions to a fresh zero value; assumed to touch only that value
		e := cx.fr.eng
		loc := e.newObj(cx.st)
		et := cx.sig.Results().At(0).Type().Underlying().(*types.Pointer).Elem()
		if st, ok := et.Underlying().(*types.Struct); ok {
			for i := 0; i < st.NumFields(); i++ {
				ft := st.Field(i).Type()
				if !isStructLike(ft) {
					v := e.vc.fresh("opt."+st.Field(i).Name(), e.vc.sortOf(ft))
					e.wf(cx.st, v, ft)
					e.storeField(cx.st, loc, et, i, v)
				}
			}
		}
		return []Term{loc}
	}
	// time.Time is an integer number of nanoseconds since the zero time; Duration is int64 nanoseconds
	stubs["time.(Time).Add"] = func(cx *callCtx) []Term { return []Term{fmt.Sprintf("(+ %s %s)", cx.args[0], cx.args[1])} }
	stubs["time.(Time).Sub"] = func(cx *callCtx) []Term { return []Term{fmt.Sprintf("(- %s %s)", cx.args[0], cx.args[1])} }
	stubs["time.(Time).Before"] = func(cx *callCtx) []Term { return []Term{fmt.Sprintf("(< %s %s)", cx.args[0], cx.args[1])} }
	stubs["time.(Time).After"] = func(cx *callCtx) []Term { return []Term{fmt.Sprintf("(> %s %s)", cx.args[0], cx.args[1])} }
	stubs["time.(Time).Equal"] = func(cx *callCtx) []Term { return []Term{eq(cx.args[0], cx.args[1])} }
	stubs["time.(Time).Compare"] = func(cx *callCtx) []Term {
		return []Term{fmt.Sprintf("(ite (< %s %s) (- 1) (ite (> %s %s) 1 0))", cx.args[0], cx.args[1], cx.args[0], cx.args[1])}
	}
	stubs["time.(Time).IsZero"] = func(cx *callCtx) []Term { return []Term{eq(cx.args[0], "0")} }
	stubs["time.(Time).UTC"] = func(cx *callCtx) []Term { return []Term{cx.args[0]} }
	stubs["time.(Time).Local"] = func(cx *callCtx) []Term { return []Term{cx.args[0]} }
	stubs["time.(Time).Truncate"] = func(cx *callCtx) []Term { return cx.freshResults("trunc") }
	stubs["k8s.io/apimachinery/pkg/apis/meta/v1.(*Time).IsZero"] = func(cx *callCtx) []Term {
		e := cx.fr.eng
		t := cx.argTs[0].Underlying().(*types.Pointer).Elem()
		return []Term{or(eq(cx.args[0], "nil"), eq(e.loadField(cx.st, cx.args[0], t, 0), "0"))}
	}
	stubs["k8s.io/apimachinery/pkg/apis/meta/v1.(*Time).Before"] = func(cx *callCtx) []Term {
		e := cx.fr.eng
		t := cx.argTs[0].Underlying().(*types.Pointer).Elem()
		a, b := cx.args[0], cx.args[1]
		return []Term{fmt.Sprintf("(ite (and (not (= %s nil)) (not (= %s nil))) (< %s %s) (and (= %s nil) (not (= %s nil))))", a, b, e.loadField(cx.st, a, t, 0), e.loadField(cx.st, b, t, 0), a, b)}
	}
	stubs["k8s.io/apimachinery/pkg/apis/meta/v1.NewTime"] = func(cx *callCtx) []Term {
		vc := cx.fr.eng.vc
		t := cx.sig.Results().At(0).Type()
		vc.sortOf(t)
		return []Term{fmt.Sprintf("(%s %s)", vc.structCtor(t), cx.args[0])}
	}
	// the injected clock: monotone within one call
	now := func(cx *callCtx) []Term {
		e := cx.fr.eng
		vc := e.vc
		c := e.comp("$now", "Int")
		if e.topFrame != nil && e.topFrame.con != nil && e.topFrame.con.FrozenClock {
			// all clock readings within the call agree (listed assumption)
			vc.assumes["frozen clock: every clock reading within "+shortName(vc.fnKey)+" returns the same instant"] = true
			fz := e.comp("$frozen", "Int")
			if _, ok := cx.st.heap[fz]; !ok {
				t := vc.freshAlways("now", "Int")
				vc.assume(fmt.Sprintf("(and (>= %s %s) (> %s 0))", t, e.get(cx.st, c), t))
				cx.st.heap[fz] = t
				cx.st.heap[c] = t
			}
			return []Term{cx.st.heap[fz]}
		}
		t := vc.fresh("now", "Int")
		vc.assumeIf(cx.st.pc, fmt.Sprintf("(and (>= %s %s) (> %s 0))", t, e.get(cx.st, c), t))
		cx.st.heap[c] = t
		return []Term{t}
	}
	stubs["(k8s.io/utils/clock.Clock).Now"] = now
	stubs["(k8s.io/utils/clock.PassiveClock).Now"] = now
	stubs["(k8s.io/utils/clock.WithTicker).Now"] = now
	stubs["time.Now"] = now
	since := func(cx *callCtx) []Term {
		t := now(cx)[0]
		return []Term{fmt.Sprintf("(- %s %s)", t, cx.args[len(cx.args)-1])}
	}
	stubs["(k8s.io/utils/clock.Clock).Since"] = since
	stubs["(k8s.io/utils/clock.PassiveClock).Since"] = since
	stubs["time.Since"] = since
	stubs["(k8s.io/utils/clock.Clock).Sleep"] = func(cx *callCtx) []Term { now(cx); return nil }
	stubs["sigs.k8s.io/controller-runtime/pkg/client.IgnoreNotFound"] = func(cx *callCtx) []Term {
		vc := cx.fr.eng.vc
		declErrPreds(vc)
		return []Term{fmt.Sprintf("(ite (IsNotFound %s) nil_iface %s)", cx.args[0], cx.args[0])}
	}
	stubs["k8s.io/apimachinery/pkg/api/errors.IsNotFound"] = func(cx *callCtx) []Term {
		declErrPreds(cx.fr.eng.vc)
		return []Term{fmt.Sprintf("(IsNotFound %s)", cx.args[0])}
	}
	stubs["k8s.io/apimachinery/pkg/api/errors.IsConflict"] = func(cx *callCtx) []Term {
		declErrPreds(cx.fr.eng.vc)
		return []Term{fmt.Sprintf("(IsConflict %s)", cx.args[0])}
	}
	stubs["errors.As"] = func(cx *callCtx) []Term {
		e := cx.fr.eng
		vc := e.vc
		tn := "any"
		if len(cx.argVs) > 1 {
			if mi, ok := cx.argVs[1].(*ssa.MakeInterface); ok {
				tn = shortTypeKey(mi.X.Type())
				// the target cell receives the matched error
				if pt, ok := mi.X.Type().Underlying().(*types.Pointer); ok && !isStructLike(pt.Elem()) && !cx.spec {
					c := e.boxComp(pt.Elem())
					v := vc.fresh("astarget", vc.sortOf(pt.Elem()))
					cx.st.heap[c] = vc.name("h", e.compSort[c], sto(e.get(cx.st, c), cx.fr.val(mi.X), v))
				}
			}
		} else if len(cx.argTs) > 1 {
			tn = shortTypeKey(cx.argTs[1])
		}
		f := sym("errAs$" + tn)
		vc.decl("fn:"+f, fmt.Sprintf("(declare-fun %s (Iface) Bool)", f))
		vc.decl("ax:"+f, fmt.Sprintf("(assert (not (%s nil_iface)))", f))
		// an error whose dynamic type is the target's element type matches
		if len(cx.argVs) > 1 {
			if mi, ok := cx.argVs[1].(*ssa.MakeInterface); ok {
				if pt, ok := mi.X.Type().Underlying().(*types.Pointer); ok {
					id := vc.typeID(pt.Elem())
					vc.decl("ax2:"+f, fmt.Sprintf("(assert (forall ((e Iface)) (! (=> (= (iface_tag e) %d) (%s e)) :pattern ((%s e)))))", id, f, f))
				}
			}
		}
		return []Term{fmt.Sprintf("(%s %s)", f, cx.args[0])}
	}
	stubs["errors.Is"] = func(cx *callCtx) []Term {
		vc := cx.fr.eng.vc
		vc.decl("fn:errIs", "(declare-fun errIs (Iface Iface) Bool)")
		vc.decl("ax:errIs", "(assert (forall ((a Iface)) (! (errIs a a) :pattern ((errIs a a)))))")
		return []Term{fmt.Sprintf("(errIs %s %s)", cx.args[0], cx.args[1])}
	}
	stubs["go.uber.org/multierr.Combine"] = func(cx *callCtx) []Term {
		// nil iff every element is nil
		e := cx.fr.eng
		vc := e.vc
		r := vc.fresh("combined", "Iface")
		box := e.get(cx.st, e.boxComp(types.Universe.Lookup("error").Type()))
		s := cx.args[0]
		vc.assumeIf(cx.st.pc, fmt.Sprintf("(= (= %s nil_iface) (forall ((j Int)) (! (=> (and (<= 0 j) (< j (s_len %s))) (= (select %s (sidx %s j)) nil_iface)) :pattern ((sidx %s j)))))", r, s, box, s, s))
		return []Term{r}
	}
	stubs["k8s.io/apimachinery/pkg/util/intstr.GetScaledValueFromIntOrPercent"] = func(cx *callCtx) []Term {
		// Int: the value itself. String "N%": N% of total, rounded as asked. Anything else: error.
		e := cx.fr.eng
		vc := e.vc
		vc.decl("fn:pct_ok", "(declare-fun pct_ok (Str) Bool)")
		vc.decl("fn:pct_val", "(declare-fun pct_val (Str) Int)")
		it := cx.argTs[0].Underlying().(*types.Pointer).Elem()
		ist := it.Underlying().(*types.Struct)
		fi := func(n string) int {
			for i := 0; i < ist.NumFields(); i++ {
				if ist.Field(i).Name() == n {
					return i
				}
			}
			return -1
		}
		typ := e.loadField(cx.st, cx.args[0], it, fi("Type"))
		iv := e.loadField(cx.st, cx.args[0], it, fi("IntVal"))
		sv := e.loadField(cx.st, cx.args[0], it, fi("StrVal"))
		total, up := cx.args[1], cx.args[2]
		errc := vc.fresh("scaleerr", "Iface")
		vc.assume(fmt.Sprintf("(not (= %s nil_iface))", errc))
		okc := fmt.Sprintf("(or (= %s 0) (pct_ok %s))", typ, sv)
		prod := fmt.Sprintf("(* (pct_val %s) %s)", sv, total)
		val := fmt.Sprintf("(ite (= %s 0) %s (ite %s (- (div (- %s) 100)) (div %s 100)))", typ, iv, up, prod, prod)
		return []Term{ite(okc, val, "0"), ite(okc, "nil_iface", errc)}
	}
	stubs["github.com/samber/lo.IsEmpty"] = func(cx *callCtx) []Term {
		return []Term{eq(cx.args[0], cx.fr.eng.vc.zero(cx.argTs[0]))}
	}
	stubs["github.com/samber/lo.IsNotEmpty"] = func(cx *callCtx) []Term {
		return []Term{not(eq(cx.args[0], cx.fr.eng.vc.zero(cx.argTs[0])))}
	}
	stubs["github.com/samber/lo.Must"] = func(cx *callCtx) []Term { return []Term{cx.args[0]} }
	stubs["time.(Duration).Seconds"] = func(cx *callCtx) []Term {
		return []Term{fmt.Sprintf("(/ (to_real %s) 1000000000.0)", cx.args[0])}
	}
	stubs["time.(Duration).Minutes"] = func(cx *callCtx) []Term {
		return []Term{fmt.Sprintf("(/ (to_real %s) 60000000000.0)", cx.args[0])}
	}
	stubs["sigs.k8s.io/controller-runtime/pkg/client.ObjectKeyFromObject"] = func(cx *callCtx) []Term {
		// NamespacedName{Namespace: obj.GetNamespace(), Name: obj.GetName()} for a concrete API object
		e := cx.fr.eng
		vc := e.vc
		rt := cx.sig.Results().At(0).Type()
		vc.sortOf(rt)
		var objT types.Type
		obj := ""
		if len(cx.argVs) > 0 {
			if mi, ok := cx.argVs[0].(*ssa.MakeInterface); ok {
				objT, obj = mi.X.Type(), cx.fr.val(mi.X)
			}
		}
		if objT != nil {
			if pt, ok := objT.Underlying().(*types.Pointer); ok {
				if o, path := lookupFieldAnyPkg(pt.Elem(), "Namespace"); o != nil && len(path) == 2 {
					if o2, path2 := lookupFieldAnyPkg(pt.Elem(), "Name"); o2 != nil && len(path2) == 2 {
						mt := pt.Elem().Underlying().(*types.Struct).Field(path[0]).Type()
						base := fmt.Sprintf("(fld %s %d)", obj, path[0])
						ns := e.loadField(cx.st, base, mt, path[1])
						nm := e.loadField(cx.st, base, mt, path2[1])
						return []Term{fmt.Sprintf("(%s %s %s)", vc.structCtor(rt), ns, nm)}
					}
				}
			}
		}
		vc.decl("fn:objkey", fmt.Sprintf("(declare-fun objkey (Iface) %s)", vc.sortOf(rt)))
		return []Term{fmt.Sprintf("(objkey %s)", cx.args[0])}
	}
	stubs["time.ParseDuration"] = func(cx *callCtx) []Term {
		vc := cx.fr.eng.vc
		declPdur(vc)
		s := cx.args[0]
		return []Term{fmt.Sprintf("(ite (pdur_ok %s) (pdur_val %s) 0)", s, s), fmt.Sprintf("(ite (pdur_ok %s) nil_iface pdur_err)", s)}
	}
	stubs["k8s.io/apimachinery/pkg/runtime/schema.(GroupVersionKind).GroupVersion"] = func(cx *callCtx) []Term {
		vc := cx.fr.eng.vc
		gvk, gv := cx.argTs[0], cx.sig.Results().At(0).Type()
		vc.sortOf(gvk)
		vc.sortOf(gv)
		return []Term{fmt.Sprintf("(%s (%s %s) (%s %s))", vc.structCtor(gv), vc.structSel(gvk, 0), cx.args[0], vc.structSel(gvk, 1), cx.args[0])}
	}
	stubs["k8s.io/apimachinery/pkg/runtime/schema.(GroupVersion).String"] = func(cx *callCtx) []Term {
		vc := cx.fr.eng.vc
		declGvstr(vc)
		gv := cx.argTs[0]
		vc.sortOf(gv)
		return []Term{fmt.Sprintf("(gvstr (%s %s) (%s %s))", vc.structSel(gv, 0), cx.args[0], vc.structSel(gv, 1), cx.args[0])}
	}
	// cron: a schedule is a function of its spec string; Next(t) is the first hit strictly after t
	declCron := func(vc *VC) {
		vc.decl("fn:cron_ok", "(declare-fun cron_ok (Str) Bool)")
		vc.decl("fn:cronSched", "(declare-fun cronSched (Str) Iface)")
		vc.decl("fn:cronHit", "(declare-fun cronHit (Iface Int) Bool)")
		vc.decl("c:cron_err", "(declare-const cron_err Iface)")
		vc.decl("ax:cron_err", "(assert (not (= cron_err nil_iface)))")
	}
	stubs["github.com/robfig/cron/v3.ParseStandard"] = func(cx *callCtx) []Term {
		vc := cx.fr.eng.vc
		declCron(vc)
		s := cx.args[0]
		return []Term{fmt.Sprintf("(cronSched %s)", s), fmt.Sprintf("(ite (cron_ok %s) nil_iface cron_err)", s)}
	}
	stubs["(github.com/robfig/cron/v3.Schedule).Next"] = func(cx *callCtx) []Term {
		vc := cx.fr.eng.vc
		declCron(vc)
		n := vc.fresh("nexthit", "Int")
		sc, t := cx.args[0], cx.args[1]
		vc.assumeIf(cx.st.pc, fmt.Sprintf("(and (> %s %s) (cronHit %s %s) (forall ((u Int)) (! (=> (and (< %s u) (< u %s)) (not (cronHit %s u))) :pattern ((cronHit %s u)))))", n, t, sc, n, t, n, sc, sc))
		return []Term{n}
	}
	stubs["fmt.Sprintf"] = func(cx *callCtx) []Term {
		vc := cx.fr.eng.vc
		n := cx.staticSliceLen(1)
		if n == 1 && len(cx.argVs) > 1 {
			// one argument: a function of format and argument when the argument is a string
			if sl, ok := cx.argVs[1].(*ssa.Slice); ok {
				if al, ok := sl.X.(*ssa.Alloc); ok {
					for _, r := range *al.Referrers() {
						if ia, ok := r.(*ssa.IndexAddr); ok {
							for _, r2 := range *ia.Referrers() {
								if stx, ok := r2.(*ssa.Store); ok {
									if mi, ok := stx.Val.(*ssa.MakeInterface); ok && isString(mi.X.Type()) {
										vc.decl("fn:sprintf1", "(declare-fun sprintf1 (Str Str) Str)")
										return []Term{fmt.Sprintf("(sprintf1 %s %s)", cx.args[0], cx.fr.val(mi.X))}
									}
								}
							}
						}
					}
				}
			}
		}
		return cx.freshResults("sprintf")
	}
	stubs["k8s.io/apimachinery/pkg/util/intstr.FromInt"] = func(cx *callCtx) []Term {
		vc := cx.fr.eng.vc
		t := cx.sig.Results().At(0).Type()
		vc.sortOf(t)
		return []Term{fmt.Sprintf("(%s 0 %s %s)", vc.structCtor(t), cx.args[0], vc.strLit(""))}
	}
	stubs["k8s.io/apimachinery/pkg/util/intstr.FromString"] = func(cx *callCtx) []Term {
		vc := cx.fr.eng.vc
		t := cx.sig.Results().At(0).Type()
		vc.sortOf(t)
		return []Term{fmt.Sprintf("(%s 1 0 %s)", vc.structCtor(t), cx.args[0])}
	}
	stubs["github.com/samber/lo.Min"] = func(cx *callCtx) []Term {
		n := cx.staticSliceLen(0)
		if n < 1 || n > 4 {
			return cx.freshResults("lomin")
		}
		e := cx.fr.eng
		box := e.get(cx.st, e.boxComp(cx.argTs[0].Underlying().(*types.Slice).Elem()))
		t := sel(box, fmt.Sprintf("(sidx %s 0)", cx.args[0]))
		for j := 1; j < n; j++ {
			x := sel(box, fmt.Sprintf("(sidx %s %d)", cx.args[0], j))
			t = fmt.Sprintf("(ite (<= %s %s) %s %s)", t, x, t, x)
		}
		return []Term{t}
	}
	stubs["github.com/samber/lo.Max"] = func(cx *callCtx) []Term {
		n := cx.staticSliceLen(0)
		if n < 1 || n > 4 {
			return cx.freshResults("lomax")
		}
		e := cx.fr.eng
		box := e.get(cx.st, e.boxComp(cx.argTs[0].Underlying().(*types.Slice).Elem()))
		t := sel(box, fmt.Sprintf("(sidx %s 0)", cx.args[0]))
		for j := 1; j < n; j++ {
			x := sel(box, fmt.Sprintf("(sidx %s %d)", cx.args[0], j))
			t = fmt.Sprintf("(ite (>= %s %s) %s %s)", t, x, t, x)
		}
		return []Term{t}
	}
	stubs["github.com/samber/lo.Contains"] = func(cx *callCtx) []Term {
		e := cx.fr.eng
		sl := cx.argTs[0].Underlying().(*types.Slice)
		if isStructLike(sl.Elem()) {
			return cx.freshResults("contains")
		}
		box := e.get(cx.st, e.boxComp(sl.Elem()))
		return []Term{fmt.Sprintf("(exists ((j Int)) (! (and (<= 0 j) (< j (s_len %s)) (= (select %s (sidx %s j)) %s)) :pattern ((sidx %s j))))", cx.args[0], box, cx.args[0], cx.args[1], cx.args[0])}
	}
	stubs["github.com/awslabs/operatorpkg/serrors.Wrap"] = func(cx *callCtx) []Term {
		vc := cx.fr.eng.vc
		r := vc.fresh("wrapped", "Iface")
		vc.assume(fmt.Sprintf("(not (= %s nil_iface))", r))
		return []Term{ite(eq(cx.args[0], "nil_iface"), "nil_iface", r)}
	}
	stubs["(k8s.io/apimachinery/pkg/labels.Selector).Matches"] = func(cx *callCtx) []Term {
		vc := cx.fr.eng.vc
		vc.decl("fn:selMatches", "(declare-fun selMatches (Iface Iface) Bool)")
		return []Term{fmt.Sprintf("(selMatches %s %s)", cx.args[0], cx.args[1])}
	}
	// sync/atomic integer cells under a sequential reading (each method call is one step)
	atomicCell := func(cx *callCtx) (types.Type, int) {
		t := cx.argTs[0].Underlying().(*types.Pointer).Elem()
		st := t.Underlying().(*types.Struct)
		for i := 0; i < st.NumFields(); i++ {
			if st.Field(i).Name() == "v" {
				return t, i
			}
		}
		cx.fr.unsup("atomic type without value field: %s", t)
		return nil, 0
	}
	for _, tn := range []string{"Int64", "Int32", "Uint64", "Uint32"} {
		tn := tn
		stubs["sync/atomic.(*"+tn+").Load"] = func(cx *callCtx) []Term {
			t, i := atomicCell(cx)
			cx.fr.safety(cx.st, "nil", fmt.Sprintf("(not (= %s nil))", cx.args[0]), cx.instr, "atomic load through nil pointer")
			return []Term{cx.fr.eng.loadField(cx.st, cx.args[0], t, i)}
		}
		stubs["sync/atomic.(*"+tn+").Store"] = func(cx *callCtx) []Term {
			t, i := atomicCell(cx)
			cx.fr.safety(cx.st, "nil", fmt.Sprintf("(not (= %s nil))", cx.args[0]), cx.instr, "atomic store through nil pointer")
			cx.fr.eng.storeField(cx.st, cx.args[0], t, i, cx.args[1])
			return nil
		}
		stubs["sync/atomic.(*"+tn+").Add"] = func(cx *callCtx) []Term {
			t, i := atomicCell(cx)
			e := cx.fr.eng
			cx.fr.safety(cx.st, "nil", fmt.Sprintf("(not (= %s nil))", cx.args[0]), cx.instr, "atomic add through nil pointer")
			nv := e.vc.name("atomicadd", "Int", fmt.Sprintf("(+ %s %s)", e.loadField(cx.st, cx.args[0], t, i), cx.args[1]))
			e.storeField(cx.st, cx.args[0], t, i, nv)
			return []Term{nv}
		}
		stubs["sync/atomic.(*"+tn+").CompareAndSwap"] = func(cx *callCtx) []Term {
			t, i := atomicCell(cx)
			e := cx.fr.eng
			cx.fr.safety(cx.st, "nil", fmt.Sprintf("(not (= %s nil))", cx.args[0]), cx.instr, "atomic CAS through nil pointer")
			cur := e.loadField(cx.st, cx.args[0], t, i)
			okc := e.vc.name("cas", "Bool", eq(cur, cx.args[1]))
			e.storeField(cx.st, cx.args[0], t, i, ite(okc, cx.args[2], cur))
			return []Term{okc}
		}
	}
	stubs["math/rand.Intn"] = func(cx *callCtx) []Term {
		vc := cx.fr.eng.vc
		cx.fr.safety(cx.st, "call.rand.Intn", fmt.Sprintf("(> %s 0)", cx.args[0]), cx.instr, "rand.Intn argument must be positive")
		r := vc.fresh("rand", "Int")
		vc.assumeIf(cx.st.pc, fmt.Sprintf("(and (<= 0 %s) (< %s %s))", r, r, cx.args[0]))
		return []Term{r}
	}
}

func declPdur(vc *VC) {
	vc.decl("fn:pdur_ok", "(declare-fun pdur_ok (Str) Bool)")
	vc.decl("fn:pdur_val", "(declare-fun pdur_val (Str) Int)")
	vc.decl("c:pdur_err", "(declare-const pdur_err Iface)")
	vc.decl("ax:pdur_err", "(assert (not (= pdur_err nil_iface)))")
}

func declGvstr(vc *VC) {
	vc.decl("fn:gvstr", "(declare-fun gvstr (Str Str) Str)")
	vc.decl("ax:gvstr", fmt.Sprintf("(assert (forall ((v Str)) (! (= (gvstr %s v) v) :pattern ((gvstr %s v)))))", vc.strLit(""), vc.strLit("")))
}

func declAtoi(vc *VC) {
	vc.decl("fn:atoi_ok", "(declare-fun atoi_ok (Str) Bool)")
	vc.decl("fn:atoi_val", "(declare-fun atoi_val (Str) Int)")
	vc.decl("fn:itoa", "(declare-fun itoa (Int) Str)")
	vc.decl("c:atoi_err", "(declare-const atoi_err Iface)")
	vc.decl("ax:atoi_err", "(assert (not (= atoi_err nil_iface)))")
	vc.decl("ax:atoirange", "(assert (forall ((s Str)) (! (and (<= (- 9223372036854775808) (atoi_val s)) (<= (atoi_val s) 9223372036854775807)) :pattern ((atoi_val s)))))")
	// (restricted to machine integers: together with the range axiom above an unrestricted version would be inconsistent)
	vc.decl("ax:itoa", "(assert (forall ((i Int)) (! (=> (and (<= (- 9223372036854775808) i) (<= i 9223372036854775807)) (and (atoi_ok (itoa i)) (= (atoi_val (itoa i)) i))) :pattern ((itoa i)))))")
}

func declErrPreds(vc *VC) {
	for _, p := range []string{"IsNotFound", "IsConflict"} {
		vc.decl("fn:"+p, fmt.Sprintf("(declare-fun %s (Iface) Bool)", p))
		vc.decl("ax:"+p, fmt.Sprintf("(assert (not (%s nil_iface)))", p))
	}
}

func lookupStub(name string) stubFn {
	if s, ok := stubs[name]; ok {
		return s
	}
	if isStatusConditionsAccessor(name) {
		return func(cx *callCtx) []Term {
			e := cx.fr.eng
			vc := e.vc
			r := vc.freshAlways("condset", vc.sortOf(cx.sig.Results().At(0).Type()))
			if e.condSets == nil {
				e.condSets = map[string]condSetInfo{}
			}
			e.condSets[r] = condSetInfo{obj: cx.args[0], typ: cx.argTs[0]}
			return []Term{r}
		}
	}
	return nil
}

var purePrefixes = []string{
	"fmt.", "sigs.k8s.io/controller-runtime/pkg/log.", "github.com/go-logr/logr.", "(github.com/go-logr/logr.",
	"k8s.io/klog/v2.", "github.com/prometheus/", "(github.com/prometheus/", "github.com/awslabs/operatorpkg/serrors.",
	"strings.", "strconv.", "math.", "sort.SearchInts", "unicode.", "regexp.", "(*regexp.", "path.", "time.Duration", "(time.Duration)",
	"sigs.k8s.io/karpenter/pkg/utils/pretty.", "k8s.io/apimachinery/pkg/util/sets.",
	"sigs.k8s.io/karpenter/pkg/metrics.", "(sigs.k8s.io/karpenter/pkg/metrics.", "github.com/awslabs/operatorpkg/metrics.", "(github.com/awslabs/operatorpkg/metrics.",
	"sigs.k8s.io/karpenter/pkg/operator/injection.", "sigs.k8s.io/karpenter/pkg/operator/options.", "context.", "(context.Context).",
	"k8s.io/apimachinery/pkg/types.NamespacedName", "(k8s.io/apimachinery/pkg/types.NamespacedName)",
	"sigs.k8s.io/controller-runtime/pkg/client.ObjectKeyFromObject", "k8s.io/klog/v2.KObj", "k8s.io/klog/v2.KRef",
	"(error).Error", "github.com/samber/lo.",
	"(sigs.k8s.io/controller-runtime/pkg/client.Client).SubResource", "(sigs.k8s.io/controller-runtime/pkg/client.Client).Status", "(sigs.k8s.io/controller-runtime/pkg/client.Client).Scheme",
	"sigs.k8s.io/karpenter/pkg/controllers/disruption.(Command).LogValues", "sigs.k8s.io/karpenter/pkg/controllers/disruption.(Command).String",
	"(sigs.k8s.io/karpenter/pkg/controllers/disruption.Method).Reason", "(sigs.k8s.io/karpenter/pkg/controllers/disruption.Method).Class", "(sigs.k8s.io/karpenter/pkg/controllers/disruption.Method).ConsolidationType",
	"k8s.io/apimachinery/third_party/forked/golang/reflect.(Equalities).DeepEqual", "k8s.io/apimachinery/pkg/api/equality.",
	"sigs.k8s.io/controller-runtime/pkg/client.MergeFrom", "github.com/awslabs/operatorpkg/object.GVK",
	"(sigs.k8s.io/karpenter/pkg/cloudprovider.CloudProvider).RepairPolicies", "(sigs.k8s.io/karpenter/pkg/cloudprovider.CloudProvider).GetSupportedNodeClasses", "(sigs.k8s.io/karpenter/pkg/cloudprovider.CloudProvider).Name", "(*sigs.k8s.io/karpenter/pkg/events.", "(sigs.k8s.io/karpenter/pkg/events.Recorder)", "sigs.k8s.io/karpenter/pkg/events.",
}

// isPureName: calls that neither read nor write the modelled heap in a way that matters
// (logging, metrics, formatting, event publishing). Results are arbitrary.
// generated deep copies: fresh result, receiver untouched (listed assumption)
func isDeepCopy(name string) bool {
	return strings.HasSuffix(name, ").DeepCopy") || strings.HasSuffix(name, ").DeepCopyObject")
}

func isPureName(name string) bool {
	if isDeepCopy(name) {
		return true
	}
	// event constructors (pkg/.../events packages) only build Event values
	if strings.HasPrefix(name, modPath+"/") && strings.Contains(name, "/events.") {
		return true
	}
	for _, p := range purePrefixes {
		if strings.HasPrefix(name, p) {
			return true
		}
	}
	return false
}

// ---- helpers on callCtx ----

func (cx *callCtx) mapT(i int) *types.Map {
	mt, ok := cx.argTs[i].Underlying().(*types.Map)
	if !ok {
		cx.fr.unsup("stub %s: argument %d is not a map (%s)", cx.name, i, cx.argTs[i])
	}
	return mt
}

func (cx *callCtx) dom(mt *types.Map, m Term) Term {
	e := cx.fr.eng
	return sel(e.get(cx.st, e.mapDomComp(mt)), m)
}

// newSet allocates a fresh set whose membership is given by pred.
func (cx *callCtx) newSet(mt *types.Map, pred func(k Term) Term) Term {
	e := cx.fr.eng
	vc := e.vc
	ks := vc.sortOf(mt.Key())
	loc := e.newObj(cx.st)
	p := pred("k")
	var d Term
	if p == "false" {
		d = e.emptySet(ks)
	} else {
		d = vc.fresh("setdom", fmt.Sprintf("(Array %s Bool)", ks))
		vc.assumeIf(cx.st.pc, fmt.Sprintf("(forall ((k %s)) (! (= (select %s k) %s) :pattern ((select %s k))))", ks, d, p, d))
	}
	dc := e.mapDomComp(mt)
	cx.st.heap[dc] = vc.name("h", e.compSort[dc], sto(e.get(cx.st, dc), loc, d))
	return loc
}

// staticSliceLen: the argument is a slice of a freshly allocated fixed-size array (variadic call
// with explicit arguments): its length is known statically.
func (cx *callCtx) staticSliceLen(i int) int {
	if i >= len(cx.argVs) {
		return -1
	}
	sl, ok := cx.argVs[i].(*ssa.Slice)
	if !ok || sl.Low != nil || sl.High != nil {
		return -1
	}
	al, ok := sl.X.(*ssa.Alloc)
	if !ok {
		return -1
	}
	at, ok := al.Type().Underlying().(*types.Pointer).Elem().Underlying().(*types.Array)
	if !ok {
		return -1
	}
	return int(at.Len())
}

// setBulk inserts (or deletes) all elements of slice items into set m.
func (cx *callCtx) setBulk(mt *types.Map, m Term, items Term, insert bool) {
	cx.setBulkN(mt, m, items, insert, 1)
}

func (cx *callCtx) setBulkN(mt *types.Map, m Term, items Term, insert bool, argIdx int) {
	e := cx.fr.eng
	vc := e.vc
	ks := vc.sortOf(mt.Key())
	dc := e.mapDomComp(mt)
	box := e.get(cx.st, e.boxComp(mt.Key()))
	elem := func(j Term) Term {
		return sel(box, fmt.Sprintf("(sidx %s %s)", items, j))
	}
	if n := cx.staticSliceLen(argIdx); n >= 0 && n <= 8 {
		// explicit arguments: one map update / delete per element
		for j := 0; j < n; j++ {
			k := vc.name("item", ks, elem(fmt.Sprint(j)))
			if insert {
				cx.fr.mapUpdate(cx.st, m, mt, k, vc.zero(mt.Elem()), cx.instr)
			} else {
				cx.fr.mapDelete(cx.st, m, mt, k, cx.instr)
			}
		}
		return
	}
	old := sel(e.get(cx.st, dc), m)
	oldN := vc.name("dom", fmt.Sprintf("(Array %s Bool)", ks), old)
	nw := vc.fresh("setdom", fmt.Sprintf("(Array %s Bool)", ks))
	inItems := fmt.Sprintf("(exists ((j Int)) (and (<= 0 j) (< j (s_len %s)) (= %s k)))", items, elem("j"))
	var def Term
	if insert {
		def = fmt.Sprintf("(or (select %s k) %s)", oldN, inItems)
	} else {
		def = fmt.Sprintf("(and (select %s k) (not %s))", oldN, inItems)
	}
	vc.assumeIf(cx.st.pc, fmt.Sprintf("(forall ((k %s)) (! (= (select %s k) %s) :pattern ((select %s k))))", ks, nw, def, nw))
	e.card(ks, nw)
	e.card(ks, oldN)
	card := e.cardFn(ks)
	if insert {
		vc.assumeIf(cx.st.pc, fmt.Sprintf("(=> (= (s_len %s) 0) (= %s %s))", items, nw, oldN))
		vc.assumeIf(cx.st.pc, fmt.Sprintf("(>= (%s %s) (%s %s))", card, nw, card, oldN))
		cx.fr.safety(cx.st, "mapwrite", fmt.Sprintf("(or (= (s_len %s) 0) (not (= %s nil)))", items, m), cx.instr, "insert into nil set")
	} else {
		vc.assumeIf(cx.st.pc, fmt.Sprintf("(=> (= (s_len %s) 0) (= %s %s))", items, nw, oldN))
		vc.assumeIf(cx.st.pc, fmt.Sprintf("(<= (%s %s) (%s %s))", card, nw, card, oldN))
		if !cx.spec {
			cx.fr.rangeMutationCheckBulk(cx.st, m, mt, items, box, cx.instr)
		}
	}
	cx.st.heap[dc] = vc.name("h", e.compSort[dc], sto(e.get(cx.st, dc), m, nw))
}

func (fr *Frame) rangeMutationCheckBulk(st *State, m Term, mt *types.Map, items, box Term, ins interface{}) {
	e := fr.eng
	for f := fr; f != nil; f = f.parent {
		for _, ri := range f.ranges {
			if !types.Identical(ri.mapType.Key(), mt.Key()) {
				continue
			}
			i := e.get(st, ri.ctrComp)
			active := fmt.Sprintf("(and (> %s 0) (<= %s %s))", i, i, ri.n)
			el := sel(box, fmt.Sprintf("(sidx %s j)", items))
			okc := fmt.Sprintf("(or (not (= %s %s)) (not %s) (forall ((j Int)) (=> (and (<= 0 j) (< j (s_len %s))) (or (not (select %s %s)) (< (%s %s) %s)))))", m, ri.mapLoc, active, items, ri.dom0, el, ri.idxOf, el, i)
			e.vc.oblige(fr.oblName(fmt.Sprintf("safe.rangemut.%d", e.safeOrd(fr, "rangemut"))), "safety", st.pc, okc, "set mutated during range only at visited keys")
		}
	}
}

// setToSlice: a fresh slice enumerating the set (order unspecified).
func (cx *callCtx) setToSlice(mt *types.Map, m Term) Term {
	e := cx.fr.eng
	vc := e.vc
	ks := vc.sortOf(mt.Key())
	d := vc.name("dom", fmt.Sprintf("(Array %s Bool)", ks), cx.dom(mt, m))
	n := e.card(ks, d)
	allocBefore := cx.st.alloc
	loc := e.newObj(cx.st)
	res := vc.name("list", "Slice", fmt.Sprintf("(mkslice %s 0 %s %s)", loc, n, n))
	c := e.boxComp(mt.Key())
	old := e.get(cx.st, c)
	nw := vc.fresh("h", e.compSort[c])
	inv := sym(fmt.Sprintf("listpos!%d", e.qctr()))
	vc.decls = append(vc.decls, fmt.Sprintf("(declare-fun %s (%s) Int)", inv, ks))
	vc.assumeIf(cx.st.pc, fmt.Sprintf("(forall ((l Loc)) (! (=> (not (= (rootid l) (rootid %s))) (= (select %s l) (select %s l))) :pattern ((select %s l))))", loc, nw, old, nw))
	if top := e.topFrame; top != nil && top.con != nil && top.con.Options["listsidx"] {
		// the elements stated at (sidx list j), the term a specification's list[j] produces
		vc.assumeIf(cx.st.pc, fmt.Sprintf("(forall ((j Int)) (! (=> (and (<= 0 j) (< j %s)) (and (select %s (select %s (sidx %s j))) (= (%s (select %s (sidx %s j))) j))) :pattern ((sidx %s j))))", n, d, nw, res, inv, nw, res, res))
		vc.assumeIf(cx.st.pc, fmt.Sprintf("(forall ((k %s)) (! (=> (select %s k) (and (<= 0 (%s k)) (< (%s k) %s) (= (select %s (sidx %s (%s k))) k))) :pattern ((select %s k)) :pattern ((%s k))))", ks, d, inv, inv, n, nw, res, inv, d, inv))
	} else {
		vc.assumeIf(cx.st.pc, fmt.Sprintf("(forall ((j Int)) (! (=> (and (<= 0 j) (< j %s)) (and (select %s (select %s (idx %s j))) (= (%s (select %s (idx %s j))) j))) :pattern ((select %s (idx %s j)))))", n, d, nw, loc, inv, nw, loc, nw, loc))
		vc.assumeIf(cx.st.pc, fmt.Sprintf("(forall ((k %s)) (! (=> (select %s k) (and (<= 0 (%s k)) (< (%s k) %s) (= (select %s (idx %s (%s k))) k))) :pattern ((select %s k))))", ks, d, inv, inv, n, nw, loc, inv, d))
	}
	snap := cx.st.clone()
	cx.st.heap[c] = nw
	e.noteAllocOnly(cx.st, snap, c, old, nw, allocBefore)
	return res
}

// github.com/patrickmn/go-cache: modelled as two ghost components keyed by the cache object:
// which keys were stored (and not deleted) and what they hold. Entries may expire at any time,
// so Get may miss a stored key, but a hit always returns the stored value.
const goCacheHas, goCacheVal = "$gocache.has", "$gocache.val"

func (e *Engine) goCacheComps() (string, string) {
	e.vc.assumes["go-cache: a Get hit returns the value of the latest Set for that key; entries change only through the Get/Set/Delete calls of the verified functions or expire"] = true
	return e.comp(goCacheHas, "(Array Loc (Array Str Bool))"), e.comp(goCacheVal, "(Array Loc (Array Str Iface))")
}

func init() {
	const gc = "github.com/patrickmn/go-cache.(*cache)."
	stubs[gc+"Get"] = func(cx *callCtx) []Term {
		e := cx.fr.eng
		vc := e.vc
		h, v := e.goCacheComps()
		ok := vc.fresh("cache.hit", "Bool")
		vc.assumeIf(cx.st.pc, fmt.Sprintf("(=> %s (select (select %s %s) %s))", ok, e.get(cx.st, h), cx.args[0], cx.args[1]))
		val := vc.name("cache.val", "Iface", fmt.Sprintf("(ite %s (select (select %s %s) %s) nil_iface)", ok, e.get(cx.st, v), cx.args[0], cx.args[1]))
		return []Term{val, ok}
	}
	set := func(cx *callCtx) []Term {
		e := cx.fr.eng
		h, v := e.goCacheComps()
		hh, vv := e.get(cx.st, h), e.get(cx.st, v)
		cx.st.heap[h] = fmt.Sprintf("(store %s %s (store (select %s %s) %s true))", hh, cx.args[0], hh, cx.args[0], cx.args[1])
		cx.st.heap[v] = fmt.Sprintf("(store %s %s (store (select %s %s) %s %s))", vv, cx.args[0], vv, cx.args[0], cx.args[1], cx.args[2])
		return nil
	}
	stubs[gc+"SetDefault"] = set
	stubs[gc+"Set"] = set
	stubs[gc+"Delete"] = func(cx *callCtx) []Term {
		e := cx.fr.eng
		h, _ := e.goCacheComps()
		hh := e.get(cx.st, h)
		cx.st.heap[h] = fmt.Sprintf("(store %s %s (store (select %s %s) %s false))", hh, cx.args[0], hh, cx.args[0], cx.args[1])
		return nil
	}
	stubs[gc+"Flush"] = func(cx *callCtx) []Term {
		e := cx.fr.eng
		h, _ := e.goCacheComps()
		hh := e.get(cx.st, h)
		cx.st.heap[h] = fmt.Sprintf("(store %s %s ((as const (Array Str Bool)) false))", hh, cx.args[0])
		return nil
	}
}

// resource.Quantity is an integer number of nano-units (the finest scale a Quantity can hold).
func init() {
	const q = "k8s.io/apimachinery/pkg/api/resource.(*Quantity)."
	qt := func(cx *callCtx, i int) types.Type { return cx.argTs[i].Underlying().(*types.Pointer).Elem() }
	ld := func(cx *callCtx, i int) Term { return cx.fr.eng.loadAt(cx.st, cx.args[i], qt(cx, i)) }
	stubs[q+"IsZero"] = func(cx *callCtx) []Term { return []Term{eq(ld(cx, 0), "0")} }
	stubs[q+"Sign"] = func(cx *callCtx) []Term {
		v := ld(cx, 0)
		return []Term{fmt.Sprintf("(ite (< %s 0) (- 1) (ite (> %s 0) 1 0))", v, v)}
	}
	stubs[q+"Cmp"] = func(cx *callCtx) []Term {
		v := ld(cx, 0)
		return []Term{fmt.Sprintf("(ite (< %s %s) (- 1) (ite (> %s %s) 1 0))", v, cx.args[1], v, cx.args[1])}
	}
	stubs[q+"Equal"] = func(cx *callCtx) []Term { return []Term{eq(ld(cx, 0), cx.args[1])} }
	stubs[q+"Add"] = func(cx *callCtx) []Term {
		cx.fr.eng.storeAt(cx.st, cx.args[0], qt(cx, 0), fmt.Sprintf("(+ %s %s)", ld(cx, 0), cx.args[1]))
		return nil
	}
	stubs[q+"Sub"] = func(cx *callCtx) []Term {
		cx.fr.eng.storeAt(cx.st, cx.args[0], qt(cx, 0), fmt.Sprintf("(- %s %s)", ld(cx, 0), cx.args[1]))
		return nil
	}
	stubs[q+"Neg"] = func(cx *callCtx) []Term {
		cx.fr.eng.storeAt(cx.st, cx.args[0], qt(cx, 0), fmt.Sprintf("(- %s)", ld(cx, 0)))
		return nil
	}
	stubs["k8s.io/apimachinery/pkg/api/resource.(Quantity).DeepCopy"] = func(cx *callCtx) []Term { return []Term{cx.args[0]} }

	// corev1.Taint.MatchTaint: same key and effect
	stubs["k8s.io/api/core/v1.(*Taint).MatchTaint"] = func(cx *callCtx) []Term {
		e := cx.fr.eng
		t := cx.argTs[0].Underlying().(*types.Pointer).Elem()
		a, b := cx.args[0], cx.args[1]
		return []Term{and(eq(e.loadField(cx.st, a, t, 0), e.loadField(cx.st, b, t, 0)), eq(e.loadField(cx.st, a, t, 2), e.loadField(cx.st, b, t, 2)))}
	}
	// lo.ToSlicePtr: pointers to the elements of the argument, in order
	stubs["github.com/samber/lo.ToSlicePtr"] = func(cx *callCtx) []Term {
		e := cx.fr.eng
		vc := e.vc
		rt := cx.sig.Results().At(0).Type()
		r := vc.fresh("toSlicePtr", "Slice")
		pt := rt.Underlying().(*types.Slice).Elem()
		bc := e.boxComp(pt)
		s := cx.args[0]
		vc.assumeIf(cx.st.pc, fmt.Sprintf("(and (= (s_len %s) (s_len %s)) (>= (rootid (s_arr %s)) %s))", r, s, r, cx.st.alloc))
		na := vc.fresh("alloc", "Int")
		vc.assume(fmt.Sprintf("(> %s %s)", na, cx.st.alloc))
		cx.st.alloc = na
		e.wf(cx.st, r, rt)
		vc.assumeIf(cx.st.pc, fmt.Sprintf("(forall ((j Int)) (! (=> (and (<= 0 j) (< j (s_len %s))) (= (select %s (sidx %s j)) (sidx %s j))) :pattern ((sidx %s j))))", r, e.get(cx.st, bc), r, s, r))
		return []Term{r}
	}
}

// workqueue.ParallelizeUntil(ctx, workers, pieces, fn): runs fn(i) for i in [0,pieces). When the closure
// has a contract (`//@ func <parent> closure@workqueue.ParallelizeUntil`) with a modifies clause, only
// what that clause names may change at the call (the closure's own verification proves the frame for
// every i); otherwise everything reachable is arbitrary afterwards.
func init() {
	stubs["k8s.io/client-go/util/workqueue.ParallelizeUntil"] = func(cx *callCtx) []Term {
		fr := cx.fr
		e := fr.eng
		if len(cx.argVs) > 3 {
			if clo := fr.closureOf(cx.argVs[3]); clo != nil && clo.fn.Parent() != nil {
				key := canonName(clo.fn.Parent()) + " closure@workqueue.ParallelizeUntil"
				if con := e.cs.Fns[key]; con != nil && con.HasMod && (!con.ModAll || len(con.Except) > 0) && !cx.spec {
					nf := e.newFrame(clo.fn, fr)
					for i, fv := range clo.fn.FreeVars {
						if i < len(clo.bindings) {
							nf.vals[fv] = clo.bindings[i]
						}
					}
					pre := cx.st.clone()
					fr.workerRequires(cx, clo, con, nf, pre, cx.args[2], "workqueue.ParallelizeUntil")
					env := nf.specEnvFor(pre)
					env.con = con
					env.pkg = con.Pkg
					env.old = pre
					if con.ModAll {
						exc := env.resolveModifies(con.Except)
						for c := range e.compSort {
							if !strings.HasPrefix(c, "$") {
								e.havocComp(cx.st, c)
							}
						}
						e.assumeExcept(cx.st, pre, exc)
					} else {
						e.havocTargets(cx.st, env.resolveModifies(con.Modifies))
					}
					fr.havocCaptured(cx.st, clo)
					na := e.vc.fresh("alloc", "Int")
					e.vc.assume(fmt.Sprintf("(>= %s %s)", na, cx.st.alloc))
					cx.st.alloc = na
					e.vc.usedCon[key] = true
					e.vc.assumes["workqueue.ParallelizeUntil only runs the function it is given (for every index below pieces) and returns after all of them returned"] = true
					return nil
				}
			}
		}
		if len(cx.argVs) > 3 && !cx.spec {
			vc := e.vc
			pieces := cx.args[2]
			if _, ok := fr.repeatedClosure(cx, cx.argVs[3], func() []Term {
				return []Term{vc.freshAlways("piece", "Int")}
			}, false, func(as []Term) Term { return fmt.Sprintf("(and (<= 0 %s) (< %s %s))", as[0], as[0], pieces) }); ok {
				vc.assumes["workqueue.ParallelizeUntil only runs the function it is given (for every index below pieces) and returns after all of them returned"] = true
				return nil
			}
		}
		return fr.havocCall(cx, "closure without frame contract")
	}
}

// workerRequires: the preconditions of a contracted worker closure (func(i int)) are obligations of the caller
// for every index below pieces, in the state in which the helper is called.
func (fr *Frame) workerRequires(cx *callCtx, clo *Closure, con *Contract, nf *Frame, pre *State, pieces Term, label string) {
	e := fr.eng
	vc := e.vc
	if len(con.Requires) == 0 || len(clo.fn.Params) != 1 {
		return
	}
	q := sym(fmt.Sprintf("q$piece$%d", e.qctr()))
	nf.vals[clo.fn.Params[0]] = q
	env := nf.specEnvFor(pre)
	env.con = con
	env.pkg = con.Pkg
	env.old = pre
	ord := e.callOrd(fr, label)
	for k, rc := range con.Requires {
		vc.noname++
		env.quant++
		g := env.evalBool(rc.Expr)
		env.quant--
		vc.noname--
		ob := fmt.Sprintf("(forall ((%s Int)) (=> (and (<= 0 %s) (< %s %s)) %s))", q, q, q, pieces, g)
		vc.oblige(fr.oblName(fmt.Sprintf("call.%s.%d.fn-pre.%s", label, ord, clauseID(rc, k))), "call-pre", cx.st.pc, ob, "worker precondition for every index: "+rc.Src)
	}
	delete(nf.vals, clo.fn.Params[0])
}

// havocCaptured: the variables a closure captures by reference may have been assigned by its executions.
// They are cells of the caller (often local-only, hence untouched by ordinary havoc), so they are made
// arbitrary explicitly — unless the closure provably never stores to the captured variable.
func (fr *Frame) havocCaptured(st *State, clo *Closure) {
	e := fr.eng
	for i, fv := range clo.fn.FreeVars {
		if i >= len(clo.bindings) {
			break
		}
		pt, ok := fv.Type().Underlying().(*types.Pointer)
		if !ok || isStructLike(pt.Elem()) {
			continue
		}
		written := false
		var scan func(v ssa.Value, depth int)
		scan = func(v ssa.Value, depth int) {
			if depth > 3 || v.Referrers() == nil {
				written = true
				return
			}
			for _, r := range *v.Referrers() {
				switch r := r.(type) {
				case *ssa.Store:
					if r.Addr == v {
						written = true
					}
				case *ssa.MakeClosure:
					// captured again by a nested closure: look into it
					if fn, ok := r.Fn.(*ssa.Function); ok {
						for j, b := range r.Bindings {
							if b == v && j < len(fn.FreeVars) {
								scan(fn.FreeVars[j], depth+1)
							}
						}
					}
				case *ssa.UnOp, *ssa.DebugRef:
				default:
					written = true // address used in another way: be conservative
				}
			}
		}
		scan(fv, 0)
		if !written {
			continue
		}
		c := e.boxComp(pt.Elem())
		nv := e.vc.fresh("captured."+fv.Name(), e.vc.sortOf(pt.Elem()))
		e.wf(st, nv, pt.Elem())
		st.heap[c] = e.vc.name("h", e.compSort[c], sto(e.get(st, c), clo.bindings[i], nv))
	}
}

// repeatedClosure models a helper that calls a known closure an unknown number of times: every heap
// component the closure writes (found by a probe execution) becomes arbitrary, local-only objects of the
// caller excepted; then the closure is executed once more, precisely, with the given arguments, so that
// site obligations inside it are generated and its result is available. ok=false: not applicable.
func (fr *Frame) repeatedClosure(cx *callCtx, v ssa.Value, args func() []Term, keepFinal bool, guard func([]Term) Term) (rs []Term, ok bool) {
	e := fr.eng
	vc := e.vc
	clo := fr.closureOf(v)
	if clo == nil || len(clo.fn.Blocks) == 0 || hasLoops(clo.fn) || fr.depth >= e.maxDepth || fr.recursive(clo.fn) {
		return nil, false
	}
	run := func(st *State) []Term {
		as := args()
		if guard != nil {
			st.pc = vc.name("pc", "Bool", and(st.pc, guard(as)))
		}
		sub := &callCtx{fr: fr, st: st, args: as, callee: clo.fn, name: canonName(clo.fn), sig: clo.fn.Signature, instr: cx.instr, common: cx.common, spec: cx.spec}
		return fr.inline(sub, clo, nil)
	}
	vc.dry++
	saveA, saveLog := len(vc.asserts), len(e.callLog)
	saveRng, saveInl := e.rngCtr, e.inlineN
	probe := cx.st.clone()
	run(probe)
	vc.asserts = vc.asserts[:saveA]
	e.callLog = e.callLog[:saveLog]
	e.rngCtr, e.inlineN = saveRng, saveInl
	vc.dry--
	var mods []string
	for c, t := range probe.heap {
		if strings.HasPrefix(c, "$") {
			continue
		}
		if e.get(cx.st, c) != t {
			mods = append(mods, c)
		}
	}
	sort.Strings(mods)
	for _, c := range mods {
		if _, ok := e.compSort[c]; ok {
			e.havocComp(cx.st, c)
		}
	}
	fr.havocCaptured(cx.st, clo)
	if len(mods) > 0 {
		na := vc.fresh("alloc", "Int")
		vc.assume(fmt.Sprintf("(>= %s %s)", na, cx.st.alloc))
		cx.st.alloc = na
	}
	if !keepFinal {
		// one representative execution for the obligations inside the closure; its state is dropped
		run(cx.st.clone())
		return nil, true
	}
	return run(cx.st), true
}

// retry.OnError(backoff, retriable, fn): calls fn until it succeeds, fails with a non-retriable error or
// the backoff is exhausted, and returns the last error: earlier attempts are arbitrary writes to what fn
// writes, the last attempt is executed precisely and its result returned.
func init() {
	stubs["k8s.io/client-go/util/retry.OnError"] = func(cx *callCtx) []Term {
		fr := cx.fr
		if len(cx.argVs) >= 3 {
			if rs, ok := fr.repeatedClosure(cx, cx.argVs[2], func() []Term { return nil }, true, nil); ok {
				fr.eng.vc.assumes["retry.OnError calls only the function it is given; its earlier attempts are over-approximated by arbitrary writes to what that function writes"] = true
				return rs
			}
		}
		return fr.havocCall(cx, "retry.OnError with unknown function")
	}
}

// lo.Assign(maps...): a freshly allocated map, the right-biased union of the arguments.
// resource.MustParse: a deterministic function of the string.
func init() {
	stubs["github.com/samber/lo.Assign"] = func(cx *callCtx) []Term {
		e := cx.fr.eng
		vc := e.vc
		mt, ok := cx.sig.Results().At(0).Type().Underlying().(*types.Map)
		if !ok {
			return cx.fr.havocCall(cx, "lo.Assign")
		}
		n := cx.staticSliceLen(0)
		if n < 0 || n > 4 {
			// unknown number of maps: fresh map with arbitrary contents
			loc := e.newObj(cx.st)
			dc := e.mapDomComp(mt)
			d := vc.fresh("assign.dom", strings.TrimSuffix(strings.TrimPrefix(e.compSort[dc], "(Array Loc "), ")"))
			cx.st.heap[dc] = vc.name("h", e.compSort[dc], sto(e.get(cx.st, dc), loc, d))
			if !isEmptyStruct(mt.Elem()) {
				vcmp := e.mapValComp(mt)
				v := vc.fresh("assign.val", strings.TrimSuffix(strings.TrimPrefix(e.compSort[vcmp], "(Array Loc "), ")"))
				cx.st.heap[vcmp] = vc.name("h", e.compSort[vcmp], sto(e.get(cx.st, vcmp), loc, v))
			}
			return []Term{loc}
		}
		// the variadic slice holds n maps: fold them
		ks := vc.sortOf(mt.Key())
		dc := e.mapDomComp(mt)
		dom := e.emptySet(ks)
		var val Term
		hasVal := !isEmptyStruct(mt.Elem())
		var vcmp string
		if hasVal {
			vcmp = e.mapValComp(mt)
			val = vc.fresh("assign.val0", strings.TrimSuffix(strings.TrimPrefix(e.compSort[vcmp], "(Array Loc "), ")"))
		}
		box := e.get(cx.st, e.boxComp(mt))
		for j := 0; j < n; j++ {
			m := sel(box, fmt.Sprintf("(sidx %s %d)", cx.args[0], j))
			dj := sel(e.get(cx.st, dc), m)
			ndom := vc.fresh("assign.dom", fmt.Sprintf("(Array %s Bool)", ks))
			vc.assumeIf(cx.st.pc, fmt.Sprintf("(forall ((k %s)) (! (= (select %s k) (or (select %s k) (select %s k))) :pattern ((select %s k))))", ks, ndom, dom, dj, ndom))
			if hasVal {
				vj := sel(e.get(cx.st, vcmp), m)
				nval := vc.fresh("assign.val", strings.TrimSuffix(strings.TrimPrefix(e.compSort[vcmp], "(Array Loc "), ")"))
				vc.assumeIf(cx.st.pc, fmt.Sprintf("(forall ((k %s)) (! (= (select %s k) (ite (select %s k) (select %s k) (select %s k))) :pattern ((select %s k))))", ks, nval, dj, vj, val, nval))
				val = nval
			}
			dom = ndom
		}
		loc := e.newObj(cx.st)
		cx.st.heap[dc] = vc.name("h", e.compSort[dc], sto(e.get(cx.st, dc), loc, dom))
		if hasVal {
			cx.st.heap[vcmp] = vc.name("h", e.compSort[vcmp], sto(e.get(cx.st, vcmp), loc, val))
		}
		return []Term{loc}
	}
	stubs["k8s.io/apimachinery/pkg/api/resource.MustParse"] = func(cx *callCtx) []Term {
		vc := cx.fr.eng.vc
		// a plain decimal integer literal ("1", "100"): that many units = n * 10^9 nano-units
		lit, isLit := "", false
		if len(cx.argVs) > 0 {
			if c, ok := cx.argVs[0].(*ssa.Const); ok && c.Value != nil && c.Value.Kind() == constant.String {
				lit, isLit = constant.StringVal(c.Value), true
			}
		}
		if !isLit {
			for sLit, sym := range vc.strLits {
				if sym == cx.args[0] {
					lit, isLit = sLit, true
				}
			}
		}
		if isLit && lit != "" && len(lit) <= 9 && strings.Trim(lit, "0123456789") == "" {
			return []Term{lit + "000000000"}
		}
		vc.decl("fn:qty_parse", "(declare-fun qty_parse (Str) Int)")
		return []Term{fmt.Sprintf("(qty_parse %s)", cx.args[0])}
	}
}

// The scheduler's own parallelizeUntil(workers, pieces, fn func(int) bool): workers pull indices below
// `pieces` and call fn until it answers false. Modelled like workqueue.ParallelizeUntil (sequentially, any
// number of calls in any order): with a closure contract its frame applies, otherwise the closure is probed.
func init() {
	stubs["sigs.k8s.io/karpenter/pkg/controllers/provisioning/scheduling.parallelizeUntil"] = func(cx *callCtx) []Term {
		fr := cx.fr
		e := fr.eng
		vc := e.vc
		if len(cx.argVs) < 3 || cx.spec {
			return fr.havocCall(cx, "parallelizeUntil")
		}
		clo := fr.closureOf(cx.argVs[2])
		if clo == nil || clo.fn.Parent() == nil {
			return fr.havocCall(cx, "parallelizeUntil with unknown function")
		}
		vc.assumes["parallelizeUntil only runs the function it is given (for indices below pieces) and returns after all workers returned; executions are modelled one at a time"] = true
		key := canonName(clo.fn.Parent()) + " closure@parallelizeUntil"
		if con := e.cs.Fns[key]; con != nil && con.HasMod {
			nf := e.newFrame(clo.fn, fr)
			for i, fv := range clo.fn.FreeVars {
				if i < len(clo.bindings) {
					nf.vals[fv] = clo.bindings[i]
				}
			}
			pre := cx.st.clone()
			fr.workerRequires(cx, clo, con, nf, pre, cx.args[1], "parallelizeUntil")
			env := nf.specEnvFor(pre)
			env.con = con
			env.pkg = con.Pkg
			env.old = pre
			if con.ModAll {
				var exc []modTarget
				if len(con.Except) > 0 {
					exc = env.resolveModifies(con.Except)
				}
				for c := range e.compSort {
					if !strings.HasPrefix(c, "$") {
						e.havocComp(cx.st, c)
					}
				}
				e.assumeExcept(cx.st, pre, exc)
			} else {
				e.havocTargets(cx.st, env.resolveModifies(con.Modifies))
			}
			fr.havocCaptured(cx.st, clo)
			na := vc.fresh("alloc", "Int")
			vc.assume(fmt.Sprintf("(>= %s %s)", na, cx.st.alloc))
			cx.st.alloc = na
			e.vc.usedCon[key] = true
			return nil
		}
		pieces := cx.args[1]
		if _, ok := fr.repeatedClosure(cx, cx.argVs[2], func() []Term {
			return []Term{vc.freshAlways("piece", "Int")}
		}, false, func(as []Term) Term { return fmt.Sprintf("(and (<= 0 %s) (< %s %s))", as[0], as[0], pieces) }); ok {
			return nil
		}
		return fr.havocCall(cx, "parallelizeUntil: closure with loops and no contract")
	}
}
