package main

import (
	"fmt"
	"go/types"
	"sort"
	"strings"

	"golang.org/x/tools/go/ssa"
)

// modTarget: one modifies entry resolved against a state.
type modTarget struct {
	comp  string
	ix    Term // exact cell index (when !all)
	under Term // all cells whose index is idx(under, *) (slice elements) — when elems
	elems bool
	field int // for boxed struct element fields
	// valuesOf: every map that is (at the time the target is resolved) a VALUE of the outer map `under`:
	// the cell index l is a target iff exists k: k in dom(under) and val(under)[k] == l
	valuesOf bool
	outerDom Term // (select MapDom$outer under)
	outerVal Term // (select MapVal$outer under)
	keySort  string
}

func (env *specEnv) resolveModifies(exprs []Expr) []modTarget {
	eng := env.eng
	var out []modTarget
	for _, ex := range exprs {
		if sl, ok := ex.(*ESlice); ok {
			x := env.eval(sl.X)
			switch t := x.typ.Underlying().(type) {
			case *types.Slice:
				arr := fmt.Sprintf("(s_arr %s)", env.rv(x))
				if isStructLike(t.Elem()) {
					st, ok := t.Elem().Underlying().(*types.Struct)
					if !ok {
						env.fail("modifies: unsupported element type %s", t.Elem())
					}
					for i := 0; i < st.NumFields(); i++ {
						if isStructLike(st.Field(i).Type()) {
							env.fail("modifies: nested struct elements not supported")
						}
						c, _ := eng.fieldComp(t.Elem(), i)
						out = append(out, modTarget{comp: c, under: arr, elems: true})
					}
				} else {
					out = append(out, modTarget{comp: eng.boxComp(t.Elem()), under: arr, elems: true})
				}
			case *types.Map:
				m := env.rv(x)
				out = append(out, modTarget{comp: eng.mapDomComp(t), ix: m})
				if !isEmptyStruct(t.Elem()) {
					out = append(out, modTarget{comp: eng.mapValComp(t), ix: m})
				}
			default:
				env.fail("modifies %s: not a slice or map", ex)
			}
			continue
		}
		// setsof(m): the contents of every map stored as a value in map m (e.g. the sets of a map[string]sets.Set)
		if c, ok := ex.(*ECall); ok {
			if id, ok := c.Fn.(*EIdent); ok && id.Name == "setsof" && len(c.Args) == 1 {
				x := env.eval(c.Args[0])
				ot, ok := x.typ.Underlying().(*types.Map)
				if !ok {
					env.fail("setsof(%s): not a map", c.Args[0])
				}
				it, ok := ot.Elem().Underlying().(*types.Map)
				if !ok {
					env.fail("setsof(%s): the values are not maps", c.Args[0])
				}
				m := env.rv(x)
				od := sel(eng.get(env.st, eng.mapDomComp(ot)), m)
				ov := sel(eng.get(env.st, eng.mapValComp(ot)), m)
				ks := eng.vc.sortOf(ot.Key())
				out = append(out, modTarget{comp: eng.mapDomComp(it), valuesOf: true, outerDom: od, outerVal: ov, keySort: ks})
				if !isEmptyStruct(it.Elem()) {
					out = append(out, modTarget{comp: eng.mapValComp(it), valuesOf: true, outerDom: od, outerVal: ov, keySort: ks})
				}
				continue
			}
		}
		v := env.eval(ex)
		if v.ref == nil {
			env.fail("modifies %s: not an lvalue", ex)
		}
		if v.ref.structLoc {
			// whole struct: every scalar field (recursively)
			env.structTargets(v.ref.ix, v.typ, &out)
			continue
		}
		out = append(out, modTarget{comp: v.ref.comp, ix: v.ref.ix})
	}
	return out
}

func (env *specEnv) structTargets(loc Term, t types.Type, out *[]modTarget) {
	st, ok := t.Underlying().(*types.Struct)
	if !ok {
		return
	}
	for i := 0; i < st.NumFields(); i++ {
		ft := st.Field(i).Type()
		if isStructLike(ft) {
			env.structTargets(fmt.Sprintf("(fld %s %d)", loc, i), ft, out)
			continue
		}
		c, boxed := env.eng.fieldComp(t, i)
		ix := loc
		if boxed {
			ix = fmt.Sprintf("(fld %s %d)", loc, i)
		}
		*out = append(*out, modTarget{comp: c, ix: ix})
	}
}

// notInTargets: formula over bound variable l saying l is none of the targets of comp.
// inTargets: location l of component comp is one of the targets (false when none concerns comp).
func inTargets(ts []modTarget, comp string, l string) Term {
	var cs []Term
	for _, t := range ts {
		if t.comp != comp {
			continue
		}
		if t.valuesOf {
			cs = append(cs, fmt.Sprintf("(exists ((k!vo %s)) (! (and (select %s k!vo) (= (select %s k!vo) %s)) :pattern ((select %s k!vo))))", t.keySort, t.outerDom, t.outerVal, l, t.outerVal))
		} else if t.elems {
			cs = append(cs, fmt.Sprintf("(and (is_idx %s) (= (idx_base %s) %s) (not (= %s nil)))", l, l, t.under, t.under))
		} else {
			cs = append(cs, fmt.Sprintf("(= %s %s)", l, t.ix))
		}
	}
	if len(cs) == 0 {
		return "false"
	}
	return or(cs...)
}

// assumeExcept: after a `modifies * except ...` havoc, the excepted cells hold what they held before.
func (e *Engine) assumeExcept(st *State, pre *State, ts []modTarget) {
	comps := map[string]bool{}
	for _, t := range ts {
		comps[t.comp] = true
	}
	for _, c := range sortedKeys(comps) {
		nw, old := e.get(st, c), e.get(pre, c)
		if nw == old {
			continue
		}
		e.vc.assumeIf(st.pc, fmt.Sprintf("(forall ((l Loc)) (! (=> %s (= (select %s l) (select %s l))) :pattern ((select %s l))))", inTargets(ts, c, "l"), nw, old, nw))
	}
}

func notInTargets(ts []modTarget, comp string, l string) Term {
	var cs []Term
	for _, t := range ts {
		if t.comp != comp {
			continue
		}
		if t.valuesOf {
			cs = append(cs, fmt.Sprintf("(forall ((k!vo %s)) (! (not (and (select %s k!vo) (= (select %s k!vo) %s))) :pattern ((select %s k!vo))))", t.keySort, t.outerDom, t.outerVal, l, t.outerVal))
		} else if t.elems {
			cs = append(cs, fmt.Sprintf("(not (and (is_idx %s) (= (idx_base %s) %s) (not (= %s nil))))", l, l, t.under, t.under))
		} else {
			cs = append(cs, fmt.Sprintf("(not (= %s %s))", l, t.ix))
		}
	}
	return and(cs...)
}

func (fr *Frame) applyContract(cx *callCtx, con *Contract) []Term {
	e := fr.eng
	vc := e.vc
	callee := cx.callee
	pre := cx.st.clone()
	env := &specEnv{eng: e, fr: nil, fn: callee, st: cx.st, old: pre, vars: map[string]binding{}, pkg: con.Pkg, con: con, atFresh: map[string]sval{}}
	if callee != nil {
		for i, p := range callee.Params {
			env.vars[p.Name()] = binding{cx.args[i], p.Type()}
		}
	} else {
		// interface method (trusted contract): named parameters of the method signature, $0 = receiver
		env.resSig = cx.sig.Results()
		for i := 0; i < cx.sig.Params().Len(); i++ {
			if n := cx.sig.Params().At(i).Name(); n != "" && n != "_" {
				env.vars[n] = binding{cx.args[i+1], cx.sig.Params().At(i).Type()}
			}
		}
		for i, a := range cx.args {
			if i < len(cx.argTs) {
				env.args = append(env.args, sval{t: a, typ: cx.argTs[i]})
			}
		}
	}
	// the callee's ghost variables are unknown to the caller
	for _, g := range con.Ghosts {
		env.vars[g] = binding{vc.fresh("ghost."+g, "Bool"), tBool}
	}
	ord := e.callOrd(fr, cx.name)
	// preconditions are obligations of the caller
	for k, c := range con.Requires {
		g := env.evalBool(c.Expr)
		vc.oblige(fr.oblName(fmt.Sprintf("call.%s.%d.pre.%s", lastTwo(cx.name), ord, clauseID(c, k))), "call-pre", cx.st.pc, g, c.Src)
		vc.assumeIf(cx.st.pc, g)
	}
	for _, c := range con.RepInvs {
		vc.assumeIf(cx.st.pc, env.evalBool(c.Expr))
		vc.assumes["representation invariant of an encapsulated type assumed at call sites: "+c.Src] = true
	}
	// havoc what the callee may modify
	if con.CallerNothing {
		// `callerframe nothing`: the body is verified against the declared (weaker) frame, callers ASSUME that
		// nothing that existed before the call changes (a trusted frame next to verified postconditions)
		vc.assumes[fmt.Sprintf("trusted frame for callers of %s: the call modifies nothing that existed before (its body is verified against `modifies *`)", con.Key)] = true
	} else if con.ModAll {
		var exc []modTarget
		if len(con.Except) > 0 {
			exc = env.resolveModifies(con.Except)
		}
		var calleePkg *types.Package
		if callee != nil && callee.Pkg != nil {
			calleePkg = callee.Pkg.Pkg
		}
		for c := range e.compSort {
			if !strings.HasPrefix(c, "$") {
				if e.invisibleTo(c, calleePkg) {
					// the callee's package cannot name the cell's type (no import path to it)
					vc.assumes["a function does not write cells whose type belongs to a karpenter package its own package does not import (no reflection / unsafe writes)"] = true
					continue
				}
				e.havocComp(cx.st, c)
			}
		}
		e.assumeExcept(cx.st, pre, exc)
	} else if len(con.Modifies) > 0 {
		ts := env.resolveModifies(con.Modifies)
		e.havocTargets(cx.st, ts)
	}
	na := vc.fresh("alloc", "Int")
	vc.assume(fmt.Sprintf("(>= %s %s)", na, cx.st.alloc))
	cx.st.alloc = na
	if con.ReadsClock && !(e.topFrame != nil && e.topFrame.con != nil && e.topFrame.con.FrozenClock) {
		// the callee reads the injected clock: time may have advanced
		c := e.comp("$now", "Int")
		t := vc.fresh("now", "Int")
		vc.assumeIf(cx.st.pc, fmt.Sprintf("(>= %s %s)", t, e.get(cx.st, c)))
		cx.st.heap[c] = t
	}
	rs := cx.freshResults("r." + lastSeg(cx.name))
	env.results = rs
	env.st = cx.st
	for k, c := range con.Ensures {
		if t, ok := env.tryEvalBool(c.Expr); ok {
			// a clause with a recorded finding is only known to hold outside the finding's region
			for _, f := range con.Findings {
				if f.Label == clauseID(c, k) {
					if d, ok := env.tryEvalBool(f.Disc.Expr); ok {
						t = implies(not(d), t)
					} else {
						t = "true"
					}
				}
			}
			vc.assumeIf(cx.st.pc, t)
		} else {
			// clauses about the callee's internal call history (beforecall/atcall/@pattern) mean nothing to a caller
			vc.warn = append(vc.warn, "ensures clause of "+shortName(con.Key)+" not usable at call sites (refers to the callee's own calls): "+c.Src)
		}
	}
	for _, c := range con.RepInvs {
		vc.assumeIf(cx.st.pc, env.evalBool(c.Expr))
	}
	return rs
}

// tryEvalBool: evaluate, reporting failure instead of aborting when the clause needs the callee's code context.
func (env *specEnv) tryEvalBool(ex Expr) (t Term, ok bool) {
	saveNoname, saveQuant := env.eng.vc.noname, env.quant
	defer func() {
		if r := recover(); r != nil {
			env.eng.vc.noname, env.quant = saveNoname, saveQuant
			if se, isSpec := r.(specErr); isSpec && strings.Contains(fmt.Sprint(se), "code context") {
				t, ok = "", false
				return
			}
			panic(r)
		}
	}()
	return env.evalBool(ex), true
}

// siteEvalBool evaluates a call-site clause; "" when it mentions the result of a call that no path to the
// site has executed (any other specification error stays an error).
func (env *specEnv) siteEvalBool(ex Expr) (t Term) {
	saveNoname, saveQuant := env.eng.vc.noname, env.quant
	defer func() {
		if r := recover(); r != nil {
			env.eng.vc.noname, env.quant = saveNoname, saveQuant
			if se, isSpec := r.(specErr); isSpec && strings.Contains(fmt.Sprint(se), "no call matches") {
				t = ""
				return
			}
			panic(r)
		}
	}()
	return env.evalBool(ex)
}

// havocTargets replaces the cells named by resolved modifies targets with arbitrary values.
func (e *Engine) havocTargets(st *State, ts []modTarget) {
	vc := e.vc
	comps := map[string]bool{}
	for _, t := range ts {
		comps[t.comp] = true
	}
	for _, c := range sortedKeys(comps) {
		old := e.get(st, c)
		var nw Term
		simple := true
		for _, t := range ts {
			if t.comp == c && (t.elems || t.valuesOf) {
				simple = false
			}
		}
		if simple {
			// new = old with the target cells replaced by arbitrary values
			chain := old
			vs := strings.TrimSuffix(strings.TrimPrefix(e.compSort[c], "(Array Loc "), ")")
			for _, t := range ts {
				if t.comp == c {
					nv := vc.fresh("hvcell", vs)
					if strings.HasPrefix(c, "MapDom$") || strings.HasPrefix(c, "MapVal$") {
						// the nil map cannot be written (and has no keys): `modifies m[:]` with m == nil is a no-op
						nv = ite(eq(t.ix, "nil"), sel(chain, t.ix), nv)
					}
					chain = sto(chain, t.ix, nv)
				}
			}
			nw = vc.name("hv$"+c, e.compSort[c], chain)
		} else {
			nw = vc.fresh("hv$"+c, e.compSort[c])
			e.nilMapEmpty(c, nw)
			vc.assumeIf(st.pc, fmt.Sprintf("(forall ((l Loc)) (! (=> %s (= (select %s l) (select %s l))) :pattern ((select %s l))))", notInTargets(ts, c, "l"), nw, old, nw))
		}
		st.heap[c] = nw
	}
}

// capturedAlloc: the variable cell of the enclosing function that is bound to free variable i of closure fn.
func capturedAlloc(fn *ssa.Function, i int) *ssa.Alloc {
	parent := fn.Parent()
	if parent == nil {
		return nil
	}
	for _, b := range parent.Blocks {
		for _, ins := range b.Instrs {
			if mc, ok := ins.(*ssa.MakeClosure); ok && mc.Fn == fn && i < len(mc.Bindings) {
				if al, ok := mc.Bindings[i].(*ssa.Alloc); ok {
					return al
				}
				return nil
			}
		}
	}
	return nil
}

func lastTwo(n string) string {
	n = shortPat(n)
	return n
}

func (e *Engine) callOrd(fr *Frame, name string) int {
	k := fr.fn.String() + "->" + name
	if e.callCtr == nil {
		e.callCtr = map[string]int{}
	}
	e.callCtr[k]++
	return e.callCtr[k]
}

// afterHooks: ghost updates of the top-level contract for a call that just returned.
func (fr *Frame) afterHooks(cx *callCtx, rs []Term, before *State) {
	e := fr.eng
	top := e.topFrame
	if top == nil || top.con == nil || cx.spec || len(top.con.Afters) == 0 {
		return
	}
	for _, ah := range top.con.Afters {
		if !patMatches(ah.Pattern, cx.name) {
			continue
		}
		env := fr.specEnvFor(cx.st)
		tenv := top.specEnvFor(cx.st)
		for k, v := range tenv.vars {
			if _, ok := env.vars[k]; !ok {
				env.vars[k] = v
			}
		}
		env.con = top.con
		env.pkg = top.con.Pkg
		env.old = top.entry
		for i, r := range rs {
			env.vars[fmt.Sprintf("$r%d", i)] = binding{r, cx.sig.Results().At(i).Type()}
		}
		for i, a := range cx.args {
			if i < len(cx.argTs) {
				env.args = append(env.args, sval{t: a, typ: cx.argTs[i]})
			}
		}
		if ah.UseLemma != "" {
			var lm *Lemma
			for _, l := range e.cs.Lemmas {
				if l.Name == ah.UseLemma {
					lm = l
				}
			}
			if lm == nil {
				panic(specErr("unknown lemma " + ah.UseLemma))
			}
			lenv := fr.specEnvFor(cx.st)
			lenv.pkg = lm.Pkg
			lenv.con = top.con
			e.vc.assumeIf(cx.st.pc, lenv.evalBool(lm.Expr))
			e.vc.assumes["lemma "+lm.Name+" (proved separately as lemma."+lm.Name+") instantiated after calls of "+ah.Pattern] = true
			continue
		}
		if ah.Assume {
			env.old = before
			e.vc.assumeIf(cx.st.pc, env.evalBool(ah.Expr.Expr))
			e.vc.assumes["assumed about calls of "+ah.Pattern+" in "+shortName(e.vc.fnKey)+": "+ah.Expr.Src] = true
			continue
		}
		v := env.evalBool(ah.Expr.Expr)
		c := e.comp("$g$"+ah.Ghost, "Bool")
		cx.st.heap[c] = e.vc.name("ghost", "Bool", v)
	}
}

// checkSites: emit the site obligations of the top-level contract for this call.
func (fr *Frame) checkSites(cx *callCtx) {
	e := fr.eng
	top := e.topFrame
	if top == nil || top.con == nil || cx.spec {
		return
	}
	for _, ss := range top.con.Sites {
		if !patMatches(ss.Pattern, cx.name) {
			continue
		}
		if ss.Ordinal > 0 {
			// #k: the k-th matching call of the function under contract in SOURCE order
			if e.siteInstr == nil {
				e.siteInstr = map[*SiteSpec]ssa.Instruction{}
			}
			want, ok := e.siteInstr[ss]
			if !ok {
				var cands []ssa.Instruction
				for _, b := range top.fn.Blocks {
					for _, ins := range b.Instrs {
						if c, ok := ins.(ssa.CallInstruction); ok {
							n := ""
							if c.Common().IsInvoke() {
								n = ifaceMethodName(c.Common())
							} else if sc := c.Common().StaticCallee(); sc != nil {
								n = canonName(sc)
							}
							if n != "" && patMatches(ss.Pattern, n) {
								cands = append(cands, ins)
							}
						}
					}
				}
				sort.Slice(cands, func(i, j int) bool { return cands[i].Pos() < cands[j].Pos() })
				if ss.Ordinal <= len(cands) {
					want = cands[ss.Ordinal-1]
				}
				e.siteInstr[ss] = want
			}
			if want == nil || cx.instr != want {
				continue
			}
		}
		if e.vc.dry == 0 {
			e.siteHits[ss]++
		}
		env := fr.specEnvFor(cx.st)
		// identifiers resolve in the top function first
		tenv := top.specEnvFor(cx.st)
		for k, v := range tenv.vars {
			if _, ok := env.vars[k]; !ok {
				env.vars[k] = v
			}
		}
		env.con = top.con
		env.pkg = top.con.Pkg
		env.old = top.entry
		for i, a := range cx.args {
			t := cx.argTs[i]
			if i < len(cx.argVs) {
				if mi, ok := cx.argVs[i].(*ssa.MakeInterface); ok {
					a = fr.val(mi.X)
					t = mi.X.Type()
				}
			}
			env.args = append(env.args, sval{t: a, typ: t})
		}
		n := e.siteHits[ss]
		if ss.Ordinal > 0 {
			n = ss.Ordinal
		}
		for k, c := range ss.Requires {
			g, src := env.siteEvalBool(c.Expr), c.Src
			if g == "" {
				// the clause refers to the value of a call (@callee, atcall) that has not happened when this
				// site is reached: the order the clause relies on is gone, which is a failed obligation
				g, src = "false", c.Src+"   [a call this clause refers to does not precede the site]"
			}
			e.vc.oblige(top.oblName(fmt.Sprintf("site.%s.%d.%s", ss.Pattern, n, clauseID(c, k))), "site", cx.st.pc, g, src)
		}
		e.vc.cover(top.oblName(fmt.Sprintf("site.%s.%d.reach", ss.Pattern, n)), cx.st.pc, "site reachable")
	}
}

type FnResult struct {
	Key      string
	VC       *VC
	Err      string // engine could not handle the function
	NInstr   int
	SrcFile  string
	SrcHash  string
	Trusted  bool
	Contract *Contract
}

// VerifyFunction generates all obligations for fn against its contract.
func VerifyFunction(p *Program, cs *Contracts, fn *ssa.Function, con *Contract) (res *FnResult) {
	key := canonName(fn)
	vc := newVC(p, key)
	res = &FnResult{Key: key, VC: vc, Contract: con}
	for _, b := range fn.Blocks {
		res.NInstr += len(b.Instrs)
	}
	e := &Engine{vc: vc, prog: p, cs: cs, compSort: map[string]string{}, maxDepth: 6, siteHits: map[*SiteSpec]int{}, sitePat: map[*SiteSpec]int{}, usedPure: map[string]bool{}}
	defer func() {
		if r := recover(); r != nil {
			switch r := r.(type) {
			case unsupported:
				res.Err = "outside subset: " + string(r)
			case specErr:
				res.Err = "contract error: " + string(r)
			default:
				// an internal error of the generator must never look like success
				res.Err = fmt.Sprintf("internal error of the VC generator: %v", r)
			}
		}
	}()
	vc.decls = append(vc.decls, "(declare-const alloc@0 Int)", "(assert (>= alloc@0 0))")
	fr := e.newFrame(fn, nil)
	fr.top = true
	fr.con = con
	e.topFrame = fr
	st := &State{pc: "true", heap: map[string]Term{}, alloc: "alloc@0"}
	for _, prm := range fn.Params {
		t := vc.fresh("p$"+prm.Name(), vc.sortOf(prm.Type()))
		fr.vals[prm] = t
		fr.params = append(fr.params, t)
		e.wf(st, t, prm.Type())
	}
	// captured variables: cells of the enclosing function. When that function keeps such a cell to itself
	// (only its own loads/stores and closures handed to non-retaining helpers reach it), no callee of this
	// closure can reach the cell either: it is treated like a local-only object, and distinct captured
	// variables are distinct cells.
	var private []Term
	for i, fv := range fn.FreeVars {
		t := vc.fresh("fv$"+fv.Name(), vc.sortOf(fv.Type()))
		fr.vals[fv] = t
		e.wf(st, t, fv.Type())
		vc.assume(fmt.Sprintf("(not (= %s nil))", t))
		if al := capturedAlloc(fn, i); al != nil && localOnly(al) {
			vc.decl("fn:localroot", "(declare-fun localroot (Int) Bool)")
			vc.assume(fmt.Sprintf("(and (is_obj %s) (localroot (rootid %s)))", t, t))
			e.hasLocals = true
			for _, o := range private {
				vc.assume(fmt.Sprintf("(not (= (rootid %s) (rootid %s)))", t, o))
			}
			private = append(private, t)
		}
	}
	// method receivers of pointer type are non-nil (calls on nil receivers are outside every property here)
	if recv := fn.Signature.Recv(); recv != nil && len(fn.Params) > 0 {
		if _, ok := recv.Type().Underlying().(*types.Pointer); ok {
			vc.assume(fmt.Sprintf("(not (= %s nil))", fr.params[0]))
			vc.assumes["pointer receivers are non-nil"] = true
		}
	}
	for _, g := range con.Ghosts {
		st.heap[e.comp("$g$"+g, "Bool")] = "false"
	}
	fr.entry = st.clone()
	env := fr.specEnvFor(st)
	for _, c := range con.Requires {
		vc.assume(env.evalBool(c.Expr))
	}
	for _, c := range con.RepInvs {
		vc.assume(env.evalBool(c.Expr))
	}
	for k, c := range con.Assumes {
		vc.assume(env.evalBool(c.Expr))
		vc.assumes[fmt.Sprintf("input invariant of %s assumed, not checked at its call sites [%s]: %s", con.Key, clauseID(c, k), c.Src)] = true
	}
	for _, an := range con.Uses {
		found := false
		for _, ax := range cs.Axioms {
			if ax.Name == an {
				found = true
				aenv := fr.specEnvFor(st)
				aenv.pkg = ax.Pkg
				aenv.con = nil
				vc.assume(aenv.evalBool(ax.Expr))
				vc.assumes["axiom "+an+": "+strings.TrimSpace(ax.Src)] = true
			}
		}
		if !found {
			panic(specErr("unknown axiom " + an))
		}
	}
	vc.cover(fr.oblName("pre-sat"), "true", "preconditions satisfiable")
	fr.run(st)
	// merge returns
	if len(fr.rets) == 0 {
		vc.warn = append(vc.warn, "function never returns normally")
		return res
	}
	var edges []edgeIn
	for _, r := range fr.rets {
		edges = append(edges, edgeIn{st: r.st})
	}
	final := fr.mergeStates(edges)
	n := fn.Signature.Results().Len()
	results := make([]Term, n)
	for i := 0; i < n; i++ {
		t := fr.rets[len(fr.rets)-1].results[i]
		for k := len(fr.rets) - 2; k >= 0; k-- {
			t = ite(fr.rets[k].st.pc, fr.rets[k].results[i], t)
		}
		results[i] = vc.name("result", vc.sortOf(fn.Signature.Results().At(i).Type()), t)
	}
	_ = results
	vc.cover(fr.oblName("post-reach"), final.pc, "some return is reachable")
	// postconditions are evaluated per return point (no merged heap), one obligation per clause
	perRet := func(f func(env *specEnv) Term) Term {
		var cs []Term
		for _, r := range fr.rets {
			env := fr.specEnvFor(r.st)
			env.results = r.results
			fr.curBlock, fr.curIdx = r.block, r.idx
			fr.inLoopHdr = nil
			cs = append(cs, implies(r.st.pc, f(env)))
		}
		return and(cs...)
	}
	for _, w := range con.Witness {
		perRet(func(env *specEnv) Term { env.eval(w.Expr); return "true" }) // introduces witness terms and their (listed) axioms
	}
	for k, c := range con.Ensures {
		id := clauseID(c, k)
		var split *FindingSplit
		for _, f := range con.Findings {
			if f.Label == id {
				split = f
			}
		}
		if split == nil {
			g := perRet(func(env *specEnv) Term { return env.evalBool(c.Expr) })
			vc.oblige(fr.oblName("post."+id), "post", "true", g, c.Src)
			vc.assumeLemma(g) // clauses are proved in order; later ones may use earlier ones as lemmas
			continue
		}
		// known finding: the clause is split on the discriminator (evaluated at each return point; use
		// old(e) for the entry state). Outside the discriminator the clause is an ordinary obligation;
		// inside it the obligation is expected to fail and is reported as KNOWN-FINDING while it is listed.
		gOut := perRet(func(env *specEnv) Term {
			return implies(not(env.evalBool(split.Disc.Expr)), env.evalBool(c.Expr))
		})
		gIn := perRet(func(env *specEnv) Term {
			return implies(env.evalBool(split.Disc.Expr), env.evalBool(c.Expr))
		})
		vc.oblige(fr.oblName("post."+id+".outside"), "post", "true", gOut, c.Src+"   [outside known finding "+split.ID+"]")
		vc.obls = append(vc.obls, &Obligation{Name: fr.oblName("post." + id + ".inside"), Kind: "finding", NAsserts: len(vc.asserts), NDecls: len(vc.decls), Guard: "true", Goal: gIn, Src: c.Src, Finding: split.ID})
		vc.assumeLemma(gOut)
	}
	for k, c := range con.RepInvs {
		g := perRet(func(env *specEnv) Term { return env.evalBool(c.Expr) })
		vc.oblige(fr.oblName("post.repinv."+clauseID(c, k)), "post", "true", g, "representation invariant re-established: "+c.Src)
		vc.assumeLemma(g) // later obligations of this function may use it as a lemma (its own failure is reported above)
	}
	// frame
	if con.HasMod && !con.ModAll {
		menv := fr.specEnvFor(fr.entry)
		ts := menv.resolveModifies(con.Modifies)
		for _, c := range sortedKeys(final.heap) {
			if strings.HasPrefix(c, "$") || !strings.HasPrefix(e.compSort[c], "(Array Loc ") {
				continue
			}
			init := sym(c + "@0")
			l := "l!frame"
			cond := and(fmt.Sprintf("(< (rootid %s) alloc@0)", l), notInTargets(ts, c, l))
			var cs []Term
			for _, r := range fr.rets {
				cur := e.get(r.st, c)
				if cur == init {
					continue
				}
				cs = append(cs, implies(r.st.pc, fmt.Sprintf("(forall ((%s Loc)) (=> %s (= (select %s %s) (select %s %s))))", l, cond, cur, l, init, l)))
			}
			if len(cs) == 0 {
				continue
			}
			vc.oblige(fr.oblName("frame."+c), "frame", "true", and(cs...), "only the declared locations of "+c+" change")
		}
	}
	if con.ModAll && len(con.Except) > 0 {
		menv := fr.specEnvFor(fr.entry)
		ts := menv.resolveModifies(con.Except)
		comps := map[string]bool{}
		for _, t := range ts {
			comps[t.comp] = true
		}
		for _, c := range sortedKeys(comps) {
			init := sym(c + "@0")
			l := "l!frame"
			var cs []Term
			for _, r := range fr.rets {
				cur := e.get(r.st, c)
				if cur == init {
					continue
				}
				cs = append(cs, implies(r.st.pc, fmt.Sprintf("(forall ((%s Loc)) (=> %s (= (select %s %s) (select %s %s))))", l, inTargets(ts, c, l), cur, l, init, l)))
			}
			if len(cs) == 0 {
				continue
			}
			vc.oblige(fr.oblName("frame.except."+c), "frame", "true", and(cs...), "the excepted locations of "+c+" do not change")
		}
	}
	for _, ss := range con.Sites {
		if e.siteHits[ss] < ss.MinCount {
			res.Err = fmt.Sprintf("contract error: site pattern %q matched %d call(s), expected at least %d", ss.Pattern, e.siteHits[ss], ss.MinCount)
		}
	}
	return res
}
