package main

import (
	"fmt"
	"go/token"
	"go/types"
	"strings"

	"golang.org/x/tools/go/ssa"
)

func (fr *Frame) step(ins ssa.Instruction, st *State) {
	e := fr.eng
	vc := e.vc
	switch ins := ins.(type) {
	case *ssa.DebugRef:
	case *ssa.Alloc:
		loc := e.newObj(st)
		if localStructAlloc(ins) {
			et := ins.Type().Underlying().(*types.Pointer).Elem()
			fr.localStore(st, ins, nil, et, vc.zero(et))
			fr.setVal(ins, loc)
			break
		}
		e.zeroAt(st, loc, ins.Type().Underlying().(*types.Pointer).Elem())
		fr.setVal(ins, loc)
		fr.markLocal(st, ins, loc)
	case *ssa.FieldAddr:
		base := fr.val(ins.X)
		fr.safeNonNil(st, base, "field address of nil pointer", ins)
		fr.setVal(ins, fmt.Sprintf("(fld %s %d)", base, ins.Field))
	case *ssa.Field:
		x := fr.val(ins.X)
		fr.setVal(ins, fmt.Sprintf("(%s %s)", vc.structSel(ins.X.Type(), ins.Field), x))
	case *ssa.IndexAddr:
		x := fr.val(ins.X)
		i := fr.val(ins.Index)
		switch xt := ins.X.Type().Underlying().(type) {
		case *types.Slice:
			fr.safety(st, "index", fmt.Sprintf("(and (<= 0 %s) (< %s (s_len %s)))", i, i, x), ins, "index in range")
			fr.setVal(ins, fmt.Sprintf("(sidx %s %s)", x, i))
		case *types.Pointer: // pointer to array
			at := xt.Elem().Underlying().(*types.Array)
			fr.safety(st, "index", fmt.Sprintf("(and (<= 0 %s) (< %s %d))", i, i, at.Len()), ins, "index in range")
			fr.setVal(ins, fmt.Sprintf("(idx %s %s)", x, i))
		default:
			fr.unsup("IndexAddr on %s", ins.X.Type())
		}
	case *ssa.Index:
		// string or array value indexing
		fr.setVal(ins, vc.fresh("idxval", vc.sortOf(ins.Type())))
	case *ssa.UnOp:
		fr.unop(ins, st)
	case *ssa.BinOp:
		fr.setVal(ins, fr.binop(ins.Op, fr.val(ins.X), fr.val(ins.Y), ins.X.Type(), ins, st))
	case *ssa.Store:
		fr.storeSite(st, ins)
		fr.store(st, ins.Addr, fr.val(ins.Val), ins)
	case *ssa.Call:
		rs := fr.call(ins, &ins.Call, st)
		sig := ins.Call.Signature()
		switch sig.Results().Len() {
		case 0:
			fr.vals[ins] = "unit"
		case 1:
			fr.setVal(ins, rs[0])
		default:
			fr.vals[ins] = "tuple:" + strings.Join(rs, "\x00")
		}
	case *ssa.Extract:
		t := fr.val(ins.Tuple)
		if !strings.HasPrefix(t, "tuple:") {
			fr.unsup("extract from non-tuple %s", t)
		}
		parts := strings.Split(t[len("tuple:"):], "\x00")
		fr.vals[ins] = parts[ins.Index]
		if c := fr.tupleClosure(ins); c != nil {
			fr.closures[ins] = c
		}
	case *ssa.MakeInterface:
		fr.setVal(ins, fr.makeIface(fr.val(ins.X), ins.X.Type()))
	case *ssa.ChangeInterface:
		fr.vals[ins] = fr.val(ins.X)
	case *ssa.ChangeType:
		fr.vals[ins] = fr.val(ins.X)
		if c := fr.closureOf(ins.X); c != nil {
			fr.closures[ins] = c
		}
	case *ssa.Convert:
		fr.convert(ins, st)
	case *ssa.MakeChan:
		// channels are opaque objects (no goroutines in the verified subset; sends are not modelled)
		fr.setVal(ins, e.newObj(st))
	case *ssa.MakeMap:
		loc := e.newObj(st)
		mt := ins.Type().Underlying().(*types.Map)
		dc := e.mapDomComp(mt)
		st.heap[dc] = vc.name("h", e.compSort[dc], sto(e.get(st, dc), loc, e.emptySet(vc.sortOf(mt.Key()))))
		fr.setVal(ins, loc)
		fr.markLocal(st, ins, loc)
	case *ssa.MakeSlice:
		loc := e.newObj(st)
		et := ins.Type().Underlying().(*types.Slice).Elem()
		ln, cp := fr.val(ins.Len), fr.val(ins.Cap)
		fr.safety(st, "makeslice", fmt.Sprintf("(and (<= 0 %s) (<= %s %s))", ln, ln, cp), ins, "make: 0 <= len <= cap")
		e.zeroAt(st, loc, types.NewArray(et, 0))
		fr.setVal(ins, fmt.Sprintf("(mkslice %s 0 %s %s)", loc, ln, cp))
	case *ssa.MakeClosure:
		loc := e.newObj(st)
		var bs []Term
		for _, b := range ins.Bindings {
			bs = append(bs, fr.val(b))
		}
		fr.closures[ins] = &Closure{fn: ins.Fn.(*ssa.Function), bindings: bs, frame: fr}
		fr.vals[ins] = loc
	case *ssa.Slice:
		fr.sliceOp(ins, st)
	case *ssa.Lookup:
		fr.lookup(ins, st)
	case *ssa.MapUpdate:
		fr.mapUpdate(st, fr.val(ins.Map), ins.Map.Type().Underlying().(*types.Map), fr.val(ins.Key), fr.val(ins.Value), ins)
	case *ssa.Range:
		fr.rangeInit(ins, st)
	case *ssa.Next:
		fr.rangeNext(ins, st)
	case *ssa.TypeAssert:
		fr.typeAssert(ins, st)
	case *ssa.Defer:
		fr.defers = append(fr.defers, ins)
		if ins.Block() != fr.fn.Blocks[0] && !isIgnorableDefer(ins) {
			fr.unsup("defer outside the entry block")
		}
	case *ssa.RunDefers:
		for i := len(fr.defers) - 1; i >= 0; i-- {
			d := fr.defers[i]
			if isIgnorableDefer(d) {
				continue
			}
			fr.call(d, &d.Call, st)
		}
	case *ssa.Go:
		fr.unsup("go statement")
	case *ssa.Send:
		// channel sends are not modelled (listed): the enqueue effect is ignored
		vc.assumes["channel sends are no-ops (enqueue effects are not modelled)"] = true
	case *ssa.Select:
		fr.unsup("select statement")
	case *ssa.MultiConvert:
		fr.vals[ins] = fr.val(ins.X)
	case *ssa.SliceToArrayPointer:
		fr.unsup("slice to array pointer")
	default:
		fr.unsup("instruction %T", ins)
	}
}

// localOnly: the freshly created object (map, slice backing array, variable cell) is only ever used
// by this function's own loads, stores and lookups: its address is never passed to a call, stored in
// memory, captured by a closure or merged at a phi. Such an object cannot be reached by any callee.
func localOnly(v ssa.Value) bool {
	refs := v.Referrers()
	if refs == nil {
		return false
	}
	for _, r := range *refs {
		switch r := r.(type) {
		case *ssa.DebugRef, *ssa.Return:
		case *ssa.MapUpdate:
			if r.Map != v {
				return false
			}
		case *ssa.Lookup:
			if r.X != v {
				return false
			}
		case *ssa.Range:
		case *ssa.UnOp:
			if r.X != v {
				return false
			}
		case *ssa.Store:
			if r.Addr != v {
				return false
			}
		case *ssa.IndexAddr:
			if r.X != v {
				return false
			}
			// element addresses must themselves be used only for loads and stores
			for _, r2 := range *r.Referrers() {
				switch r2 := r2.(type) {
				case *ssa.UnOp, *ssa.DebugRef:
				case *ssa.Store:
					if r2.Addr != r {
						return false
					}
				default:
					return false
				}
			}
		case *ssa.Call:
			// builtins len/cap/delete only
			if b, ok := r.Call.Value.(*ssa.Builtin); !ok || (b.Name() != "len" && b.Name() != "cap" && b.Name() != "delete") {
				return false
			}
		case *ssa.MakeClosure:
			// captured variable: still private if the closure only reads/writes it and is itself only
			// handed to helpers that call it and do not keep it (lo.*, sort, ParallelizeUntil) or called directly
			if !closureKeepsPrivate(r, v) {
				return false
			}
		default:
			return false
		}
	}
	return true
}

var nonRetaining = []string{"github.com/samber/lo.", "sort.Slice", "sort.SliceStable", "slices.", "k8s.io/client-go/util/workqueue.ParallelizeUntil", "k8s.io/client-go/util/retry.OnError", "sigs.k8s.io/karpenter/pkg/controllers/provisioning/scheduling.parallelizeUntil"}

func closureKeepsPrivate(mc *ssa.MakeClosure, cell ssa.Value) bool {
	fn, ok := mc.Fn.(*ssa.Function)
	if !ok {
		return false
	}
	for i, b := range mc.Bindings {
		if b != cell {
			continue
		}
		fv := fn.FreeVars[i]
		for _, r := range *fv.Referrers() {
			switch r := r.(type) {
			case *ssa.UnOp, *ssa.DebugRef:
			case *ssa.Store:
				if r.Addr != fv {
					return false
				}
			case *ssa.MakeClosure:
				// captured again by a nested closure
				if !closureKeepsPrivate(r, fv) {
					return false
				}
			default:
				return false
			}
		}
	}
	if mc.Referrers() == nil {
		return false
	}
	refs := append([]ssa.Instruction{}, *mc.Referrers()...)
	for k := 0; k < len(refs); k++ {
		switch r := refs[k].(type) {
		case *ssa.DebugRef:
		case *ssa.ChangeType:
			// named function type (e.g. workqueue.DoWorkPieceFunc): follow the converted value
			if r.Referrers() != nil {
				refs = append(refs, *r.Referrers()...)
			}
		case *ssa.Call:
			if r.Call.Value == mc {
				continue
			}
			sc := r.Call.StaticCallee()
			if sc == nil {
				return false
			}
			n := canonName(sc)
			ok := false
			for _, p := range nonRetaining {
				if strings.HasPrefix(n, p) {
					ok = true
				}
			}
			if !ok {
				return false
			}
		default:
			return false
		}
	}
	return true
}

func (fr *Frame) markLocal(st *State, ins ssa.Value, loc Term) {
	if !localOnly(ins) {
		return
	}
	vc := fr.eng.vc
	vc.decl("fn:localroot", "(declare-fun localroot (Int) Bool)")
	vc.assumeIf(st.pc, fmt.Sprintf("(localroot (rootid %s))", loc))
	fr.eng.hasLocals = true
}

func isIgnorableDefer(d *ssa.Defer) bool {
	// `defer cancel()` of a context.CancelFunc: releases the context's resources, no effect on the modelled heap
	if d.Call.Value != nil && !d.Call.IsInvoke() {
		if nt, ok := types.Unalias(d.Call.Value.Type()).(*types.Named); ok && nt.Obj().Pkg() != nil && nt.Obj().Pkg().Path() == "context" && nt.Obj().Name() == "CancelFunc" {
			return true
		}
	}
	if c := d.Call.StaticCallee(); c != nil {
		n := canonName(c)
		if strings.HasPrefix(n, "sync.(*") {
			return true
		}
		// embedded mutex wrappers
		switch c.Name() {
		case "Unlock", "RUnlock":
			return true
		}
	}
	return false
}

func (fr *Frame) tupleClosure(ins *ssa.Extract) *Closure { return nil }

func (fr *Frame) safeNonNil(st *State, p Term, what string, ins ssa.Instruction) {
	if p == "nil" {
		fr.safety(st, "nil", "false", ins, what)
		return
	}
	if strings.HasPrefix(p, "(obj ") || strings.HasPrefix(p, "(fld ") || strings.HasPrefix(p, "(idx ") || strings.HasPrefix(p, "new!") || strings.HasPrefix(p, "|new!") || strings.HasPrefix(p, "glob$") || strings.HasPrefix(p, "|glob$") {
		return
	}
	fr.safety(st, "nil", fmt.Sprintf("(not (= %s nil))", p), ins, what)
}

// safety obligations are emitted only for the function under contract when its
// contract asks for them (nopanic) — otherwise they are assumed (listed).
func (fr *Frame) safety(st *State, kind string, cond Term, ins ssa.Instruction, what string) {
	e := fr.eng
	top := fr
	for top.parent != nil {
		top = top.parent
	}
	if top.con != nil && top.con.NoPanic {
		ord := e.safeOrd(fr, kind)
		e.vc.oblige(fr.oblName(fmt.Sprintf("safe.%s.%d", kind, ord)), "safety", st.pc, cond, what+" @ "+fr.posStr(ins))
		// after the check, execution continues only if it passed
	}
	e.vc.assumeIf(st.pc, cond)
}

func (fr *Frame) posStr(ins ssa.Instruction) string {
	p := ins.Pos()
	if p == token.NoPos {
		return fr.fn.Name()
	}
	pos := fr.eng.prog.SSA.Fset.Position(p)
	return fmt.Sprintf("%s:%d", strings.TrimPrefix(pos.Filename, fr.eng.prog.RepoDir+"/"), pos.Line)
}

func (e *Engine) safeOrd(fr *Frame, kind string) int {
	k := fr.fn.String() + "#" + kind
	if e.safeCtr == nil {
		e.safeCtr = map[string]int{}
	}
	e.safeCtr[k]++
	return e.safeCtr[k]
}

// cellOf resolves an address value to (component, index, elemType); for struct-typed
// cells comp is "" and index is the struct's base location.
// ---- non-escaping struct variables ----
// A struct-typed local whose address is only used for field loads/stores (and whole-value loads and
// stores) is kept out of the shared field components: each of its scalar leaves is a private state
// variable. Stores to it therefore never disturb (or appear to modify) the heap that specs talk about.

func localStructAlloc(v ssa.Value) bool {
	al, ok := v.(*ssa.Alloc)
	if !ok {
		return false
	}
	pt, ok := al.Type().Underlying().(*types.Pointer)
	if !ok {
		return false
	}
	if _, ok := pt.Elem().Underlying().(*types.Struct); !ok || !isStructLike(pt.Elem()) {
		return false
	}
	return addrOnlyLoadsStores(al)
}

func addrOnlyLoadsStores(v ssa.Value) bool {
	refs := v.Referrers()
	if refs == nil {
		return false
	}
	for _, r := range *refs {
		switch r := r.(type) {
		case *ssa.DebugRef:
		case *ssa.UnOp:
			if r.X != v {
				return false
			}
		case *ssa.Store:
			if r.Addr != v {
				return false
			}
		case *ssa.FieldAddr:
			if r.X != v || !addrOnlyLoadsStores(r) {
				return false
			}
		default:
			return false
		}
	}
	return true
}

// localPath: addr is a (nested) field address inside a local struct variable: returns the variable and the field path.
func localPath(addr ssa.Value) (*ssa.Alloc, []int, bool) {
	var path []int
	cur := addr
	for {
		switch x := cur.(type) {
		case *ssa.FieldAddr:
			path = append([]int{x.Field}, path...)
			cur = x.X
		case *ssa.Alloc:
			if localStructAlloc(x) {
				return x, path, true
			}
			return nil, nil, false
		default:
			return nil, nil, false
		}
	}
}

func (fr *Frame) localLeaf(al *ssa.Alloc, path []int, t types.Type) string {
	n := fmt.Sprintf("$ls$%s$%s", fr.tag, al.Name())
	for _, i := range path {
		n += fmt.Sprintf(".%d", i)
	}
	return fr.eng.comp(n, fr.eng.vc.sortOf(t))
}

func (fr *Frame) localLoad(st *State, al *ssa.Alloc, path []int, t types.Type) Term {
	e := fr.eng
	if stt, ok := t.Underlying().(*types.Struct); ok && isStructLike(t) {
		e.vc.sortOf(t)
		if stt.NumFields() == 0 {
			return e.vc.structCtor(t)
		}
		var fs []string
		for i := 0; i < stt.NumFields(); i++ {
			fs = append(fs, fr.localLoad(st, al, append(append([]int{}, path...), i), stt.Field(i).Type()))
		}
		return fmt.Sprintf("(%s %s)", e.vc.structCtor(t), strings.Join(fs, " "))
	}
	return e.get(st, fr.localLeaf(al, path, t))
}

func (fr *Frame) localStore(st *State, al *ssa.Alloc, path []int, t types.Type, v Term) {
	e := fr.eng
	if stt, ok := t.Underlying().(*types.Struct); ok && isStructLike(t) {
		for i := 0; i < stt.NumFields(); i++ {
			fr.localStore(st, al, append(append([]int{}, path...), i), stt.Field(i).Type(), fmt.Sprintf("(%s %s)", e.vc.structSel(t, i), v))
		}
		return
	}
	st.heap[fr.localLeaf(al, path, t)] = e.vc.name("ls", e.vc.sortOf(t), v)
}

func (fr *Frame) cellOf(addr ssa.Value) (comp string, ix Term, et types.Type) {
	e := fr.eng
	pt, ok := addr.Type().Underlying().(*types.Pointer)
	if !ok {
		fr.unsup("address of non-pointer type %s", addr.Type())
	}
	et = pt.Elem()
	if isStructLike(et) {
		return "", fr.val(addr), et
	}
	if fa, ok := addr.(*ssa.FieldAddr); ok {
		c, boxed := e.fieldComp(fa.X.Type(), fa.Field)
		if !boxed {
			return c, fr.val(fa.X), et
		}
		return c, fr.val(addr), et
	}
	return e.boxComp(et), fr.val(addr), et
}

func (fr *Frame) load(st *State, addr ssa.Value, ins ssa.Instruction) Term {
	e := fr.eng
	if al, path, ok := localPath(addr); ok {
		return fr.localLoad(st, al, path, addr.Type().Underlying().(*types.Pointer).Elem())
	}
	comp, ix, et := fr.cellOf(addr)
	if _, isFA := addr.(*ssa.FieldAddr); !isFA {
		if _, isIA := addr.(*ssa.IndexAddr); !isIA {
			fr.safeNonNil(st, ix, "nil pointer dereference", ins)
		}
	}
	if comp == "" {
		return e.loadAt(st, ix, et)
	}
	return sel(e.get(st, comp), ix)
}

func (fr *Frame) store(st *State, addr ssa.Value, v Term, ins ssa.Instruction) {
	e := fr.eng
	if al, path, ok := localPath(addr); ok {
		fr.localStore(st, al, path, addr.Type().Underlying().(*types.Pointer).Elem(), v)
		return
	}
	comp, ix, et := fr.cellOf(addr)
	if _, isFA := addr.(*ssa.FieldAddr); !isFA {
		if _, isIA := addr.(*ssa.IndexAddr); !isIA {
			fr.safeNonNil(st, ix, "nil pointer dereference", ins)
		}
	}
	if comp == "" {
		e.storeAt(st, ix, et, v)
		return
	}
	st.heap[comp] = e.vc.name("h", e.compSort[comp], sto(e.get(st, comp), ix, v))
}

func (fr *Frame) unop(ins *ssa.UnOp, st *State) {
	vc := fr.eng.vc
	switch ins.Op {
	case token.MUL:
		v := fr.load(st, ins.X, ins)
		fr.setVal(ins, v)
		fr.eng.wf(st, fr.vals[ins], ins.Type())
		// a closure loaded from a captured cell: resolve statically when the cell has a single store
		if _, ok := ins.Type().Underlying().(*types.Signature); ok {
			if c := fr.cellClosure(ins.X); c != nil {
				fr.closures[ins] = c
			}
		}
	case token.NOT:
		fr.setVal(ins, not(fr.val(ins.X)))
	case token.SUB:
		if isFloat(ins.Type()) {
			fr.setVal(ins, fmt.Sprintf("(- %s)", fr.val(ins.X)))
		} else {
			fr.setVal(ins, fmt.Sprintf("(- %s)", fr.val(ins.X)))
		}
	case token.ARROW:
		fr.unsup("channel receive")
	case token.XOR:
		fr.setVal(ins, vc.fresh("bitnot", "Int"))
	default:
		fr.unsup("unary %s", ins.Op)
	}
}

// cellClosure: if addr is an Alloc (captured variable cell) whose only store is a known closure, return it.
func (fr *Frame) cellClosure(addr ssa.Value) *Closure {
	al, ok := addr.(*ssa.Alloc)
	if !ok {
		return nil
	}
	var found *Closure
	n := 0
	for _, r := range *al.Referrers() {
		if s, ok := r.(*ssa.Store); ok && s.Addr == al {
			n++
			found = fr.closureOf(s.Val)
		}
	}
	if n == 1 {
		return found
	}
	return nil
}

func (fr *Frame) binop(op token.Token, x, y Term, xt types.Type, ins ssa.Instruction, st *State) Term {
	vc := fr.eng.vc
	switch op {
	case token.EQL, token.NEQ:
		var r Term
		if _, ok := xt.Underlying().(*types.Slice); ok {
			// only comparison with nil is legal
			other := x
			if x == "nil_slice" {
				other = y
			}
			r = fmt.Sprintf("(= (s_arr %s) nil)", other)
		} else {
			r = eq(x, y)
		}
		if op == token.NEQ {
			return not(r)
		}
		return r
	case token.LSS, token.LEQ, token.GTR, token.GEQ:
		if isString(xt) {
			x, y = fr.eng.vc.strRank(x), fr.eng.vc.strRank(y)
		}
		return fmt.Sprintf("(%s %s %s)", op.String(), x, y)
	case token.ADD:
		if isString(xt) {
			return fmt.Sprintf("(str_cat %s %s)", x, y)
		}
		return fmt.Sprintf("(+ %s %s)", x, y)
	case token.SUB:
		return fmt.Sprintf("(- %s %s)", x, y)
	case token.MUL:
		return fmt.Sprintf("(* %s %s)", x, y)
	case token.QUO:
		if isFloat(xt) {
			return fmt.Sprintf("(/ %s %s)", x, y)
		}
		if st != nil {
			fr.safety(st, "div", fmt.Sprintf("(not (= %s 0))", y), ins, "division by zero")
		}
		return fmt.Sprintf("(go_div %s %s)", x, y)
	case token.REM:
		if st != nil {
			fr.safety(st, "div", fmt.Sprintf("(not (= %s 0))", y), ins, "division by zero")
		}
		return fmt.Sprintf("(go_mod %s %s)", x, y)
	case token.AND, token.OR, token.XOR, token.SHL, token.SHR, token.AND_NOT:
		if isBool(xt) {
			if op == token.AND {
				return and(x, y)
			}
			if op == token.OR {
				return or(x, y)
			}
		}
		n := sym("bit$" + op.String())
		vc.decl("fn:"+n, fmt.Sprintf("(declare-fun %s (Int Int) Int)", n))
		return fmt.Sprintf("(%s %s %s)", n, x, y)
	}
	fr.unsup("binary %s", op)
	return ""
}

func (fr *Frame) makeIface(x Term, t types.Type) Term { return fr.eng.makeIface(x, t) }

func (e *Engine) makeIface(x Term, t types.Type) Term {
	vc := e.vc
	if _, ok := t.Underlying().(*types.Interface); ok {
		return x
	}
	s := vc.sortOf(t)
	id := vc.typeID(t)
	box := sym("box$" + strings.Trim(s, "|") + "$" + fmt.Sprint(id))
	unbox := sym("unbox$" + strings.Trim(s, "|") + "$" + fmt.Sprint(id))
	vc.decl("fn:"+box, fmt.Sprintf("(declare-fun %s (%s) Iface)", box, s))
	vc.decl("fn:"+unbox, fmt.Sprintf("(declare-fun %s (Iface) %s)", unbox, s))
	vc.decl("ax:"+box, fmt.Sprintf("(assert (forall ((x %s)) (! (and (= (%s (%s x)) x) (= (iface_tag (%s x)) %d)) :pattern ((%s x)))))", s, unbox, box, box, id, box))
	return fmt.Sprintf("(%s %s)", box, x)
}

func (fr *Frame) typeAssert(ins *ssa.TypeAssert, st *State) {
	vc := fr.eng.vc
	x := fr.val(ins.X)
	at := ins.AssertedType
	if _, ok := at.Underlying().(*types.Interface); ok {
		// interface-to-interface: succeeds iff dynamic type implements; unknown
		okc := vc.fresh("implements", "Bool")
		if ins.CommaOk {
			fr.vals[ins] = "tuple:" + ite(okc, x, "nil_iface") + "\x00" + okc
		} else {
			fr.vals[ins] = x
		}
		return
	}
	s := vc.sortOf(at)
	id := vc.typeID(at)
	fr.makeIface(vc.zero(at), at) // declare box/unbox
	unbox := sym("unbox$" + strings.Trim(s, "|") + "$" + fmt.Sprint(id))
	okc := fmt.Sprintf("(= (iface_tag %s) %d)", x, id)
	v := fmt.Sprintf("(%s %s)", unbox, x)
	if ins.CommaOk {
		fr.vals[ins] = "tuple:" + ite(okc, v, vc.zero(at)) + "\x00" + okc
	} else {
		fr.safety(st, "typeassert", okc, ins, "type assertion")
		fr.setVal(ins, v)
	}
}

func (fr *Frame) convert(ins *ssa.Convert, st *State) {
	vc := fr.eng.vc
	x := fr.val(ins.X)
	from, to := ins.X.Type(), ins.Type()
	switch {
	case isIntLike(from) && isIntLike(to):
		fr.vals[ins] = x // mathematical integers (listed assumption: no wrap-around on conversion)
		vc.assumes["integer conversions do not wrap"] = true
	case isIntLike(from) && isFloat(to):
		fr.setVal(ins, fmt.Sprintf("(to_real %s)", x))
	case isFloat(from) && isFloat(to):
		fr.vals[ins] = x
	case isFloat(from) && isIntLike(to):
		// truncation toward zero
		fr.setVal(ins, fmt.Sprintf("(ite (>= %s 0.0) (to_int %s) (- (to_int (- %s))))", x, x, x))
	case isString(from) && isString(to):
		fr.vals[ins] = x
	default:
		// string <-> []byte etc.: opaque
		fr.vals[ins] = vc.fresh("conv", vc.sortOf(to))
	}
}

func (fr *Frame) sliceOp(ins *ssa.Slice, st *State) {
	vc := fr.eng.vc
	x := fr.val(ins.X)
	var lo, hi Term = "0", ""
	if ins.Low != nil {
		lo = fr.val(ins.Low)
	}
	switch xt := ins.X.Type().Underlying().(type) {
	case *types.Slice:
		if ins.High != nil {
			hi = fr.val(ins.High)
		} else {
			hi = fmt.Sprintf("(s_len %s)", x)
		}
		mx := fmt.Sprintf("(s_cap %s)", x)
		if ins.Max != nil {
			mx = fr.val(ins.Max)
		}
		fr.safety(st, "slice", fmt.Sprintf("(and (<= 0 %s) (<= %s %s) (<= %s (s_cap %s)))", lo, lo, hi, hi, x), ins, "slice bounds")
		fr.setVal(ins, fmt.Sprintf("(mkslice (s_arr %s) (+ (s_off %s) %s) (- %s %s) (- %s %s))", x, x, lo, hi, lo, mx, lo))
	case *types.Pointer:
		at := xt.Elem().Underlying().(*types.Array)
		if ins.High != nil {
			hi = fr.val(ins.High)
		} else {
			hi = fmt.Sprint(at.Len())
		}
		fr.safety(st, "slice", fmt.Sprintf("(and (<= 0 %s) (<= %s %s) (<= %s %d))", lo, lo, hi, hi, at.Len()), ins, "slice bounds")
		fr.setVal(ins, fmt.Sprintf("(mkslice %s %s (- %s %s) (- %d %s))", x, lo, hi, lo, at.Len(), lo))
	case *types.Basic: // string slicing
		fr.vals[ins] = vc.fresh("substr", "Str")
	default:
		fr.unsup("slice of %s", ins.X.Type())
	}
}

func (fr *Frame) lookup(ins *ssa.Lookup, st *State) {
	e := fr.eng
	vc := e.vc
	mt, ok := ins.X.Type().Underlying().(*types.Map)
	if !ok {
		// string index
		fr.vals[ins] = vc.fresh("strbyte", "Int")
		return
	}
	m := fr.val(ins.X)
	k := fr.val(ins.Index)
	has, v := fr.mapGet(st, m, mt, k)
	if ins.CommaOk {
		fr.vals[ins] = "tuple:" + v + "\x00" + has
	} else {
		fr.setVal(ins, v)
	}
}

// mapGet returns (present, value-or-zero).
func (fr *Frame) mapGet(st *State, m Term, mt *types.Map, k Term) (Term, Term) {
	e := fr.eng
	vc := e.vc
	has := sel(sel(e.get(st, e.mapDomComp(mt)), m), k)
	if isEmptyStruct(mt.Elem()) {
		return has, vc.zero(mt.Elem())
	}
	raw := sel(sel(e.get(st, e.mapValComp(mt)), m), k)
	v := ite(has, raw, vc.zero(mt.Elem()))
	v = vc.name("mapv", vc.sortOf(mt.Elem()), v)
	e.wf(st, v, mt.Elem())
	return has, v
}

func isEmptyStruct(t types.Type) bool {
	s, ok := t.Underlying().(*types.Struct)
	return ok && s.NumFields() == 0
}

func (fr *Frame) mapUpdate(st *State, m Term, mt *types.Map, k, v Term, ins ssa.Instruction) {
	e := fr.eng
	vc := e.vc
	fr.safety(st, "mapwrite", fmt.Sprintf("(not (= %s nil))", m), ins, "write to nil map")
	fr.rangeMutationCheck(st, m, mt, k, ins, false)
	dc := e.mapDomComp(mt)
	ks := vc.sortOf(mt.Key())
	oldDom := sel(e.get(st, dc), m)
	newDom := vc.name("dom", fmt.Sprintf("(Array %s Bool)", ks), sto(oldDom, k, "true"))
	st.heap[dc] = vc.name("h", e.compSort[dc], sto(e.get(st, dc), m, newDom))
	vc.assumeIf(st.pc, fmt.Sprintf("(= %s (ite (select %s %s) %s (+ %s 1)))", e.card(ks, newDom), oldDom, k, e.card(ks, oldDom), e.card(ks, oldDom)))
	if !isEmptyStruct(mt.Elem()) {
		mc := e.mapValComp(mt)
		st.heap[mc] = vc.name("h", e.compSort[mc], sto(e.get(st, mc), m, sto(sel(e.get(st, mc), m), k, v)))
	}
}

func (fr *Frame) mapDelete(st *State, m Term, mt *types.Map, k Term, ins ssa.Instruction) {
	e := fr.eng
	vc := e.vc
	fr.rangeMutationCheck(st, m, mt, k, ins, true)
	dc := e.mapDomComp(mt)
	ks := vc.sortOf(mt.Key())
	oldDom := sel(e.get(st, dc), m)
	newDom := vc.name("dom", fmt.Sprintf("(Array %s Bool)", ks), sto(oldDom, k, "false"))
	// deleting from a nil map is a no-op
	st.heap[dc] = vc.name("h", e.compSort[dc], ite(eq(m, "nil"), e.get(st, dc), sto(e.get(st, dc), m, newDom)))
	vc.assumeIf(st.pc, fmt.Sprintf("(= %s (ite (select %s %s) (- %s 1) %s))", e.card(ks, newDom), oldDom, k, e.card(ks, oldDom), e.card(ks, oldDom)))
}

func (fr *Frame) mapLen(st *State, m Term, mt *types.Map) Term {
	e := fr.eng
	ks := e.vc.sortOf(mt.Key())
	return e.card(ks, sel(e.get(st, e.mapDomComp(mt)), m))
}

// ---- range over map ----

func (fr *Frame) rangeInit(ins *ssa.Range, st *State) {
	e := fr.eng
	vc := e.vc
	mt, ok := ins.X.Type().Underlying().(*types.Map)
	if !ok {
		// range over string
		fr.unsup("range over string")
	}
	e.rngCtr++
	id := fmt.Sprintf("%s.%s.%d", fr.fn.Name(), ins.Name(), e.rngCtr)
	ks := vc.sortOf(mt.Key())
	m := fr.val(ins.X)
	ri := &rangeInfo{id: id, mapLoc: m, mapType: mt}
	ri.dom0 = vc.name("rngdom", fmt.Sprintf("(Array %s Bool)", ks), sel(e.get(st, e.mapDomComp(mt)), m))
	if !strings.Contains(ri.dom0, "rngdom") {
		c := vc.fresh("rngdom", fmt.Sprintf("(Array %s Bool)", ks))
		vc.assume(eq(c, ri.dom0))
		ri.dom0 = c
	}
	ri.n = e.card(ks, ri.dom0)
	ri.keyAt = sym("keyAt$" + id)
	ri.idxOf = sym("idxOf$" + id)
	vc.decl("fn:"+ri.keyAt, fmt.Sprintf("(declare-fun %s (Int) %s)", ri.keyAt, ks))
	vc.decl("fn:"+ri.idxOf, fmt.Sprintf("(declare-fun %s (%s) Int)", ri.idxOf, ks))
	// enumeration axioms: keyAt is a bijection between [0,n) and the domain snapshot
	vc.assume(fmt.Sprintf("(forall ((k %s)) (! (= (select %s k) (and (<= 0 (%s k)) (< (%s k) %s) (= (%s (%s k)) k))) :pattern ((select %s k)) :pattern ((%s k))))", ks, ri.dom0, ri.idxOf, ri.idxOf, ri.n, ri.keyAt, ri.idxOf, ri.dom0, ri.idxOf))
	vc.assume(fmt.Sprintf("(forall ((j Int)) (! (=> (and (<= 0 j) (< j %s)) (and (= (%s (%s j)) j) (select %s (%s j)))) :pattern ((%s j))))", ri.n, ri.idxOf, ri.keyAt, ri.dom0, ri.keyAt, ri.keyAt))
	ri.ctrComp = e.comp("$rng$"+id, "Int")
	st.heap[ri.ctrComp] = "0"
	fr.ranges[ins] = ri
	fr.vals[ins] = "range:" + id
}

func (fr *Frame) rangeNext(ins *ssa.Next, st *State) {
	e := fr.eng
	vc := e.vc
	ri := fr.ranges[ins.Iter]
	if ri == nil {
		fr.unsup("next on unknown iterator")
	}
	i := e.get(st, ri.ctrComp)
	okc := fmt.Sprintf("(< %s %s)", i, ri.n)
	key := vc.name("rngkey", vc.sortOf(ri.mapType.Key()), fmt.Sprintf("(%s %s)", ri.keyAt, i))
	_, v := fr.mapGet(st, ri.mapLoc, ri.mapType, key)
	st.heap[ri.ctrComp] = vc.name("rngi", "Int", fmt.Sprintf("(+ %s 1)", i))
	fr.vals[ins] = "tuple:" + okc + "\x00" + key + "\x00" + v
}

// the loop that iterates a Range: its header contains the Next
func (fr *Frame) rangeOfLoop(h *ssa.BasicBlock) *rangeInfo {
	for _, ins := range h.Instrs {
		if nx, ok := ins.(*ssa.Next); ok {
			return fr.ranges[nx.Iter]
		}
	}
	return nil
}

func (fr *Frame) autoRangeFacts(h *ssa.BasicBlock, hst *State) {
	ri := fr.rangeOfLoop(h)
	if ri == nil {
		return
	}
	i := fr.eng.get(hst, ri.ctrComp)
	fr.eng.vc.assumeIf(hst.pc, fmt.Sprintf("(and (<= 0 %s) (<= %s %s))", i, i, ri.n))
}

func (fr *Frame) autoRangeStep(h *ssa.BasicBlock, st *State) {
	// counter bound is inductive by construction (0 at Range; +1 only at Next under i<n); nothing to prove
}

// rangeMutationCheck: a map that is being ranged over may only have its current key deleted.
func (fr *Frame) rangeMutationCheck(st *State, m Term, mt *types.Map, k Term, ins ssa.Instruction, isDelete bool) {
	e := fr.eng
	for f := fr; f != nil; f = f.parent {
		for _, ri := range f.ranges {
			if !types.Identical(ri.mapType.Key(), mt.Key()) {
				continue
			}
			i := e.get(st, ri.ctrComp)
			active := fmt.Sprintf("(and (> %s 0) (<= %s %s))", i, i, ri.n)
			var okc Term
			if isDelete {
				// allowed: key already visited (index < i), which includes the current key
				okc = fmt.Sprintf("(or (not (= %s %s)) (not %s) (not (select %s %s)) (< (%s %s) %s))", m, ri.mapLoc, active, ri.dom0, k, ri.idxOf, k, i)
			} else {
				okc = fmt.Sprintf("(or (not (= %s %s)) (not %s) (select %s %s))", m, ri.mapLoc, active, ri.dom0, k)
			}
			e.vc.oblige(fr.oblName(fmt.Sprintf("safe.rangemut.%d", e.safeOrd(fr, "rangemut"))), "safety", st.pc, okc, "map mutated during range only at visited keys @ "+fr.posStr(ins))
		}
	}
}

// storeSite: a write to a named struct field is a pseudo call site `store.<Type>.<field>` ($0 = the
// struct pointer, $1 = the value written) so that contracts can put conditions on when a field changes.
func (fr *Frame) storeSite(st *State, ins *ssa.Store) {
	e := fr.eng
	top := e.topFrame
	if top == nil || top.con == nil || len(top.con.Sites) == 0 {
		return
	}
	fa, ok := ins.Addr.(*ssa.FieldAddr)
	if !ok {
		return
	}
	pt, ok := fa.X.Type().Underlying().(*types.Pointer)
	if !ok {
		return
	}
	nt, ok := types.Unalias(pt.Elem()).(*types.Named)
	if !ok || nt.Obj().Pkg() == nil {
		return
	}
	stt, ok := nt.Underlying().(*types.Struct)
	if !ok {
		return
	}
	name := nt.Obj().Pkg().Path() + ".store." + nt.Obj().Name() + "." + stt.Field(fa.Field).Name()
	hit := false
	for _, ss := range top.con.Sites {
		if patMatches(ss.Pattern, name) {
			hit = true
		}
	}
	if !hit {
		return
	}
	cx := &callCtx{fr: fr, st: st, instr: ins, name: name,
		args: []Term{fr.val(fa.X), fr.val(ins.Val)}, argVs: []ssa.Value{fa.X, ins.Val}, argTs: []types.Type{fa.X.Type(), ins.Val.Type()}}
	fr.checkSites(cx)
}
