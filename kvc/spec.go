package main

import (
	"fmt"
	"go/ast"
	"go/constant"
	"go/types"
	"os"
	"regexp"
	"strconv"
	"strings"

	"golang.org/x/tools/go/ssa"
)

type binding struct {
	t   Term
	typ types.Type
}

// sval: value of a spec expression; ref != nil means an lvalue.
type sval struct {
	t   Term
	typ types.Type
	ref *cellRef
	pkg *types.Package // for package identifiers
	tup []sval         // tuple
}

type cellRef struct {
	comp      string
	ix        Term
	structLoc bool
}

type specEnv struct {
	eng       *Engine
	fr        *Frame // frame in which @patterns and source names resolve (may be nil)
	fn        *ssa.Function
	resSig    *types.Tuple
	st        *State
	old       *State
	vars      map[string]binding
	pkg       *types.Package
	con       *Contract
	results   []Term
	args      []sval // $0..$n for site clauses
	letDepth  int
	quant     int
	loopEntry *State
	atFresh   map[string]sval
	inEval    bool
	inTrigger bool
}

type specErr string

func (env *specEnv) resTuple() *types.Tuple {
	if env.fn != nil {
		return env.fn.Signature.Results()
	}
	return env.resSig
}

func (env *specEnv) fail(f string, a ...any) {
	panic(specErr(fmt.Sprintf(f, a...)))
}

var (
	tInt    = types.Typ[types.Int]
	tBool   = types.Typ[types.Bool]
	tString = types.Typ[types.String]
	tReal   = types.Typ[types.Float64]
)

func (fr *Frame) evalClause(c *Clause, st *State, extra map[string]binding) Term {
	env := fr.specEnvFor(st)
	if fr.inLoopHdr != nil {
		env.loopEntry = fr.loopEntries[fr.inLoopHdr]
	}
	for k, v := range extra {
		env.vars[k] = v
	}
	return env.evalBool(c.Expr)
}

func (fr *Frame) specEnvFor(st *State) *specEnv {
	top := fr
	env := &specEnv{eng: fr.eng, fr: fr, fn: fr.fn, st: st, old: top.entry, vars: map[string]binding{}, con: fr.con}
	if fr.fn.Pkg != nil {
		env.pkg = fr.fn.Pkg.Pkg
	} else if fr.con != nil {
		env.pkg = fr.con.Pkg
	}
	if fr.con != nil && fr.con.Pkg != nil {
		env.pkg = fr.con.Pkg
	}
	for i, p := range fr.fn.Params {
		if i < len(fr.params) {
			env.vars[p.Name()] = binding{fr.params[i], p.Type()}
		} else if t, ok := fr.vals[p]; ok {
			env.vars[p.Name()] = binding{t, p.Type()}
		}
	}
	for _, fv := range fr.fn.FreeVars {
		if t, ok := fr.vals[fv]; ok {
			// captured variables are cells: name refers to the cell's content
			env.vars["&"+fv.Name()] = binding{t, fv.Type()}
		}
	}
	return env
}

func (env *specEnv) evalBool(e Expr) Term {
	if env.quant == 0 && env.letDepth == 0 && !env.inEval {
		env.inEval = true
		defer func() {
			env.inEval = false
			if r := recover(); r != nil {
				s := e.String()
				if len(s) > 90 {
					s = s[:90] + "..."
				}
				if se, ok := r.(specErr); ok {
					panic(specErr(string(se) + "  [while evaluating: " + s + "]"))
				}
				if _, ok := r.(unsupported); ok {
					panic(r)
				}
				panic(specErr(fmt.Sprintf("cannot evaluate (%v)  [while evaluating: %s]", r, s)))
			}
		}()
	}
	v := env.eval(e)
	t := env.rv(v)
	if env.eng.vc.sortOf(v.typ) != "Bool" {
		env.fail("expected boolean, got %s in %s", v.typ, e)
	}
	return t
}

func (env *specEnv) rv(v sval) Term {
	if v.ref == nil {
		return v.t
	}
	if v.ref.structLoc {
		return env.eng.loadAt(env.st, v.ref.ix, v.typ)
	}
	return sel(env.eng.get(env.st, v.ref.comp), v.ref.ix)
}

func (env *specEnv) resolveType(text string) types.Type {
	text = strings.TrimSpace(text)
	if strings.HasPrefix(text, "*") {
		return types.NewPointer(env.resolveType(text[1:]))
	}
	if strings.HasPrefix(text, "[]") {
		return types.NewSlice(env.resolveType(text[2:]))
	}
	switch text {
	case "int":
		return tInt
	case "int64":
		return types.Typ[types.Int64]
	case "int32":
		return types.Typ[types.Int32]
	case "bool":
		return tBool
	case "string":
		return tString
	case "float64", "real":
		return tReal
	case "error":
		return types.Universe.Lookup("error").Type()
	case "loc":
		return types.Typ[types.UnsafePointer]
	}
	// remaining basic types (uint64, byte, ...) and map types
	if tn, ok := types.Universe.Lookup(text).(*types.TypeName); ok {
		return tn.Type()
	}
	if strings.HasPrefix(text, "map[") {
		depth := 0
		for i := 3; i < len(text); i++ {
			switch text[i] {
			case '[':
				depth++
			case ']':
				depth--
				if depth == 0 {
					return types.NewMap(env.resolveType(text[4:i]), env.resolveType(text[i+1:]))
				}
			}
		}
	}
	if i := strings.Index(text, "."); i >= 0 {
		pn, tn := text[:i], text[i+1:]
		if p := env.findPkg(pn); p != nil {
			if o := p.Scope().Lookup(tn); o != nil {
				return o.Type()
			}
		}
		env.fail("unknown type %s", text)
	}
	if env.pkg != nil {
		if o := env.pkg.Scope().Lookup(text); o != nil {
			if _, ok := o.(*types.TypeName); ok {
				return o.Type()
			}
		}
	}
	// type parameters / instantiated receiver types of the function
	if env.fn != nil {
		if recv := env.fn.Signature.Recv(); recv != nil {
			t := recv.Type()
			if pt, ok := t.(*types.Pointer); ok {
				t = pt.Elem()
			}
			if nt, ok := t.(*types.Named); ok && nt.Obj().Name() == text {
				return nt
			}
		}
	}
	env.fail("unknown type %s", text)
	return nil
}

func (env *specEnv) findNamedType(path, name string) types.Type {
	for _, p := range env.eng.prog.Pkgs {
		cands := append([]*types.Package{p.Types}, p.Types.Imports()...)
		for _, c := range cands {
			if c.Path() == path {
				if o := c.Scope().Lookup(name); o != nil {
					return o.Type()
				}
			}
		}
	}
	return nil
}

func (env *specEnv) findPkg(name string) *types.Package {
	if env.pkg != nil {
		// well-known import aliases first (v1 is ambiguous by package name)
		for _, imp := range env.pkg.Imports() {
			if aliasMatches(name, imp.Path()) {
				return imp
			}
		}
		for _, imp := range env.pkg.Imports() {
			if imp.Name() == name {
				return imp
			}
		}
	}
	for _, p := range env.eng.prog.Pkgs {
		if aliasMatches(name, p.PkgPath) {
			return p.Types
		}
		for _, imp := range p.Types.Imports() {
			if aliasMatches(name, imp.Path()) {
				return imp
			}
		}
	}
	for _, p := range env.eng.prog.Pkgs {
		if p.Types.Name() == name || aliasMatches(name, p.PkgPath) {
			return p.Types
		}
		for _, imp := range p.Types.Imports() {
			if imp.Name() == name || aliasMatches(name, imp.Path()) {
				return imp
			}
		}
	}
	return nil
}

func aliasMatches(alias, path string) bool {
	switch alias {
	case "corev1":
		return path == "k8s.io/api/core/v1"
	case "metav1":
		return path == "k8s.io/apimachinery/pkg/apis/meta/v1"
	case "v1":
		return path == modPath+"/pkg/apis/v1"
	case "policyv1":
		return path == "k8s.io/api/policy/v1"
	case "storagev1":
		return path == "k8s.io/api/storage/v1"
	}
	if strings.HasSuffix(alias, "utils") && len(alias) > 5 {
		return path == modPath+"/pkg/utils/"+strings.TrimSuffix(alias, "utils")
	}
	if strings.HasSuffix(alias, "util") && len(alias) > 4 {
		return path == modPath+"/pkg/utils/"+strings.TrimSuffix(alias, "util")
	}
	return false
}

func (env *specEnv) lookupIdent(name string) (sval, bool) {
	vc := env.eng.vc
	if b, ok := env.vars[name]; ok {
		return sval{t: b.t, typ: b.typ}, true
	}
	if env.con != nil && env.letDepth < 20 {
		for _, l := range env.con.Lets {
			if l.Name == name {
				env.letDepth++
				v := env.eval(l.Expr)
				env.letDepth--
				return v, true
			}
		}
	}
	if name == "result" && len(env.results) >= 1 && env.resTuple() != nil {
		if len(env.results) == 1 {
			return sval{t: env.results[0], typ: env.resTuple().At(0).Type()}, true
		}
		var tup []sval
		for i, r := range env.results {
			tup = append(tup, sval{t: r, typ: env.resTuple().At(i).Type()})
		}
		return sval{tup: tup, typ: env.resTuple()}, true
	}
	if env.resTuple() != nil && len(env.results) > 0 {
		rs := env.resTuple()
		for i := 0; i < rs.Len(); i++ {
			if rs.At(i).Name() == name && name != "" && name != "_" {
				return sval{t: env.results[i], typ: rs.At(i).Type()}, true
			}
		}
	}
	if strings.HasPrefix(name, "$") && len(name) > 1 {
		if k, err := strconv.Atoi(name[1:]); err == nil {
			if k < len(env.args) {
				return env.args[k], true
			}
			env.fail("no argument %s at this site", name)
		}
	}
	// captured variable cell
	if b, ok := env.vars["&"+name]; ok {
		pt := b.typ.Underlying().(*types.Pointer)
		return env.deref(sval{t: b.t, typ: pt}), true
	}
	// a local that lives in memory (its address is taken, e.g. by a field assignment `x.f = v`): the name
	// denotes the CURRENT content of its cell in the state the clause is evaluated in — not the value of the
	// last whole-variable load, which later field stores would have made stale
	if env.fr != nil {
		if a, ok := env.fr.srcAddrs[name]; ok && a != nil {
			if al, isAl := a.(*ssa.Alloc); isAl {
				if _, have := env.fr.vals[a]; have {
					if localStructAlloc(al) {
						et := al.Type().Underlying().(*types.Pointer).Elem()
						return sval{t: env.fr.localLoad(env.st, al, nil, et), typ: et}, true
					}
					return env.deref(sval{t: env.fr.vals[a], typ: a.Type()}), true
				}
			}
		}
	}
	// source-level local of the frame (unique SSA value)
	if env.fr != nil {
		if v, ok := env.fr.srcValue(name); ok {
			if _, isConst := v.(*ssa.Const); isConst {
				return sval{t: env.fr.val(v), typ: v.Type()}, true
			}
			if t, ok := env.fr.vals[v]; ok && !strings.HasPrefix(t, "tuple:") {
				return sval{t: t, typ: v.Type()}, true
			}
		}
	}
	// addressable local (its cell): the name denotes the cell's content
	if env.fr != nil {
		if a, ok := env.fr.srcAddrs[name]; ok && a != nil {
			if al, isAl := a.(*ssa.Alloc); isAl && localStructAlloc(al) {
				if _, ok := env.fr.vals[a]; ok {
					et := al.Type().Underlying().(*types.Pointer).Elem()
					return sval{t: env.fr.localLoad(env.st, al, nil, et), typ: et}, true
				}
			}
			if t, ok := env.fr.vals[a]; ok {
				return env.deref(sval{t: t, typ: a.Type()}), true
			}
		}
	}
	// contract applied at a call site: a source-level local of the callee denotes some (unknown) value
	if env.fr == nil && env.atFresh != nil && env.fn != nil {
		if v, ok := env.atFresh["local:"+name]; ok {
			return v, true
		}
		for _, b := range env.fn.Blocks {
			for _, ins := range b.Instrs {
				if d, ok := ins.(*ssa.DebugRef); ok && !d.IsAddr {
					if id, ok := d.Expr.(*ast.Ident); ok && id.Name == name {
						if o := d.Object(); o != nil && o.Pkg() != nil && o.Parent() == o.Pkg().Scope() {
							continue // package-level object, resolved below
						}
						c := vc.freshAlways("callee."+name, vc.sortOf(d.X.Type()))
						v := sval{t: c, typ: d.X.Type()}
						env.atFresh["local:"+name] = v
						return v, true
					}
				}
			}
		}
	}
	// ghost variables of the top-level contract
	if top := env.eng.topFrame; top != nil && top.con != nil {
		for _, g := range top.con.Ghosts {
			if g == name {
				return sval{t: env.eng.get(env.st, env.eng.comp("$g$"+g, "Bool")), typ: tBool}, true
			}
		}
	}
	if name == "$alloc" {
		return sval{t: env.st.alloc, typ: tInt}, true
	}
	// package-level objects
	if env.pkg != nil {
		if o := env.pkg.Scope().Lookup(name); o != nil {
			switch o := o.(type) {
			case *types.Const:
				return sval{t: vc.constTerm(o.Val(), o.Type()), typ: o.Type()}, true
			case *types.Var:
				if sp := env.eng.prog.SPkgs[env.pkg.Path()]; sp != nil {
					if g, ok := sp.Members[name].(*ssa.Global); ok {
						return env.deref(sval{t: env.eng.globalLoc(g), typ: g.Type()}), true
					}
				}
			}
		}
	}
	if p := env.findPkg(name); p != nil {
		return sval{pkg: p}, true
	}
	return sval{}, false
}

func (env *specEnv) deref(p sval) sval {
	pt, ok := p.typ.Underlying().(*types.Pointer)
	if !ok {
		env.fail("dereference of non-pointer %s", p.typ)
	}
	et := pt.Elem()
	loc := env.rv(p)
	if isStructLike(et) {
		return sval{typ: et, ref: &cellRef{ix: loc, structLoc: true}}
	}
	return sval{typ: et, ref: &cellRef{comp: env.eng.boxComp(et), ix: loc}}
}

// field selects field path from a struct lvalue/pointer/value.
func (env *specEnv) field(x sval, name string) sval {
	e := env.eng
	vc := e.vc
	t := x.typ
	if pt, ok := t.Underlying().(*types.Pointer); ok {
		x = env.deref(x)
		t = pt.Elem()
	}
	obj, path, _ := types.LookupFieldOrMethod(t, true, env.pkgOrNil(), name)
	if obj == nil {
		// unexported field of another package: search manually
		obj, path = lookupFieldAnyPkg(t, name)
		if obj == nil {
			env.fail("no field %s in %s", name, t)
		}
	}
	if _, ok := obj.(*types.Var); !ok {
		env.fail("%s.%s is not a field", t, name)
	}
	cur := x
	for _, i := range path {
		ct := cur.typ
		if pt, ok := ct.Underlying().(*types.Pointer); ok {
			cur = env.deref(cur)
			ct = pt.Elem()
		}
		st, ok := ct.Underlying().(*types.Struct)
		if !ok {
			env.fail("field of non-struct %s", ct)
		}
		ft := st.Field(i).Type()
		if cur.ref != nil && cur.ref.structLoc {
			base := cur.ref.ix
			if isStructLike(ft) {
				cur = sval{typ: ft, ref: &cellRef{ix: fmt.Sprintf("(fld %s %d)", base, i), structLoc: true}}
			} else {
				comp, boxed := e.fieldComp(ct, i)
				ix := base
				if boxed {
					ix = fmt.Sprintf("(fld %s %d)", base, i)
				}
				cur = sval{typ: ft, ref: &cellRef{comp: comp, ix: ix}}
			}
		} else {
			// struct rvalue
			vc.sortOf(ct)
			cur = sval{t: fmt.Sprintf("(%s %s)", vc.structSel(ct, i), env.rv(cur)), typ: ft}
		}
	}
	return cur
}

func lookupFieldAnyPkg(t types.Type, name string) (types.Object, []int) {
	st, ok := t.Underlying().(*types.Struct)
	if !ok {
		return nil, nil
	}
	for i := 0; i < st.NumFields(); i++ {
		if st.Field(i).Name() == name {
			return st.Field(i), []int{i}
		}
	}
	for i := 0; i < st.NumFields(); i++ {
		if st.Field(i).Embedded() {
			ft := st.Field(i).Type()
			if pt, ok := ft.Underlying().(*types.Pointer); ok {
				ft = pt.Elem()
			}
			if o, p := lookupFieldAnyPkg(ft, name); o != nil {
				return o, append([]int{i}, p...)
			}
		}
	}
	return nil, nil
}

func (env *specEnv) pkgOrNil() *types.Package { return env.pkg }

func (env *specEnv) eval(e Expr) sval {
	eng := env.eng
	vc := eng.vc
	switch e := e.(type) {
	case *EInt:
		return sval{t: e.V, typ: types.Typ[types.UntypedInt]}
	case *EFloat:
		return sval{t: e.V, typ: types.Typ[types.UntypedFloat]}
	case *EStr:
		return sval{t: vc.strLit(e.V), typ: tString}
	case *EBool:
		return sval{t: fmt.Sprint(e.V), typ: tBool}
	case *ENil:
		return sval{t: "nil", typ: types.Typ[types.UntypedNil]}
	case *EIdent:
		v, ok := env.lookupIdent(e.Name)
		if !ok {
			env.fail("unknown identifier %q", e.Name)
		}
		return v
	case *ESel:
		x := env.eval(e.X)
		if x.pkg != nil {
			o := x.pkg.Scope().Lookup(e.Name)
			if o == nil {
				env.fail("%s.%s not found", x.pkg.Name(), e.Name)
			}
			switch o := o.(type) {
			case *types.Const:
				return sval{t: vc.constTerm(o.Val(), o.Type()), typ: o.Type()}
			case *types.Var:
				if sp := eng.prog.SPkgs[x.pkg.Path()]; sp != nil {
					if g, ok := sp.Members[e.Name].(*ssa.Global); ok {
						return env.deref(sval{t: eng.globalLoc(g), typ: g.Type()})
					}
				}
			}
			env.fail("unsupported package member %s.%s", x.pkg.Name(), e.Name)
		}
		if x.tup != nil {
			k, err := strconv.Atoi(e.Name)
			if err != nil || k >= len(x.tup) {
				env.fail("bad tuple index .%s", e.Name)
			}
			return x.tup[k]
		}
		if e.Name == "len" || e.Name == "cap" {
			// allow s.len for slices
		}
		return env.field(x, e.Name)
	case *EIndex:
		x := env.eval(e.X)
		i := env.eval(e.I)
		switch xt := x.typ.Underlying().(type) {
		case *types.Slice:
			s := env.rv(x)
			loc := fmt.Sprintf("(sidx %s %s)", s, env.rv(i))
			if isStructLike(xt.Elem()) {
				return sval{typ: xt.Elem(), ref: &cellRef{ix: loc, structLoc: true}}
			}
			return sval{typ: xt.Elem(), ref: &cellRef{comp: eng.boxComp(xt.Elem()), ix: loc}}
		case *types.Map:
			m := env.rv(x)
			k := env.coerce(i, xt.Key())
			if isEmptyStruct(xt.Elem()) {
				return sval{t: vc.zero(xt.Elem()), typ: xt.Elem()}
			}
			has := sel(sel(eng.get(env.st, eng.mapDomComp(xt)), m), k)
			raw := sel(sel(eng.get(env.st, eng.mapValComp(xt)), m), k)
			if env.inTrigger {
				return sval{t: raw, typ: xt.Elem()} // patterns must be ite-free
			}
			return sval{t: ite(has, raw, vc.zero(xt.Elem())), typ: xt.Elem()}
		}
		env.fail("cannot index %s", x.typ)
	case *EUn:
		switch e.Op {
		case "!":
			return sval{t: not(env.evalBool(e.X)), typ: tBool}
		case "-":
			x := env.eval(e.X)
			return sval{t: fmt.Sprintf("(- %s)", env.rv(x)), typ: x.typ}
		case "*":
			return env.deref(env.eval(e.X))
		case "&":
			x := env.eval(e.X)
			if x.ref == nil {
				env.fail("cannot take address of %s", e.X)
			}
			if x.ref.structLoc {
				return sval{t: x.ref.ix, typ: types.NewPointer(x.typ)}
			}
			env.fail("address of scalar cell not supported in specs: %s", e.X)
		}
	case *EBin:
		return env.evalBin(e)
	case *ECond:
		c := env.evalBool(e.C)
		a, b := env.eval(e.A), env.eval(e.B)
		at, bt := env.unify(a, b)
		typ := a.typ
		if isUntyped(typ) {
			typ = b.typ
		}
		return sval{t: ite(c, at, bt), typ: typ}
	case *EQuant:
		return env.evalQuant(e)
	case *ECall:
		return env.evalCall(e)
	case *EAt:
		return env.evalAt(e)
	case *ESlice:
		env.fail("slice expressions are only allowed in modifies clauses")
	}
	env.fail("unsupported expression %s", e)
	return sval{}
}

func isUntyped(t types.Type) bool {
	b, ok := t.(*types.Basic)
	return ok && b.Info()&types.IsUntyped != 0
}

// coerce converts v to a term of the sort of type t (untyped literals, nil).
func (env *specEnv) coerce(v sval, t types.Type) Term {
	vc := env.eng.vc
	if b, ok := v.typ.(*types.Basic); ok && b.Kind() == types.UntypedNil {
		return vc.zero(t)
	}
	s := vc.sortOf(t)
	tm := env.rv(v)
	if isUntyped(v.typ) {
		if s == "Real" && !strings.Contains(tm, ".") {
			return tm + ".0"
		}
		return tm
	}
	vs := vc.sortOf(v.typ)
	if vs == "Int" && s == "Real" {
		return fmt.Sprintf("(to_real %s)", tm)
	}
	return tm
}

func (env *specEnv) unify(a, b sval) (Term, Term) {
	if isUntyped(a.typ) && !isUntyped(b.typ) {
		return env.coerce(a, b.typ), env.rv(b)
	}
	if isUntyped(b.typ) && !isUntyped(a.typ) {
		return env.rv(a), env.coerce(b, a.typ)
	}
	at, bt := env.rv(a), env.rv(b)
	if !isUntyped(a.typ) && !isUntyped(b.typ) {
		as, bs := env.eng.vc.sortOf(a.typ), env.eng.vc.sortOf(b.typ)
		if as == "Int" && bs == "Real" {
			at = fmt.Sprintf("(to_real %s)", at)
		} else if as == "Real" && bs == "Int" {
			bt = fmt.Sprintf("(to_real %s)", bt)
		} else if as == "Iface" && bs != "Iface" {
			bt = env.eng.makeIface(bt, b.typ)
		} else if bs == "Iface" && as != "Iface" {
			at = env.eng.makeIface(at, a.typ)
		} else if as != bs {
			env.fail("sort mismatch: %s (%s) vs %s (%s)", a.typ, as, b.typ, bs)
		}
	} else if isUntyped(a.typ) && isUntyped(b.typ) {
		// both literals
		af := strings.Contains(at, ".")
		bf := strings.Contains(bt, ".")
		if af && !bf {
			bt += ".0"
		} else if bf && !af {
			at += ".0"
		}
	}
	return at, bt
}

func (env *specEnv) evalBin(e *EBin) sval {
	vc := env.eng.vc
	switch e.Op {
	case "&&":
		return sval{t: and(env.evalBool(e.X), env.evalBool(e.Y)), typ: tBool}
	case "||":
		return sval{t: or(env.evalBool(e.X), env.evalBool(e.Y)), typ: tBool}
	case "==>":
		return sval{t: implies(env.evalBool(e.X), env.evalBool(e.Y)), typ: tBool}
	case "<==>":
		return sval{t: eq(env.evalBool(e.X), env.evalBool(e.Y)), typ: tBool}
	case "in":
		k := env.eval(e.X)
		m := env.eval(e.Y)
		mt, ok := m.typ.Underlying().(*types.Map)
		if !ok {
			env.fail("'in' needs a map, got %s", m.typ)
		}
		return sval{t: sel(sel(env.eng.get(env.st, env.eng.mapDomComp(mt)), env.rv(m)), env.coerce(k, mt.Key())), typ: tBool}
	}
	x, y := env.eval(e.X), env.eval(e.Y)
	switch e.Op {
	case "==", "!=":
		var r Term
		isNil := func(v sval) bool {
			b, ok := v.typ.(*types.Basic)
			return ok && b.Kind() == types.UntypedNil
		}
		switch {
		case isNil(y) && vc.sortOf(x.typ) == "Slice":
			r = fmt.Sprintf("(= (s_arr %s) nil)", env.rv(x))
		case isNil(x) && vc.sortOf(y.typ) == "Slice":
			r = fmt.Sprintf("(= (s_arr %s) nil)", env.rv(y))
		case isNil(y):
			r = eq(env.rv(x), vc.zero(x.typ))
		case isNil(x):
			r = eq(env.rv(y), vc.zero(y.typ))
		default:
			a, b := env.unify(x, y)
			r = eq(a, b)
		}
		if e.Op == "!=" {
			r = not(r)
		}
		return sval{t: r, typ: tBool}
	case "<", "<=", ">", ">=":
		a, b := env.unify(x, y)
		if (isString(x.typ) && !isUntyped(x.typ)) || (isString(y.typ) && !isUntyped(y.typ)) {
			a, b = env.eng.vc.strRank(a), env.eng.vc.strRank(b)
		}
		return sval{t: fmt.Sprintf("(%s %s %s)", e.Op, a, b), typ: tBool}
	case "+", "-", "*", "/", "%":
		a, b := env.unify(x, y)
		typ := x.typ
		if isUntyped(typ) {
			typ = y.typ
		}
		isReal := strings.Contains(a, ".") && isUntyped(typ) || (!isUntyped(typ) && vc.sortOf(typ) == "Real") || vc.sortOf(y.typ) == "Real" && !isUntyped(y.typ)
		if isReal {
			typ = tReal
		}
		if isString(typ) && e.Op == "+" {
			return sval{t: fmt.Sprintf("(str_cat %s %s)", a, b), typ: typ}
		}
		switch e.Op {
		case "/":
			if isReal {
				return sval{t: fmt.Sprintf("(/ %s %s)", a, b), typ: typ}
			}
			return sval{t: fmt.Sprintf("(go_div %s %s)", a, b), typ: typ}
		case "%":
			return sval{t: fmt.Sprintf("(go_mod %s %s)", a, b), typ: typ}
		}
		return sval{t: fmt.Sprintf("(%s %s %s)", e.Op, a, b), typ: typ}
	}
	env.fail("unsupported operator %s", e.Op)
	return sval{}
}

func (env *specEnv) evalQuant(q *EQuant) sval {
	vc := env.eng.vc
	saved := map[string]*binding{}
	var decls []string
	var guards []Term
	for _, v := range q.Vars {
		t := env.resolveType(v.Type)
		if old, ok := env.vars[v.Name]; ok {
			o := old
			saved[v.Name] = &o
		} else {
			saved[v.Name] = nil
		}
		env.quant++
		n := sym(fmt.Sprintf("q$%s$%d", v.Name, env.eng.qctr()))
		env.vars[v.Name] = binding{n, t}
		s := vc.sortOf(t)
		decls = append(decls, fmt.Sprintf("(%s %s)", n, s))
		_ = guards
	}
	vc.noname++
	body := env.evalBool(q.Body)
	var pats []string
	for _, tr := range q.Triggers {
		var ts []string
		for _, te := range tr {
			env.inTrigger = true
			v := env.eval(te)
			env.inTrigger = false
			if v.ref != nil && strings.Contains(v.ref.ix, "(sidx ") {
				// trigger on the location, not on a particular heap version
				ts = append(ts, v.ref.ix)
				continue
			}
			ts = append(ts, env.rv(v))
		}
		pats = append(pats, ":pattern ("+strings.Join(ts, " ")+")")
	}
	vc.noname--
	for _, v := range q.Vars {
		env.quant--
		if saved[v.Name] != nil {
			env.vars[v.Name] = *saved[v.Name]
		} else {
			delete(env.vars, v.Name)
		}
	}
	k := "exists"
	if q.Forall {
		k = "forall"
	}
	if len(pats) > 0 {
		body = fmt.Sprintf("(! %s %s)", body, strings.Join(pats, " "))
	}
	return sval{t: fmt.Sprintf("(%s (%s) %s)", k, strings.Join(decls, " "), body), typ: tBool}
}

func (e *Engine) qctr() int { e.qn++; return e.qn }

func (env *specEnv) evalAt(a *EAt) sval {
	if env.fr == nil {
		// contract applied at a call site: the callee-internal call result is some (unknown) value
		if env.atFresh == nil {
			env.fail("@%s: no frame", a.Pat)
		}
		if v, ok := env.atFresh[a.Pat]; ok {
			return v
		}
		var sig *types.Signature
		if env.fn != nil {
			for _, b := range env.fn.Blocks {
				for _, ins := range b.Instrs {
					if c, ok := ins.(ssa.CallInstruction); ok {
						n := ""
						if c.Common().IsInvoke() {
							n = ifaceMethodName(c.Common())
						} else if sc := c.Common().StaticCallee(); sc != nil {
							n = canonName(sc)
						}
						if n != "" && patMatches(a.Pat, n) {
							sig = c.Common().Signature()
						}
					}
				}
			}
		}
		if sig == nil {
			env.fail("@%s: no call in %s matches", a.Pat, env.fn)
		}
		var tup []sval
		for i := 0; i < sig.Results().Len(); i++ {
			t := sig.Results().At(i).Type()
			saveNN := env.eng.vc.noname
			env.eng.vc.noname = 0
			c := env.eng.vc.fresh("at."+sanitizeLit(a.Pat), env.eng.vc.sortOf(t))
			env.eng.vc.noname = saveNN
			tup = append(tup, sval{t: c, typ: t})
		}
		var v sval
		if len(tup) == 1 {
			v = tup[0]
		} else {
			v = sval{tup: tup, typ: sig.Results()}
		}
		env.atFresh[a.Pat] = v
		return v
	}
	rec := env.fr.findDominatingCall(a.Pat)
	var tup []sval
	if rec == nil {
		// a matching call exists but does not dominate this point: its result is an arbitrary value here
		var any *CallRec
		for _, r := range env.eng.callLog {
			if patMatches(a.Pat, r.Name) {
				any = r
			}
		}
		if any == nil {
			env.fail("@%s: no call matches", a.Pat)
		}
		sig := callSig(any.Instr)
		for i := 0; i < sig.Results().Len(); i++ {
			t := sig.Results().At(i).Type()
			tup = append(tup, sval{t: env.eng.vc.freshAlways("at.nondom", env.eng.vc.sortOf(t)), typ: t})
		}
		if len(tup) == 1 {
			return tup[0]
		}
		return sval{tup: tup, typ: sig.Results()}
	}
	sig := callSig(rec.Instr)
	for i, r := range rec.Results {
		tup = append(tup, sval{t: r, typ: sig.Results().At(i).Type()})
	}
	if len(tup) == 1 {
		return tup[0]
	}
	return sval{tup: tup, typ: sig.Results()}
}

func callSig(ins ssa.Instruction) *types.Signature {
	switch i := ins.(type) {
	case *ssa.Call:
		return i.Call.Signature()
	case *ssa.Defer:
		return i.Call.Signature()
	case *ssa.Go:
		return i.Call.Signature()
	}
	return nil
}

func shortPat(n string) string {
	// strip directories of package paths: a/b/c.T -> c.T
	var b strings.Builder
	start := 0
	for i := 0; i < len(n); i++ {
		c := n[i]
		if c == '/' {
			start = -1
			// drop what we wrote since last delimiter
			s := b.String()
			j := strings.LastIndexAny(s, "(*[ ,")
			b.Reset()
			b.WriteString(s[:j+1])
			continue
		}
		_ = start
		b.WriteByte(c)
	}
	return b.String()
}

var utilAliasRe = regexp.MustCompile(`\b(node|pod|nodeclaim|nodepool|volume|disruption|pdb|resources?|termination|daemonset)utils?\.`)

func patMatches(pat, name string) bool {
	if pat == name {
		return true
	}
	// import aliases like nodeutils / podutil name the packages pkg/utils/node, pkg/utils/pod
	pat = utilAliasRe.ReplaceAllString(pat, "$1.")
	s := shortPat(name)
	if s == pat || strings.HasSuffix(s, "."+pat) || strings.HasSuffix(s, pat) && strings.HasPrefix(pat, "(") {
		return true
	}
	// allow bare method name "T.M" against "(pkg.T).M" or "pkg.(*T).M"
	flat := strings.NewReplacer("(", "", ")", "", "*", "").Replace(s)
	fp := strings.NewReplacer("(", "", ")", "", "*", "").Replace(pat)
	return flat == fp || strings.HasSuffix(flat, "."+fp)
}

func (fr *Frame) findDominatingCall(pat string) *CallRec {
	log := fr.eng.callLog
	tf := fr
	for tf.parent != nil {
		tf = tf.parent
	}
	for i := len(log) - 1; i >= 0; i-- {
		r := log[i]
		if !patMatches(pat, r.Name) {
			continue
		}
		// the call must dominate the current point of the top-level function
		if r.Block != nil && tf.curBlock != nil {
			if r.Block == tf.curBlock {
				if r.Index > tf.curIdx {
					continue
				}
			} else if !r.Block.Dominates(tf.curBlock) {
				if os.Getenv("KVC_DEBUG") != "" {
					fmt.Fprintf(os.Stderr, "nondom: %s at block %d (fn %s) vs current block %d (fn %s)\n", r.Name, r.Block.Index, r.Block.Parent().Name(), tf.curBlock.Index, tf.curBlock.Parent().Name())
				}
				continue
			}
		}
		return r
	}
	return nil
}

func (env *specEnv) evalCall(c *ECall) sval {
	eng := env.eng
	vc := eng.vc
	// builtin spec functions
	if id, ok := c.Fn.(*EIdent); ok {
		switch id.Name {
		case "old":
			if env.old == nil {
				env.fail("old() not available here")
			}
			sub := *env
			sub.st = env.old
			v := sub.eval(c.Args[0])
			return sval{t: sub.rv(v), typ: v.typ}
		case "atoi_ok", "atoi_val":
			declAtoi(vc)
			x := env.eval(c.Args[0])
			if id.Name == "atoi_ok" {
				return sval{t: fmt.Sprintf("(atoi_ok %s)", env.rv(x)), typ: tBool}
			}
			return sval{t: fmt.Sprintf("(atoi_val %s)", env.rv(x)), typ: tInt}
		case "selMatches":
			// selMatches(selector, labelsMap): the (assumed deterministic) label-selector match
			vc.decl("fn:selMatches", "(declare-fun selMatches (Iface Iface) Bool)")
			a, b := env.eval(c.Args[0]), env.eval(c.Args[1])
			bt := env.rv(b)
			if _, isMap := b.typ.Underlying().(*types.Map); isMap && env.eng.topFrame != nil {
				if lt := env.findNamedType("k8s.io/apimachinery/pkg/labels", "Set"); lt != nil {
					bt = env.eng.topFrame.makeIface(bt, lt)
				}
			}
			return sval{t: fmt.Sprintf("(selMatches %s %s)", env.rv(a), bt), typ: tBool}
		case "ceildiv":
			// ceildiv(x, k) for a positive literal k: the ceiling of x/k
			x, k := env.eval(c.Args[0]), env.eval(c.Args[1])
			return sval{t: fmt.Sprintf("(- (div (- %s) %s))", env.rv(x), env.rv(k)), typ: tInt}
		case "pct_ok", "pct_val":
			vc.decl("fn:pct_ok", "(declare-fun pct_ok (Str) Bool)")
			vc.decl("fn:pct_val", "(declare-fun pct_val (Str) Int)")
			x := env.eval(c.Args[0])
			if id.Name == "pct_ok" {
				return sval{t: fmt.Sprintf("(pct_ok %s)", env.rv(x)), typ: tBool}
			}
			return sval{t: fmt.Sprintf("(pct_val %s)", env.rv(x)), typ: tInt}
		case "pdur_ok", "pdur_val":
			declPdur(vc)
			x := env.eval(c.Args[0])
			if id.Name == "pdur_ok" {
				return sval{t: fmt.Sprintf("(pdur_ok %s)", env.rv(x)), typ: tBool}
			}
			return sval{t: fmt.Sprintf("(pdur_val %s)", env.rv(x)), typ: tInt}
		case "gvstr":
			declGvstr(vc)
			a, b := env.eval(c.Args[0]), env.eval(c.Args[1])
			return sval{t: fmt.Sprintf("(gvstr %s %s)", env.coerce(a, tString), env.coerce(b, tString)), typ: tString}
		case "cron_ok", "cronSched", "cronHit", "sprintf1":
			vc.decl("fn:cron_ok", "(declare-fun cron_ok (Str) Bool)")
			vc.decl("fn:cronSched", "(declare-fun cronSched (Str) Iface)")
			vc.decl("fn:cronHit", "(declare-fun cronHit (Iface Int) Bool)")
			vc.decl("fn:sprintf1", "(declare-fun sprintf1 (Str Str) Str)")
			var ts []Term
			for _, a := range c.Args {
				ts = append(ts, env.rv(env.eval(a)))
			}
			rt := map[string]types.Type{"cron_ok": tBool, "cronHit": tBool, "sprintf1": tString, "cronSched": types.Universe.Lookup("error").Type()}[id.Name]
			return sval{t: app(id.Name, ts...), typ: rt}
		case "itoa":
			declAtoi(vc)
			x := env.eval(c.Args[0])
			return sval{t: fmt.Sprintf("(itoa %s)", env.rv(x)), typ: tString}
		case "finwit":
			// finwit(A, B, n): a decimal spelling of n that is in neither of the (finite) Go sets A, B.
			// Encoder assumption (listed): Atoi accepts leading zeros, so every int has infinitely many spellings.
			declAtoi(vc)
			a, b, n := env.eval(c.Args[0]), env.eval(c.Args[1]), env.eval(c.Args[2])
			mt, ok := a.typ.Underlying().(*types.Map)
			if !ok {
				env.fail("finwit needs sets")
			}
			d := eng.get(env.st, eng.mapDomComp(mt))
			da, db := sel(d, env.rv(a)), sel(d, env.rv(b))
			vc.decl("fn:finwit", "(declare-fun finwit ((Array Str Bool) (Array Str Bool) Int) Str)")
			w := fmt.Sprintf("(finwit %s %s %s)", da, db, env.rv(n))
			vc.assume(fmt.Sprintf("(and (atoi_ok %s) (= (atoi_val %s) %s) (not (select %s %s)) (not (select %s %s)))", w, w, env.rv(n), da, w, db, w))
			vc.assumes["finiteness witness: every integer has a decimal spelling outside any two finite Go sets (Atoi accepts leading zeros)"] = true
			return sval{t: w, typ: tString}
		case "anystr":
			// anystr(A, B): some string that is in neither finite set
			a, b := env.eval(c.Args[0]), env.eval(c.Args[1])
			mt := a.typ.Underlying().(*types.Map)
			d := eng.get(env.st, eng.mapDomComp(mt))
			da, db := sel(d, env.rv(a)), sel(d, env.rv(b))
			vc.decl("fn:anystr", "(declare-fun anystr ((Array Str Bool) (Array Str Bool)) Str)")
			w := fmt.Sprintf("(anystr %s %s)", da, db)
			vc.assume(fmt.Sprintf("(and (not (select %s %s)) (not (select %s %s)))", da, w, db, w))
			vc.assumes["finiteness witness: some string lies outside any two finite Go sets"] = true
			return sval{t: w, typ: tString}
		case "atcall":
			// atcall(@pattern, e): e evaluated in the state right after the dominating call returned
			at, ok := c.Args[0].(*EAt)
			if !ok || env.fr == nil {
				env.fail("atcall(@pattern, e) needs a call pattern and a code context")
			}
			rec := env.fr.findDominatingCall(at.Pat)
			if rec == nil || rec.After == nil {
				// some matching call exists but does not dominate this point: evaluate in an arbitrary state
				for _, r := range eng.callLog {
					if patMatches(at.Pat, r.Name) && r.After != nil {
						rec = &CallRec{After: &State{pc: "true", heap: map[string]Term{}, alloc: env.st.alloc}}
						for c := range eng.compSort {
							rec.After.heap[c] = vc.freshAlways("nondom$"+c, eng.compSort[c])
						}
						break
					}
				}
				if rec == nil || rec.After == nil {
					env.fail("atcall(@%s): no call matches", at.Pat)
				}
			}
			sub := *env
			sub.st = rec.After
			v := sub.eval(c.Args[1])
			return sval{t: sub.rv(v), typ: v.typ}
		case "beforecall":
			// beforecall(@pattern, e): e evaluated in the state right before the dominating call
			at, ok := c.Args[0].(*EAt)
			if !ok || env.fr == nil {
				env.fail("beforecall(@pattern, e) needs a call pattern and a code context")
			}
			rec := env.fr.findDominatingCall(at.Pat)
			if rec == nil || rec.Before == nil {
				env.fail("beforecall(@%s): no dominating call matches", at.Pat)
			}
			sub := *env
			sub.st = rec.Before
			v := sub.eval(c.Args[1])
			return sval{t: sub.rv(v), typ: v.typ}
		case "someTrue":
			// someTrue(@pattern): on the current path some call matching the pattern was executed and returned true
			at, ok := c.Args[0].(*EAt)
			if !ok || env.fr == nil {
				env.fail("someTrue(@pattern) needs a call pattern and a code context")
			}
			var ds []Term
			for _, r := range eng.callLog {
				if patMatches(at.Pat, r.Name) && len(r.Results) > 0 {
					ds = append(ds, and(r.PC, r.Results[0]))
				}
			}
			if len(ds) == 0 {
				env.fail("someTrue(@%s): no call matches", at.Pat)
			}
			return sval{t: or(ds...), typ: tBool}
		case "now":
			return sval{t: eng.get(env.st, eng.comp("$now", "Int")), typ: tInt}
		case "loopentry":
			if env.loopEntry == nil {
				env.fail("loopentry() is only available in loop invariants")
			}
			sub := *env
			sub.st = env.loopEntry
			v := sub.eval(c.Args[0])
			return sval{t: sub.rv(v), typ: v.typ}
		case "len":
			x := env.eval(c.Args[0])
			switch t := x.typ.Underlying().(type) {
			case *types.Slice:
				return sval{t: fmt.Sprintf("(s_len %s)", env.rv(x)), typ: tInt}
			case *types.Map:
				ks := vc.sortOf(t.Key())
				return sval{t: eng.card(ks, sel(eng.get(env.st, eng.mapDomComp(t)), env.rv(x))), typ: tInt}
			case *types.Basic:
				return sval{t: eng.strLen(env.rv(x)), typ: tInt}
			}
			env.fail("len of %s", x.typ)
		case "cap":
			x := env.eval(c.Args[0])
			return sval{t: fmt.Sprintf("(s_cap %s)", env.rv(x)), typ: tInt}
		case "min", "max":
			a, b := env.eval(c.Args[0]), env.eval(c.Args[1])
			at, bt := env.unify(a, b)
			typ := a.typ
			if isUntyped(typ) {
				typ = b.typ
			}
			op := "<="
			if id.Name == "max" {
				op = ">="
			}
			return sval{t: fmt.Sprintf("(ite (%s %s %s) %s %s)", op, at, bt, at, bt), typ: typ}
		case "fresh":
			// allocated during the call: rootid in [old alloc, alloc)
			x := env.eval(c.Args[0])
			l := env.rv(x)
			if vc.sortOf(x.typ) == "Slice" {
				l = fmt.Sprintf("(s_arr %s)", l)
			}
			oa := "alloc@0"
			if env.old != nil {
				oa = env.old.alloc
			}
			return sval{t: fmt.Sprintf("(and (not (= %s nil)) (is_obj %s) (>= (rootid %s) %s) (< (rootid %s) %s))", l, l, l, oa, l, env.st.alloc), typ: tBool}
		case "cached", "cachedVal":
			x := env.eval(c.Args[0])
			l := env.rv(x)
			if pt, ok := x.typ.Underlying().(*types.Pointer); ok {
				if st, ok := pt.Elem().Underlying().(*types.Struct); ok && st.NumFields() > 0 && st.Field(0).Name() == "cache" && st.Field(0).Embedded() {
					l = eng.loadField(env.st, l, pt.Elem(), 0)
				}
			}
			k := env.eval(c.Args[1])
			h, v := eng.goCacheComps()
			if id.Name == "cached" {
				return sval{t: fmt.Sprintf("(select (select %s %s) %s)", eng.get(env.st, h), l, env.rv(k)), typ: tBool}
			}
			return sval{t: fmt.Sprintf("(select (select %s %s) %s)", eng.get(env.st, v), l, env.rv(k)), typ: types.NewInterfaceType(nil, nil)}
		case "allocated":
			x := env.eval(c.Args[0])
			l := env.rv(x)
			if vc.sortOf(x.typ) == "Slice" {
				l = fmt.Sprintf("(s_arr %s)", l)
			}
			return sval{t: fmt.Sprintf("(< (rootid %s) %s)", l, env.st.alloc), typ: tBool}
		case "seen":
			return env.evalSeen(c)
		case "real":
			x := env.eval(c.Args[0])
			return sval{t: env.coerce(x, tReal), typ: tReal}
		case "loc":
			x := env.eval(c.Args[0])
			if x.ref != nil && x.ref.structLoc {
				return sval{t: x.ref.ix, typ: types.Typ[types.UnsafePointer]}
			}
			if vc.sortOf(x.typ) == "Slice" {
				return sval{t: fmt.Sprintf("(s_arr %s)", env.rv(x)), typ: types.Typ[types.UnsafePointer]}
			}
			return sval{t: env.rv(x), typ: types.Typ[types.UnsafePointer]}
		case "domeq":
			// domeq(m1, m2): same key sets
			a, b := env.eval(c.Args[0]), env.eval(c.Args[1])
			mt := a.typ.Underlying().(*types.Map)
			d := eng.get(env.st, eng.mapDomComp(mt))
			return sval{t: eq(sel(d, env.rv(a)), sel(d, env.rv(b))), typ: tBool}
		}
		if pf := env.lookupPure(id.Name); pf != nil {
			return env.callPure(pf, c.Args)
		}
		// package-level Go function of the current package
		if env.pkg != nil {
			if fo, ok := env.pkg.Scope().Lookup(id.Name).(*types.Func); ok {
				return env.callGo(fo, nil, c.Args)
			}
		}
		// conversion to a type of the same representation: string(uid), MyInt(x)
		if len(c.Args) == 1 {
			var to types.Type
			if tn, ok := types.Universe.Lookup(id.Name).(*types.TypeName); ok {
				to = tn.Type()
			} else if env.pkg != nil {
				if tn, ok := env.pkg.Scope().Lookup(id.Name).(*types.TypeName); ok {
					to = tn.Type()
				}
			}
			if to != nil {
				x := env.eval(c.Args[0])
				if isUntyped(x.typ) {
					return sval{t: env.coerce(x, to), typ: to}
				}
				if vc.sortOf(x.typ) == vc.sortOf(to) {
					return sval{t: env.rv(x), typ: to}
				}
				env.fail("conversion %s(%s) changes representation", id.Name, x.typ)
			}
		}
		env.fail("unknown spec function %s", id.Name)
	}
	if s, ok := c.Fn.(*ESel); ok {
		x := env.eval(s.X)
		if x.pkg != nil {
			if pf := eng.cs.Pures[x.pkg.Path()+"."+s.Name]; pf != nil {
				return env.callPure(pf, c.Args)
			}
			if fo, ok := x.pkg.Scope().Lookup(s.Name).(*types.Func); ok {
				return env.callGo(fo, nil, c.Args)
			}
			env.fail("unknown function %s.%s", x.pkg.Name(), s.Name)
		}
		// method call
		t := x.typ
		obj, path, _ := types.LookupFieldOrMethod(t, true, env.pkg, s.Name)
		if obj == nil {
			if pt, ok := t.Underlying().(*types.Pointer); ok {
				obj, path, _ = types.LookupFieldOrMethod(pt.Elem(), true, env.pkg, s.Name)
			}
		}
		if obj == nil {
			// unexported method from another package
			obj, path = lookupMethodAnyPkg(t, s.Name)
		}
		if fo, ok := obj.(*types.Func); ok {
			// promoted method: walk the embedded fields that lead to the receiver
			for _, i := range path[:max(len(path)-1, 0)] {
				ct := x.typ
				if pt, ok := ct.Underlying().(*types.Pointer); ok {
					ct = pt.Elem()
				}
				st, ok := ct.Underlying().(*types.Struct)
				if !ok {
					env.fail("promoted method %s through non-struct %s", s.Name, ct)
				}
				x = env.field(x, st.Field(i).Name())
			}
			return env.callGo(fo, &x, c.Args)
		}
		env.fail("no method %s on %s", s.Name, t)
	}
	env.fail("unsupported call %s", c)
	return sval{}
}

func lookupMethodAnyPkg(t types.Type, name string) (types.Object, []int) {
	ms := types.NewMethodSet(t)
	for i := 0; i < ms.Len(); i++ {
		if ms.At(i).Obj().Name() == name {
			return ms.At(i).Obj(), ms.At(i).Index()
		}
	}
	if _, ok := t.Underlying().(*types.Pointer); !ok {
		ms = types.NewMethodSet(types.NewPointer(t))
		for i := 0; i < ms.Len(); i++ {
			if ms.At(i).Obj().Name() == name {
				return ms.At(i).Obj(), ms.At(i).Index()
			}
		}
	}
	return nil, nil
}

func (env *specEnv) lookupPure(name string) *PureFn {
	if env.pkg != nil {
		if pf := env.eng.cs.Pures[env.pkg.Path()+"."+name]; pf != nil {
			return pf
		}
	}
	return env.eng.cs.Pures[name]
}

type recInfo struct {
	sym, sym0 string
	comps     []string
	rt        types.Type
	declaring bool
	psorts    []string // opaque (hidden) functions: sorts of the explicit parameters
}

// allocEvent: component comp changed from old to nw only at cells of objects allocated at or after
// allocBefore (a stub that fills a fresh object). snap is the state just before the change.
type allocEvent struct {
	comp                     string
	old, nw, allocBefore, pc Term
	snap                     *State
}

// noteAllocOnly records such a change and states, for every hidden spec function reading comp, that its
// value on arguments that already existed is the same over the old and the new version of comp.
// Sound because a spec function reads the heap only through cells reachable from its arguments, and
// in snap no object that existed before the event reaches the fresh one.
func (e *Engine) noteAllocOnly(st *State, snap *State, c string, old, nw, allocBefore Term) {
	ev := allocEvent{comp: c, old: old, nw: nw, allocBefore: allocBefore, pc: st.pc, snap: snap}
	e.allocEvents = append(e.allocEvents, ev)
	keys := map[string]bool{}
	for k := range e.recFns {
		keys[k] = true
	}
	for _, k := range sortedKeys(keys) {
		if strings.HasPrefix(k, "opaque:") {
			e.opaqueFrame(e.recFns[k], ev)
		}
	}
}

func (e *Engine) opaqueFrame(ri *recInfo, ev allocEvent) {
	if ri.declaring {
		return
	}
	reads := false
	for _, c := range ri.comps {
		if c == ev.comp {
			reads = true
		}
	}
	if !reads {
		return
	}
	var decls, args, conds []string
	for i, so := range ri.psorts {
		a := fmt.Sprintf("oa%d", i)
		decls = append(decls, fmt.Sprintf("(%s %s)", a, so))
		args = append(args, a)
		switch so {
		case "Loc":
			conds = append(conds, fmt.Sprintf("(< (rootid %s) %s)", a, ev.allocBefore))
		case "Slice":
			conds = append(conds, fmt.Sprintf("(< (rootid (s_arr %s)) %s)", a, ev.allocBefore))
		case "Str", "Int", "Bool", "Real":
		default:
			return // interface or composite argument: no frame statement
		}
	}
	if len(decls) == 0 {
		return
	}
	var h1, h2 []Term
	for _, c := range ri.comps {
		if c == ev.comp {
			h1 = append(h1, ev.old)
			h2 = append(h2, ev.nw)
		} else {
			t := e.get(ev.snap, c)
			h1 = append(h1, t)
			h2 = append(h2, t)
		}
	}
	a1 := app(ri.sym, append(h1, args...)...)
	a2 := app(ri.sym, append(h2, args...)...)
	e.vc.assumes["hidden spec functions depend on the heap only through cells reachable from their arguments"] = true
	e.vc.assumeIf(ev.pc, fmt.Sprintf("(forall (%s) (! (=> %s (= %s %s)) :pattern (%s) :pattern (%s)))", strings.Join(decls, " "), and(append(conds, "true")...), a1, a2, a1, a2))
}

// callRec: application of a recursive spec function. The function symbol takes the heap components
// its body reads as extra arguments; its defining axiom unfolds one step (calls inside the body go to
// the fuel-0 twin, which has no unfolding axiom but is equal to the function on the same arguments).
func (env *specEnv) callRec(pf *PureFn, args []Expr) sval {
	e := env.eng
	vc := e.vc
	if e.recFns == nil {
		e.recFns = map[string]*recInfo{}
	}
	key := pf.Pkg.Path() + "." + pf.Name
	ri := e.recFns[key]
	sub := *env
	sub.pkg = pf.Pkg
	sub.con = nil
	var ptypes []types.Type
	for _, p := range pf.Params {
		ptypes = append(ptypes, sub.resolveType(p.Type))
	}
	if ri == nil {
		ri = &recInfo{sym: sym("rec$" + pf.Name), sym0: sym("rec0$" + pf.Name), rt: sub.resolveType(pf.Result), declaring: true}
		e.recFns[key] = ri
		// evaluate the body once over bound heap variables and bound parameters
		binder := &heapBinder{}
		bst := &State{pc: "true", heap: map[string]Term{}, alloc: "alloc@0", binder: binder}
		benv := &specEnv{eng: e, fr: env.fr, fn: env.fn, st: bst, old: bst, vars: map[string]binding{}, pkg: pf.Pkg}
		var pdecl []string
		var pnames []Term
		for i, p := range pf.Params {
			n := sym(fmt.Sprintf("rq$%s", p.Name))
			benv.vars[p.Name] = binding{n, ptypes[i]}
			pdecl = append(pdecl, fmt.Sprintf("(%s %s)", n, vc.sortOf(ptypes[i])))
			pnames = append(pnames, n)
		}
		vc.noname++
		bv := benv.eval(pf.Body)
		body := benv.coerce(bv, ri.rt)
		vc.noname--
		ri.declaring = false
		ri.comps = binder.comps
		var hdecl, hsorts []string
		for i, c := range binder.comps {
			hdecl = append(hdecl, fmt.Sprintf("(%s %s)", binder.names[i], e.compSort[c]))
			hsorts = append(hsorts, e.compSort[c])
		}
		var psorts []string
		for _, t := range ptypes {
			psorts = append(psorts, vc.sortOf(t))
		}
		allSorts := strings.Join(append(hsorts, psorts...), " ")
		rs := vc.sortOf(ri.rt)
		vc.decls = append(vc.decls, fmt.Sprintf("(declare-fun %s (%s) %s)", ri.sym, allSorts, rs), fmt.Sprintf("(declare-fun %s (%s) %s)", ri.sym0, allSorts, rs))
		allArgs := strings.Join(append(append([]string{}, binder.names...), pnames...), " ")
		allDecl := strings.Join(append(hdecl, pdecl...), " ")
		// recursive applications inside the body were emitted with the placeholder heap "@rec@"
		body = strings.ReplaceAll(body, "("+ri.sym+" @rec@", "("+ri.sym0+" "+strings.Join(binder.names, " "))
		vc.decls = append(vc.decls,
			fmt.Sprintf("(assert (forall (%s) (! (= (%s %s) %s) :pattern ((%s %s)))))", allDecl, ri.sym, allArgs, body, ri.sym, allArgs),
			fmt.Sprintf("(assert (forall (%s) (! (= (%s %s) (%s %s)) :pattern ((%s %s)))))", allDecl, ri.sym, allArgs, ri.sym0, allArgs, ri.sym, allArgs))
	}
	var ats []Term
	for i := range pf.Params {
		a := env.eval(args[i])
		ats = append(ats, env.coerce(a, ptypes[i]))
	}
	if ri.declaring {
		// recursive call inside the body being declared: heap arguments are filled in afterwards
		return sval{t: fmt.Sprintf("(%s @rec@ %s)", ri.sym, strings.Join(ats, " ")), typ: ri.rt}
	}
	var hs []Term
	for _, c := range ri.comps {
		hs = append(hs, e.get(env.st, c))
	}
	return sval{t: app(ri.sym, append(hs, ats...)...), typ: ri.rt}
}

// hidden: the top-level contract asked for this pure function to stay uninterpreted in this VC.
func (env *specEnv) hidden(pf *PureFn) bool {
	top := env.eng.topFrame
	if top == nil || top.con == nil || pf.Body == nil {
		return false
	}
	for _, h := range top.con.Hides {
		if h == pf.Name || strings.HasSuffix(h, "."+pf.Name) {
			return true
		}
	}
	return false
}

// callOpaque: a heap-parametric uninterpreted application (same symbol and heap footprint wherever it occurs).
func (env *specEnv) callOpaque(pf *PureFn, args []Expr) sval {
	e := env.eng
	vc := e.vc
	if e.recFns == nil {
		e.recFns = map[string]*recInfo{}
	}
	key := "opaque:" + pf.Pkg.Path() + "." + pf.Name
	sub := *env
	sub.pkg = pf.Pkg
	sub.con = nil
	var ptypes []types.Type
	for _, p := range pf.Params {
		ptypes = append(ptypes, sub.resolveType(p.Type))
	}
	var ats []Term
	var asv []sval
	for i := range pf.Params {
		a := env.eval(args[i])
		pt := ptypes[i]
		if !isUntyped(a.typ) && vc.sortOf(a.typ) == vc.sortOf(pt) {
			pt = a.typ
			ptypes[i] = pt
		}
		asv = append(asv, a)
		ats = append(ats, env.coerce(a, pt))
	}
	ri := e.recFns[key]
	if ri == nil {
		binder := &heapBinder{}
		bst := &State{pc: "true", heap: map[string]Term{}, alloc: "alloc@0", binder: binder}
		benv := &specEnv{eng: e, fr: env.fr, fn: env.fn, st: bst, old: bst, vars: map[string]binding{}, pkg: pf.Pkg}
		for i, p := range pf.Params {
			benv.vars[p.Name] = binding{sym(fmt.Sprintf("oq$%s", p.Name)), ptypes[i]}
		}
		vc.noname++
		ri = &recInfo{sym: sym("opq$" + pf.Name), declaring: true}
		e.recFns[key] = ri
		bv := benv.eval(pf.Body)
		vc.noname--
		ri.declaring = false
		ri.rt = bv.typ
		if pf.Result != "" {
			ri.rt = sub.resolveType(pf.Result)
		}
		if isUntyped(ri.rt) {
			ri.rt = tInt
		}
		ri.comps = binder.comps
		var sorts []string
		for _, c := range binder.comps {
			sorts = append(sorts, e.compSort[c])
		}
		for _, t := range ptypes {
			sorts = append(sorts, vc.sortOf(t))
		}
		vc.decls = append(vc.decls, fmt.Sprintf("(declare-fun %s (%s) %s)", ri.sym, strings.Join(sorts, " "), vc.sortOf(ri.rt)))
		for _, t := range ptypes {
			ri.psorts = append(ri.psorts, vc.sortOf(t))
		}
		for _, ev := range e.allocEvents {
			e.opaqueFrame(ri, ev)
		}
	}
	var hs []Term
	for _, c := range ri.comps {
		hs = append(hs, e.get(env.st, c))
	}
	return sval{t: app(ri.sym, append(hs, ats...)...), typ: ri.rt}
}

func (env *specEnv) callPure(pf *PureFn, args []Expr) sval {
	vc := env.eng.vc
	if !pf.Rec && env.hidden(pf) {
		if len(args) != len(pf.Params) {
			env.fail("%s: expected %d arguments", pf.Name, len(pf.Params))
		}
		return env.callOpaque(pf, args)
	}
	if pf.Rec {
		if len(args) != len(pf.Params) {
			env.fail("%s: expected %d arguments", pf.Name, len(pf.Params))
		}
		return env.callRec(pf, args)
	}
	if len(args) != len(pf.Params) {
		env.fail("%s: expected %d arguments", pf.Name, len(pf.Params))
	}
	sub := *env
	sub.pkg = pf.Pkg
	sub.con = nil
	sub.vars = map[string]binding{}
	var argTerms []Term
	var sorts []string
	for i, p := range pf.Params {
		a := env.eval(args[i])
		pt := sub.resolveType(p.Type)
		if !isUntyped(a.typ) && vc.sortOf(a.typ) == vc.sortOf(pt) {
			pt = a.typ // keeps instantiated generic types
		}
		t := env.coerce(a, pt)
		sub.vars[p.Name] = binding{t, pt}
		argTerms = append(argTerms, t)
		sorts = append(sorts, vc.sortOf(pt))
	}
	if pf.Body == nil {
		rt := sub.resolveType(pf.Result)
		n := sym("spec$" + pf.Name)
		vc.decl("fn:"+n, fmt.Sprintf("(declare-fun %s (%s) %s)", n, strings.Join(sorts, " "), vc.sortOf(rt)))
		env.eng.usedPure[pf.Name] = true
		return sval{t: app(n, argTerms...), typ: rt}
	}
	v := sub.eval(pf.Body)
	rt := v.typ
	if pf.Result != "" {
		rt = sub.resolveType(pf.Result)
		return sval{t: sub.coerce(v, rt), typ: rt}
	}
	return sval{t: sub.rv(v), typ: rt}
}

func canonNameObj(f *types.Func) string {
	f = f.Origin()
	sig := f.Type().(*types.Signature)
	pk := ""
	if f.Pkg() != nil {
		pk = f.Pkg().Path()
	}
	if recv := sig.Recv(); recv != nil {
		t := recv.Type()
		ptr := false
		if pt, ok := t.(*types.Pointer); ok {
			ptr = true
			t = pt.Elem()
		}
		tn := "?"
		if nt, ok := t.(*types.Named); ok {
			tn = nt.Obj().Name()
		} else if _, ok := t.Underlying().(*types.Interface); ok {
			return "(" + typeKey(t) + ")." + f.Name()
		}
		if ptr {
			return fmt.Sprintf("%s.(*%s).%s", pk, tn, f.Name())
		}
		return fmt.Sprintf("%s.(%s).%s", pk, tn, f.Name())
	}
	return pk + "." + f.Name()
}

// callGo evaluates a call of a real Go function inside a specification: by stub, or by
// inlining its (loop-free) body on the current state. The function must not modify the heap.
func (env *specEnv) callGo(fo *types.Func, recv *sval, args []Expr) sval {
	eng := env.eng
	name := canonNameObj(fo)
	sig := fo.Type().(*types.Signature)
	var terms []Term
	var ats []types.Type
	if recv != nil {
		rt := sig.Recv().Type()
		_, wantPtr := rt.Underlying().(*types.Pointer)
		_, havePtr := recv.typ.Underlying().(*types.Pointer)
		switch {
		case wantPtr && !havePtr:
			if recv.ref == nil || !recv.ref.structLoc {
				env.fail("cannot take address of receiver for %s", name)
			}
			terms = append(terms, recv.ref.ix)
			ats = append(ats, types.NewPointer(recv.typ))
		case !wantPtr && havePtr:
			d := env.deref(*recv)
			terms = append(terms, env.rv(d))
			ats = append(ats, d.typ)
		default:
			terms = append(terms, env.rv(*recv))
			ats = append(ats, recv.typ)
		}
	}
	for i, a := range args {
		v := env.eval(a)
		var pt types.Type
		if i < sig.Params().Len() {
			pt = sig.Params().At(i).Type()
		} else {
			pt = v.typ
		}
		if sig.Variadic() && i >= sig.Params().Len()-1 {
			env.fail("variadic calls are not supported in specs: %s", name)
		}
		if _, isIface := pt.Underlying().(*types.Interface); isIface && env.fr != nil {
			if _, vIface := v.typ.Underlying().(*types.Interface); !vIface && !isUntyped(v.typ) {
				terms = append(terms, env.fr.makeIface(env.rv(v), v.typ))
				ats = append(ats, pt)
				continue
			}
		}
		terms = append(terms, env.coerce(v, pt))
		if isUntyped(v.typ) {
			ats = append(ats, pt)
		} else {
			ats = append(ats, v.typ)
		}
	}
	fr := env.fr
	if fr == nil {
		fr = eng.topFrame
	}
	cx := &callCtx{fr: fr, st: env.st.clone(), args: terms, argTs: ats, name: name, sig: sig, spec: true}
	var rs []Term
	if s := lookupStub(name); s != nil {
		eng.vc.stubs[name] = true
		rs = s(cx)
	} else {
		fn := eng.prog.SSA.FuncValue(fo)
		if fn != nil && fn.TypeParams().Len() > 0 {
			fn = nil // generic origin: no instance body here
		}
		if fn == nil || len(fn.Blocks) == 0 {
			env.fail("spec calls %s which has neither stub nor body", name)
		}
		if hasLoops(fn) {
			env.fail("spec calls %s which has loops (use a pure spec function instead)", name)
		}
		cx.callee = fn
		eng.vc.specInl++
		rs = fr.inline(cx, nil, nil)
		eng.vc.specInl--
	}
	switch len(rs) {
	case 0:
		env.fail("%s returns nothing", name)
	case 1:
		return sval{t: rs[0], typ: sig.Results().At(0).Type()}
	}
	var tup []sval
	for i, r := range rs {
		tup = append(tup, sval{t: r, typ: sig.Results().At(i).Type()})
	}
	return sval{tup: tup, typ: sig.Results()}
}

func (env *specEnv) evalSeen(c *ECall) sval {
	// seen(k): the key has been produced by the map range of the current loop
	if env.fr == nil || env.fr.inLoopHdr == nil {
		env.fail("seen() only inside a map-range loop invariant")
	}
	ri := env.fr.rangeOfLoop(env.fr.inLoopHdr)
	if ri == nil {
		env.fail("seen(): loop is not a map range")
	}
	k := env.eval(c.Args[0])
	kt := env.coerce(k, ri.mapType.Key())
	i := env.eng.get(env.st, ri.ctrComp)
	return sval{t: fmt.Sprintf("(and (select %s %s) (< (%s %s) %s))", ri.dom0, kt, ri.idxOf, kt, i), typ: tBool}
}

var _ = constant.MakeBool
