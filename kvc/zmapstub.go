package main

import (
	"fmt"
	"go/types"
)

// lo.Map(xs, f) when f is a closure WITH a contract (`//@ func <parent> closure@lo.Map`, `modifies nothing`):
// the result has the length of xs, its element k is f(xs[k], k) and satisfies the closed-form ensures clauses of
// that contract, with `result` standing for the element. fresh()/allocated() in those clauses speak about the
// objects allocated by the lo.Map call as a whole (allocation counter before the call .. after the call).
// The closure's preconditions become obligations of the caller for every index; the closure body is verified
// separately against its contract. Without a contract: the stock stub (closure inlined as a term).
// (file name sorts after lostubs.go so that this init runs after the stock stub is registered)
func init() {
	stock := stubs[loPkg+"Map"]
	stubs[loPkg+"Map"] = func(cx *callCtx) []Term {
		if len(cx.argVs) < 2 {
			return stock(cx)
		}
		clo := cx.fr.closureOf(cx.argVs[1])
		if clo == nil {
			return stock(cx)
		}
		e := cx.fr.eng
		con := e.closureContract(clo.fn)
		sl, isSl := cx.argTs[0].Underlying().(*types.Slice)
		rsl, isR := cx.sig.Results().At(0).Type().Underlying().(*types.Slice)
		if con == nil || !isSl || !isR || isStructLike(sl.Elem()) || isStructLike(rsl.Elem()) || !con.HasMod || con.ModAll || len(con.Modifies) > 0 {
			return stock(cx)
		}
		vc := e.vc
		st := cx.st
		xs := cx.args[0]
		vc.usedCon[canonName(clo.fn)] = true
		pre := st.clone()
		arr := e.newObj(st)
		n := fmt.Sprintf("(s_len %s)", xs)
		res := vc.name("mapped", "Slice", fmt.Sprintf("(mkslice %s 0 %s %s)", arr, n, n))
		// the closure may allocate (it must not write anything that existed before)
		a2 := vc.fresh("alloc", "Int")
		vc.assume(fmt.Sprintf("(>= %s %s)", a2, st.alloc))
		st.alloc = a2
		id := e.qctr()
		cIn := e.boxComp(sl.Elem())
		cOut := e.boxComp(rsl.Elem())
		oldOut := e.get(st, cOut)
		nw := vc.fresh("h", e.compSort[cOut])
		vc.assumeIf(st.pc, fmt.Sprintf("(forall ((l Loc)) (! (=> (not (= (rootid l) (rootid %s))) (= (select %s l) (select %s l))) :pattern ((select %s l))))", arr, nw, oldOut, nw))
		st.heap[cOut] = nw
		elIn := func(i Term) Term { return sel(e.get(pre, cIn), fmt.Sprintf("(sidx %s %s)", xs, i)) }
		elOut := func(k Term) Term { return sel(nw, fmt.Sprintf("(sidx %s %s)", res, k)) }
		qj := sym(fmt.Sprintf("q$mj$%d", id))
		inRange := fmt.Sprintf("(and (<= 0 %s) (< %s %s))", qj, qj, n)
		params := []Term{elIn(qj), qj}
		ord := e.callOrd(cx.fr, "lo.Map")
		for k, rc := range con.Requires {
			g, ok := cx.evalClosureClause(clo, con, rc, pre, pre, params, "")
			if !ok {
				vc.warn = append(vc.warn, "lo.Map: closure precondition is not closed: "+rc.Src+"; element facts omitted")
				return []Term{res}
			}
			q := fmt.Sprintf("(forall ((%s Int)) (! (=> %s %s) :pattern ((sidx %s %s))))", qj, inRange, g, xs, qj)
			vc.oblige(cx.fr.oblName(fmt.Sprintf("call.lo.Map.%d.fn-pre.%s", ord, clauseID(rc, k))), "call-pre", st.pc, q, "closure precondition for every element: "+rc.Src)
			vc.assumeIf(st.pc, q)
		}
		used := 0
		for _, ec := range con.Ensures {
			g, ok := cx.evalClosureClause(clo, con, ec, st, pre, params, elOut(qj))
			if !ok {
				continue
			}
			used++
			vc.assumeIf(st.pc, fmt.Sprintf("(forall ((%s Int)) (! (=> %s %s) :pattern ((sidx %s %s)) :pattern ((sidx %s %s))))", qj, inRange, g, res, qj, xs, qj))
		}
		if used == 0 {
			vc.warn = append(vc.warn, "lo.Map: closure contract has no closed-form ensures clause; element facts are vacuous")
		}
		return []Term{res}
	}
}
