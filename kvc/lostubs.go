package main

import (
	"fmt"
	"go/types"
	"os"
	"sort"
	"strings"
)

// Assumed contracts on github.com/samber/lo higher-order helpers, axiomatised over the (inlined,
// loop-free, effect-free) closure they are given. When the closure cannot be expressed as a pure
// term the result is left arbitrary (still sound).

const loPkg = "github.com/samber/lo."

// applyClosure evaluates closure argument ci on args as a pure term (no fresh symbols, no heap effect).
func (cx *callCtx) applyClosure(ci int, args []Term) (res Term, ok bool) {
	if ci >= len(cx.argVs) {
		return "", false
	}
	clo := cx.fr.closureOf(cx.argVs[ci])
	if clo == nil || len(clo.fn.Blocks) == 0 || hasLoops(clo.fn) {
		return "", false
	}
	e := cx.fr.eng
	vc := e.vc
	saveNoname := vc.noname
	defer func() {
		if r := recover(); r != nil {
			vc.noname = saveNoname
			switch r.(type) {
			case specErr, unsupported:
				res, ok = "", false
			default:
				panic(r)
			}
		}
	}()
	vc.noname++
	defer func() { vc.noname-- }()
	sub := &callCtx{fr: cx.fr, st: cx.st.clone(), args: args, callee: clo.fn, name: canonName(clo.fn), sig: clo.fn.Signature, spec: true}
	for i := 0; i < clo.fn.Signature.Params().Len(); i++ {
		sub.argTs = append(sub.argTs, clo.fn.Signature.Params().At(i).Type())
	}
	saveLog := len(e.callLog)
	rs := cx.fr.inline(sub, clo, nil)
	e.callLog = e.callLog[:saveLog]
	if len(rs) == 0 {
		return "", false
	}
	return rs[0], true
}

// closureEffects: a library helper ran closure argument ci an unknown number of times. The term-level models
// below evaluate the closure as a pure function on a copy of the state, so whatever the closure WRITES has to
// be accounted for separately: a probe execution (arbitrary arguments) finds the heap components it writes and
// those become arbitrary (local-only objects of the caller excepted), captured variables it assigns included.
// A closure under a `modifies nothing` contract is verified separately and has no effect; a closure that
// cannot be executed here (unknown function value, loops, recursion) is treated as an unknown call.
func (cx *callCtx) closureEffects(ci int) {
	fr := cx.fr
	e := fr.eng
	vc := e.vc
	if cx.spec || ci >= len(cx.argVs) {
		return
	}
	clo := fr.closureOf(cx.argVs[ci])
	if clo == nil || len(clo.fn.Blocks) == 0 || hasLoops(clo.fn) || fr.depth >= e.maxDepth || fr.recursive(clo.fn) {
		vc.warn = append(vc.warn, cx.name+": effects of the function argument unknown; call havocked")
		fr.havocCall(cx, cx.name+": function argument with unknown effects")
		return
	}
	if con := e.closureContract(clo.fn); con != nil && con.HasMod && !con.ModAll && len(con.Modifies) == 0 {
		return
	}
	vc.dry++
	saveA, saveLog := len(vc.asserts), len(e.callLog)
	saveRng, saveInl := e.rngCtr, e.inlineN
	saveNoname := vc.noname
	saveDefs := vc.nameDefs
	vc.nameDefs = map[string]string{} // the probe's heap terms are read below through the names it introduces
	allocBefore := cx.st.alloc
	probe := cx.st.clone()
	func() {
		defer func() {
			if r := recover(); r != nil {
				vc.noname = saveNoname
				switch r.(type) {
				case specErr, unsupported:
					// cannot be executed: every component may have changed
					for c := range e.compSort {
						probe.heap[c] = "?"
					}
				default:
					panic(r)
				}
			}
		}()
		var as []Term
		for i := 0; i < clo.fn.Signature.Params().Len(); i++ {
			t := clo.fn.Signature.Params().At(i).Type()
			a := vc.fresh("probe.arg", vc.sortOf(t))
			e.wf(probe, a, t)
			as = append(as, a)
		}
		sub := &callCtx{fr: fr, st: probe, args: as, callee: clo.fn, name: canonName(clo.fn), sig: clo.fn.Signature, instr: cx.instr, common: cx.common, spec: true}
		for i := 0; i < clo.fn.Signature.Params().Len(); i++ {
			sub.argTs = append(sub.argTs, clo.fn.Signature.Params().At(i).Type())
		}
		fr.inline(sub, clo, nil)
	}()
	vc.noname = saveNoname
	defs := vc.nameDefs
	vc.nameDefs = saveDefs
	vc.asserts = vc.asserts[:saveA]
	e.callLog = e.callLog[:saveLog]
	e.rngCtr, e.inlineN = saveRng, saveInl
	vc.dry--
	var mods []string
	for c, t := range probe.heap {
		if strings.HasPrefix(c, "$") {
			continue
		}
		for k := 0; k < 64; k++ { // a control-flow merge inside the closure may only have renamed the version
			d, isName := defs[t]
			if !isName {
				break
			}
			t = d
		}
		if e.get(cx.st, c) != t {
			mods = append(mods, c)
		}
	}
	sort.Strings(mods)
	if os.Getenv("KVC_DEBUG_EFFECTS") != "" {
		fmt.Fprintf(os.Stderr, "closureEffects %s arg %d (%s): %d comps modified: %v\n", cx.name, ci, clo.fn.Name(), len(mods), mods)
		for _, c := range mods {
			t := probe.heap[c]
			if len(t) > 300 {
				t = t[:300]
			}
			fmt.Fprintf(os.Stderr, "   %s: %s   [old %s] alloc %s\n", c, t, e.get(cx.st, c), allocBefore)
		}
	}
	for _, c := range mods {
		if _, ok := e.compSort[c]; !ok {
			continue
		}
		if storesOnlyToFresh(probe.heap[c], e.get(cx.st, c), allocBefore, defs, e.freshOnly) && strings.HasPrefix(e.compSort[c], "(Array Loc ") {
			// the closure wrote this component only inside objects it allocated itself: what existed before is untouched
			old := e.get(cx.st, c)
			nw := vc.fresh("hv$"+c, e.compSort[c])
			e.nilMapEmpty(c, nw)
			vc.assumeIf(cx.st.pc, fmt.Sprintf("(forall ((l Loc)) (! (=> (< (rootid l) %s) (= (select %s l) (select %s l))) :pattern ((select %s l))))", allocBefore, nw, old, nw))
			cx.st.heap[c] = nw
			if e.freshOnly == nil {
				e.freshOnly = map[string]string{}
			}
			e.freshOnly[nw] = old // an enclosing probe may step over this version: it differs from old only in newer objects
			continue
		}
		e.havocComp(cx.st, c)
	}
	fr.havocCaptured(cx.st, clo)
	if len(mods) > 0 {
		na := vc.fresh("alloc", "Int")
		vc.assume(fmt.Sprintf("(>= %s %s)", na, cx.st.alloc))
		cx.st.alloc = na
	}
}

// splitSexp: the top-level elements of "(f a b c)" -> [f a b c]; nil when t is not a list.
func splitSexp(t string) []string {
	if len(t) < 2 || t[0] != '(' || t[len(t)-1] != ')' {
		return nil
	}
	var out []string
	depth, start, bar := 0, -1, false
	for i := 1; i < len(t)-1; i++ {
		ch := t[i]
		if bar {
			if ch == '|' {
				bar = false
			}
			continue
		}
		switch {
		case ch == '|':
			bar = true
			if start < 0 {
				start = i
			}
		case ch == '(':
			if depth == 0 && start < 0 {
				start = i
			}
			depth++
		case ch == ')':
			depth--
		case ch == ' ' && depth == 0:
			if start >= 0 {
				out = append(out, t[start:i])
				start = -1
			}
		default:
			if start < 0 {
				start = i
			}
		}
	}
	if start >= 0 {
		out = append(out, t[start:len(t)-1])
	}
	return out
}

// storesOnlyToFresh: heap term t is `old` with stores whose locations all lie inside objects allocated at or
// after allocation counter a (syntactically: (obj a), (obj (+ a 1)), ... possibly under fld/idx/sidx).
func storesOnlyToFresh(t, old, a string, defs, freshOnly map[string]string) bool {
	res := func(x string) string {
		for k := 0; k < 64; k++ {
			d, ok := defs[x]
			if !ok {
				break
			}
			x = d
		}
		return x
	}
	freshCtr := func(x string) bool {
		for x != a {
			x = res(x)
			if x == a {
				break
			}
			p := splitSexp(x)
			if len(p) != 3 || p[0] != "+" || p[2] != "1" {
				return false
			}
			x = p[1]
		}
		return true
	}
	var freshLoc func(l string) bool
	freshLoc = func(l string) bool {
		p := splitSexp(res(l))
		switch {
		case len(p) == 2 && p[0] == "obj":
			return freshCtr(p[1])
		case len(p) == 3 && (p[0] == "fld" || p[0] == "idx"):
			return freshLoc(p[1])
		case len(p) == 3 && p[0] == "sidx":
			if q := splitSexp(res(p[1])); len(q) == 5 && q[0] == "mkslice" {
				return freshLoc(q[1])
			}
		}
		return false
	}
	memo := map[string]bool{}
	var chain func(t string, depth int) bool
	chain = func(t string, depth int) bool {
		t = res(t)
		if t == old {
			return true
		}
		if v, ok := memo[t]; ok {
			return v
		}
		ok := false
		if depth < 400 {
			if o, isFO := freshOnly[t]; isFO {
				ok = chain(o, depth+1)
			} else if p := splitSexp(t); len(p) == 4 && p[0] == "store" {
				ok = freshLoc(p[2]) && chain(p[1], depth+1)
			} else if len(p) == 4 && p[0] == "ite" {
				ok = chain(p[2], depth+1) && chain(p[3], depth+1)
			}
		}
		if !ok && os.Getenv("KVC_DEBUG_EFFECTS") != "" {
			x := t
			if len(x) > 300 {
				x = x[:300]
			}
			fmt.Fprintf(os.Stderr, "      not fresh-only at: %s  (a=%s)\n", x, a)
		}
		memo[t] = ok
		return ok
	}
	return res(t) != old && chain(t, 0)
}

func (cx *callCtx) elemAt(sliceT types.Type, s Term, i Term) (Term, bool) {
	sl, ok := sliceT.Underlying().(*types.Slice)
	if !ok {
		return "", false
	}
	e := cx.fr.eng
	return e.loadAt(cx.st, fmt.Sprintf("(sidx %s %s)", s, i), sl.Elem()), true
}

func init() {
	filter := func(keep bool) stubFn {
		return func(cx *callCtx) []Term {
			e := cx.fr.eng
			vc := e.vc
			xs := cx.args[0]
			sl := cx.argTs[0].Underlying().(*types.Slice)
			cx.closureEffects(1)
			if isStructLike(sl.Elem()) {
				return cx.freshResults("filtered")
			}
			// result: fresh slice, each element comes from xs (order-preserving source index) and satisfies the predicate;
			// every element of xs that satisfies it appears
			arr := e.newObj(cx.st)
			n := vc.fresh("filter.len", "Int")
			res := vc.name("filtered", "Slice", fmt.Sprintf("(mkslice %s 0 %s %s)", arr, n, n))
			src := sym(fmt.Sprintf("filter.src!%d", e.qctr()))
			pos := sym(fmt.Sprintf("filter.pos!%d", e.qctr()))
			vc.decls = append(vc.decls, fmt.Sprintf("(declare-fun %s (Int) Int)", src), fmt.Sprintf("(declare-fun %s (Int) Int)", pos))
			c := e.boxComp(sl.Elem())
			old := e.get(cx.st, c)
			nw := vc.fresh("h", e.compSort[c])
			vc.assumeIf(cx.st.pc, fmt.Sprintf("(forall ((l Loc)) (! (=> (not (= (rootid l) (rootid %s))) (= (select %s l) (select %s l))) :pattern ((select %s l))))", arr, nw, old, nw))
			cx.st.heap[c] = nw
			vc.assumeIf(cx.st.pc, fmt.Sprintf("(and (<= 0 %s) (<= %s (s_len %s)))", n, n, xs))
			elOld := func(i Term) Term { return sel(old, fmt.Sprintf("(sidx %s %s)", xs, i)) }
			elNew := func(k Term) Term { return sel(nw, fmt.Sprintf("(sidx %s %s)", res, k)) }
			vc.assumeIf(cx.st.pc, fmt.Sprintf("(forall ((k Int)) (! (=> (and (<= 0 k) (< k %s)) (and (<= 0 (%s k)) (< (%s k) (s_len %s)) (= %s %s) (= (%s (%s k)) k))) :pattern ((sidx %s k))))",
				n, src, src, xs, elNew("k"), elOld(fmt.Sprintf("(%s k)", src)), pos, src, res))
			// predicate facts
			pk, ok1 := cx.applyClosure(1, []Term{elOld(fmt.Sprintf("(%s k)", src)), fmt.Sprintf("(%s k)", src)})
			pj, ok2 := cx.applyClosure(1, []Term{elOld("j"), "j"})
			if ok1 && ok2 {
				if !keep {
					pk, pj = not(pk), not(pj)
				}
				vc.assumeIf(cx.st.pc, fmt.Sprintf("(forall ((k Int)) (! (=> (and (<= 0 k) (< k %s)) %s) :pattern ((sidx %s k))))", n, pk, res))
				vc.assumeIf(cx.st.pc, fmt.Sprintf("(forall ((j Int)) (! (=> (and (<= 0 j) (< j (s_len %s)) %s) (and (<= 0 (%s j)) (< (%s j) %s) (= (%s (%s j)) j))) :pattern ((sidx %s j))))", xs, pj, pos, pos, n, src, pos, xs))
			} else {
				vc.warn = append(vc.warn, "lo.Filter/Reject: closure not expressible, predicate facts omitted")
			}
			return []Term{res}
		}
	}
	stubs[loPkg+"Filter"] = filter(true)
	stubs[loPkg+"Reject"] = filter(false)
	stubs[loPkg+"Map"] = func(cx *callCtx) []Term {
		e := cx.fr.eng
		vc := e.vc
		xs := cx.args[0]
		sl := cx.argTs[0].Underlying().(*types.Slice)
		rt := cx.sig.Results().At(0).Type().Underlying().(*types.Slice)
		cx.closureEffects(1)
		if isStructLike(sl.Elem()) || isStructLike(rt.Elem()) {
			return cx.freshResults("mapped")
		}
		arr := e.newObj(cx.st)
		res := vc.name("mapped", "Slice", fmt.Sprintf("(mkslice %s 0 (s_len %s) (s_len %s))", arr, xs, xs))
		old := e.get(cx.st, e.boxComp(sl.Elem()))
		fk, ok := cx.applyClosure(1, []Term{sel(old, fmt.Sprintf("(sidx %s k)", xs)), "k"})
		c := e.boxComp(rt.Elem())
		oldR := e.get(cx.st, c)
		nw := vc.fresh("h", e.compSort[c])
		vc.assumeIf(cx.st.pc, fmt.Sprintf("(forall ((l Loc)) (! (=> (not (= (rootid l) (rootid %s))) (= (select %s l) (select %s l))) :pattern ((select %s l))))", arr, nw, oldR, nw))
		cx.st.heap[c] = nw
		if ok {
			vc.assumeIf(cx.st.pc, fmt.Sprintf("(forall ((k Int)) (! (=> (and (<= 0 k) (< k (s_len %s))) (= (select %s (sidx %s k)) %s)) :pattern ((sidx %s k)) :pattern ((sidx %s k))))", xs, nw, res, fk, res, xs))
		} else {
			vc.warn = append(vc.warn, "lo.Map: closure not expressible, element facts omitted")
		}
		return []Term{res}
	}
	stubs[loPkg+"ContainsBy"] = func(cx *callCtx) []Term {
		xs := cx.args[0]
		sl := cx.argTs[0].Underlying().(*types.Slice)
		cx.closureEffects(1)
		if isStructLike(sl.Elem()) {
			return cx.freshResults("containsby")
		}
		e := cx.fr.eng
		old := e.get(cx.st, e.boxComp(sl.Elem()))
		pj, ok := cx.applyClosure(1, []Term{sel(old, fmt.Sprintf("(sidx %s j)", xs))})
		if !ok {
			return cx.freshResults("containsby")
		}
		return []Term{fmt.Sprintf("(exists ((j Int)) (! (and (<= 0 j) (< j (s_len %s)) %s) :pattern ((sidx %s j))))", xs, pj, xs)}
	}
}
