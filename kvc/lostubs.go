package main

import (
	"fmt"
	"go/types"
)

// Assumed contracts on github.com/samber/lo higher-order helpers, axiomatised over the (inlined,
// loop-free, effect-free) closure they are given. When the closure cannot be expressed as a pure
// term the result is left arbitrary (still sound).

const loPkg = "github.com/samber/lo."

// applyClosure evaluates closure argument ci on args as a pure term (no fresh symbols, no heap effect).
func (cx *callCtx) applyClosure(ci int, args []Term) (res Term, ok bool) {
	if ci >= len(cx.argVs) {
		return "", false
	}
	clo := cx.fr.closureOf(cx.argVs[ci])
	if clo == nil || len(clo.fn.Blocks) == 0 || hasLoops(clo.fn) {
		return "", false
	}
	e := cx.fr.eng
	vc := e.vc
	saveNoname := vc.noname
	defer func() {
		if r := recover(); r != nil {
			vc.noname = saveNoname
			switch r.(type) {
			case specErr, unsupported:
				res, ok = "", false
			default:
				panic(r)
			}
		}
	}()
	vc.noname++
	defer func() { vc.noname-- }()
	sub := &callCtx{fr: cx.fr, st: cx.st.clone(), args: args, callee: clo.fn, name: canonName(clo.fn), sig: clo.fn.Signature, spec: true}
	for i := 0; i < clo.fn.Signature.Params().Len(); i++ {
		sub.argTs = append(sub.argTs, clo.fn.Signature.Params().At(i).Type())
	}
	saveLog := len(e.callLog)
	rs := cx.fr.inline(sub, clo, nil)
	e.callLog = e.callLog[:saveLog]
	if len(rs) == 0 {
		return "", false
	}
	return rs[0], true
}

func (cx *callCtx) elemAt(sliceT types.Type, s Term, i Term) (Term, bool) {
	sl, ok := sliceT.Underlying().(*types.Slice)
	if !ok {
		return "", false
	}
	e := cx.fr.eng
	return e.loadAt(cx.st, fmt.Sprintf("(sidx %s %s)", s, i), sl.Elem()), true
}

func init() {
	filter := func(keep bool) stubFn {
		return func(cx *callCtx) []Term {
			e := cx.fr.eng
			vc := e.vc
			xs := cx.args[0]
			sl := cx.argTs[0].Underlying().(*types.Slice)
			if isStructLike(sl.Elem()) {
				return cx.freshResults("filtered")
			}
			// result: fresh slice, each element comes from xs (order-preserving source index) and satisfies the predicate;
			// every element of xs that satisfies it appears
			arr := e.newObj(cx.st)
			n := vc.fresh("filter.len", "Int")
			res := vc.name("filtered", "Slice", fmt.Sprintf("(mkslice %s 0 %s %s)", arr, n, n))
			src := sym(fmt.Sprintf("filter.src!%d", e.qctr()))
			pos := sym(fmt.Sprintf("filter.pos!%d", e.qctr()))
			vc.decls = append(vc.decls, fmt.Sprintf("(declare-fun %s (Int) Int)", src), fmt.Sprintf("(declare-fun %s (Int) Int)", pos))
			c := e.boxComp(sl.Elem())
			old := e.get(cx.st, c)
			nw := vc.fresh("h", e.compSort[c])
			vc.assumeIf(cx.st.pc, fmt.Sprintf("(forall ((l Loc)) (! (=> (not (= (rootid l) (rootid %s))) (= (select %s l) (select %s l))) :pattern ((select %s l))))", arr, nw, old, nw))
			cx.st.heap[c] = nw
			vc.assumeIf(cx.st.pc, fmt.Sprintf("(and (<= 0 %s) (<= %s (s_len %s)))", n, n, xs))
			elOld := func(i Term) Term { return sel(old, fmt.Sprintf("(sidx %s %s)", xs, i)) }
			elNew := func(k Term) Term { return sel(nw, fmt.Sprintf("(sidx %s %s)", res, k)) }
			vc.assumeIf(cx.st.pc, fmt.Sprintf("(forall ((k Int)) (! (=> (and (<= 0 k) (< k %s)) (and (<= 0 (%s k)) (< (%s k) (s_len %s)) (= %s %s) (= (%s (%s k)) k))) :pattern ((sidx %s k))))",
				n, src, src, xs, elNew("k"), elOld(fmt.Sprintf("(%s k)", src)), pos, src, res))
			// predicate facts
			pk, ok1 := cx.applyClosure(1, []Term{elOld(fmt.Sprintf("(%s k)", src)), fmt.Sprintf("(%s k)", src)})
			pj, ok2 := cx.applyClosure(1, []Term{elOld("j"), "j"})
			if ok1 && ok2 {
				if !keep {
					pk, pj = not(pk), not(pj)
				}
				vc.assumeIf(cx.st.pc, fmt.Sprintf("(forall ((k Int)) (! (=> (and (<= 0 k) (< k %s)) %s) :pattern ((sidx %s k))))", n, pk, res))
				vc.assumeIf(cx.st.pc, fmt.Sprintf("(forall ((j Int)) (! (=> (and (<= 0 j) (< j (s_len %s)) %s) (and (<= 0 (%s j)) (< (%s j) %s) (= (%s (%s j)) j))) :pattern ((sidx %s j))))", xs, pj, pos, pos, n, src, pos, xs))
			} else {
				vc.warn = append(vc.warn, "lo.Filter/Reject: closure not expressible, predicate facts omitted")
			}
			return []Term{res}
		}
	}
	stubs[loPkg+"Filter"] = filter(true)
	stubs[loPkg+"Reject"] = filter(false)
	stubs[loPkg+"Map"] = func(cx *callCtx) []Term {
		e := cx.fr.eng
		vc := e.vc
		xs := cx.args[0]
		sl := cx.argTs[0].Underlying().(*types.Slice)
		rt := cx.sig.Results().At(0).Type().Underlying().(*types.Slice)
		if isStructLike(sl.Elem()) || isStructLike(rt.Elem()) {
			return cx.freshResults("mapped")
		}
		arr := e.newObj(cx.st)
		res := vc.name("mapped", "Slice", fmt.Sprintf("(mkslice %s 0 (s_len %s) (s_len %s))", arr, xs, xs))
		old := e.get(cx.st, e.boxComp(sl.Elem()))
		fk, ok := cx.applyClosure(1, []Term{sel(old, fmt.Sprintf("(sidx %s k)", xs)), "k"})
		c := e.boxComp(rt.Elem())
		oldR := e.get(cx.st, c)
		nw := vc.fresh("h", e.compSort[c])
		vc.assumeIf(cx.st.pc, fmt.Sprintf("(forall ((l Loc)) (! (=> (not (= (rootid l) (rootid %s))) (= (select %s l) (select %s l))) :pattern ((select %s l))))", arr, nw, oldR, nw))
		cx.st.heap[c] = nw
		if ok {
			vc.assumeIf(cx.st.pc, fmt.Sprintf("(forall ((k Int)) (! (=> (and (<= 0 k) (< k (s_len %s))) (= (select %s (sidx %s k)) %s)) :pattern ((sidx %s k)) :pattern ((sidx %s k))))", xs, nw, res, fk, res, xs))
		} else {
			vc.warn = append(vc.warn, "lo.Map: closure not expressible, element facts omitted")
		}
		return []Term{res}
	}
	stubs[loPkg+"ContainsBy"] = func(cx *callCtx) []Term {
		xs := cx.args[0]
		sl := cx.argTs[0].Underlying().(*types.Slice)
		if isStructLike(sl.Elem()) {
			return cx.freshResults("containsby")
		}
		e := cx.fr.eng
		old := e.get(cx.st, e.boxComp(sl.Elem()))
		pj, ok := cx.applyClosure(1, []Term{sel(old, fmt.Sprintf("(sidx %s j)", xs))})
		if !ok {
			return cx.freshResults("containsby")
		}
		return []Term{fmt.Sprintf("(exists ((j Int)) (! (and (<= 0 j) (< j (s_len %s)) %s) :pattern ((sidx %s j))))", xs, pj, xs)}
	}
}
