package main

import (
	"fmt"
	"go/types"
)

// C06 prototype stubs (proposed additions to the stub library; file name sorts after lostubs.go so that
// this init runs after the stock lo.Filter stub is registered).
//
//   lo.Filter(xs, pred)   when pred is a closure WITH a contract (`//@ func <parent> closure@lo.Filter`,
//                         `modifies nothing`): the predicate is taken from the closed-form ensures clauses of
//                         that contract (those that do not mention callee locals or @-patterns), with `result`
//                         standing for pred(xs[j], j). Its preconditions become obligations of the caller for
//                         every index. The closure body is verified separately against its contract, where calls
//                         to functions under contract / with loops are fine. (The stock stub inlines the closure
//                         as a term and gives up - "closure not expressible" - as soon as it calls anything that
//                         needs a fresh symbol, e.g. any callee under contract.)  Without a contract: stock stub.
//   lo.MinBy / lo.MaxBy   empty: zero value; else some element xs[m] such that no element compares strictly
//                         before it: forall j: !cmp(xs[j], xs[m]). cmp is inlined (loop-free closure).
//                         Assumption listed: the comparator is a strict weak order.
//   math.Max / math.Min   on reals (NaN / signed zero not modelled: float64 is real).

func init() {
	stock := stubs[loPkg+"Filter"]
	stubs[loPkg+"Filter"] = func(cx *callCtx) []Term {
		if len(cx.argVs) < 2 {
			return stock(cx)
		}
		clo := cx.fr.closureOf(cx.argVs[1])
		if clo == nil {
			return stock(cx)
		}
		e := cx.fr.eng
		con := e.closureContract(clo.fn)
		sl, isSl := cx.argTs[0].Underlying().(*types.Slice)
		if con == nil || !isSl || isStructLike(sl.Elem()) || !con.HasMod || con.ModAll || len(con.Modifies) > 0 {
			return stock(cx)
		}
		vc := e.vc
		st := cx.st
		xs := cx.args[0]
		e.vc.usedCon[canonName(clo.fn)] = true
		arr := e.newObj(st)
		n := vc.fresh("filter.len", "Int")
		res := vc.name("filtered", "Slice", fmt.Sprintf("(mkslice %s 0 %s %s)", arr, n, n))
		id := e.qctr()
		src := sym(fmt.Sprintf("filter.src!%d", id))
		pos := sym(fmt.Sprintf("filter.pos!%d", id))
		pred := sym(fmt.Sprintf("filter.pred!%d", id))
		vc.decls = append(vc.decls, fmt.Sprintf("(declare-fun %s (Int) Int)", src), fmt.Sprintf("(declare-fun %s (Int) Int)", pos), fmt.Sprintf("(declare-fun %s (Int) Bool)", pred))
		c := e.boxComp(sl.Elem())
		old := e.get(st, c)
		nw := vc.fresh("h", e.compSort[c])
		vc.assumeIf(st.pc, fmt.Sprintf("(forall ((l Loc)) (! (=> (not (= (rootid l) (rootid %s))) (= (select %s l) (select %s l))) :pattern ((select %s l))))", arr, nw, old, nw))
		st.heap[c] = nw
		vc.assumeIf(st.pc, fmt.Sprintf("(and (<= 0 %s) (<= %s (s_len %s)))", n, n, xs))
		elOld := func(i Term) Term { return sel(old, fmt.Sprintf("(sidx %s %s)", xs, i)) }
		elNew := func(k Term) Term { return sel(nw, fmt.Sprintf("(sidx %s %s)", res, k)) }
		vc.assumeIf(st.pc, fmt.Sprintf("(forall ((k Int)) (! (=> (and (<= 0 k) (< k %s)) (and (<= 0 (%s k)) (< (%s k) (s_len %s)) (= %s %s) (= (%s (%s k)) k))) :pattern ((sidx %s k))))",
			n, src, src, xs, elNew("k"), elOld(fmt.Sprintf("(%s k)", src)), pos, src, res))
		// the predicate, from the closure's contract
		qj := sym(fmt.Sprintf("q$fj$%d", id))
		inRange := fmt.Sprintf("(and (<= 0 %s) (< %s (s_len %s)))", qj, qj, xs)
		pat := fmt.Sprintf(":pattern ((sidx %s %s))", xs, qj)
		params := []Term{elOld(qj), qj}
		ord := e.callOrd(cx.fr, "lo.Filter")
		for k, rc := range con.Requires {
			g, ok := cx.evalClosureClause(clo, con, rc, st, st, params, "")
			if !ok {
				vc.warn = append(vc.warn, "lo.Filter: predicate precondition is not closed: "+rc.Src+"; predicate facts omitted")
				return []Term{res}
			}
			q := fmt.Sprintf("(forall ((%s Int)) (! (=> %s %s) %s))", qj, inRange, g, pat)
			vc.oblige(cx.fr.oblName(fmt.Sprintf("call.lo.Filter.%d.pred-pre.%s", ord, clauseID(rc, k))), "call-pre", st.pc, q, "predicate precondition for every element: "+rc.Src)
			vc.assumeIf(st.pc, q)
		}
		used := 0
		for _, ec := range con.Ensures {
			g, ok := cx.evalClosureClause(clo, con, ec, st, st, params, fmt.Sprintf("(%s %s)", pred, qj))
			if !ok {
				continue
			}
			used++
			vc.assumeIf(st.pc, fmt.Sprintf("(forall ((%s Int)) (! (=> %s %s) %s :pattern ((%s %s))))", qj, inRange, g, pat, pred, qj))
		}
		if used == 0 {
			vc.warn = append(vc.warn, "lo.Filter: predicate contract has no closed-form ensures clause; predicate facts are vacuous")
		}
		vc.assumeIf(st.pc, fmt.Sprintf("(forall ((k Int)) (! (=> (and (<= 0 k) (< k %s)) (%s (%s k))) :pattern ((sidx %s k))))", n, pred, src, res))
		// (the last conjunct follows from the element axiom at k = pos j; it is stated to put the term res[pos j] in front of E-matching)
		vc.assumeIf(st.pc, fmt.Sprintf("(forall ((j Int)) (! (=> (and (<= 0 j) (< j (s_len %s)) (%s j)) (and (<= 0 (%s j)) (< (%s j) %s) (= (%s (%s j)) j) (= %s %s))) :pattern ((sidx %s j))))", xs, pred, pos, pos, n, src, pos, elNew(fmt.Sprintf("(%s j)", pos)), elOld("j"), xs))
		return []Term{res}
	}

	extremum := func(cx *callCtx) []Term {
		e := cx.fr.eng
		vc := e.vc
		st := cx.st
		xs := cx.args[0]
		sl, ok := cx.argTs[0].Underlying().(*types.Slice)
		if !ok || isStructLike(sl.Elem()) {
			return cx.freshResults("extremum")
		}
		old := e.get(st, e.boxComp(sl.Elem()))
		m := vc.fresh("extremum.idx", "Int")
		best := sel(old, fmt.Sprintf("(sidx %s %s)", xs, m))
		cj, ok := cx.applyClosure(1, []Term{sel(old, fmt.Sprintf("(sidx %s j)", xs)), best})
		if !ok {
			vc.warn = append(vc.warn, "lo.MinBy/MaxBy: comparator not expressible, result arbitrary")
			return cx.freshResults("extremum")
		}
		rt := cx.sig.Results().At(0).Type()
		res := vc.fresh("extremum", vc.sortOf(rt))
		vc.assumeIf(st.pc, fmt.Sprintf("(=> (= (s_len %s) 0) (= %s %s))", xs, res, vc.zero(rt)))
		vc.assumeIf(st.pc, fmt.Sprintf("(=> (> (s_len %s) 0) (and (<= 0 %s) (< %s (s_len %s)) (= %s %s) (forall ((j Int)) (! (=> (and (<= 0 j) (< j (s_len %s))) (not %s)) :pattern ((sidx %s j))))))",
			xs, m, m, xs, res, best, xs, cj, xs))
		vc.assumes["lo.MinBy/lo.MaxBy: the comparator is a strict weak order"] = true
		return []Term{res}
	}
	stubs[loPkg+"MinBy"] = extremum
	stubs[loPkg+"MaxBy"] = extremum

	stubs["math.Max"] = func(cx *callCtx) []Term {
		return []Term{fmt.Sprintf("(ite (>= %s %s) %s %s)", cx.args[0], cx.args[1], cx.args[0], cx.args[1])}
	}
	stubs["math.Min"] = func(cx *callCtx) []Term {
		return []Term{fmt.Sprintf("(ite (<= %s %s) %s %s)", cx.args[0], cx.args[1], cx.args[0], cx.args[1])}
	}
}
