package main

import (
	"os"
	"runtime/debug"
	"fmt"
	"regexp"
	"go/constant"
	"go/types"
	"sort"
	"strings"
)

type Term = string

const prelude = `(set-option :produce-models true)
(set-logic ALL)
(declare-datatypes ((Path 0)) (((pnil) (pfld (pf_base Path) (pf_i Int)) (pidx (pi_base Path) (pi_i Int)))))
(declare-datatypes ((Loc 0)) (((mkloc (rootid Int) (path Path)))))
(define-fun nil () Loc (mkloc (- 1) pnil))
(define-fun obj ((n Int)) Loc (mkloc n pnil))
(define-fun fld ((p Loc) (i Int)) Loc (mkloc (rootid p) (pfld (path p) i)))
(define-fun idx ((p Loc) (i Int)) Loc (mkloc (rootid p) (pidx (path p) i)))
(define-fun is_obj ((l Loc)) Bool ((_ is pnil) (path l)))
(define-fun is_idx ((l Loc)) Bool ((_ is pidx) (path l)))
(define-fun is_fld ((l Loc)) Bool ((_ is pfld) (path l)))
(define-fun idx_base ((l Loc)) Loc (mkloc (rootid l) (pi_base (path l))))
(define-fun idx_i ((l Loc)) Int (pi_i (path l)))
(define-fun fld_base ((l Loc)) Loc (mkloc (rootid l) (pf_base (path l))))
(define-fun fld_i ((l Loc)) Int (pf_i (path l)))
(declare-datatypes ((Slice 0)) (((mkslice (s_arr Loc) (s_off Int) (s_len Int) (s_cap Int)))))
(declare-fun sidx (Slice Int) Loc)
(assert (forall ((s Slice) (i Int)) (! (= (sidx s i) (idx (s_arr s) (+ (s_off s) i))) :pattern ((sidx s i)))))
(declare-sort Str 0)
(declare-sort Iface 0)
(declare-const nil_iface Iface)
(declare-fun iface_tag (Iface) Int)
(assert (= (iface_tag nil_iface) 0))
(declare-fun str_len (Str) Int)
(declare-fun str_cat (Str Str) Str)
(define-fun go_div ((a Int) (b Int)) Int (ite (>= a 0) (ite (> b 0) (div a b) (- (div a (- b)))) (ite (> b 0) (- (div (- a) b)) (div (- a) (- b)))))
(define-fun go_mod ((a Int) (b Int)) Int (- a (* b (go_div a b))))
(define-fun imin ((a Int) (b Int)) Int (ite (<= a b) a b))
(define-fun imax ((a Int) (b Int)) Int (ite (>= a b) a b))
(define-fun nil_slice () Slice (mkslice nil 0 0 0))
`

func sym(s string) string {
	simple := true
	for _, c := range s {
		if !(c >= 'a' && c <= 'z' || c >= 'A' && c <= 'Z' || c >= '0' && c <= '9' || c == '_' || c == '$' || c == '.' || c == '@' || c == '!') {
			simple = false
			break
		}
	}
	if simple && len(s) > 0 && !(s[0] >= '0' && s[0] <= '9') {
		return s
	}
	s = strings.NewReplacer("|", "!", "\\", "/").Replace(s)
	return "|" + s + "|"
}

func typeKey(t types.Type) string {
	return types.TypeString(t, func(p *types.Package) string { return p.Path() })
}

func shortTypeKey(t types.Type) string {
	s := typeKey(t)
	return strings.ReplaceAll(s, modPath+"/", "")
}

// special scalar struct types
func specialScalar(t types.Type) (string, bool) {
	if nt, ok := t.(*types.Named); ok && nt.Obj().Pkg() != nil {
		switch nt.Obj().Pkg().Path() + "." + nt.Obj().Name() {
		case "time.Time":
			return "Int", true
		case "k8s.io/apimachinery/pkg/api/resource.Quantity":
			return "Int", true
		}
	}
	if a, ok := t.(*types.Alias); ok {
		return specialScalar(types.Unalias(a))
	}
	return "", false
}

func isStructLike(t types.Type) bool {
	if _, ok := specialScalar(t); ok {
		return false
	}
	if _, ok := t.(*types.TypeParam); ok {
		return false
	}
	switch t.Underlying().(type) {
	case *types.Struct, *types.Array:
		return true
	}
	return false
}

func isIntLike(t types.Type) bool {
	if b, ok := t.Underlying().(*types.Basic); ok {
		return b.Info()&types.IsInteger != 0
	}
	return false
}

func isFloat(t types.Type) bool {
	if b, ok := t.Underlying().(*types.Basic); ok {
		return b.Info()&types.IsFloat != 0
	}
	return false
}

func isString(t types.Type) bool {
	if b, ok := t.Underlying().(*types.Basic); ok {
		return b.Info()&types.IsString != 0
	}
	return false
}

func isBool(t types.Type) bool {
	if b, ok := t.Underlying().(*types.Basic); ok {
		return b.Info()&types.IsBoolean != 0
	}
	return false
}

// VC accumulates declarations, assumptions and obligations for one function.
type VC struct {
	nameDefs map[string]string // when non-nil: definitions of the constants introduced by name() (probe runs read heap terms through them)
	prog     *Program
	decls    []string
	declared map[string]bool
	asserts  []string
	obls     []*Obligation
	ctr      int
	strLits  map[string]string
	strOrder []string
	typeIDs  map[string]int
	assumes  map[string]bool // encoder assumptions used (for evidence)
	stubs    map[string]bool // stubs used
	havocs   map[string]bool // unknown calls havocked
	inlined  map[string]bool
	usedCon  map[string]bool // callee contracts used
	dry      int             // >0: dry pass, nothing recorded
	fnKey    string
	warn     []string
	unsup    []string
	globals  []string
	oblNames map[string]int
	lemmaIdx map[int]bool // assumptions that are earlier postconditions of the same function (used as lemmas)
	noname   int
	specInl  int
}

type Obligation struct {
	Name      string
	NAsserts  int
	NDecls    int
	Guard     Term
	Goal      Term
	ExpectSat bool // vacuity / cover queries
	Kind      string
	Src       string
	Finding   string // discriminator label if this is the "inside" half of a known finding
}

func newVC(p *Program, key string) *VC {
	return &VC{prog: p, declared: map[string]bool{}, strLits: map[string]string{}, typeIDs: map[string]int{},
		assumes: map[string]bool{}, stubs: map[string]bool{}, havocs: map[string]bool{}, inlined: map[string]bool{}, usedCon: map[string]bool{}, fnKey: key}
}

// strRank: Go's string order through an order embedding into the reals (every countable linear order
// embeds in Q); declared only in VCs that compare strings.
func (vc *VC) strRank(x Term) Term {
	vc.decl("fn:str_rank", "(declare-fun str_rank (Str) Real)")
	vc.decl("fn:str_unrank", "(declare-fun str_unrank (Real) Str)")
	vc.decl("ax:str_rank", "(assert (forall ((s Str)) (! (= (str_unrank (str_rank s)) s) :pattern ((str_rank s)))))")
	return fmt.Sprintf("(str_rank %s)", x)
}

func (vc *VC) decl(name, d string) {
	if vc.declared[name] {
		return
	}
	vc.declared[name] = true
	vc.decls = append(vc.decls, d)
}

func (vc *VC) assume(t Term) {
	if t == "true" || vc.noname > 0 {
		return
	}
	vc.asserts = append(vc.asserts, t)
}

func (vc *VC) assumeIf(g, t Term) {
	if t == "true" {
		return
	}
	if g == "true" {
		vc.assume(t)
		return
	}
	vc.assume(fmt.Sprintf("(=> %s %s)", g, t))
}

// assumeLemma: an earlier, separately checked clause made available to later obligations.
func (vc *VC) assumeLemma(t Term) {
	if t == "true" || vc.noname > 0 {
		return
	}
	if vc.lemmaIdx == nil {
		vc.lemmaIdx = map[int]bool{}
	}
	vc.lemmaIdx[len(vc.asserts)] = true
	vc.asserts = append(vc.asserts, t)
}

func (vc *VC) fresh(prefix, sort string) Term {
	if vc.noname > 0 {
		if os.Getenv("KVC_DEBUG_PANIC") != "" {
			debug.PrintStack()
		}
		panic(specErr("a quantified specification reaches code that needs a fresh symbol (" + prefix + "); use a pure spec function instead"))
	}
	vc.ctr++
	n := sym(fmt.Sprintf("%s!%d", prefix, vc.ctr))
	vc.decls = append(vc.decls, fmt.Sprintf("(declare-const %s %s)", n, sort))
	return n
}

// freshAlways: a fresh symbol even inside a quantified specification (the symbol does not depend on bound variables).
func (vc *VC) freshAlways(prefix, sort string) Term {
	save := vc.noname
	vc.noname = 0
	defer func() { vc.noname = save }()
	return vc.fresh(prefix, sort)
}

// name introduces a constant equal to t (keeps terms small, gives models names).
func (vc *VC) name(prefix, sort string, t Term) Term {
	if vc.noname > 0 {
		return t
	}
	if len(t) < 40 && !strings.Contains(t, "(ite") {
		return t
	}
	c := vc.fresh(prefix, sort)
	vc.assume(fmt.Sprintf("(= %s %s)", c, t))
	if vc.nameDefs != nil {
		vc.nameDefs[c] = t
	}
	return c
}

func (vc *VC) uniq(name string) string {
	if vc.oblNames == nil {
		vc.oblNames = map[string]int{}
	}
	vc.oblNames[name]++
	if n := vc.oblNames[name]; n > 1 {
		return fmt.Sprintf("%s~%d", name, n)
	}
	return name
}

func (vc *VC) oblige(name, kind string, guard, goal Term, src string) {
	if vc.dry > 0 {
		return
	}
	name = vc.uniq(name)
	vc.obls = append(vc.obls, &Obligation{Name: name, Kind: kind, NAsserts: len(vc.asserts), NDecls: len(vc.decls), Guard: guard, Goal: goal, Src: src})
}

func (vc *VC) cover(name string, guard Term, src string) {
	if vc.dry > 0 {
		return
	}
	name = vc.uniq(name)
	vc.obls = append(vc.obls, &Obligation{Name: name, Kind: "vacuity", NAsserts: len(vc.asserts), NDecls: len(vc.decls), Guard: guard, Goal: "false", ExpectSat: true, Src: src})
}

func (vc *VC) strLit(s string) Term {
	if n, ok := vc.strLits[s]; ok {
		return n
	}
	n := sym(fmt.Sprintf("str!%d!%s", len(vc.strLits), sanitizeLit(s)))
	vc.strLits[s] = n
	vc.strOrder = append(vc.strOrder, s)
	vc.decls = append(vc.decls, fmt.Sprintf("(declare-const %s Str)", n))
	if m := pctRe.FindStringSubmatch(s); m != nil {
		vc.decl("fn:pct_ok", "(declare-fun pct_ok (Str) Bool)")
		vc.decl("fn:pct_val", "(declare-fun pct_val (Str) Int)")
		vc.decls = append(vc.decls, fmt.Sprintf("(assert (and (pct_ok %s) (= (pct_val %s) %s)))", n, n, m[1]))
	}
	return n
}

var pctRe = regexp.MustCompile(`^([0-9]{1,3})%$`)

func sanitizeLit(s string) string {
	var b strings.Builder
	for _, c := range s {
		if c >= 'a' && c <= 'z' || c >= 'A' && c <= 'Z' || c >= '0' && c <= '9' || c == '.' || c == '-' || c == '/' || c == '_' {
			b.WriteRune(c)
		} else {
			b.WriteByte('_')
		}
		if b.Len() > 40 {
			break
		}
	}
	return b.String()
}

// strFacts: literals pairwise distinct, with their lengths.
func (vc *VC) strFacts() []string {
	var out []string
	if len(vc.strOrder) > 1 {
		var ns []string
		for _, s := range vc.strOrder {
			ns = append(ns, vc.strLits[s])
		}
		out = append(out, "(distinct "+strings.Join(ns, " ")+")")
	}
	for _, s := range vc.strOrder {
		out = append(out, fmt.Sprintf("(= (str_len %s) %d)", vc.strLits[s], len(s)))
	}
	return out
}

func (e *Engine) strLen(s Term) Term {
	t := fmt.Sprintf("(str_len %s)", s)
	e.vc.assume(fmt.Sprintf("(>= %s 0)", t))
	return t
}

func (vc *VC) typeID(t types.Type) int {
	k := typeKey(t)
	if id, ok := vc.typeIDs[k]; ok {
		return id
	}
	id := len(vc.typeIDs) + 1
	vc.typeIDs[k] = id
	return id
}

func (vc *VC) sortOf(t types.Type) string {
	if s, ok := specialScalar(t); ok {
		return s
	}
	t = types.Unalias(t)
	if tp, ok := t.(*types.TypeParam); ok {
		n := sym("T$" + tp.Obj().Name())
		vc.decl("sort:"+n, fmt.Sprintf("(declare-sort %s 0)", n))
		return n
	}
	switch u := t.Underlying().(type) {
	case *types.Basic:
		switch {
		case u.Info()&types.IsInteger != 0:
			return "Int"
		case u.Info()&types.IsFloat != 0:
			return "Real"
		case u.Info()&types.IsBoolean != 0:
			return "Bool"
		case u.Info()&types.IsString != 0:
			return "Str"
		case u.Kind() == types.UnsafePointer, u.Kind() == types.UntypedNil:
			return "Loc"
		}
	case *types.Pointer, *types.Map, *types.Chan, *types.Signature:
		return "Loc"
	case *types.Slice:
		return "Slice"
	case *types.Interface:
		return "Iface"
	case *types.Struct:
		return vc.structSort(t, u)
	case *types.Array:
		// arrays as values are rare; model as an opaque sort
		n := sym("A$" + shortTypeKey(t))
		vc.decl("sort:"+n, fmt.Sprintf("(declare-sort %s 0)", n))
		return n
	case *types.Tuple:
		return "Tuple"
	}
	n := sym("U$" + shortTypeKey(t))
	vc.decl("sort:"+n, fmt.Sprintf("(declare-sort %s 0)", n))
	return n
}

func (vc *VC) structSort(t types.Type, st *types.Struct) string {
	t = types.Unalias(t)
	n := sym("S$" + shortTypeKey(t))
	if vc.declared["sort:"+n] {
		return n
	}
	vc.declared["sort:"+n] = true
	// declare field sorts first
	var fs []string
	for i := 0; i < st.NumFields(); i++ {
		fs = append(fs, fmt.Sprintf("(%s %s)", vc.structSel(t, i), vc.sortOf(st.Field(i).Type())))
	}
	if st.NumFields() == 0 {
		vc.decls = append(vc.decls, fmt.Sprintf("(declare-datatypes ((%s 0)) (((%s))))", n, vc.structCtor(t)))
	} else {
		vc.decls = append(vc.decls, fmt.Sprintf("(declare-datatypes ((%s 0)) (((%s %s))))", n, vc.structCtor(t), strings.Join(fs, " ")))
	}
	return n
}

func (vc *VC) structCtor(t types.Type) string { return sym("mk$" + shortTypeKey(types.Unalias(t))) }
func (vc *VC) structSel(t types.Type, i int) string {
	t = types.Unalias(t)
	st := t.Underlying().(*types.Struct)
	return sym(fmt.Sprintf("sel$%s$%s", shortTypeKey(t), st.Field(i).Name()))
}

func (vc *VC) zero(t types.Type) Term {
	if _, ok := specialScalar(t); ok {
		return "0"
	}
	t = types.Unalias(t)
	if _, ok := t.(*types.TypeParam); ok {
		s := vc.sortOf(t)
		n := sym("zero$" + s)
		vc.decl("zero:"+s, fmt.Sprintf("(declare-const %s %s)", n, s))
		return n
	}
	switch u := t.Underlying().(type) {
	case *types.Basic:
		switch {
		case u.Info()&types.IsInteger != 0:
			return "0"
		case u.Info()&types.IsFloat != 0:
			return "0.0"
		case u.Info()&types.IsBoolean != 0:
			return "false"
		case u.Info()&types.IsString != 0:
			return vc.strLit("")
		default:
			return "nil"
		}
	case *types.Pointer, *types.Map, *types.Chan, *types.Signature:
		return "nil"
	case *types.Slice:
		return "nil_slice"
	case *types.Interface:
		return "nil_iface"
	case *types.Struct:
		vc.sortOf(t)
		if u.NumFields() == 0 {
			return vc.structCtor(t)
		}
		var fs []string
		for i := 0; i < u.NumFields(); i++ {
			fs = append(fs, vc.zero(u.Field(i).Type()))
		}
		return fmt.Sprintf("(%s %s)", vc.structCtor(t), strings.Join(fs, " "))
	}
	s := vc.sortOf(t)
	n := sym("zero$" + s)
	vc.decl("zero:"+s, fmt.Sprintf("(declare-const %s %s)", n, s))
	return n
}

func intLit(v int64) Term {
	if v < 0 {
		return fmt.Sprintf("(- %d)", -v)
	}
	return fmt.Sprintf("%d", v)
}

func (vc *VC) constTerm(v constant.Value, t types.Type) Term {
	if v == nil {
		return vc.zero(t)
	}
	if _, ok := specialScalar(t); ok {
		return "0"
	}
	switch {
	case isIntLike(t):
		s := v.ExactString()
		if strings.HasPrefix(s, "-") {
			return "(- " + s[1:] + ")"
		}
		return s
	case isFloat(t):
		f := constant.ToFloat(v)
		r := f.ExactString() // a/b or integer
		neg := strings.HasPrefix(r, "-")
		r = strings.TrimPrefix(r, "-")
		var out string
		if i := strings.Index(r, "/"); i >= 0 {
			out = fmt.Sprintf("(/ %s.0 %s.0)", r[:i], r[i+1:])
		} else {
			out = r + ".0"
		}
		if neg {
			out = "(- " + out + ")"
		}
		return out
	case isBool(t):
		if constant.BoolVal(v) {
			return "true"
		}
		return "false"
	case isString(t):
		return vc.strLit(constant.StringVal(v))
	}
	return vc.zero(t)
}

func and(ts ...Term) Term {
	var out []Term
	for _, t := range ts {
		if t == "true" || t == "" {
			continue
		}
		if t == "false" {
			return "false"
		}
		out = append(out, t)
	}
	switch len(out) {
	case 0:
		return "true"
	case 1:
		return out[0]
	}
	return "(and " + strings.Join(out, " ") + ")"
}

func or(ts ...Term) Term {
	var out []Term
	for _, t := range ts {
		if t == "false" || t == "" {
			continue
		}
		if t == "true" {
			return "true"
		}
		out = append(out, t)
	}
	switch len(out) {
	case 0:
		return "false"
	case 1:
		return out[0]
	}
	return "(or " + strings.Join(out, " ") + ")"
}

func not(t Term) Term {
	switch t {
	case "true":
		return "false"
	case "false":
		return "true"
	}
	if strings.HasPrefix(t, "(not ") && balanced(t[5:len(t)-1]) {
		return t[5 : len(t)-1]
	}
	return "(not " + t + ")"
}

func balanced(s string) bool {
	d := 0
	inq := false
	for i, c := range s {
		if c == '|' {
			inq = !inq
		}
		if inq {
			continue
		}
		if c == '(' {
			d++
		}
		if c == ')' {
			d--
			if d == 0 && i != len(s)-1 {
				return false
			}
			if d < 0 {
				return false
			}
		}
		if c == ' ' && d == 0 {
			return false
		}
	}
	return d == 0
}

func implies(a, b Term) Term {
	if a == "true" {
		return b
	}
	if b == "true" {
		return "true"
	}
	return fmt.Sprintf("(=> %s %s)", a, b)
}

func ite(c, a, b Term) Term {
	if c == "true" {
		return a
	}
	if c == "false" {
		return b
	}
	if a == b {
		return a
	}
	return fmt.Sprintf("(ite %s %s %s)", c, a, b)
}

func isNumeral(t Term) bool {
	if t == "" {
		return false
	}
	for _, c := range t {
		if c < '0' || c > '9' {
			return false
		}
	}
	return true
}

func eq(a, b Term) Term {
	if a == b {
		return "true"
	}
	if isNumeral(a) && isNumeral(b) {
		return "false"
	}
	return fmt.Sprintf("(= %s %s)", a, b)
}

func sel(arr, i Term) Term     { return fmt.Sprintf("(select %s %s)", arr, i) }
func sto(arr, i, v Term) Term  { return fmt.Sprintf("(store %s %s %s)", arr, i, v) }
func app(f string, a ...Term) Term {
	if len(a) == 0 {
		return f
	}
	return "(" + f + " " + strings.Join(a, " ") + ")"
}

func sortedKeys[V any](m map[string]V) []string {
	var ks []string
	for k := range m {
		ks = append(ks, k)
	}
	sort.Strings(ks)
	return ks
}
