package main

import (
	"fmt"
	"go/token"
	"go/types"
	"os"
	"strings"

	"golang.org/x/tools/go/ssa"
)

type callCtx struct {
	fr     *Frame
	st     *State
	args   []Term
	argVs  []ssa.Value
	argTs  []types.Type
	spec   bool
	callee *ssa.Function
	name   string // canonical callee / method name
	sig    *types.Signature
	instr  ssa.Instruction
	common *ssa.CallCommon
}

func (cx *callCtx) resultTypes() []types.Type {
	var ts []types.Type
	for i := 0; i < cx.sig.Results().Len(); i++ {
		ts = append(ts, cx.sig.Results().At(i).Type())
	}
	return ts
}

func (cx *callCtx) freshResults(prefix string) []Term {
	vc := cx.fr.eng.vc
	var rs []Term
	for _, t := range cx.resultTypes() {
		r := vc.fresh(prefix, vc.sortOf(t))
		cx.fr.eng.wf(cx.st, r, t)
		rs = append(rs, r)
	}
	return rs
}

func (fr *Frame) call(ins ssa.Instruction, c *ssa.CallCommon, st *State) []Term {
	e := fr.eng
	cx := &callCtx{fr: fr, st: st, instr: ins, common: c, sig: c.Signature()}
	before := st.clone()
	var rs []Term
	if c.IsInvoke() {
		recv := fr.val(c.Value)
		cx.args = append(cx.args, recv)
		cx.argVs = append(cx.argVs, c.Value)
		for _, a := range c.Args {
			cx.args = append(cx.args, fr.val(a))
			cx.argVs = append(cx.argVs, a)
		}
		cx.name = ifaceMethodName(c)
		if cases, recvs, idx, ok := fr.staticIfaceSlice(c); ok {
			rs = fr.dispatchCasesRecv(cx, cases, recvs, idx)
		} else {
			rs = fr.dispatchNamed(cx)
		}
	} else if b, ok := c.Value.(*ssa.Builtin); ok {
		for _, a := range c.Args {
			cx.args = append(cx.args, fr.val(a))
			cx.argVs = append(cx.argVs, a)
		}
		cx.name = "builtin." + b.Name()
		cx.fillTypes()
		rs = fr.builtin(cx, b)
	} else {
		for _, a := range c.Args {
			cx.args = append(cx.args, fr.val(a))
			cx.argVs = append(cx.argVs, a)
		}
		callee := c.StaticCallee()
		var clo *Closure
		if callee == nil {
			clo = fr.closureOf(c.Value)
			if clo != nil {
				callee = clo.fn
			}
		} else if mc, ok := c.Value.(*ssa.MakeClosure); ok {
			clo = fr.closureOf(mc)
		}
		if callee == nil {
			if cases, idx, ok := fr.staticFuncSlice(c.Value); ok {
				rs = fr.dispatchCases(cx, cases, idx)
			} else {
				cx.name = "dynamic:" + c.Value.Name()
				cx.fillTypes()
				rs = fr.havocCall(cx, "call through unknown function value")
			}
		} else {
			cx.callee = callee
			cx.name = canonName(callee)
			rs = fr.dispatchStatic(cx, clo)
		}
	}
	if false {
		for _, v := range cx.argVs {
			cx.argTs = append(cx.argTs, v.Type())
		}
	}
	fr.afterHooks(cx, rs, before)
	if fr.top || true {
		tf := fr
		for tf.parent != nil {
			tf = tf.parent
		}
		e.callLog = append(e.callLog, &CallRec{Name: cx.name, Instr: ins, Results: rs, Args: cx.args, PC: st.pc, Block: tf.curBlock, Index: tf.curIdx, Depth: fr.depth, After: st.clone(), Before: before})
	}
	return rs
}

// staticFuncSlice: v is loaded from element idx of a slice literal whose elements are statically
// known function values (e.g. `for _, f := range []fn{a, b, c} { f(...) }`).
func (fr *Frame) staticFuncSlice(v ssa.Value) ([]*Closure, Term, bool) {
	ld, ok := v.(*ssa.UnOp)
	if !ok {
		return nil, "", false
	}
	ia, ok := ld.X.(*ssa.IndexAddr)
	if !ok {
		return nil, "", false
	}
	sl, ok := ia.X.(*ssa.Slice)
	if !ok || sl.Low != nil || sl.High != nil {
		return nil, "", false
	}
	al, ok := sl.X.(*ssa.Alloc)
	if !ok {
		return nil, "", false
	}
	at, ok := al.Type().Underlying().(*types.Pointer).Elem().Underlying().(*types.Array)
	if !ok || at.Len() > 8 {
		return nil, "", false
	}
	cases := make([]*Closure, at.Len())
	for _, r := range *al.Referrers() {
		ea, ok := r.(*ssa.IndexAddr)
		if !ok {
			continue
		}
		k, ok := ea.Index.(*ssa.Const)
		if !ok {
			return nil, "", false
		}
		for _, r2 := range *ea.Referrers() {
			if st, ok := r2.(*ssa.Store); ok && st.Addr == ea {
				val := st.Val
				if ct, ok := val.(*ssa.ChangeType); ok {
					val = ct.X
				}
				clo := fr.closureOf(val)
				if clo == nil {
					return nil, "", false
				}
				cases[int(k.Int64())] = clo
			}
		}
	}
	for _, c := range cases {
		if c == nil {
			return nil, "", false
		}
	}
	return cases, fr.val(ia.Index), true
}

// staticIfaceSlice: an interface method is invoked on a value loaded from a slice literal whose
// elements are MakeInterface of statically typed values (`for _, r := range []I{a, b, c} { r.M() }`).
// Returns the concrete methods and receiver terms per element.
func (fr *Frame) staticIfaceSlice(c *ssa.CallCommon) ([]*Closure, []Term, Term, bool) {
	ld, ok := c.Value.(*ssa.UnOp)
	if !ok {
		return nil, nil, "", false
	}
	ia, ok := ld.X.(*ssa.IndexAddr)
	if !ok {
		return nil, nil, "", false
	}
	sl, ok := ia.X.(*ssa.Slice)
	if !ok || sl.Low != nil || sl.High != nil {
		return nil, nil, "", false
	}
	al, ok := sl.X.(*ssa.Alloc)
	if !ok {
		return nil, nil, "", false
	}
	at, ok := al.Type().Underlying().(*types.Pointer).Elem().Underlying().(*types.Array)
	if !ok || at.Len() > 8 {
		return nil, nil, "", false
	}
	cases := make([]*Closure, at.Len())
	recvs := make([]Term, at.Len())
	for _, r := range *al.Referrers() {
		ea, ok := r.(*ssa.IndexAddr)
		if !ok {
			continue
		}
		k, ok := ea.Index.(*ssa.Const)
		if !ok {
			return nil, nil, "", false
		}
		for _, r2 := range *ea.Referrers() {
			if st, ok := r2.(*ssa.Store); ok && st.Addr == ea {
				mi, ok := st.Val.(*ssa.MakeInterface)
				if !ok {
					return nil, nil, "", false
				}
				ms := fr.eng.prog.SSA.MethodSets.MethodSet(mi.X.Type())
				sel := ms.Lookup(c.Method.Pkg(), c.Method.Name())
				if sel == nil {
					return nil, nil, "", false
				}
				fn := fr.eng.prog.SSA.MethodValue(sel)
				if fn == nil {
					return nil, nil, "", false
				}
				cases[int(k.Int64())] = &Closure{fn: fn}
				recvs[int(k.Int64())] = fr.val(mi.X)
			}
		}
	}
	for _, c := range cases {
		if c == nil {
			return nil, nil, "", false
		}
	}
	return cases, recvs, fr.val(ia.Index), true
}

func (fr *Frame) dispatchCasesRecv(cx *callCtx, cases []*Closure, recvs []Term, idx Term) []Term {
	fr.caseRecvs = recvs
	defer func() { fr.caseRecvs = nil }()
	return fr.dispatchCases(cx, cases, idx)
}

// dispatchCases executes the call once per possible callee (under idx == k) and merges the outcomes.
func (fr *Frame) dispatchCases(cx *callCtx, cases []*Closure, idx Term) []Term {
	e := fr.eng
	vc := e.vc
	base := cx.st.clone()
	var edges []edgeIn
	var results [][]Term
	for k, clo := range cases {
		st := base.clone()
		st.pc = vc.name("pc", "Bool", and(base.pc, eq(idx, fmt.Sprint(k))))
		sub := &callCtx{fr: fr, st: st, args: cx.args, argVs: cx.argVs, instr: cx.instr, common: cx.common, sig: cx.sig, callee: clo.fn, name: canonName(clo.fn)}
		if fr.caseRecvs != nil {
			sub.args = append([]Term{fr.caseRecvs[k]}, cx.args[1:]...)
			sub.argTs = []types.Type{clo.fn.Signature.Recv().Type()}
			for _, v := range cx.argVs[1:] {
				sub.argTs = append(sub.argTs, v.Type())
			}
			sub.sig = clo.fn.Signature
			clo = nil
		}
		rs := fr.dispatchStatic(sub, clo)
		edges = append(edges, edgeIn{st: st})
		results = append(results, rs)
	}
	m := fr.mergeStates(edges)
	m.pc = base.pc // idx is one of the cases (index is in range)
	*cx.st = *m
	n := cx.sig.Results().Len()
	out := make([]Term, n)
	for i := 0; i < n; i++ {
		t := results[len(cases)-1][i]
		for k := len(cases) - 2; k >= 0; k-- {
			t = ite(eq(idx, fmt.Sprint(k)), results[k][i], t)
		}
		out[i] = vc.name("dyn.ret", vc.sortOf(cx.sig.Results().At(i).Type()), t)
	}
	cx.name = "dynamic-cases"
	return out
}

func ifaceMethodName(c *ssa.CallCommon) string {
	t := c.Value.Type()
	tn := typeKey(t)
	return "(" + tn + ")." + c.Method.Name()
}

func (cx *callCtx) fillTypes() {
	if len(cx.argTs) == 0 {
		for _, v := range cx.argVs {
			cx.argTs = append(cx.argTs, v.Type())
		}
	}
}

func (fr *Frame) dispatchNamed(cx *callCtx) []Term {
	e := fr.eng
	cx.fillTypes()
	fr.checkSites(cx)
	// trusted contract on an interface method: `//@ func (Iface).Method` in the interface's package
	if i := strings.LastIndex(cx.name, ")."); i > 0 && strings.HasPrefix(cx.name, "(") {
		full := cx.name[1:i]
		if j := strings.LastIndex(full, "."); j > 0 {
			key := full[:j] + ".(" + full[j+1:] + ")" + cx.name[i+1:]
			if con := e.cs.Fns[key]; con != nil {
				if !con.Trusted {
					fr.unsup("contract on interface method %s must be marked trusted", key)
				}
				e.vc.usedCon[key] = true
				return fr.applyContract(cx, con)
			}
		}
	}
	if s := lookupStub(cx.name); s != nil {
		e.vc.stubs[cx.name] = true
		return s(cx)
	}
	if isPureName(cx.name) {
		cx.funcArgEffects()
		return cx.freshResults("pure")
	}
	return fr.havocCall(cx, "interface method")
}

// funcArgEffects: a library helper whose own code is pure may still run the functions it is handed
// (lo.ForEach, lo.Find, ...): their writes are accounted for argument by argument.
func (cx *callCtx) funcArgEffects() {
	for i := range cx.argVs {
		if i < len(cx.argTs) {
			if _, isFn := cx.argTs[i].Underlying().(*types.Signature); isFn {
				cx.closureEffects(i)
			}
		}
	}
}

func (fr *Frame) dispatchStatic(cx *callCtx, clo *Closure) []Term {
	e := fr.eng
	cx.fillTypes()
	if cx.callee != nil && cx.callee.Name() == "init" && cx.callee.Pkg != nil && fr.fn.Pkg != nil && cx.callee.Pkg != fr.fn.Pkg {
		// initializer of an imported package: its variables are arbitrary (initial heap) for this package anyway
		return cx.zeroResults()
	}
	fr.checkSites(cx)
	// 1. contract
	if con := e.cs.Fns[cx.name]; con != nil && !con.Inline {
		if !(fr.top && fr.fn == cx.callee) || true {
			e.vc.usedCon[cx.name] = true
			return fr.applyContract(cx, con)
		}
	}
	// 2. stub
	if s := lookupStub(cx.name); s != nil {
		e.vc.stubs[cx.name] = true
		return s(cx)
	}
	if isPureName(cx.name) {
		cx.funcArgEffects()
		return cx.freshResults("pure")
	}
	// 3. inline
	if e.prog.isRepoFn(cx.callee) || (clo != nil && len(cx.callee.Blocks) > 0) {
		if fr.depth < e.maxDepth && !fr.recursive(cx.callee) {
			con := e.cs.Fns[cx.name]
			if !hasLoops(cx.callee) || (con != nil && con.Inline) {
				e.vc.inlined[cx.name] = true
				return fr.inline(cx, clo, con)
			}
		}
	}
	return fr.havocCall(cx, "no contract")
}

func (fr *Frame) recursive(fn *ssa.Function) bool {
	for f := fr; f != nil; f = f.parent {
		if f.fn == fn {
			return true
		}
	}
	return false
}

func (fr *Frame) inline(cx *callCtx, clo *Closure, con *Contract) []Term {
	e := fr.eng
	vc := e.vc
	nf := e.newFrame(cx.callee, fr)
	nf.con = con
	for i, p := range cx.callee.Params {
		nf.vals[p] = cx.args[i]
		if i < len(cx.argVs) {
			if c := fr.closureOf(cx.argVs[i]); c != nil {
				nf.closures[p] = c
			}
		}
	}
	if len(cx.callee.FreeVars) > 0 {
		if clo == nil || len(clo.bindings) != len(cx.callee.FreeVars) {
			fr.unsup("closure call without bindings: %s", cx.name)
		}
		for i, fv := range cx.callee.FreeVars {
			nf.vals[fv] = clo.bindings[i]
		}
	}
	nf.entry = cx.st.clone()
	nf.run(cx.st.clone())
	// merge returns into cx.st
	if len(nf.rets) == 0 {
		// never returns (always panics)
		cx.st.pc = "false"
		return cx.zeroResults()
	}
	var edges []edgeIn
	for _, r := range nf.rets {
		edges = append(edges, edgeIn{st: r.st})
	}
	m := fr.mergeStates(edges)
	*cx.st = *m
	n := cx.sig.Results().Len()
	rs := make([]Term, n)
	for i := 0; i < n; i++ {
		t := nf.rets[len(nf.rets)-1].results[i]
		for k := len(nf.rets) - 2; k >= 0; k-- {
			t = ite(nf.rets[k].st.pc, nf.rets[k].results[i], t)
		}
		rs[i] = vc.name(cx.callee.Name()+".ret", vc.sortOf(cx.sig.Results().At(i).Type()), t)
	}
	return rs
}

func (cx *callCtx) zeroResults() []Term {
	var rs []Term
	for _, t := range cx.resultTypes() {
		rs = append(rs, cx.fr.eng.vc.zero(t))
	}
	return rs
}

// havocCall: unknown callee. Results arbitrary; every heap component whose cells
// could be reached from the arguments (by type) is havocked.
func (fr *Frame) havocCall(cx *callCtx, why string) []Term {
	e := fr.eng
	e.vc.havocs[cx.name+" ("+why+")"] = true
	reach := map[string]bool{}
	for i, a := range cx.argTs {
		if i < len(cx.argVs) && cx.argVs[i] != nil {
			// an interface argument built from a statically typed value reaches what that value reaches
			if mi, ok := cx.argVs[i].(*ssa.MakeInterface); ok {
				a = mi.X.Type()
			}
		}
		if externalHandle(a) {
			// API client, cloud provider, recorder, clock, context: their implementations live outside the
			// modelled heap and touch karpenter's objects only through the other arguments (listed assumption)
			e.vc.assumes["implementations of client.Client/Reader/Writer, CloudProvider, events.Recorder, clock.Clock and context.Context modify karpenter's in-memory objects only through the other arguments of the call; error values and label selectors are immutable"] = true
			continue
		}
		e.reachComps(a, reach, map[string]bool{}, true)
	}
	// When every argument that reaches the heap is the address of a local object of this function that is
	// never written by this function (a zero value handed to the callee to be filled in, e.g. the list
	// passed to client.List), the callee can only write that object and objects it allocates itself.
	var onlyRoots []Term
	precise := len(reach) > 0
	for i, a := range cx.argTs {
		if i >= len(cx.argVs) || cx.argVs[i] == nil {
			precise = false
			break
		}
		v := cx.argVs[i]
		argTerm := cx.args[i]
		if mi, ok := v.(*ssa.MakeInterface); ok {
			v = mi.X
			a = mi.X.Type()
			argTerm = fr.val(mi.X)
		}
		if externalHandle(a) {
			continue
		}
		r := map[string]bool{}
		e.reachComps(a, r, map[string]bool{}, true)
		if len(r) == 0 {
			continue
		}
		if al, ok := v.(*ssa.Alloc); ok && untouchedLocal(al, 0) && onlyCallOf(al, cx.instr) {
			if e.vc.sortOf(a) != "Loc" {
				precise = false
				break
			}
			onlyRoots = append(onlyRoots, fmt.Sprintf("(rootid %s)", argTerm))
			continue
		}
		precise = false
		break
	}
	pre := cx.st.clone()
	for c := range reach {
		if _, ok := e.compSort[c]; ok {
			e.havocComp(cx.st, c)
		}
	}
	if precise && len(onlyRoots) > 0 {
		var ne []Term
		for _, r := range onlyRoots {
			ne = append(ne, fmt.Sprintf("(not (= (rootid l) %s))", r))
		}
		for _, c := range sortedKeys(reach) {
			if _, ok := e.compSort[c]; !ok || !strings.HasPrefix(e.compSort[c], "(Array Loc ") {
				continue
			}
			nw, old := e.get(cx.st, c), e.get(pre, c)
			if nw == old {
				continue
			}
			e.vc.assumeIf(cx.st.pc, fmt.Sprintf("(forall ((l Loc)) (! (=> (and (< (rootid l) %s) %s) (= (select %s l) (select %s l))) :pattern ((select %s l))))", pre.alloc, and(ne...), nw, old, nw))
		}
		e.vc.assumes["a callee handed the address of an untouched local object writes only that object and objects it allocates"] = true
	}
	if len(reach) > 0 {
		na := e.vc.fresh("alloc", "Int")
		e.vc.assume(fmt.Sprintf("(>= %s %s)", na, cx.st.alloc))
		cx.st.alloc = na
	}
	return cx.freshResults("hv." + lastSeg(cx.name))
}

// untouchedLocal: the local object is never written by this function (no store through it or through
// addresses derived from it) and its address only goes to calls; it therefore still holds its zero value,
// and nothing is reachable from it, when a callee receives it.
func untouchedLocal(v ssa.Value, depth int) bool {
	if depth > 6 || v.Referrers() == nil {
		return false
	}
	for _, r := range *v.Referrers() {
		switch r := r.(type) {
		case *ssa.DebugRef:
		case *ssa.UnOp:
			if depth == 0 && r.Op != token.MUL {
				return false
			}
		case *ssa.FieldAddr:
			if !derivedReadOnly(r, depth+1) {
				return false
			}
		case *ssa.IndexAddr:
			if !derivedReadOnly(r, depth+1) {
				return false
			}
		case *ssa.MakeInterface:
			for _, r2 := range *r.Referrers() {
				if _, ok := r2.(ssa.CallInstruction); !ok {
					if _, ok := r2.(*ssa.DebugRef); !ok {
						return false
					}
				}
			}
		case ssa.CallInstruction:
		case *ssa.Store:
			return false // the local itself is written, or its address is stored somewhere
		default:
			return false
		}
	}
	return true
}

// onlyCallOf: the local's address goes to exactly one call, the given one, in the block that creates the
// local (so the callee sees it exactly once, freshly zeroed, also when the code sits in a loop).
func onlyCallOf(al *ssa.Alloc, call ssa.Instruction) bool {
	if call == nil || al.Block() != call.Block() {
		return false
	}
	n := 0
	for _, r := range *al.Referrers() {
		switch r := r.(type) {
		case ssa.CallInstruction:
			if r != call {
				return false
			}
			n++
		case *ssa.MakeInterface:
			for _, r2 := range *r.Referrers() {
				if c, ok := r2.(ssa.CallInstruction); ok {
					if c != call {
						return false
					}
					n++
				}
			}
		}
	}
	return n == 1
}

// derivedReadOnly: an address derived from a local is only used to read (or to derive further read addresses).
func derivedReadOnly(v ssa.Value, depth int) bool {
	if depth > 6 || v.Referrers() == nil {
		return false
	}
	for _, r := range *v.Referrers() {
		switch r := r.(type) {
		case *ssa.DebugRef, *ssa.UnOp:
		case *ssa.FieldAddr:
			if !derivedReadOnly(r, depth+1) {
				return false
			}
		case *ssa.IndexAddr:
			if !derivedReadOnly(r, depth+1) {
				return false
			}
		default:
			return false
		}
	}
	return true
}

// externalHandle: interface types whose implementations are outside the modelled heap.
func externalHandle(t types.Type) bool {
	if strings.HasPrefix(typeKey(t), "internal/sync.") {
		return true // hash/equality functions inside sync.Map
	}
	if strings.HasPrefix(typeKey(t), "github.com/awslabs/operatorpkg/option.Function") {
		return true // functional options: applied to a fresh options struct only
	}
	if _, ok := t.Underlying().(*types.Interface); !ok {
		return false
	}
	switch typeKey(t) {
	case "context.Context", "error", "k8s.io/apimachinery/pkg/labels.Selector",
		"sigs.k8s.io/controller-runtime/pkg/client.Client", "sigs.k8s.io/controller-runtime/pkg/client.Reader",
		"sigs.k8s.io/controller-runtime/pkg/client.Writer", "sigs.k8s.io/controller-runtime/pkg/client.StatusWriter",
		"sigs.k8s.io/controller-runtime/pkg/client.SubResourceWriter", "sigs.k8s.io/controller-runtime/pkg/client.SubResourceClient",
		"sigs.k8s.io/controller-runtime/pkg/client.Patch",
		"sigs.k8s.io/controller-runtime/pkg/client.ListOption", "sigs.k8s.io/controller-runtime/pkg/client.GetOption",
		"sigs.k8s.io/controller-runtime/pkg/client.PatchOption", "sigs.k8s.io/controller-runtime/pkg/client.DeleteOption",
		"sigs.k8s.io/controller-runtime/pkg/client.CreateOption", "sigs.k8s.io/controller-runtime/pkg/client.UpdateOption",
		"sigs.k8s.io/controller-runtime/pkg/client.SubResourcePatchOption", "sigs.k8s.io/controller-runtime/pkg/client.SubResourceUpdateOption",
		"sigs.k8s.io/controller-runtime/pkg/client.SubResourceCreateOption", "sigs.k8s.io/controller-runtime/pkg/client.DeleteAllOfOption",
		"sigs.k8s.io/karpenter/pkg/cloudprovider.CloudProvider", "sigs.k8s.io/karpenter/pkg/events.Recorder",
		"k8s.io/utils/clock.Clock", "k8s.io/utils/clock.PassiveClock", "k8s.io/utils/clock.WithTicker":
		return true
	}
	return false
}

func lastSeg(s string) string {
	if i := strings.LastIndex(s, "."); i >= 0 {
		return s[i+1:]
	}
	return s
}

// havocComp replaces component c by an arbitrary one, except that the cells of unexported
// package-level variables of the package under verification keep their values (listed assumption:
// callees outside the package do not modify them).
func (e *Engine) havocComp(st *State, c string) {
	vc := e.vc
	if pk, ok := e.privFields[c]; ok && e.topFrame != nil && e.topFrame.fn.Pkg != nil && pk == e.topFrame.fn.Pkg.Pkg.Path() {
		// unexported field of a type of the package under verification: code outside the package cannot write it
		vc.assumes["calls outside the package do not modify unexported fields of the package's own types"] = true
		return
	}
	old := e.get(st, c)
	nw := vc.fresh("hv$"+c, e.compSort[c])
	e.nilMapEmpty(c, nw)
	if strings.HasPrefix(e.compSort[c], "(Array Loc ") && len(e.privGlobals) > 0 {
		vc.decl("fn:privroot", "(declare-fun privroot (Int) Bool)")
		vc.assumeIf(st.pc, fmt.Sprintf("(forall ((l Loc)) (! (=> (privroot (rootid l)) (= (select %s l) (select %s l))) :pattern ((select %s l))))", nw, old, nw))
		vc.assumes["calls outside the package do not modify its unexported package-level variables"] = true
	}
	if strings.HasPrefix(e.compSort[c], "(Array Loc ") && e.hasLocals {
		// objects created by this function whose address never left it cannot be touched by a callee
		vc.decl("fn:localroot", "(declare-fun localroot (Int) Bool)")
		vc.assumeIf(st.pc, fmt.Sprintf("(forall ((l Loc)) (! (=> (localroot (rootid l)) (= (select %s l) (select %s l))) :pattern ((select %s l))))", nw, old, nw))
	}
	st.heap[c] = nw
}

// reachComps collects the names of heap components whose cells are reachable from a value of type t.
// Interfaces and function values make everything reachable ("*").
func (e *Engine) reachComps(t types.Type, out map[string]bool, seen map[string]bool, top bool) {
	if os.Getenv("KVC_DEBUG_REACH") != "" {
		before := out["Box$Iface"]
		defer func() {
			if !before && out["Box$Iface"] {
				fmt.Fprintf(os.Stderr, "reach: Box$Iface via %s\n", typeKey(t))
			}
		}()
	}
	k := typeKey(t)
	if seen[k] {
		return
	}
	seen[k] = true
	if _, ok := specialScalar(t); ok {
		return
	}
	switch u := types.Unalias(t).Underlying().(type) {
	case *types.Pointer:
		el := u.Elem()
		if isStructLike(el) {
			e.reachStruct(el, out, seen)
		} else {
			out[e.boxComp(el)] = true
			e.reachComps(el, out, seen, false)
		}
	case *types.Slice:
		el := u.Elem()
		if externalHandle(el) {
			return // option lists are read, not written
		}
		if isStructLike(el) {
			e.reachStruct(el, out, seen)
		} else {
			out[e.boxComp(el)] = true
			e.reachComps(el, out, seen, false)
		}
	case *types.Map:
		out[e.mapDomComp(u)] = true
		if !isEmptyStruct(u.Elem()) {
			out[e.mapValComp(u)] = true
		}
		e.reachComps(u.Key(), out, seen, false)
		e.reachComps(u.Elem(), out, seen, false)
	case *types.Struct:
		// struct value: its pointer-typed fields lead further
		for i := 0; i < u.NumFields(); i++ {
			e.reachComps(u.Field(i).Type(), out, seen, false)
		}
	case *types.Interface, *types.Signature:
		if externalHandle(t) {
			return
		}
		if os.Getenv("KVC_DEBUG_REACH") != "" {
			fmt.Fprintf(os.Stderr, "reach: opaque type %s\n", typeKey(t))
		}
		// opaque: could reach anything that was ever declared
		for c := range e.compSort {
			if !strings.HasPrefix(c, "$") {
				out[c] = true
			}
		}
	}
}

func (e *Engine) reachStruct(t types.Type, out map[string]bool, seen map[string]bool) {
	st, ok := t.Underlying().(*types.Struct)
	if !ok {
		return
	}
	for i := 0; i < st.NumFields(); i++ {
		ft := st.Field(i).Type()
		if isStructLike(ft) {
			if !seen["S:"+typeKey(ft)] {
				seen["S:"+typeKey(ft)] = true
				e.reachStruct(ft, out, seen)
			}
			continue
		}
		c, _ := e.fieldComp(t, i)
		out[c] = true
		e.reachComps(ft, out, seen, false)
	}
}

// ---- builtins ----

func (fr *Frame) builtin(cx *callCtx, b *ssa.Builtin) []Term {
	e := fr.eng
	vc := e.vc
	st := cx.st
	switch b.Name() {
	case "len":
		switch t := cx.argTs[0].Underlying().(type) {
		case *types.Slice:
			return []Term{fmt.Sprintf("(s_len %s)", cx.args[0])}
		case *types.Map:
			return []Term{fr.mapLen(st, cx.args[0], t)}
		case *types.Basic:
			return []Term{e.strLen(cx.args[0])}
		case *types.Array:
			return []Term{fmt.Sprint(t.Len())}
		case *types.Pointer:
			if at, ok := t.Elem().Underlying().(*types.Array); ok {
				return []Term{fmt.Sprint(at.Len())}
			}
		}
	case "cap":
		if _, ok := cx.argTs[0].Underlying().(*types.Slice); ok {
			return []Term{fmt.Sprintf("(s_cap %s)", cx.args[0])}
		}
	case "append":
		return []Term{fr.appendOp(cx)}
	case "delete":
		mt := cx.argTs[0].Underlying().(*types.Map)
		fr.mapDelete(st, cx.args[0], mt, cx.args[1], cx.instr)
		return nil
	case "min", "max":
		t := cx.args[0]
		for _, a := range cx.args[1:] {
			if b.Name() == "min" {
				t = fmt.Sprintf("(ite (<= %s %s) %s %s)", t, a, t, a)
			} else {
				t = fmt.Sprintf("(ite (>= %s %s) %s %s)", t, a, t, a)
			}
		}
		return []Term{t}
	case "copy":
		// dst elements havocked
		if sl, ok := cx.argTs[0].Underlying().(*types.Slice); ok && !isStructLike(sl.Elem()) {
			c := e.boxComp(sl.Elem())
			st.heap[c] = vc.fresh("hv$"+c, e.compSort[c])
			e.nilMapEmpty(c, st.heap[c])
		}
		return []Term{vc.fresh("copied", "Int")}
	case "print", "println":
		return nil
	case "clear":
		if mt, ok := cx.argTs[0].Underlying().(*types.Map); ok {
			dc := e.mapDomComp(mt)
			st.heap[dc] = vc.name("h", e.compSort[dc], sto(e.get(st, dc), cx.args[0], e.emptySet(vc.sortOf(mt.Key()))))
			return nil
		}
	case "recover":
		return []Term{"nil_iface"}
	}
	fr.unsup("builtin %s on %s", b.Name(), cx.argTs[0])
	return nil
}

// append(s, xs...): nondeterministically in place (when capacity allows) or into a fresh array.
func (fr *Frame) appendOp(cx *callCtx) Term {
	e := fr.eng
	vc := e.vc
	st := cx.st
	s, xs := cx.args[0], cx.args[1]
	st0 := cx.argTs[0].Underlying().(*types.Slice)
	et := st0.Elem()
	if _, isStr := cx.argTs[1].Underlying().(*types.Basic); isStr {
		return vc.fresh("appendstr", "Slice")
	}
	n := fmt.Sprintf("(s_len %s)", xs)
	fr.appendStatic = cx.staticSliceLen(1)
	newLen := vc.name("applen", "Int", fmt.Sprintf("(+ (s_len %s) %s)", s, n))
	inPlace := fmt.Sprintf("(<= %s (s_cap %s))", newLen, s)
	fresh := e.newObj(st)
	newCap := vc.fresh("appcap", "Int")
	vc.assume(fmt.Sprintf("(>= %s %s)", newCap, newLen))
	res := vc.fresh("append", "Slice")
	vc.assumeIf(st.pc, fmt.Sprintf("(= %s (ite %s (mkslice (s_arr %s) (s_off %s) %s (s_cap %s)) (mkslice %s 0 %s %s)))", res, inPlace, s, s, newLen, s, fresh, newLen, newCap))
	if isStructLike(et) {
		// element fields: copy semantics per leaf field component (nested structs are walked)
		if _, ok := et.Underlying().(*types.Struct); !ok {
			return res
		}
		var walk func(t types.Type, path []int)
		walk = func(t types.Type, path []int) {
			stt, ok := t.Underlying().(*types.Struct)
			if !ok {
				vc.warn = append(vc.warn, "append of array-valued struct elements: cells havocked")
				return
			}
			for i := 0; i < stt.NumFields(); i++ {
				ft := stt.Field(i).Type()
				if isStructLike(ft) {
					walk(ft, append(append([]int{}, path...), i))
					continue
				}
				c, boxed := e.fieldComp(t, i)
				fr.appendCellsPath(st, c, boxed, path, i, s, xs, res, n)
			}
		}
		walk(et, nil)
		return res
	}
	c := e.boxComp(et)
	fr.appendCells(st, c, false, -1, s, xs, res, n)
	return res
}

// appendCells relates component c after the append to before: cells of the result array
// at [0,len s) equal the old cells of s, cells at [len s, len s+n) equal those of xs, all
// other cells are unchanged.
func (fr *Frame) appendCells(st *State, c string, boxed bool, fieldIdx int, s, xs, res, n Term) {
	fr.appendCellsPath(st, c, boxed, nil, fieldIdx, s, xs, res, n)
}

// appendCellsPath: as appendCells for a leaf field reached from the element through the nested struct
// fields `path`; the leaf's cell is the (nested) struct location, or its fld when the field is boxed.
func (fr *Frame) appendCellsPath(st *State, c string, boxed bool, path []int, fieldIdx int, s, xs, res, n Term) {
	e := fr.eng
	vc := e.vc
	old := e.get(st, c)
	nw := vc.fresh("h", e.compSort[c])
	wrap := func(l Term) Term {
		for _, p := range path {
			l = fmt.Sprintf("(fld %s %d)", l, p)
		}
		if boxed && fieldIdx >= 0 {
			l = fmt.Sprintf("(fld %s %d)", l, fieldIdx)
		}
		return l
	}
	cell := func(sl, i Term) Term {
		return wrap(fmt.Sprintf("(sidx %s %s)", sl, i))
	}
	// forall j in [0, len res): new[res[j]] = j < len s ? old[s[j]] : old[xs[j-len s]]
	pat := fmt.Sprintf(":pattern (%s)", cell(res, "j"))
	if top := e.topFrame; top != nil && top.con != nil && top.con.Options["appendsrc"] {
		// also fire on a known element of the source: carries an existential witness index over the append
		pat += fmt.Sprintf(" :pattern (%s)", cell(s, "j"))
	}
	vc.assumeIf(st.pc, fmt.Sprintf("(forall ((j Int)) (! (=> (and (<= 0 j) (< j (s_len %s))) (= (select %s %s) (ite (< j (s_len %s)) (select %s %s) (select %s %s)))) %s))",
		res, nw, cell(res, "j"),
		s, old, cell(s, "j"),
		old, cell(xs, fmt.Sprintf("(- j (s_len %s))", s)),
		pat))
	if top := e.topFrame; top != nil && top.con != nil && top.con.Options["appendsrc"] {
		// the same fact stated from a known element of the appended slice (append(s, xs...))
		vc.assumeIf(st.pc, fmt.Sprintf("(forall ((i Int)) (! (=> (and (<= 0 i) (< i (s_len %s))) (= (select %s %s) (select %s %s))) :pattern (%s)))",
			xs, nw, cell(res, fmt.Sprintf("(+ (s_len %s) i)", s)), old, cell(xs, "i"), cell(xs, "i")))
	}
	// ground instances for explicit arguments (append(s, x, y)): gives E-matching the new elements' terms
	if k := fr.appendStatic; k >= 0 && k <= 4 {
		for j := 0; j < k; j++ {
			vc.assumeIf(st.pc, fmt.Sprintf("(= (select %s %s) (select %s %s))", nw, cell(res, fmt.Sprintf("(+ (s_len %s) %d)", s, j)), old, cell(xs, fmt.Sprint(j))))
		}
	}
	// frame: everything that is not one of the appended cells keeps its value
	var inRes Term
	{
		// peel the fld wrappers (innermost field last) off l to reach the element location
		base := "l"
		var conds []Term
		steps := append([]int{}, path...)
		if boxed && fieldIdx >= 0 {
			steps = append(steps, fieldIdx)
		}
		for k := len(steps) - 1; k >= 0; k-- {
			conds = append(conds, fmt.Sprintf("(is_fld %s)", base), fmt.Sprintf("(= (fld_i %s) %d)", base, steps[k]))
			base = fmt.Sprintf("(fld_base %s)", base)
		}
		conds = append(conds, fmt.Sprintf("(is_idx %s)", base), fmt.Sprintf("(= (idx_base %s) (s_arr %s))", base, res),
			fmt.Sprintf("(<= (+ (s_off %s) (s_len %s)) (idx_i %s))", res, s, base), fmt.Sprintf("(< (idx_i %s) (+ (s_off %s) (s_len %s)))", base, res, res))
		inRes = and(conds...)
	}
	inFresh := fmt.Sprintf("(= (rootid l) (rootid (s_arr %s)))", res)
	_ = inFresh
	vc.assumeIf(st.pc, fmt.Sprintf("(forall ((l Loc)) (! (=> (and (not %s) (or (= (s_arr %s) (s_arr %s)) (not (= (rootid l) (rootid (s_arr %s)))))) (= (select %s l) (select %s l))) :pattern ((select %s l))))",
		inRes, res, s, res, nw, old, nw))
	st.heap[c] = nw
}
