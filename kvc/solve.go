package main

import (
	"runtime"
	"bytes"
	"context"
	"fmt"
	"os"
	"os/exec"
	"path/filepath"
	"strings"
	"sync"
	"time"
)

type SolveResult struct {
	Status  string // unsat | sat | unknown
	Solver  string
	TimeS   float64
	Output  string // solver output (model) when sat / diagnostics
	Tried   []string
	AllTime float64
}

type solverCfg struct {
	name string
	cmd  func(file string, timeoutS int) []string
}

var solverCfgs = []solverCfg{
	{"z3-5.1.0", func(f string, t int) []string { return []string{"z3-new", fmt.Sprintf("-T:%d", t), f} }},
	{"z3-5.1.0-norelevancy", func(f string, t int) []string {
		return []string{"z3-new", fmt.Sprintf("-T:%d", t), "smt.relevancy=0", f}
	}},
	{"z3-5.1.0-noautoconfig", func(f string, t int) []string {
		return []string{"z3-new", fmt.Sprintf("-T:%d", t), "smt.auto_config=false", f}
	}},
	{"z3-4.8.12", func(f string, t int) []string { return []string{"/usr/bin/z3", fmt.Sprintf("-T:%d", t), f} }},
	{"z3-4.8.12-seed1", func(f string, t int) []string {
		return []string{"/usr/bin/z3", fmt.Sprintf("-T:%d", t), "smt.random_seed=1", f}
	}},
	{"cvc5-1.0.3", func(f string, t int) []string { return []string{"cvc5", fmt.Sprintf("--tlimit=%d", t*1000), f} }},
	{"cvc5-1.0.3-enum", func(f string, t int) []string {
		return []string{"cvc5", "--enum-inst", fmt.Sprintf("--tlimit=%d", t*1000), f}
	}},
}

func (vc *VC) smtText(o *Obligation, withModel bool) string {
	return vc.smtTextV(o, withModel, true)
}

func (vc *VC) hasLemmas(o *Obligation) bool {
	for i := range vc.lemmaIdx {
		if i < o.NAsserts {
			return true
		}
	}
	return false
}

func (vc *VC) smtTextV(o *Obligation, withModel bool, lemmas bool) string {
	var b strings.Builder
	b.WriteString(prelude)
	for _, d := range vc.decls {
		b.WriteString(d)
		b.WriteByte('\n')
	}
	for _, f := range vc.strFacts() {
		fmt.Fprintf(&b, "(assert %s)\n", f)
	}
	if len(vc.globals) > 1 {
		fmt.Fprintf(&b, "(assert (distinct %s))\n", strings.Join(vc.globals, " "))
	}
	for i, a := range vc.asserts[:o.NAsserts] {
		if !lemmas && vc.lemmaIdx[i] {
			continue
		}
		fmt.Fprintf(&b, "(assert %s)\n", a)
	}
	fmt.Fprintf(&b, "; obligation %s\n; %s\n", o.Name, strings.ReplaceAll(o.Src, "\n", " "))
	fmt.Fprintf(&b, "(assert %s)\n", o.Guard)
	fmt.Fprintf(&b, "(assert (not %s))\n", o.Goal)
	b.WriteString("(check-sat)\n")
	if withModel {
		b.WriteString("(get-model)\n")
	}
	return b.String()
}

// smtGround: the query with every quantified assertion dropped (a weakening of the assumptions).
func (vc *VC) smtGround(o *Obligation) string {
	var b strings.Builder
	for _, ln := range strings.Split(vc.smtText(o, false), "\n") {
		if strings.HasPrefix(ln, "(assert") && (strings.Contains(ln, "(forall ") || strings.Contains(ln, "(exists ")) {
			continue
		}
		b.WriteString(ln)
		b.WriteByte('\n')
	}
	return b.String()
}

var solverSlots = make(chan struct{}, 16)

var smtErrOnce sync.Once

// loadFactor stretches the wall-clock solver budgets when the machine is oversubscribed (other checks
// running beside this one): a query that needs 2 s of CPU must not turn into "unknown" because it only got
// a quarter of a core. 1 on an idle machine, at most 6.
func loadFactor() int {
	data, err := os.ReadFile("/proc/loadavg")
	if err != nil {
		return 1
	}
	var l1 float64
	if _, err := fmt.Sscanf(string(data), "%f", &l1); err != nil {
		return 1
	}
	f := int(l1/float64(runtime.NumCPU()) + 0.5)
	if f < 1 {
		f = 1
	}
	if f > 6 {
		f = 6
	}
	return f
}

func runSolver(ctx context.Context, sc solverCfg, file string, timeoutS int) (string, string, float64) {
	timeoutS *= loadFactor()
	select {
	case solverSlots <- struct{}{}:
	case <-ctx.Done():
		return "unknown", "", 0
	}
	defer func() { <-solverSlots }()
	if ctx.Err() != nil {
		return "unknown", "", 0
	}
	t0 := time.Now()
	args := sc.cmd(file, timeoutS)
	cctx, cancel := context.WithTimeout(ctx, time.Duration(timeoutS+2)*time.Second)
	defer cancel()
	cmd := exec.CommandContext(cctx, args[0], args[1:]...)
	var out bytes.Buffer
	cmd.Stdout = &out
	cmd.Stderr = &out
	_ = cmd.Run()
	s := out.String()
	st := "unknown"
	// the verdict is the first line that is one; warnings (e.g. about ignored patterns) may precede it
	for _, ln := range strings.Split(s, "\n") {
		ln = strings.TrimSpace(ln)
		if ln == "unsat" || ln == "sat" {
			st = ln
			break
		}
		if strings.HasPrefix(ln, "(error") && sc.name == solverCfgs[0].name && !strings.Contains(ln, "model is not available") {
			// the reference solver rejects the query text: a generator defect, never a verdict
			smtErrOnce.Do(func() { fmt.Fprintf(os.Stderr, "warning: %s rejected %s: %s\n", sc.name, filepath.Base(file), ln) })
			st = "smt-error"
			break
		}
		if ln == "unknown" || ln == "timeout" || strings.HasPrefix(ln, "(error") {
			break
		}
	}
	if len(s) > 200000 {
		s = s[:200000]
	}
	return st, s, time.Since(t0).Seconds()
}

// solveOne races the portfolio on one obligation. all=true runs every configuration to completion.
func solveOne(dir string, vc *VC, o *Obligation, timeoutS int, all bool) *SolveResult {
	file := filepath.Join(dir, sanitizeFile(o.Name)+".smt2")
	_ = os.WriteFile(file, []byte(vc.smtText(o, true)), 0o644)
	res := &SolveResult{Status: "unknown"}
	t0 := time.Now()
	defer func() { res.AllTime = time.Since(t0).Seconds() }()
	want := "unsat"
	if o.ExpectSat {
		want = "sat"
	}
	if o.ExpectSat {
		// vacuity guard: one solver, short budget; "unknown" is inconclusive, only "unsat" is a failure
		st, out, tm := runSolver(context.Background(), solverCfgs[0], file, 3)
		res.Tried = append(res.Tried, fmt.Sprintf("%s:%s:%.2fs", solverCfgs[0].name, st, tm))
		res.Status, res.Solver, res.TimeS = st, solverCfgs[0].name, tm
		if st == "sat" {
			res.Output = out
		}
		if st == "unknown" {
			// quantified assumptions defeat model finding: retry on the ground part only. "unsat" there is
			// still a definite vacuity failure; "sat" means the ground assumptions are consistent.
			gfile := strings.TrimSuffix(file, ".smt2") + ".ground.smt2"
			_ = os.WriteFile(gfile, []byte(vc.smtGround(o)), 0o644)
			st2, _, tm2 := runSolver(context.Background(), solverCfgs[0], gfile, 3)
			res.Tried = append(res.Tried, fmt.Sprintf("%s(ground):%s:%.2fs", solverCfgs[0].name, st2, tm2))
			if st2 == "unsat" {
				res.Status = "unsat"
			} else if st2 == "sat" {
				res.Status = "sat-ground"
			}
			_ = os.Remove(gfile)
		}
		return res
	}
	if !all {
		// first: the fast solver alone with a short budget
		first := timeoutS
		if first > 4 {
			first = 4
		}
		st, out, tm := runSolver(context.Background(), solverCfgs[0], file, first)
		res.Tried = append(res.Tried, fmt.Sprintf("%s:%s:%.2fs", solverCfgs[0].name, st, tm))
		if st == want || (st == "unsat" && o.ExpectSat) {
			res.Status, res.Solver, res.TimeS, res.Output = st, solverCfgs[0].name, tm, out
			if st != "sat" {
				res.Output = ""
			}
			return res
		}
		if st == "sat" {
			res.Status, res.Solver, res.TimeS, res.Output = st, solverCfgs[0].name, tm, out
		}
	}
	files := []string{file}
	if vc.hasLemmas(o) {
		nf := strings.TrimSuffix(file, ".smt2") + ".nolemma.smt2"
		_ = os.WriteFile(nf, []byte(vc.smtTextV(o, true, false)), 0o644)
		files = append(files, nf)
		defer os.Remove(nf)
	}
	ctx, cancel := context.WithCancel(context.Background())
	defer cancel()
	type r struct {
		sc  solverCfg
		st  string
		out string
		tm  float64
	}
	ch := make(chan r, 2*len(solverCfgs))
	n := 0
	for fi, f := range files {
		for i, sc := range solverCfgs {
			if !all && i == 0 && timeoutS <= 4 && fi == 0 {
				continue
			}
			if fi > 0 && i >= 4 {
				continue // the lemma-free variant: z3 configurations only
			}
			n++
			go func(sc solverCfg, f string, fi int) {
				st, out, tm := runSolver(ctx, sc, f, timeoutS)
				if fi > 0 {
					sc.name += "(no lemmas)"
					if st == "sat" {
						st = "unknown" // a model without the lemmas is not a refutation of the full query
					}
				}
				ch <- r{sc, st, out, tm}
			}(sc, f, fi)
		}
	}
	for i := 0; i < n; i++ {
		x := <-ch
		res.Tried = append(res.Tried, fmt.Sprintf("%s:%s:%.2fs", x.sc.name, x.st, x.tm))
		if x.st == "unsat" {
			if res.Status == "sat" && all {
				res.Output += "\nSOLVER DISAGREEMENT: " + x.sc.name + " says unsat"
			}
			res.Status, res.Solver, res.TimeS = "unsat", x.sc.name, x.tm
			if !all {
				if !o.ExpectSat {
					res.Output = ""
				}
				return res
			}
		} else if x.st == "sat" && res.Status != "unsat" {
			res.Status, res.Solver, res.TimeS, res.Output = "sat", x.sc.name, x.tm, x.out
			if o.ExpectSat && !all {
				return res
			}
		}
	}
	return res
}

func sanitizeFile(s string) string {
	var b strings.Builder
	for _, c := range s {
		if c >= 'a' && c <= 'z' || c >= 'A' && c <= 'Z' || c >= '0' && c <= '9' || c == '.' || c == '-' || c == '_' || c == '#' {
			b.WriteRune(c)
		} else {
			b.WriteByte('_')
		}
	}
	s = b.String()
	if len(s) > 180 {
		s = s[:180]
	}
	return s
}

type job struct {
	vc  *VC
	o   *Obligation
	res *SolveResult
}

func solveAll(dir string, jobs []*job, timeoutS int, all bool, par int) {
	_ = os.MkdirAll(dir, 0o755)
	var wg sync.WaitGroup
	ch := make(chan *job)
	for i := 0; i < par; i++ {
		wg.Add(1)
		go func() {
			defer wg.Done()
			for j := range ch {
				j.res = solveOne(dir, j.vc, j.o, timeoutS, all)
			}
		}()
	}
	for _, j := range jobs {
		ch <- j
	}
	close(ch)
	wg.Wait()
}
