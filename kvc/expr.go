package main

import (
	"fmt"
	"strings"
	"unicode"
)

// Spec expression AST.
type Expr interface{ String() string }

type (
	EIdent  struct{ Name string }
	EInt    struct{ V string }
	EFloat  struct{ V string }
	EStr    struct{ V string }
	EBool   struct{ V bool }
	ENil    struct{}
	ESel    struct {
		X    Expr
		Name string
	}
	EIndex struct{ X, I Expr }
	ESlice struct{ X, Lo, Hi Expr }
	ECall  struct {
		Fn   Expr
		Args []Expr
	}
	EUn struct {
		Op string
		X  Expr
	}
	EBin struct {
		Op   string
		X, Y Expr
	}
	ECond  struct{ C, A, B Expr }
	EQuant struct {
		Forall   bool
		Vars     []QVar
		Body     Expr
		Triggers [][]Expr
	}
	EAt struct { // @pattern : result of dominating call
		Pat string
		Idx int // -1: whole
	}
)

type QVar struct {
	Name string
	Type string // type expression text
}

func (e *EIdent) String() string { return e.Name }
func (e *EInt) String() string   { return e.V }
func (e *EFloat) String() string { return e.V }
func (e *EStr) String() string   { return fmt.Sprintf("%q", e.V) }
func (e *EBool) String() string  { return fmt.Sprint(e.V) }
func (e *ENil) String() string   { return "nil" }
func (e *ESel) String() string   { return e.X.String() + "." + e.Name }
func (e *EIndex) String() string { return e.X.String() + "[" + e.I.String() + "]" }
func (e *ESlice) String() string {
	s := e.X.String() + "["
	if e.Lo != nil {
		s += e.Lo.String()
	}
	s += ":"
	if e.Hi != nil {
		s += e.Hi.String()
	}
	return s + "]"
}
func (e *ECall) String() string {
	var as []string
	for _, a := range e.Args {
		as = append(as, a.String())
	}
	return e.Fn.String() + "(" + strings.Join(as, ", ") + ")"
}
func (e *EUn) String() string   { return e.Op + e.X.String() }
func (e *EBin) String() string  { return "(" + e.X.String() + " " + e.Op + " " + e.Y.String() + ")" }
func (e *ECond) String() string { return "(" + e.C.String() + " ? " + e.A.String() + " : " + e.B.String() + ")" }
func (e *EQuant) String() string {
	k := "exists"
	if e.Forall {
		k = "forall"
	}
	var vs []string
	for _, v := range e.Vars {
		vs = append(vs, v.Name+" "+v.Type)
	}
	return "(" + k + " " + strings.Join(vs, ", ") + " :: " + e.Body.String() + ")"
}
func (e *EAt) String() string { return "@" + e.Pat }

type tok struct {
	kind string // id int float str op eof
	text string
}

func lex(s string) ([]tok, error) {
	var toks []tok
	i := 0
	rs := []rune(s)
	for i < len(rs) {
		c := rs[i]
		switch {
		case unicode.IsSpace(c):
			i++
		case unicode.IsLetter(c) || c == '_' || c == '$' || c == '#':
			j := i + 1
			for j < len(rs) && (unicode.IsLetter(rs[j]) || unicode.IsDigit(rs[j]) || rs[j] == '_' || rs[j] == '$' || rs[j] == '#') {
				j++
			}
			toks = append(toks, tok{"id", string(rs[i:j])})
			i = j
		case unicode.IsDigit(c):
			j := i + 1
			isf := false
			for j < len(rs) && (unicode.IsDigit(rs[j]) || rs[j] == '.' && j+1 < len(rs) && unicode.IsDigit(rs[j+1])) {
				if rs[j] == '.' {
					isf = true
				}
				j++
			}
			k := "int"
			if isf {
				k = "float"
			}
			toks = append(toks, tok{k, string(rs[i:j])})
			i = j
		case c == '"':
			j := i + 1
			var b strings.Builder
			for j < len(rs) && rs[j] != '"' {
				if rs[j] == '\\' && j+1 < len(rs) {
					j++
				}
				b.WriteRune(rs[j])
				j++
			}
			if j >= len(rs) {
				return nil, fmt.Errorf("unterminated string")
			}
			toks = append(toks, tok{"str", b.String()})
			i = j + 1
		case c == '@':
			// @pattern up to whitespace at paren depth 0; optional .N suffix
			j := i + 1
			d := 0
			for j < len(rs) {
				if rs[j] == '(' || rs[j] == '[' {
					d++
				} else if rs[j] == ')' || rs[j] == ']' {
					if d == 0 {
						break
					}
					d--
				} else if d == 0 && (unicode.IsSpace(rs[j]) || rs[j] == ',') {
					break
				}
				j++
			}
			toks = append(toks, tok{"at", string(rs[i+1 : j])})
			i = j
		default:
			ops := []string{"<==>", "==>", "::", "==", "!=", "<=", ">=", "&&", "||", "+", "-", "*", "/", "%", "<", ">", "!", "(", ")", "[", "]", ".", ",", "?", ":", "&", "{", "}"}
			matched := false
			for _, op := range ops {
				if strings.HasPrefix(string(rs[i:]), op) {
					toks = append(toks, tok{"op", op})
					i += len([]rune(op))
					matched = true
					break
				}
			}
			if !matched {
				return nil, fmt.Errorf("unexpected character %q in %q", c, s)
			}
		}
	}
	toks = append(toks, tok{"eof", ""})
	return toks, nil
}

type parser struct {
	toks []tok
	pos  int
	src  string
}

func ParseExpr(s string) (e Expr, err error) {
	toks, err := lex(s)
	if err != nil {
		return nil, err
	}
	p := &parser{toks: toks, src: s}
	defer func() {
		if r := recover(); r != nil {
			if pe, ok := r.(parseErr); ok {
				err = fmt.Errorf("%s (in %q)", string(pe), s)
				return
			}
			panic(r)
		}
	}()
	e = p.expr(0)
	if p.peek().kind != "eof" {
		p.fail("trailing input at %q", p.peek().text)
	}
	return e, nil
}

type parseErr string

func (p *parser) fail(f string, a ...any) { panic(parseErr(fmt.Sprintf(f, a...))) }
func (p *parser) peek() tok             { return p.toks[p.pos] }
func (p *parser) next() tok             { t := p.toks[p.pos]; p.pos++; return t }
func (p *parser) isOp(s string) bool      { t := p.peek(); return t.kind == "op" && t.text == s }
func (p *parser) expect(s string) {
	if !p.isOp(s) {
		p.fail("expected %q, got %q", s, p.peek().text)
	}
	p.pos++
}

var binPrec = map[string]int{
	"<==>": 1, "==>": 2, "||": 4, "&&": 5,
	"==": 6, "!=": 6, "<": 6, "<=": 6, ">": 6, ">=": 6, "in": 6,
	"+": 7, "-": 7, "*": 8, "/": 8, "%": 8,
}

func (p *parser) expr(minPrec int) Expr {
	lhs := p.unary()
	for {
		t := p.peek()
		op := ""
		if t.kind == "op" {
			op = t.text
		} else if t.kind == "id" && t.text == "in" {
			op = "in"
		}
		if op == "?" && minPrec <= 3 {
			p.next()
			a := p.expr(0)
			p.expect(":")
			b := p.expr(3)
			lhs = &ECond{lhs, a, b}
			continue
		}
		prec, ok := binPrec[op]
		if !ok || prec < minPrec {
			return lhs
		}
		p.next()
		var rhs Expr
		if op == "==>" {
			rhs = p.expr(prec) // right assoc
		} else {
			rhs = p.expr(prec + 1)
		}
		lhs = &EBin{op, lhs, rhs}
	}
}

func (p *parser) unary() Expr {
	if p.isOp("!") || p.isOp("-") || p.isOp("*") || p.isOp("&") {
		op := p.next().text
		return &EUn{op, p.unary()}
	}
	return p.postfix(p.primary())
}

func (p *parser) postfix(x Expr) Expr {
	for {
		switch {
		case p.isOp("."):
			p.next()
			t := p.next()
			if t.kind != "id" && t.kind != "int" {
				p.fail("expected field name after '.'")
			}
			x = &ESel{x, t.text}
		case p.isOp("["):
			p.next()
			var lo, hi Expr
			if p.isOp(":") {
				p.next()
				if !p.isOp("]") {
					hi = p.expr(0)
				}
				p.expect("]")
				x = &ESlice{x, nil, hi}
				continue
			}
			lo = p.expr(0)
			if p.isOp(":") {
				p.next()
				if !p.isOp("]") {
					hi = p.expr(0)
				}
				p.expect("]")
				x = &ESlice{x, lo, hi}
				continue
			}
			p.expect("]")
			x = &EIndex{x, lo}
		case p.isOp("("):
			p.next()
			var args []Expr
			for !p.isOp(")") {
				args = append(args, p.expr(0))
				if p.isOp(",") {
					p.next()
				}
			}
			p.expect(")")
			x = &ECall{x, args}
		default:
			return x
		}
	}
}

func (p *parser) typeText() string {
	var b strings.Builder
	for {
		if p.isOp("*") {
			p.next()
			b.WriteString("*")
			continue
		}
		if p.isOp("[") {
			p.next()
			p.expect("]")
			b.WriteString("[]")
			continue
		}
		break
	}
	t := p.next()
	if t.kind != "id" {
		p.fail("expected type name, got %q", t.text)
	}
	b.WriteString(t.text)
	if p.isOp(".") {
		p.next()
		t2 := p.next()
		b.WriteString("." + t2.text)
	}
	return b.String()
}

func (p *parser) primary() Expr {
	t := p.next()
	switch t.kind {
	case "int":
		return &EInt{t.text}
	case "float":
		return &EFloat{t.text}
	case "str":
		return &EStr{t.text}
	case "at":
		return &EAt{Pat: t.text, Idx: -1}
	case "id":
		switch t.text {
		case "true":
			return &EBool{true}
		case "false":
			return &EBool{false}
		case "nil":
			return &ENil{}
		case "forall", "exists":
			q := &EQuant{Forall: t.text == "forall"}
			for {
				n := p.next()
				if n.kind != "id" {
					p.fail("expected bound variable name")
				}
				ty := p.typeText()
				q.Vars = append(q.Vars, QVar{n.text, ty})
				if p.isOp(",") {
					p.next()
					continue
				}
				break
			}
			for p.isOp("{") {
				p.next()
				var tr []Expr
				for !p.isOp("}") {
					tr = append(tr, p.expr(0))
					if p.isOp(",") {
						p.next()
					}
				}
				p.expect("}")
				q.Triggers = append(q.Triggers, tr)
			}
			p.expect("::")
			q.Body = p.expr(0)
			return q
		}
		return &EIdent{t.text}
	case "op":
		if t.text == "(" {
			e := p.expr(0)
			p.expect(")")
			return e
		}
	}
	p.fail("unexpected token %q", t.text)
	return nil
}
