package main

import (
	"crypto/sha256"
	"encoding/json"
	"fmt"
	"os"
	"path/filepath"
	"sort"
	"strconv"
	"strings"
	"time"

	"golang.org/x/tools/go/ssa"
)

func verifDir() string {
	if d := os.Getenv("KVC_VERIF"); d != "" {
		return d
	}
	return "/verif"
}

func main() {
	if len(os.Args) < 2 {
		fmt.Fprintln(os.Stderr, "usage: kvc dump <name-substr> | check <id> [--tier quick|thorough] | list")
		os.Exit(2)
	}
	switch os.Args[1] {
	case "dump":
		p, err := LoadProgram()
		if err != nil {
			fmt.Fprintln(os.Stderr, err)
			os.Exit(2)
		}
		var names []string
		for n := range p.ByName {
			if strings.Contains(n, os.Args[2]) {
				names = append(names, n)
			}
		}
		sort.Strings(names)
		for _, n := range names {
			for _, f := range p.ByName[n] {
				fmt.Println("=====", n, "::", f.String())
				f.WriteTo(os.Stdout)
			}
		}
	case "check":
		os.Exit(cmdCheck(os.Args[2:]))
	case "replay":
		os.Exit(cmdReplay(os.Args[2:]))
	default:
		fmt.Fprintln(os.Stderr, "unknown command", os.Args[1])
		os.Exit(2)
	}
}

type KnownFinding struct {
	Property   string `json:"property"`
	ID         string `json:"id"`
	Obligation string `json:"obligation"`
	What       string `json:"what"`
	Status     string `json:"status"` // known | fixed
	Commit     string `json:"commit,omitempty"`
}

func loadKnownFindings() []KnownFinding {
	var kf struct {
		Findings []KnownFinding `json:"findings"`
	}
	data, err := os.ReadFile(filepath.Join(verifDir(), "known_findings.json"))
	if err != nil {
		return nil
	}
	_ = json.Unmarshal(data, &kf)
	return kf.Findings
}

type oblReport struct {
	Name   string  `json:"name"`
	Kind   string  `json:"kind"`
	Result string  `json:"result"`
	Solver string  `json:"solver,omitempty"`
	TimeS  float64 `json:"time_s"`
	Src    string  `json:"clause,omitempty"`
}

type fnReport struct {
	Name        string `json:"name"`
	File        string `json:"file,omitempty"`
	Instrs      int    `json:"ssa_instructions"`
	SrcHash     string `json:"source_sha256,omitempty"`
	Obligations int    `json:"obligations"`
	Error       string `json:"error,omitempty"`
}

func cmdCheck(args []string) int {
	t0 := time.Now()
	if len(args) < 1 {
		fmt.Fprintln(os.Stderr, "usage: kvc check <id> [--tier quick|thorough]")
		return 2
	}
	id := args[0]
	tier := os.Getenv("VERIF_TIER")
	only := ""
	oblig := "" // selftest aid: solve only obligations whose (file-name form of the) name contains this text
	keep := false
	for i := 1; i < len(args); i++ {
		switch args[i] {
		case "--oblig":
			i++
			oblig = args[i]
		case "--tier":
			i++
			tier = args[i]
		case "--only":
			i++
			only = args[i]
		case "--keep":
			keep = true
		}
	}
	if tier == "" {
		tier = "quick"
	}
	seed := 0
	if s := os.Getenv("VERIF_SEED"); s != "" {
		seed, _ = strconv.Atoi(s)
	}
	p, err := LoadProgram()
	if err != nil {
		fmt.Fprintln(os.Stderr, "load:", err)
		return failEngine(id, tier, seed, t0, "load failed: "+err.Error())
	}
	cs, err := LoadContracts(p)
	if err != nil {
		fmt.Fprintln(os.Stderr, "contracts:", err)
		return failEngine(id, tier, seed, t0, "contract files do not parse: "+err.Error())
	}
	tLoad := time.Since(t0).Seconds()
	var keys []string
	for k, c := range cs.Fns {
		if c.hasProp(id) && !c.Trusted && !c.Inline {
			if only == "" || strings.Contains(k, only) {
				keys = append(keys, k)
			}
		}
	}
	sort.Strings(keys)
	outDir := filepath.Join(verifDir(), "out", id)
	_ = os.RemoveAll(outDir)
	_ = os.MkdirAll(outDir, 0o755)
	var jobs []*job
	var fnReports []fnReport
	var engineErrs []string
	trusted := map[string]bool{}
	assumes := map[string]bool{}
	var warns []string
	tGen := time.Now()
	for _, k := range keys {
		con := cs.Fns[k]
		fns := pickFns(p, k)
		if len(fns) == 0 {
			engineErrs = append(engineErrs, fmt.Sprintf("%s: contract refers to a function that does not exist (or has no body)", shortName(k)))
			fnReports = append(fnReports, fnReport{Name: shortName(k), Error: "function not found"})
			continue
		}
		for _, fn := range fns {
			r := VerifyFunction(p, cs, fn, con)
			fr := fnReport{Name: shortName(fn.String()), Instrs: r.NInstr, Obligations: len(r.VC.obls)}
			if pos := fn.Pos(); pos.IsValid() {
				ps := p.SSA.Fset.Position(pos)
				fr.File = strings.TrimPrefix(ps.Filename, p.RepoDir+"/")
				fr.SrcHash = fnSrcHash(p, fn)
			}
			if r.Err != "" {
				fr.Error = r.Err
				engineErrs = append(engineErrs, shortName(k)+": "+r.Err)
			}
			fnReports = append(fnReports, fr)
			for _, o := range r.VC.obls {
				jobs = append(jobs, &job{vc: r.VC, o: o})
			}
			for s := range r.VC.stubs {
				trusted["stub: "+s] = true
			}
			for s := range r.VC.havocs {
				trusted["havocked call: "+s] = true
			}
			for s := range r.VC.assumes {
				assumes[s] = true
			}
			for s := range r.VC.usedCon {
				if c := cs.Fns[s]; c != nil && c.Trusted {
					trusted["trusted contract (body not verified): "+shortName(s)] = true
				} else if c != nil && !c.hasProp(id) {
					trusted["contract verified under another property: "+shortName(s)] = true
				}
			}
			for _, w := range r.VC.warn {
				warns = append(warns, shortName(k)+": "+w)
			}
		}
	}
	// lemmas
	for _, l := range cs.Lemmas {
		has := false
		for _, pr := range l.Props {
			if pr == id {
				has = true
			}
		}
		if !has || (only != "" && !strings.Contains(l.Name, only)) {
			continue
		}
		vc, err := lemmaVC(p, cs, l)
		if err != "" {
			engineErrs = append(engineErrs, "lemma "+l.Name+": "+err)
			continue
		}
		for _, o := range vc.obls {
			jobs = append(jobs, &job{vc: vc, o: o})
		}
	}
	// inventories: where calls of a given shape may occur in a package tree
	for _, iv := range cs.Inventories {
		has := false
		for _, pr := range iv.Props {
			if pr == id {
				has = true
			}
		}
		if !has || (only != "" && !strings.Contains(iv.Name, only)) {
			continue
		}
		vc := inventoryVC(p, iv)
		for _, o := range vc.obls {
			jobs = append(jobs, &job{vc: vc, o: o})
		}
	}
	if oblig != "" {
		var sel []*job
		for _, j := range jobs {
			if strings.Contains(j.o.Name, oblig) || strings.Contains(sanitizeFile(j.o.Name), oblig) {
				sel = append(sel, j)
			}
		}
		jobs = sel
	}
	genS := time.Since(tGen).Seconds()
	timeout := 10
	all := false
	if tier == "thorough" {
		timeout = 60
		all = true
	}
	tSolve := time.Now()
	solveAll(outDir, jobs, timeout, all, 14)
	solveS := time.Since(tSolve).Seconds()

	known := loadKnownFindings()
	isKnown := func(fid string) *KnownFinding {
		for i := range known {
			if known[i].Property == id && known[i].ID == fid && known[i].Status == "known" {
				return &known[i]
			}
		}
		return nil
	}
	var reports []oblReport
	nObl, nDis, nVac, nVacOK, nVacUnknown, nFinding, nVacGround := 0, 0, 0, 0, 0, 0, 0
	var violations []string
	var solverTime float64
	var samples []any
	findingLines := []string{}
	replayDir := filepath.Join(verifDir(), "out", "replay", id)
	_ = os.RemoveAll(replayDir)
	for _, j := range jobs {
		o, r := j.o, j.res
		solverTime += r.AllTime
		rep := oblReport{Name: o.Name, Kind: o.Kind, Result: r.Status, Solver: r.Solver, TimeS: r.TimeS, Src: o.Src}
		switch {
		case o.ExpectSat:
			nVac++
			switch r.Status {
			case "sat":
				nVacOK++
				rep.Result = "sat (expected)"
			case "sat-ground":
				nVacGround++
				rep.Result = "sat on the ground part (expected; quantified assumptions dropped)"
			case "unsat":
				rep.Result = "unsat: VACUOUS"
				violations = append(violations, writeReplay(replayDir, id, j, "vacuity guard failed: the assumptions at this point are contradictory, so everything after it would be proved vacuously"))
			default:
				nVacUnknown++
				rep.Result = "unknown (vacuity not confirmed)"
			}
		case o.Kind == "finding":
			nFinding++
			if r.Status == "unsat" {
				rep.Result = "unsat (finding no longer reproduces)"
				fmt.Printf("NOTE: property=%s finding %s no longer reproduces (obligation %s now discharges)\n", id, o.Finding, o.Name)
			} else if kf := isKnown(o.Finding); kf != nil {
				findingLines = append(findingLines, fmt.Sprintf("KNOWN-FINDING: property=%s %s [%s] %s", id, kf.ID, o.Name, kf.What))
				rep.Result = r.Status + " (known finding " + kf.ID + ")"
			} else {
				violations = append(violations, writeReplay(replayDir, id, j, "finding "+o.Finding+" is not listed in known_findings.json"))
			}
		default:
			nObl++
			if r.Status == "unsat" {
				nDis++
			} else {
				violations = append(violations, writeReplay(replayDir, id, j, ""))
			}
		}
		reports = append(reports, rep)
		if len(samples) < 6 && !o.ExpectSat {
			samples = append(samples, map[string]any{"obligation": o.Name, "clause": o.Src, "result": rep.Result, "solver": r.Solver, "smt2_bytes": len(j.vc.smtText(o, false))})
		}
		if r.Status == "unsat" && !keep {
			_ = os.Remove(filepath.Join(outDir, sanitizeFile(o.Name)+".smt2"))
		}
	}
	for _, e := range engineErrs {
		violations = append(violations, writeEngineErr(replayDir, id, e))
	}
	if len(jobs) == 0 && len(engineErrs) == 0 {
		violations = append(violations, writeEngineErr(replayDir, id, "no obligations were generated for this property (no contract carries it)"))
	}
	for _, l := range findingLines {
		fmt.Println(l)
	}
	var tb []string
	tb = append(tb, "solvers: z3 5.1.0 (z3-new), z3 4.8.12, cvc5 1.0.3 (default and --enum-inst)", "go/ssa builder (golang.org/x/tools v0.50.0) and the kvc VC generator itself")
	tb = append(tb, sortedKeys(trusted)...)
	var as []string
	as = append(as, "integers are mathematical (no overflow) unless a contract asks for an overflow obligation", "float64 treated as real", "partial correctness: termination not proved", "locks are no-ops: no data-race detection; each method is atomic", "quantified facts in contracts range over allocated locations only")
	as = append(as, sortedKeys(assumes)...)
	ev := map[string]any{
		"property_id": id,
		"tier":        tier,
		"seed":        seed,
		"level":       "proof",
		"coverage": map[string]any{
			"obligations":               nObl,
			"discharged":                nDis,
			"checker_cmd":               fmt.Sprintf("./check %s --tier %s", id, tier),
			"trusted_base":              tb,
			"functions_under_contract":  fnReports,
			"obligation_results":        reports,
			"vacuity_guards":            map[string]int{"total": nVac, "sat": nVacOK, "sat_ground_part": nVacGround, "unknown": nVacUnknown},
			"known_finding_obligations": nFinding,
			"known_findings_printed":    findingLines,
			"engine_errors":             engineErrs,
			"warnings":                  warns,
			"samples":                   samples,
			"solver_time_s":             round2(solverTime),
			"load_s":                    round2(tLoad),
			"vcgen_s":                   round2(genS),
			"solve_wall_s":              round2(solveS),
			"contract_files":            relFiles(p, cs.Files),
			"evaluations":               nObl + nVac,
			"distinct_nontrivial":       nObl,
			"rule":                      "one SMT query per named obligation (post / loop-init / loop-step / call-pre / site / frame / safety) generated from the SSA of /repo's working tree; non-trivial = a proof obligation (vacuity guards and known-finding halves are counted separately)",
		},
		"assumptions": as,
		"wall_s":      round2(time.Since(t0).Seconds()),
		"violations":  len(violations),
	}
	_ = os.MkdirAll(filepath.Join(verifDir(), "evidence"), 0o755)
	data, _ := json.MarshalIndent(ev, "", " ")
	evPath := filepath.Join(verifDir(), "evidence", id+".json")
	if only != "" {
		// partial (debugging) run: never overwrite the property's evidence file
		evPath = filepath.Join(verifDir(), "out", id+".partial-evidence.json")
	}
	_ = os.WriteFile(evPath, data, 0o644)
	fmt.Printf("%s [%s]: %d functions, %d obligations, %d discharged, %d vacuity guards (%d sat, %d sat-ground, %d unknown), %d known-finding halves; load %.1fs gen %.1fs solve %.1fs\n",
		id, tier, len(fnReports), nObl, nDis, nVac, nVacOK, nVacGround, nVacUnknown, nFinding, tLoad, genS, solveS)
	for _, w := range warns {
		fmt.Println("warning:", w)
	}
	if len(violations) > 0 {
		for _, v := range violations {
			fmt.Println(v)
		}
		return 1
	}
	return 0
}

func round2(f float64) float64 { return float64(int(f*100)) / 100 }

func relFiles(p *Program, fs []string) []string {
	var out []string
	for _, f := range fs {
		out = append(out, strings.TrimPrefix(f, p.RepoDir+"/"))
	}
	return out
}

func fnSrcHash(p *Program, fn *ssa.Function) string {
	syn := fn.Syntax()
	if syn == nil {
		return ""
	}
	a, b := p.SSA.Fset.Position(syn.Pos()), p.SSA.Fset.Position(syn.End())
	data, err := os.ReadFile(a.Filename)
	if err != nil || b.Offset > len(data) {
		return ""
	}
	h := sha256.Sum256(data[a.Offset:b.Offset])
	return fmt.Sprintf("%x", h[:8])
}

// pickFns: the SSA functions a contract key denotes: concrete instances when the function is generic.
func pickFns(p *Program, key string) []*ssa.Function {
	if i := strings.Index(key, " closure@"); i >= 0 {
		// the closure of the parent function that is passed to a call matching the pattern
		pat := key[i+len(" closure@"):]
		var out []*ssa.Function
		for _, parent := range pickFns(p, key[:i]) {
			for _, b := range parent.Blocks {
				for _, ins := range b.Instrs {
					mc, ok := ins.(*ssa.MakeClosure)
					if !ok {
						// an anonymous function without free variables is passed as a plain function value
						if c, isCall := ins.(ssa.CallInstruction); isCall {
							n := ""
							if c.Common().IsInvoke() {
								n = ifaceMethodName(c.Common())
							} else if sc := c.Common().StaticCallee(); sc != nil {
								n = canonName(sc)
							}
							if n != "" && patMatches(pat, n) {
								for _, a := range c.Common().Args {
									if af, isFn := a.(*ssa.Function); isFn && af.Parent() == parent {
										out = append(out, af)
									}
								}
							}
						}
						continue
					}
					refs := append([]ssa.Instruction{}, *mc.Referrers()...)
					for _, r := range *mc.Referrers() {
						if ct, ok := r.(*ssa.ChangeType); ok {
							refs = append(refs, *ct.Referrers()...)
						}
					}
					for _, r := range refs {
						if c, ok := r.(ssa.CallInstruction); ok {
							n := ""
							if c.Common().IsInvoke() {
								n = ifaceMethodName(c.Common())
							} else if sc := c.Common().StaticCallee(); sc != nil {
								n = canonName(sc)
							}
							if n != "" && patMatches(pat, n) {
								out = append(out, mc.Fn.(*ssa.Function))
							}
						}
					}
				}
			}
		}
		return out
	}
	var inst, gen []*ssa.Function
	for _, f := range p.ByName[key] {
		if len(f.Blocks) == 0 {
			continue
		}
		if f.Synthetic != "" && !strings.Contains(f.Synthetic, "instance") && !strings.Contains(f.Synthetic, "package initializer") && f.Parent() == nil {
			continue
		}
		if f.TypeParams().Len() > 0 && len(f.TypeArgs()) == 0 {
			gen = append(gen, f)
		} else {
			inst = append(inst, f)
		}
	}
	if len(inst) > 0 {
		return inst
	}
	return gen
}

func failEngine(id, tier string, seed int, t0 time.Time, msg string) int {
	replayDir := filepath.Join(verifDir(), "out", "replay", id)
	line := writeEngineErr(replayDir, id, msg)
	ev := map[string]any{
		"property_id": id, "tier": tier, "seed": seed, "level": "proof",
		"coverage": map[string]any{"obligations": 0, "discharged": 0, "checker_cmd": "./check " + id, "trusted_base": []string{}, "evaluations": 1, "distinct_nontrivial": 0, "engine_errors": []string{msg}},
		"wall_s":   round2(time.Since(t0).Seconds()), "violations": 1,
	}
	_ = os.MkdirAll(filepath.Join(verifDir(), "evidence"), 0o755)
	data, _ := json.MarshalIndent(ev, "", " ")
	_ = os.WriteFile(filepath.Join(verifDir(), "evidence", id+".json"), data, 0o644)
	fmt.Println(line)
	return 1
}

func writeEngineErr(dir, id, msg string) string {
	_ = os.MkdirAll(dir, 0o755)
	h := sha256.Sum256([]byte(msg))
	path := filepath.Join(dir, fmt.Sprintf("engine-%x.json", h[:4]))
	data, _ := json.MarshalIndent(map[string]any{
		"property": id, "kind": "obligations-not-generated", "reason": msg,
		"note": "the verifier could not generate or decide the obligations for the current source, so the property is no longer established; no input was derived",
	}, "", " ")
	_ = os.WriteFile(path, data, 0o644)
	return fmt.Sprintf("VIOLATION property=%s replay=%s no-failing-input-found", id, path)
}

func writeReplay(dir, id string, j *job, note string) string {
	_ = os.MkdirAll(dir, 0o755)
	base := filepath.Join(dir, sanitizeFile(j.o.Name))
	smt := base + ".smt2"
	_ = os.WriteFile(smt, []byte(j.vc.smtText(j.o, true)), 0o644)
	out := j.res.Output
	if len(out) > 60000 {
		out = out[:60000] + "\n...[truncated]"
	}
	rep := map[string]any{
		"property": id, "obligation": j.o.Name, "kind": j.o.Kind, "clause": j.o.Src, "function": j.vc.fnKey,
		"solver_status": j.res.Status, "solver": j.res.Solver, "tried": j.res.Tried, "solver_output": out, "smt2": smt, "note": note,
	}
	suffix := " no-failing-input-found"
	if j.res.Status == "sat" && !j.o.ExpectSat {
		if ok, info := tryReplay(id, j, base); ok {
			suffix = ""
			rep["replayed"] = info
		} else {
			rep["replay_attempt"] = info
		}
	}
	data, _ := json.MarshalIndent(rep, "", " ")
	_ = os.WriteFile(base+".json", data, 0o644)
	return fmt.Sprintf("VIOLATION property=%s replay=%s%s", id, base+".json", suffix)
}

func cmdReplay(args []string) int {
	if len(args) < 1 {
		return 2
	}
	data, err := os.ReadFile(args[0])
	if err != nil {
		fmt.Fprintln(os.Stderr, err)
		return 2
	}
	var rep map[string]any
	_ = json.Unmarshal(data, &rep)
	fmt.Printf("obligation: %v\nclause: %v\nsolver: %v -> %v\n", rep["obligation"], rep["clause"], rep["solver"], rep["solver_status"])
	if r, ok := rep["replayed"].(map[string]any); ok {
		return rerunReplay(r)
	}
	fmt.Println("no replayable input was derived for this obligation (no-failing-input-found); solver output is in the file")
	return 1
}
