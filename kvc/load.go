package main

import (
	"fmt"
	"go/types"
	"os"
	"path/filepath"
	"sort"
	"strings"

	"golang.org/x/tools/go/packages"
	"golang.org/x/tools/go/ssa"
	"golang.org/x/tools/go/ssa/ssautil"
)

// Program is the loaded view of /repo: typed syntax + SSA for every package
// under sigs.k8s.io/karpenter/pkg/..., export-data types for dependencies.
type Program struct {
	Pkgs    []*packages.Package
	SSA     *ssa.Program
	SPkgs   map[string]*ssa.Package // by import path
	AllFns  map[*ssa.Function]bool
	ByName  map[string][]*ssa.Function // canonical name -> functions (generic origin + instances)
	RepoDir string
	Overlay map[string][]byte

	escFields map[string]bool // "T#i" whose address escapes: scalar cell lives in Box
}

const modPath = "sigs.k8s.io/karpenter"

func repoDir() string {
	if d := os.Getenv("KVC_REPO"); d != "" {
		return d
	}
	return "/repo"
}

func LoadProgram(patterns ...string) (*Program, error) {
	if len(patterns) == 0 {
		patterns = []string{modPath + "/pkg/..."}
	}
	overlay := map[string][]byte{}
	if od := os.Getenv("KVC_CONTRACT_OVERLAY"); od != "" {
		// draft contract files kept outside /repo: <overlay dir>/<path relative to repo>
		_ = filepath.Walk(od, func(path string, info os.FileInfo, err error) error {
			if err == nil && !info.IsDir() && strings.HasSuffix(path, ".go") {
				rel, _ := filepath.Rel(od, path)
				data, _ := os.ReadFile(path)
				overlay[filepath.Join(repoDir(), rel)] = data
			}
			return nil
		})
	}
	cfg := &packages.Config{
		Overlay:    overlay,
		Mode:       packages.LoadSyntax,
		Dir:        repoDir(),
		BuildFlags: []string{"-tags=verif"},
		Env:        append(os.Environ(), "GOFLAGS=-mod=mod", "GOPROXY=off", "GOSUMDB=off", "GOTOOLCHAIN=local"),
	}
	pkgs, err := packages.Load(cfg, patterns...)
	if err != nil {
		return nil, err
	}
	nerr := 0
	for _, p := range pkgs {
		for _, e := range p.Errors {
			fmt.Fprintf(os.Stderr, "load error: %s: %v\n", p.PkgPath, e)
			nerr++
		}
	}
	if nerr > 0 {
		return nil, fmt.Errorf("%d package load errors (the tree does not compile with -tags=verif)", nerr)
	}
	sprog, spkgs := ssautil.Packages(pkgs, ssa.InstantiateGenerics|ssa.GlobalDebug)
	sprog.Build()
	p := &Program{Pkgs: pkgs, SSA: sprog, SPkgs: map[string]*ssa.Package{}, RepoDir: repoDir(), Overlay: overlay}
	for _, sp := range spkgs {
		if sp != nil {
			p.SPkgs[sp.Pkg.Path()] = sp
		}
	}
	p.AllFns = ssautil.AllFunctions(sprog)
	p.ByName = map[string][]*ssa.Function{}
	for f := range p.AllFns {
		n := canonName(f)
		p.ByName[n] = append(p.ByName[n], f)
	}
	for _, l := range p.ByName {
		sort.Slice(l, func(i, j int) bool { return l[i].String() < l[j].String() })
	}
	p.computeEscapes()
	return p, nil
}

// canonName gives the contract-file key of a function:
//
//	pkgpath.Func            pkgpath.(*T).Method      pkgpath.(T).Method
//	pkgpath.Outer$1 for closures
//
// Generic instances map to the name of their origin (type arguments dropped).
func canonName(f *ssa.Function) string {
	if f == nil {
		return "<nil>"
	}
	if f.Parent() != nil {
		// closure: Outer$N
		name := f.Name()
		return canonName(f.Parent()) + name[strings.LastIndex(name, "$"):]
	}
	o := f
	if f.Origin() != nil {
		o = f.Origin()
	}
	pk := ""
	if o.Pkg != nil {
		pk = o.Pkg.Pkg.Path()
	} else if o.Object() != nil && o.Object().Pkg() != nil {
		pk = o.Object().Pkg().Path()
	}
	if recv := o.Signature.Recv(); recv != nil {
		t := recv.Type()
		ptr := false
		if pt, ok := t.(*types.Pointer); ok {
			ptr = true
			t = pt.Elem()
		}
		tn := "?"
		if nt, ok := t.(*types.Named); ok {
			tn = nt.Obj().Name()
			if nt.Obj().Pkg() != nil {
				pk = nt.Obj().Pkg().Path()
			}
		}
		if ptr {
			return fmt.Sprintf("%s.(*%s).%s", pk, tn, o.Name())
		}
		return fmt.Sprintf("%s.(%s).%s", pk, tn, o.Name())
	}
	return pk + "." + o.Name()
}

// shortName strips the module prefix for obligation names.
func shortName(n string) string {
	n = strings.TrimPrefix(n, modPath+"/")
	return n
}

// isRepoFn: function whose body comes from /repo source.
func (p *Program) isRepoFn(f *ssa.Function) bool {
	return f != nil && len(f.Blocks) > 0
}

// computeEscapes finds scalar struct fields whose address is used other than as
// the direct operand of a load or store. Those cells are modelled in the Box
// component at location fld(base,i) everywhere, so that writes through the
// escaped pointer are seen by field reads.
func (p *Program) computeEscapes() {
	p.escFields = map[string]bool{}
	for f := range p.AllFns {
		for _, b := range f.Blocks {
			for _, ins := range b.Instrs {
				fa, ok := ins.(*ssa.FieldAddr)
				if !ok {
					continue
				}
				st := derefStruct(fa.X.Type())
				if st == nil {
					continue
				}
				ft := st.Field(fa.Field).Type()
				if isStructLike(ft) {
					continue // path location, never a cell
				}
				for _, r := range *fa.Referrers() {
					switch r := r.(type) {
					case *ssa.UnOp:
						continue
					case *ssa.Store:
						if r.Addr == fa && r.Val != fa {
							continue
						}
					case *ssa.DebugRef:
						continue
					}
					p.escFields[fieldKey(fa.X.Type(), fa.Field)] = true
				}
			}
		}
	}
}

func derefStruct(t types.Type) *types.Struct {
	if pt, ok := t.Underlying().(*types.Pointer); ok {
		t = pt.Elem()
	}
	st, _ := t.Underlying().(*types.Struct)
	return st
}

func fieldKey(t types.Type, i int) string {
	if pt, ok := t.Underlying().(*types.Pointer); ok {
		t = pt.Elem()
	}
	return fmt.Sprintf("%s#%d", typeKey(t), i)
}
