package main

import (
	"fmt"
)

// lemmaVC: a lemma is an SMT goal over spec functions only (no code).
func lemmaVC(p *Program, cs *Contracts, l *Lemma) (vc *VC, errs string) {
	vc = newVC(p, "lemma."+l.Name)
	e := &Engine{vc: vc, prog: p, cs: cs, compSort: map[string]string{}, maxDepth: 6, siteHits: map[*SiteSpec]int{}, sitePat: map[*SiteSpec]int{}, usedPure: map[string]bool{}}
	vc.decls = append(vc.decls, "(declare-const alloc@0 Int)", "(assert (>= alloc@0 0))")
	defer func() {
		if r := recover(); r != nil {
			switch r := r.(type) {
			case unsupported:
				errs = "outside subset: " + string(r)
			case specErr:
				errs = "contract error: " + string(r)
			default:
				panic(r)
			}
		}
	}()
	st := &State{pc: "true", heap: map[string]Term{}, alloc: "alloc@0"}
	env := &specEnv{eng: e, st: st, old: st, vars: map[string]binding{}, pkg: l.Pkg}
	g := env.evalBool(l.Expr)
	vc.oblige("lemma."+l.Name, "lemma", "true", g, l.Src)
	return vc, ""
}

func tryReplay(id string, j *job, base string) (bool, map[string]any) {
	return false, map[string]any{"status": "no replay generator for this function shape"}
}

func rerunReplay(r map[string]any) int {
	fmt.Println("replay re-run not available")
	return 1
}
