package main

import (
	"fmt"
	"go/types"
	"sort"
	"strings"

	"golang.org/x/tools/go/ssa"
)

// lemmaVC: a lemma is an SMT goal over spec functions only (no code).
func lemmaVC(p *Program, cs *Contracts, l *Lemma) (vc *VC, errs string) {
	vc = newVC(p, "lemma."+l.Name)
	e := &Engine{vc: vc, prog: p, cs: cs, compSort: map[string]string{}, maxDepth: 6, siteHits: map[*SiteSpec]int{}, sitePat: map[*SiteSpec]int{}, usedPure: map[string]bool{}}
	vc.decls = append(vc.decls, "(declare-const alloc@0 Int)", "(assert (>= alloc@0 0))")
	defer func() {
		if r := recover(); r != nil {
			switch r := r.(type) {
			case unsupported:
				errs = "outside subset: " + string(r)
			case specErr:
				errs = "contract error: " + string(r)
			default:
				panic(r)
			}
		}
	}()
	st := &State{pc: "true", heap: map[string]Term{}, alloc: "alloc@0"}
	env := &specEnv{eng: e, st: st, old: st, vars: map[string]binding{}, pkg: l.Pkg}
	g := env.evalBool(l.Expr)
	vc.oblige("lemma."+l.Name, "lemma", "true", g, l.Src)
	return vc, ""
}

// inventoryVC: scans the SSA of every function of the package tree for calls matching the pattern whose k-th
// argument (0 = receiver) has a static type containing ArgType (looking through MakeInterface), and demands
// that the enclosing source function is one of the allowed ones. The obligation is `true` or `false`.
func inventoryVC(p *Program, iv *Inventory) *VC {
	vc := newVC(p, "inventory."+iv.Name)
	var offenders, found []string
	seen := map[string]bool{}
	for f := range p.AllFns {
		if f.Pkg == nil || !strings.HasPrefix(f.Pkg.Pkg.Path(), iv.PkgPrefix) || len(f.Blocks) == 0 {
			continue
		}
		top := f
		for top.Parent() != nil {
			top = top.Parent()
		}
		owner := canonName(top)
		for _, b := range f.Blocks {
			for _, ins := range b.Instrs {
				c, ok := ins.(ssa.CallInstruction)
				if !ok {
					continue
				}
				cc := c.Common()
				n := ""
				var args []ssa.Value
				if cc.IsInvoke() {
					n = ifaceMethodName(cc)
					args = append([]ssa.Value{cc.Value}, cc.Args...)
				} else if sc := cc.StaticCallee(); sc != nil {
					n = canonName(sc)
					args = cc.Args
				}
				if n == "" || !patMatches(iv.Call, n) || iv.Arg >= len(args) {
					continue
				}
				a := args[iv.Arg]
				t := a.Type()
				if mi, ok := a.(*ssa.MakeInterface); ok {
					t = mi.X.Type()
				}
				if !strings.Contains(typeKey(t), iv.ArgType) {
					if _, isIface := t.Underlying().(*types.Interface); !isIface {
						continue // statically another type
					}
					// statically unknown object type: counts as a possible match
				}
				key := owner + "@" + p.SSA.Fset.Position(ins.Pos()).String()
				if seen[key] {
					continue
				}
				seen[key] = true
				okFn := false
				for _, al := range iv.Allowed {
					if patMatches(al, owner) {
						okFn = true
					}
				}
				pos := strings.TrimPrefix(p.SSA.Fset.Position(ins.Pos()).String(), p.RepoDir+"/")
				if okFn {
					found = append(found, shortName(owner)+" ("+pos+")")
				} else {
					offenders = append(offenders, shortName(owner)+" ("+pos+")")
				}
			}
		}
	}
	sort.Strings(offenders)
	sort.Strings(found)
	goal := "true"
	src := iv.Src + "   [matching calls: " + strings.Join(found, "; ") + "]"
	if len(offenders) > 0 {
		goal = "false"
		src = iv.Src + "   [NOT ALLOWED: " + strings.Join(offenders, "; ") + "]"
	}
	vc.oblige("inventory."+iv.Name, "inventory", "true", goal, src)
	return vc
}

func tryReplay(id string, j *job, base string) (bool, map[string]any) {
	return false, map[string]any{"status": "no replay generator for this function shape"}
}

func rerunReplay(r map[string]any) int {
	fmt.Println("replay re-run not available")
	return 1
}
