package main

import (
	"fmt"
	"go/types"
	"os"
	"path/filepath"
	"regexp"
	"sort"
	"strconv"
	"strings"
)

type Clause struct {
	Label string
	Expr  Expr
	Src   string
	File  string
	Line  int
}

type SiteSpec struct {
	Ordinal  int    // 0: every match; N: only the N-th matching call (in execution order of the VC generator)
	Pattern  string // callee pattern, e.g. "kubeClient.Delete" or "client.Client.Delete" or "(*Cluster).MarkForDeletion"
	Requires []*Clause
	MinCount int // the pattern must match at least this many call sites (default 1)
}

type MustCall struct {
	Pattern string
	When    *Clause
}

type Contract struct {
	Key           string // canonical function name
	Pkg           *types.Package
	Props         []string
	Requires      []*Clause
	Ensures       []*Clause
	Modifies      []Expr
	ModAll        bool
	HasMod        bool
	Loops         map[int][]*Clause
	LoopOver      map[int]string
	Sites         []*SiteSpec
	Lets          []letDef
	Trusted       bool
	Inline        bool
	Pure          bool
	NoPanic       bool
	MayPanic      *Clause
	File          string
	Line          int
	Findings      []*FindingSplit
	Witness       []*Clause
	Uses          []string
	RepInvs       []*Clause
	FrozenClock   bool
	Ghosts        []string
	Except        []Expr // modifies * except ...
	Afters        []*AfterHook
	Hides         []string        // pure spec functions treated as uninterpreted (heap-parametric) within this function's VC
	CallerNothing bool            // `callerframe nothing`: callers assume an empty frame although the body is verified against the declared one
	Assumes       []*Clause       // input invariants assumed at entry and NOT checked at call sites (listed as assumptions)
	Options       map[string]bool // per-function encoding options (see CONTRACTS.md): namedjoins
	ReadsClock    bool
}

// FindingSplit: a known finding attached to an ensures/site label; Disc is the
// discriminator expression (region of inputs that is known to fail).
type FindingSplit struct {
	Label string
	Disc  *Clause
	ID    string
}

// AfterHook: `after <pattern> set ghost = expr` — ghost state update right after a matching call returned.
type AfterHook struct {
	Pattern  string
	Ghost    string
	Assume   bool
	UseLemma string
	Expr     *Clause
}

type letDef struct {
	Name string
	Expr Expr
}

type PureFn struct {
	Name   string
	Params []QVar
	Result string
	Body   Expr // nil: uninterpreted
	Pkg    *types.Package
	Rec    bool // recursive: heap-parametric function symbol with one-step unfolding (fuel)
}

type Axiom struct {
	Name string
	Expr Expr
	Pkg  *types.Package
	Src  string
}

// Inventory: a whole-package obligation about where calls of a given shape may occur.
type Inventory struct {
	Name      string
	Props     []string
	Call      string
	Arg       int
	ArgType   string
	PkgPrefix string
	Allowed   []string
	Src       string
	File      string
	Line      int
}

type Lemma struct {
	Name  string
	Props []string
	Expr  Expr
	Pkg   *types.Package
	Src   string
	File  string
	Line  int
}

type RepInv struct {
	TypeName string
	Clauses  []*Clause
	Pkg      *types.Package
}

type Contracts struct {
	Fns         map[string]*Contract
	Pures       map[string]*PureFn // by pkgpath.name and bare name
	Axioms      []*Axiom
	Lemmas      []*Lemma
	Inventories []*Inventory
	RepInvs     map[string]*RepInv // pkgpath.TypeName
	Files       []string
	Lines       int
	overlay     map[string][]byte
}

var kwRe = regexp.MustCompile(`^(inventory|func|prop|requires|ensures|modifies|loop|site|trusted|inline|let|pure|axiom|lemma|invariant|nopanic|maypanic|finding|ispure|witness|uses|repinv|frozenclock|readsclock|rec|hides|ghost|after|option|assumes|callerframe)\b`)

func LoadContracts(p *Program) (*Contracts, error) {
	cs := &Contracts{Fns: map[string]*Contract{}, Pures: map[string]*PureFn{}, RepInvs: map[string]*RepInv{}}
	for _, pkg := range p.Pkgs {
		for _, f := range pkg.CompiledGoFiles {
			if b := filepath.Base(f); !(strings.HasPrefix(b, "zz_contracts") && strings.HasSuffix(b, "_verif.go")) {
				continue
			}
			cs.overlay = p.Overlay
			if err := cs.parseFile(f, pkg.Types); err != nil {
				return nil, err
			}
			cs.Files = append(cs.Files, f)
		}
	}
	sort.Strings(cs.Files)
	return cs, nil
}

type rawClause struct {
	text string
	line int
}

func (cs *Contracts) parseFile(path string, pkg *types.Package) error {
	data, ok := cs.overlay[path]
	if !ok {
		var err error
		data, err = os.ReadFile(path)
		if err != nil {
			return err
		}
	}
	var clauses []rawClause
	for i, ln := range strings.Split(string(data), "\n") {
		t := strings.TrimSpace(ln)
		if !strings.HasPrefix(t, "//@") {
			continue
		}
		cs.Lines++
		t = strings.TrimSpace(t[3:])
		if i := strings.Index(t, " //"); i >= 0 { // trailing comment
			t = strings.TrimSpace(t[:i])
		}
		if t == "" {
			continue
		}
		if kwRe.MatchString(t) || len(clauses) == 0 {
			clauses = append(clauses, rawClause{t, i + 1})
		} else {
			clauses[len(clauses)-1].text += " " + t
		}
	}
	var cur *Contract
	var curInv *RepInv
	fail := func(rc rawClause, f string, a ...any) error {
		return fmt.Errorf("%s:%d: %s", path, rc.line, fmt.Sprintf(f, a...))
	}
	mkClause := func(rc rawClause, text string) (*Clause, error) {
		text = strings.TrimSpace(text)
		label := ""
		if strings.HasPrefix(text, "[") {
			j := strings.Index(text, "]")
			if j < 0 {
				return nil, fail(rc, "unterminated label")
			}
			label = text[1:j]
			text = strings.TrimSpace(text[j+1:])
		}
		e, err := ParseExpr(text)
		if err != nil {
			return nil, fail(rc, "%v", err)
		}
		return &Clause{Label: label, Expr: e, Src: text, File: path, Line: rc.line}, nil
	}
	for _, rc := range clauses {
		kw := kwRe.FindString(rc.text)
		rest := strings.TrimSpace(rc.text[len(kw):])
		switch kw {
		case "func":
			key := pkg.Path() + "." + rest
			if _, dup := cs.Fns[key]; dup {
				return fail(rc, "duplicate contract for %s", key)
			}
			cur = &Contract{Key: key, Pkg: pkg, Loops: map[int][]*Clause{}, LoopOver: map[int]string{}, File: path, Line: rc.line}
			cs.Fns[key] = cur
			curInv = nil
		case "prop":
			if cur == nil {
				return fail(rc, "prop outside func")
			}
			for _, x := range strings.FieldsFunc(rest, func(r rune) bool { return r == ',' || r == ' ' }) {
				cur.Props = append(cur.Props, x)
			}
		case "callerframe":
			if cur == nil || strings.TrimSpace(strings.SplitN(rest, "//", 2)[0]) != "nothing" {
				return fail(rc, "callerframe nothing (inside a func contract)")
			}
			cur.CallerNothing = true
		case "assumes":
			if cur == nil {
				return fail(rc, "assumes outside func")
			}
			c, err := mkClause(rc, rest)
			if err != nil {
				return err
			}
			cur.Assumes = append(cur.Assumes, c)
		case "requires", "ensures":
			if cur == nil {
				return fail(rc, "%s outside func", kw)
			}
			c, err := mkClause(rc, rest)
			if err != nil {
				return err
			}
			if kw == "requires" {
				cur.Requires = append(cur.Requires, c)
			} else {
				cur.Ensures = append(cur.Ensures, c)
			}
		case "modifies":
			if cur == nil {
				return fail(rc, "modifies outside func")
			}
			cur.HasMod = true
			if rest == "*" {
				cur.ModAll = true
				break
			}
			if strings.HasPrefix(rest, "* except ") {
				// everything may change except the named locations (same target syntax as modifies)
				cur.ModAll = true
				for _, part := range splitTop(strings.TrimPrefix(rest, "* except ")) {
					e, err := ParseExpr(part)
					if err != nil {
						return fail(rc, "%v", err)
					}
					cur.Except = append(cur.Except, e)
				}
				break
			}
			if rest == "nothing" {
				break
			}
			for _, part := range splitTop(rest) {
				e, err := ParseExpr(part)
				if err != nil {
					return fail(rc, "%v", err)
				}
				cur.Modifies = append(cur.Modifies, e)
			}
		case "loop":
			if cur == nil {
				return fail(rc, "loop outside func")
			}
			// loop N [over X] invariant [label] expr
			fs := strings.Fields(rest)
			if len(fs) < 3 {
				return fail(rc, "malformed loop clause")
			}
			n, err := strconv.Atoi(fs[0])
			if err != nil {
				return fail(rc, "loop ordinal: %v", err)
			}
			r2 := strings.TrimSpace(rest[len(fs[0]):])
			if strings.HasPrefix(r2, "over ") {
				r2 = strings.TrimSpace(r2[5:])
				j := strings.Index(r2, " ")
				cur.LoopOver[n] = r2[:j]
				r2 = strings.TrimSpace(r2[j:])
			}
			if !strings.HasPrefix(r2, "invariant") {
				return fail(rc, "expected 'invariant'")
			}
			c, err := mkClause(rc, r2[len("invariant"):])
			if err != nil {
				return err
			}
			cur.Loops[n] = append(cur.Loops[n], c)
		case "site":
			if cur == nil {
				return fail(rc, "site outside func")
			}
			j := strings.Index(rest, " requires ")
			if j < 0 {
				return fail(rc, "site needs 'requires'")
			}
			pat := strings.TrimSpace(rest[:j])
			ord := 0
			if k := strings.LastIndex(pat, " #"); k >= 0 {
				if n, err := strconv.Atoi(strings.TrimSpace(pat[k+2:])); err == nil {
					ord = n
					pat = strings.TrimSpace(pat[:k])
				}
			}
			c, err := mkClause(rc, rest[j+len(" requires "):])
			if err != nil {
				return err
			}
			var ss *SiteSpec
			for _, s := range cur.Sites {
				if s.Pattern == pat && s.Ordinal == ord {
					ss = s
				}
			}
			if ss == nil {
				ss = &SiteSpec{Pattern: pat, MinCount: 1, Ordinal: ord}
				cur.Sites = append(cur.Sites, ss)
			}
			ss.Requires = append(ss.Requires, c)
		case "witness":
			e, err := ParseExpr(rest)
			if err != nil {
				return fail(rc, "%v", err)
			}
			cur.Witness = append(cur.Witness, &Clause{Expr: e, Src: rest, File: path, Line: rc.line})
		case "repinv":
			c, err := mkClause(rc, rest)
			if err != nil {
				return err
			}
			cur.RepInvs = append(cur.RepInvs, c)
		case "ghost":
			cur.Ghosts = append(cur.Ghosts, strings.FieldsFunc(rest, func(r rune) bool { return r == ',' || r == ' ' })...)
		case "after":
			if j := strings.Index(rest, " use "); j >= 0 && strings.Index(rest, " set ") < 0 && strings.Index(rest, " assume ") < 0 {
				// after <pattern> use <lemma>: instantiate a (separately proved) lemma in the state after the call
				cur.Afters = append(cur.Afters, &AfterHook{Pattern: strings.TrimSpace(rest[:j]), UseLemma: strings.TrimSpace(rest[j+5:])})
				break
			}
			if j := strings.Index(rest, " assume "); j >= 0 && (strings.Index(rest, " set ") < 0 || j < strings.Index(rest, " set ")) {
				// after <pattern> assume [label] expr — an assumption about an external call, listed in the evidence;
				// old(e) in expr is e right before the call
				c, err := mkClause(rc, rest[j+8:])
				if err != nil {
					return err
				}
				cur.Afters = append(cur.Afters, &AfterHook{Pattern: strings.TrimSpace(rest[:j]), Assume: true, Expr: c})
				break
			}
			j := strings.Index(rest, " set ")
			k := strings.Index(rest, "=")
			if j < 0 || k < j {
				return fail(rc, "after <pattern> set ghost = expr")
			}
			c, err := mkClause(rc, rest[k+1:])
			if err != nil {
				return err
			}
			cur.Afters = append(cur.Afters, &AfterHook{Pattern: strings.TrimSpace(rest[:j]), Ghost: strings.TrimSpace(rest[j+5 : k]), Expr: c})
		case "hides":
			for _, x := range strings.FieldsFunc(rest, func(r rune) bool { return r == ',' || r == ' ' }) {
				cur.Hides = append(cur.Hides, x)
			}
		case "option":
			if cur.Options == nil {
				cur.Options = map[string]bool{}
			}
			for _, x := range strings.Fields(rest) {
				if x != "namedjoins" && x != "appendsrc" && x != "listsidx" {
					return fail(rc, "unknown option %s", x)
				}
				cur.Options[x] = true
			}
		case "frozenclock":
			cur.FrozenClock = true
		case "readsclock":
			cur.ReadsClock = true
		case "uses":
			cur.Uses = append(cur.Uses, strings.Fields(rest)...)
		case "trusted":
			cur.Trusted = true
		case "inline":
			cur.Inline = true
		case "ispure":
			cur.Pure = true
		case "nopanic":
			cur.NoPanic = true
		case "maypanic":
			c, err := mkClause(rc, rest)
			if err != nil {
				return err
			}
			cur.MayPanic = c
		case "finding":
			// finding <id> [label] discriminator-expr
			fs := strings.Fields(rest)
			if len(fs) < 2 {
				return fail(rc, "malformed finding")
			}
			c, err := mkClause(rc, strings.TrimSpace(rest[len(fs[0]):]))
			if err != nil {
				return err
			}
			cur.Findings = append(cur.Findings, &FindingSplit{ID: fs[0], Label: c.Label, Disc: c})
		case "let":
			j := strings.Index(rest, "=")
			if j < 0 {
				return fail(rc, "let needs '='")
			}
			e, err := ParseExpr(rest[j+1:])
			if err != nil {
				return fail(rc, "%v", err)
			}
			if cur == nil {
				return fail(rc, "let outside func")
			}
			cur.Lets = append(cur.Lets, letDef{strings.TrimSpace(rest[:j]), e})
		case "pure", "rec":
			// pure name(a T, b U) R [= expr]
			m := regexp.MustCompile(`^(\w+)\(([^)]*)\)\s*([^=]*?)\s*(=\s*(.*))?$`).FindStringSubmatch(rest)
			if m == nil {
				return fail(rc, "malformed pure")
			}
			pf := &PureFn{Name: m[1], Result: strings.TrimSpace(m[3]), Pkg: pkg, Rec: kw == "rec"}
			for _, ps := range strings.Split(m[2], ",") {
				ps = strings.TrimSpace(ps)
				if ps == "" {
					continue
				}
				fs := strings.Fields(ps)
				if len(fs) != 2 {
					return fail(rc, "malformed pure parameter %q", ps)
				}
				pf.Params = append(pf.Params, QVar{fs[0], fs[1]})
			}
			if m[5] != "" {
				e, err := ParseExpr(m[5])
				if err != nil {
					return fail(rc, "%v", err)
				}
				pf.Body = e
			}
			cs.Pures[pkg.Path()+"."+pf.Name] = pf
			if _, ok := cs.Pures[pf.Name]; !ok {
				cs.Pures[pf.Name] = pf
			}
		case "axiom":
			j := strings.Index(rest, ":")
			e, err := ParseExpr(rest[j+1:])
			if err != nil {
				return fail(rc, "%v", err)
			}
			cs.Axioms = append(cs.Axioms, &Axiom{Name: strings.TrimSpace(rest[:j]), Expr: e, Pkg: pkg, Src: rest[j+1:]})
		case "lemma":
			// lemma name [C12,C13]: expr
			j := strings.Index(rest, ":")
			head := strings.TrimSpace(rest[:j])
			l := &Lemma{Pkg: pkg, Src: rest[j+1:], File: path, Line: rc.line}
			if k := strings.Index(head, "["); k >= 0 {
				for _, x := range strings.FieldsFunc(head[k+1:strings.Index(head, "]")], func(r rune) bool { return r == ',' || r == ' ' }) {
					l.Props = append(l.Props, x)
				}
				head = strings.TrimSpace(head[:k])
			}
			l.Name = head
			e, err := ParseExpr(rest[j+1:])
			if err != nil {
				return fail(rc, "%v", err)
			}
			l.Expr = e
			cs.Lemmas = append(cs.Lemmas, l)
		case "inventory":
			// inventory name [C10]: <call pattern> arg <k> <type substring> in <package path prefix> only <fn>, <fn>
			j := strings.Index(rest, ":")
			if j < 0 {
				return fail(rc, "inventory name [props]: ...")
			}
			head := strings.TrimSpace(rest[:j])
			iv := &Inventory{Src: strings.TrimSpace(rest[j+1:]), File: path, Line: rc.line}
			if k := strings.Index(head, "["); k >= 0 {
				iv.Props = strings.FieldsFunc(head[k+1:strings.Index(head, "]")], func(r rune) bool { return r == ',' || r == ' ' })
				head = strings.TrimSpace(head[:k])
			}
			iv.Name = head
			body := iv.Src
			a, b, c := strings.Index(body, " arg "), strings.Index(body, " in "), strings.Index(body, " only ")
			if a < 0 || b < a || c < b {
				return fail(rc, "inventory: expected `<call> arg <k> <type> in <pkg prefix> only <functions>`")
			}
			iv.Call = strings.TrimSpace(body[:a])
			af := strings.Fields(body[a+5 : b])
			if len(af) != 2 {
				return fail(rc, "inventory: arg <k> <type>")
			}
			fmt.Sscanf(af[0], "%d", &iv.Arg)
			iv.ArgType = af[1]
			iv.PkgPrefix = strings.TrimSpace(body[b+4 : c])
			for _, f := range strings.Split(body[c+6:], ",") {
				if f = strings.TrimSpace(f); f != "" {
					iv.Allowed = append(iv.Allowed, f)
				}
			}
			cs.Inventories = append(cs.Inventories, iv)
		case "invariant":
			// invariant TypeName: expr  (self = receiver)
			j := strings.Index(rest, ":")
			tn := strings.TrimSpace(rest[:j])
			c, err := mkClause(rc, rest[j+1:])
			if err != nil {
				return err
			}
			k := pkg.Path() + "." + tn
			curInv = cs.RepInvs[k]
			if curInv == nil {
				curInv = &RepInv{TypeName: tn, Pkg: pkg}
				cs.RepInvs[k] = curInv
			}
			curInv.Clauses = append(curInv.Clauses, c)
		default:
			return fail(rc, "unknown clause %q", rc.text)
		}
	}
	return nil
}

func splitTop(s string) []string {
	var out []string
	d := 0
	last := 0
	for i, c := range s {
		switch c {
		case '(', '[':
			d++
		case ')', ']':
			d--
		case ',':
			if d == 0 {
				out = append(out, strings.TrimSpace(s[last:i]))
				last = i + 1
			}
		}
	}
	out = append(out, strings.TrimSpace(s[last:]))
	return out
}

func (c *Contract) hasProp(id string) bool {
	for _, p := range c.Props {
		if p == id {
			return true
		}
	}
	return false
}
