package main

import (
	"fmt"
	"go/types"
	"strings"
)

// Assumed contracts on github.com/awslabs/operatorpkg/status (ConditionSet / Condition) and on
// the in-repo StatusConditions() accessors that build a ConditionSet over an API object.
//
//	obj.StatusConditions(...)         -> a set bound to obj (its Status.Conditions slice)
//	set.Get(t)                        -> pointer to a fresh copy of the first condition of type t, or nil
//	(*Condition).IsTrue/IsFalse/...   -> nil-safe status tests (as in the library source)
//	set.IsTrue(t...)                  -> every listed type has status True
//	set.SetTrue/SetFalse/SetUnknown/Clear/Set -> the object's condition list is replaced by an arbitrary one
//	                                     in which (for Set*) type t has the requested status

type condSetInfo struct {
	obj Term
	typ types.Type // pointer to API object struct
}

type condHandle struct {
	info condSetInfo
	t    Term
}

const statusPkg = "github.com/awslabs/operatorpkg/status."

func isStatusConditionsAccessor(name string) bool {
	return strings.HasPrefix(name, modPath+"/") && strings.HasSuffix(name, ").StatusConditions")
}

// condSliceField finds obj.Status.Conditions.
func condSliceOf(e *Engine, st *State, info condSetInfo) (slice Term, elemT types.Type, statusLoc Term, statusT types.Type, fieldIdx int, ok bool) {
	pt, isPtr := info.typ.Underlying().(*types.Pointer)
	if !isPtr {
		return
	}
	ot := pt.Elem()
	ost, isStruct := ot.Underlying().(*types.Struct)
	if !isStruct {
		return
	}
	for i := 0; i < ost.NumFields(); i++ {
		if ost.Field(i).Name() != "Status" {
			continue
		}
		statusT = ost.Field(i).Type()
		sst, isS := statusT.Underlying().(*types.Struct)
		if !isS {
			return
		}
		statusLoc = fmt.Sprintf("(fld %s %d)", info.obj, i)
		for k := 0; k < sst.NumFields(); k++ {
			if sst.Field(k).Name() == "Conditions" {
				sl, isSl := sst.Field(k).Type().Underlying().(*types.Slice)
				if !isSl {
					return
				}
				return e.loadField(st, statusLoc, statusT, k), sl.Elem(), statusLoc, statusT, k, true
			}
		}
	}
	return
}

func condFieldIndex(condT types.Type, name string) int {
	st := condT.Underlying().(*types.Struct)
	for i := 0; i < st.NumFields(); i++ {
		if st.Field(i).Name() == name {
			return i
		}
	}
	return -1
}

func (cx *callCtx) condInfo(i int) (condSetInfo, bool) {
	e := cx.fr.eng
	info, ok := e.condSets[cx.args[i]]
	return info, ok
}

func init() {
	stubs[statusPkg+"(*Condition).IsTrue"] = func(cx *callCtx) []Term { return []Term{condStatusIs(cx, "True", false)} }
	stubs[statusPkg+"(*Condition).IsFalse"] = func(cx *callCtx) []Term { return []Term{condStatusIs(cx, "False", false)} }
	stubs[statusPkg+"(*Condition).IsUnknown"] = func(cx *callCtx) []Term { return []Term{condStatusIs(cx, "Unknown", true)} }
	stubs[statusPkg+"(*Condition).GetStatus"] = func(cx *callCtx) []Term {
		e := cx.fr.eng
		ct := cx.argTs[0].Underlying().(*types.Pointer).Elem()
		return []Term{ite(eq(cx.args[0], "nil"), e.vc.strLit("Unknown"), e.loadField(cx.st, cx.args[0], ct, condFieldIndex(ct, "Status")))}
	}
	stubs[statusPkg+"(ConditionSet).Get"] = func(cx *callCtx) []Term {
		info, ok := cx.condInfo(0)
		if !ok {
			return cx.fr.havocCall(cx, "condition set over an unknown object")
		}
		r, _ := condGet(cx, info, cx.args[1])
		return []Term{r}
	}
	stubs[statusPkg+"(ConditionSet).Root"] = func(cx *callCtx) []Term {
		return cx.freshResults("rootcond")
	}
	stubs[statusPkg+"(ConditionSet).IsTrue"] = func(cx *callCtx) []Term {
		info, ok := cx.condInfo(0)
		n := cx.staticSliceLen(1)
		if !ok || n < 0 || n > 6 {
			return cx.freshResults("allTrue")
		}
		e := cx.fr.eng
		box := e.get(cx.st, e.boxComp(types.Typ[types.String]))
		var cs []Term
		for j := 0; j < n; j++ {
			t := sel(box, fmt.Sprintf("(sidx %s %d)", cx.args[1], j))
			r, ct := condGet(cx, info, t)
			cs = append(cs, and(not(eq(r, "nil")), eq(e.loadField(cx.st, r, ct, condFieldIndex(ct, "Status")), e.vc.strLit("True"))))
		}
		return []Term{and(cs...)}
	}
	set := func(status string) stubFn {
		return func(cx *callCtx) []Term {
			info, ok := cx.condInfo(0)
			if !ok {
				return cx.fr.havocCall(cx, "condition set over an unknown object")
			}
			condSetStatus(cx, info, cx.args[1], status)
			return cx.freshResults("modified")
		}
	}
	stubs[statusPkg+"(ConditionSet).SetTrue"] = set("True")
	stubs[statusPkg+"(ConditionSet).SetTrueWithReason"] = set("True")
	stubs[statusPkg+"(ConditionSet).SetFalse"] = set("False")
	stubs[statusPkg+"(ConditionSet).SetUnknown"] = set("Unknown")
	stubs[statusPkg+"(ConditionSet).SetUnknownWithReason"] = set("Unknown")
	stubs[statusPkg+"(ConditionSet).Clear"] = func(cx *callCtx) []Term {
		info, ok := cx.condInfo(0)
		if !ok {
			return cx.fr.havocCall(cx, "condition set over an unknown object")
		}
		condSetStatus(cx, info, cx.args[1], "")
		return cx.freshResults("clearerr")
	}
	stubs[statusPkg+"(ConditionSet).Set"] = func(cx *callCtx) []Term {
		info, ok := cx.condInfo(0)
		if !ok {
			return cx.fr.havocCall(cx, "condition set over an unknown object")
		}
		condSetStatus(cx, info, "", "*")
		return cx.freshResults("modified")
	}
	stubs[statusPkg+"WithClock"] = func(cx *callCtx) []Term { return cx.freshResults("opt") }
}

func condStatusIs(cx *callCtx, status string, nilResult bool) Term {
	e := cx.fr.eng
	if h, ok := e.condHandles[cx.args[0]]; ok {
		// quantified context: Get(t) was a symbolic handle; state the test over the object's list
		conds, ct, _, _, _, ok := condSliceOf(e, cx.st, h.info)
		if !ok {
			cx.fr.unsup("condition handle over an object without Status.Conditions")
		}
		ti, si := condFieldIndex(ct, "Type"), condFieldIndex(ct, "Status")
		typeAt := func(i Term) Term { return e.loadField(cx.st, fmt.Sprintf("(sidx %s %s)", conds, i), ct, ti) }
		statAt := func(i Term) Term { return e.loadField(cx.st, fmt.Sprintf("(sidx %s %s)", conds, i), ct, si) }
		first := fmt.Sprintf("(and (<= 0 cj) (< cj (s_len %s)) (= %s %s) (forall ((ci Int)) (! (=> (and (<= 0 ci) (< ci cj)) (not (= %s %s))) :pattern ((sidx %s ci)))))", conds, typeAt("cj"), h.t, typeAt("ci"), h.t, conds)
		is := fmt.Sprintf("(exists ((cj Int)) (! (and %s (= %s %s)) :pattern ((sidx %s cj))))", first, statAt("cj"), e.vc.strLit(status), conds)
		if nilResult {
			none := fmt.Sprintf("(forall ((ci Int)) (! (=> (and (<= 0 ci) (< ci (s_len %s))) (not (= %s %s))) :pattern ((sidx %s ci))))", conds, typeAt("ci"), h.t, conds)
			return or(none, is)
		}
		return is
	}
	ct := cx.argTs[0].Underlying().(*types.Pointer).Elem()
	nr := "false"
	if nilResult {
		nr = "true"
	}
	return ite(eq(cx.args[0], "nil"), nr, eq(e.loadField(cx.st, cx.args[0], ct, condFieldIndex(ct, "Status")), e.vc.strLit(status)))
}

// condGet: pointer to a fresh copy of the first condition of type t in the object's list, or nil.
func condGet(cx *callCtx, info condSetInfo, t Term) (Term, types.Type) {
	e := cx.fr.eng
	vc := e.vc
	st := cx.st
	conds, ct, _, _, _, ok := condSliceOf(e, st, info)
	if !ok {
		cx.fr.unsup("StatusConditions on %s: no Status.Conditions", info.typ)
	}
	ti := condFieldIndex(ct, "Type")
	if vc.noname > 0 {
		// quantified / pure context: a symbolic handle, interpreted by the status tests
		vc.decl("fn:condptr", "(declare-fun condptr (Loc Str) Loc)")
		h := fmt.Sprintf("(condptr %s %s)", info.obj, t)
		if e.condHandles == nil {
			e.condHandles = map[string]condHandle{}
		}
		_, ct, _, _, _, ok := condSliceOf(e, cx.st, info)
		if !ok {
			cx.fr.unsup("StatusConditions on %s: no Status.Conditions", info.typ)
		}
		e.condHandles[h] = condHandle{info: info, t: t}
		return h, ct
	}
	found := vc.freshAlways("cond.found", "Bool")
	j := vc.freshAlways("cond.j", "Int")
	typeAt := func(i Term) Term { return e.loadField(st, fmt.Sprintf("(sidx %s %s)", conds, i), ct, ti) }
	vc.assumeIf(st.pc, fmt.Sprintf("(=> %s (and (<= 0 %s) (< %s (s_len %s)) (= %s %s) (forall ((i Int)) (! (=> (and (<= 0 i) (< i %s)) (not (= %s %s))) :pattern ((sidx %s i))))))", found, j, j, conds, typeAt(j), t, j, typeAt("i"), t, conds))
	vc.assumeIf(st.pc, fmt.Sprintf("(=> (not %s) (forall ((i Int)) (! (=> (and (<= 0 i) (< i (s_len %s))) (not (= %s %s))) :pattern ((sidx %s i)))))", found, conds, typeAt("i"), t, conds))
	// Get returns a pointer to a copy of the element; callers only read it, so the model lets it denote
	// the element itself (no heap write; listed assumption: the returned condition is not mutated).
	vc.assumes["ConditionSet.Get: the returned *Condition is only read (modelled as a pointer to the list element)"] = true
	return vc.name("cond", "Loc", ite(found, fmt.Sprintf("(sidx %s %s)", conds, j), "nil")), ct
}

// condSetStatus: the object's condition list becomes an arbitrary list in which type t has the given
// status ("" = absent, "*" = unknown change). Other types keep their status unless they are the root
// condition (recomputed by the library).
func condSetStatus(cx *callCtx, info condSetInfo, t Term, status string) {
	e := cx.fr.eng
	vc := e.vc
	st := cx.st
	_, ct, statusLoc, statusT, k, ok := condSliceOf(e, st, info)
	if !ok {
		cx.fr.unsup("StatusConditions on %s: no Status.Conditions", info.typ)
	}
	arr := e.newObj(st)
	n := vc.fresh("conds.len", "Int")
	vc.assume(fmt.Sprintf("(>= %s 0)", n))
	ns := fmt.Sprintf("(mkslice %s 0 %s %s)", arr, n, n)
	e.storeField(st, statusLoc, statusT, k, ns)
	// element fields of the fresh array are unconstrained, except the one that was set
	if status == "*" {
		return
	}
	ti, si := condFieldIndex(ct, "Type"), condFieldIndex(ct, "Status")
	typeAt := func(i Term) Term { return e.loadField(st, fmt.Sprintf("(sidx %s %s)", ns, i), ct, ti) }
	if status == "" {
		vc.assumeIf(st.pc, fmt.Sprintf("(forall ((i Int)) (! (=> (and (<= 0 i) (< i %s)) (not (= %s %s))) :pattern ((sidx %s i))))", n, typeAt("i"), t, ns))
		return
	}
	j := vc.fresh("cond.j", "Int")
	vc.assumeIf(st.pc, fmt.Sprintf("(and (<= 0 %s) (< %s %s) (= %s %s) (= %s %s) (forall ((i Int)) (! (=> (and (<= 0 i) (< i %s) (not (= i %s))) (not (= %s %s))) :pattern ((sidx %s i)))))",
		j, j, n, typeAt(j), t, e.loadField(st, fmt.Sprintf("(sidx %s %s)", ns, j), ct, si), vc.strLit(status), n, j, typeAt("i"), t, ns))
}
