package main

import (
	"fmt"
	"go/types"
	"strings"

	"golang.org/x/tools/go/ssa"
)

// C19 prototype stubs (proposed additions to the stub library):
//
//   sort.Slice(s, less)   in place: the elements of s are a permutation of the old ones, every other
//                         cell is unchanged, and no pair is out of order: forall a < b: !less(b, a),
//                         where less is the comparator evaluated on the FINAL contents. The comparator
//                         is taken from its contract (closed-form ensures clauses, i.e. those that do not
//                         mention callee locals or @-patterns) or, without a contract, by inlining a
//                         loop-free body. Its preconditions become obligations of the caller for every
//                         index pair, in the state before and in the state after the call.
//                         (Assumption listed: the comparator is a strict weak order and its
//                         preconditions are invariant under permutation of s; the first is proved
//                         separately by lemmas over the comparator's spec.)
//   lo.Slice(s, a, b)     a >= b: empty fresh slice; else s[clamp(a):clamp(b)] sharing the backing array.

func (e *Engine) closureContract(fn *ssa.Function) *Contract {
	if con := e.cs.Fns[canonName(fn)]; con != nil {
		return con
	}
	for key, con := range e.cs.Fns {
		if !strings.Contains(key, " closure@") {
			continue
		}
		for _, f := range pickFns(e.prog, key) {
			if f == fn {
				return con
			}
		}
	}
	return nil
}

// evalClosureClause evaluates a contract clause of closure clo over bound index variables in state st.
// ok=false when the clause is not closed (mentions callee locals, @-patterns, ...).
func (cx *callCtx) evalClosureClause(clo *Closure, con *Contract, c *Clause, st *State, old *State, params []Term, result Term) (t Term, ok bool) {
	e := cx.fr.eng
	vc := e.vc
	defer func() {
		if r := recover(); r != nil {
			switch r.(type) {
			case specErr, unsupported:
				t, ok = "", false
			default:
				panic(r)
			}
		}
	}()
	vc.noname++
	defer func() { vc.noname-- }()
	env := &specEnv{eng: e, fr: nil, fn: clo.fn, st: st, old: old, vars: map[string]binding{}, pkg: con.Pkg, con: con}
	for i, p := range clo.fn.Params {
		env.vars[p.Name()] = binding{params[i], p.Type()}
	}
	for i, fv := range clo.fn.FreeVars {
		if i < len(clo.bindings) {
			env.vars["&"+fv.Name()] = binding{clo.bindings[i], fv.Type()}
		}
	}
	if result != "" {
		env.results = []Term{result}
	}
	return env.evalBool(c.Expr), true
}

func init() {
	stubs["sort.Slice"] = func(cx *callCtx) []Term {
		fr := cx.fr
		e := fr.eng
		vc := e.vc
		st := cx.st
		giveUp := func(why string) []Term {
			vc.warn = append(vc.warn, "sort.Slice: "+why+"; call havocked")
			return fr.havocCall(cx, "sort.Slice: "+why)
		}
		if len(cx.argVs) < 2 {
			return giveUp("called from a specification")
		}
		mi, ok := cx.argVs[0].(*ssa.MakeInterface)
		if !ok {
			return giveUp("slice argument is not a direct conversion to any")
		}
		sl, ok := mi.X.Type().Underlying().(*types.Slice)
		if !ok || isStructLike(sl.Elem()) {
			return giveUp("unsupported slice type " + mi.X.Type().String())
		}
		clo := fr.closureOf(cx.argVs[1])
		if clo == nil || len(clo.fn.Blocks) == 0 {
			return giveUp("comparator is not a known closure")
		}
		s := fr.val(mi.X)
		n := fmt.Sprintf("(s_len %s)", s)
		id := e.qctr()
		c := e.boxComp(sl.Elem())
		pre := st.clone()
		old := e.get(st, c)
		nw := vc.fresh("sorted$"+c, e.compSort[c])
		perm := sym(fmt.Sprintf("sort.perm!%d", id))
		inv := sym(fmt.Sprintf("sort.inv!%d", id))
		less := sym(fmt.Sprintf("sort.less!%d", id))
		vc.decls = append(vc.decls,
			fmt.Sprintf("(declare-fun %s (Int) Int)", perm),
			fmt.Sprintf("(declare-fun %s (Int) Int)", inv),
			fmt.Sprintf("(declare-fun %s (Int Int) Bool)", less))
		inRange := func(v string) Term { return fmt.Sprintf("(and (<= 0 %s) (< %s %s))", v, v, n) }
		// frame: only the elements of s change
		inS := fmt.Sprintf("(and (is_idx l) (= (idx_base l) (s_arr %s)) (<= (s_off %s) (idx_i l)) (< (idx_i l) (+ (s_off %s) %s)))", s, s, s, n)
		vc.assumeIf(st.pc, fmt.Sprintf("(forall ((l Loc)) (! (=> (not %s) (= (select %s l) (select %s l))) :pattern ((select %s l))))", inS, nw, old, nw))
		// permutation
		vc.assumeIf(st.pc, fmt.Sprintf("(forall ((k Int)) (! (=> %s (and %s (= (select %s (sidx %s k)) (select %s (sidx %s (%s k)))) (= (%s (%s k)) k))) :pattern ((sidx %s k))))",
			inRange("k"), inRange(fmt.Sprintf("(%s k)", perm)), nw, s, old, s, perm, inv, perm, s))
		vc.assumeIf(st.pc, fmt.Sprintf("(forall ((j Int)) (! (=> %s (and %s (= (%s (%s j)) j) (= (select %s (sidx %s (%s j))) (select %s (sidx %s j))))) :pattern ((sidx %s j))))",
			inRange("j"), inRange(fmt.Sprintf("(%s j)", inv)), perm, inv, nw, s, inv, old, s, s))
		st.heap[c] = nw
		// comparator
		con := e.closureContract(clo.fn)
		qa, qb := sym(fmt.Sprintf("q$sa$%d", id)), sym(fmt.Sprintf("q$sb$%d", id))
		guard := and(inRange(qa), inRange(qb))
		pat := fmt.Sprintf(":pattern ((sidx %s %s) (sidx %s %s))", s, qa, s, qb)
		if con != nil {
			e.vc.usedCon[canonName(clo.fn)] = true
			ord := e.callOrd(fr, "sort.Slice")
			for k, rc := range con.Requires {
				for _, ph := range []struct {
					tag string
					s   *State
				}{{"before", pre}, {"after", st}} {
					g, ok := cx.evalClosureClause(clo, con, rc, ph.s, ph.s, []Term{qa, qb}, "")
					if !ok {
						return giveUp("comparator precondition is not closed: " + rc.Src)
					}
					vc.oblige(fr.oblName(fmt.Sprintf("call.sort.Slice.%d.less-pre.%s.%s", ord, clauseID(rc, k), ph.tag)), "call-pre", st.pc,
						fmt.Sprintf("(forall ((%s Int) (%s Int)) (! (=> %s %s) %s))", qa, qb, guard, g, pat), "comparator precondition for every index pair ("+ph.tag+" the sort): "+rc.Src)
				}
			}
			for _, rc := range con.Requires {
				g, _ := cx.evalClosureClause(clo, con, rc, st, st, []Term{qa, qb}, "")
				vc.assumeIf(st.pc, fmt.Sprintf("(forall ((%s Int) (%s Int)) (! (=> %s %s) %s))", qa, qb, guard, g, pat))
			}
			used := 0
			for _, ec := range con.Ensures {
				g, ok := cx.evalClosureClause(clo, con, ec, st, st, []Term{qa, qb}, fmt.Sprintf("(%s %s %s)", less, qa, qb))
				if !ok {
					continue // witness-style clause (mentions callee locals): not usable here
				}
				used++
				vc.assumeIf(st.pc, fmt.Sprintf("(forall ((%s Int) (%s Int)) (! (=> %s %s) %s :pattern ((%s %s %s))))", qa, qb, guard, g, pat, less, qa, qb))
			}
			if used == 0 {
				vc.warn = append(vc.warn, "sort.Slice: comparator contract has no closed-form ensures clause; order facts are vacuous")
			}
		} else {
			if hasLoops(clo.fn) {
				return giveUp("comparator has loops and no contract")
			}
			sub := *cx
			sub.st = st
			body, ok := sub.applyClosure(1, []Term{qa, qb})
			if !ok {
				return giveUp("comparator not expressible as a term")
			}
			vc.assumeIf(st.pc, fmt.Sprintf("(forall ((%s Int) (%s Int)) (! (=> %s (= (%s %s %s) %s)) %s :pattern ((%s %s %s))))", qa, qb, guard, less, qa, qb, body, pat, less, qa, qb))
		}
		vc.assumes["sort.Slice: the comparator is a strict weak order and its preconditions are invariant under permutation of the slice"] = true
		// sortedness on the final contents
		vc.assumeIf(st.pc, fmt.Sprintf("(forall ((%s Int) (%s Int)) (! (=> (and (<= 0 %s) (< %s %s) (< %s %s)) (not (%s %s %s))) %s :pattern ((%s %s %s))))",
			qa, qb, qa, qa, qb, qb, n, less, qb, qa, pat, less, qb, qa))
		return nil
	}

	stubs[loPkg+"Slice"] = func(cx *callCtx) []Term {
		e := cx.fr.eng
		vc := e.vc
		s, a, b := cx.args[0], cx.args[1], cx.args[2]
		n := fmt.Sprintf("(s_len %s)", s)
		clamp := func(x Term) Term { return fmt.Sprintf("(ite (< %s 0) 0 (ite (> %s %s) %s %s))", x, x, n, n, x) }
		lo := vc.name("loslice.lo", "Int", clamp(a))
		hi := vc.name("loslice.hi", "Int", clamp(b))
		empty := e.newObj(cx.st)
		res := fmt.Sprintf("(ite (>= %s %s) (mkslice %s 0 0 0) (mkslice (s_arr %s) (+ (s_off %s) %s) (- %s %s) (- (s_cap %s) %s)))", a, b, empty, s, s, lo, hi, lo, s, lo)
		return []Term{vc.name("loslice", "Slice", res)}
	}
}
