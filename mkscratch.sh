#!/bin/bash
# mkscratch.sh <name>: stand-alone scratch copy of /repo's working tree under /tmp/wt_<name> with a fresh git
# history and without the verifier's contract files (nothing of /verif or of the contract history is reachable)
set -e
d=/tmp/wt_$1
rm -rf $d && mkdir -p $d
rsync -a --exclude .git --exclude 'zz_contracts*_verif.go' /repo/ $d/
cd $d && git init -q && git add -A >/dev/null && git -c user.name=builder -c user.email=b@example.invalid commit -qm "scratch base" >/dev/null
echo $d
