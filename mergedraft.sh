#!/bin/bash
# mergedraft.sh <draft dir name>: copy the contract files of a helper's draft into /repo (pending/ and proposed/ excluded)
d=/verif/drafts/$1
(cd $d && find pkg -type f -name 'zz_contracts*_verif.go' | while read f; do mkdir -p /repo/$(dirname $f); cp $f /repo/$f; echo "merged $f"; done)
