#!/bin/bash
# seedall.sh [name filter]: replay every seeded change (seeded/*/patch.diff) against its property's check on throw-away copies
# and print one line per seed: CAUGHT <name> <first violated obligation> | MISSED <name> | OPEN-MISS <name> (meta.json lists no
# detecting obligation: a recorded miss the technique does not reach, see DESIGN.md section 9)
cd /verif
for d in seeded/*${1}*/; do
  n=$(basename $d); p=$(python3 -c "import json;print(json.load(open('$d/meta.json'))['property'])")
  out=$(./seedcheck.sh /verif/$d/patch.diff $p 2>&1)
  v=$(echo "$out" | grep -m1 '^VIOLATION' | sed 's/.*replay\///' | cut -c1-150)
  if [ -n "$v" ]; then echo "CAUGHT $n $v"; elif python3 -c "import json,sys;sys.exit(0 if json.load(open('$d/meta.json')).get('detected_by')==[] else 1)"; then echo "OPEN-MISS $n (recorded in meta.json)"; else echo "MISSED $n $(echo "$out" | tail -1 | cut -c1-120)"; fi
done
